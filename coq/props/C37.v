(* C37 — In-memory mode behaves like the on-disk database and touches no files.
   Statements only; proofs in B/SysModeProofs.v.  Model: B/SysMode.v (the shared system model
   `Sys` plus the InMemory flag: rejection of values above the limit, value placement, the
   persistence events of every label). *)
From Verif Require Import Bytes Keys Consts Spec Lsm Compact Iter Sys SysMode.
From Verif Require SysModeProofs.
Import SysModeProofs.
Open Scope N_scope.

(* Two runs of the same call sequence — one on disk (any value threshold thrD), one in memory
   (limit thrI) — each accepted by the model of its mode, with every written value below the
   in-memory limit: every observation (Get / iterator items / Set, Delete and Commit results /
   MaxVersion / tree dump) is the same and the final observable states are equal.
   `same_call`: equal inputs, observed parts free; table ids and compaction picks are the
   implementation's choices and count as inputs (where the real pickers choose differently in
   the two modes, equality of reads is the subject of C12, not of this theorem). *)
Theorem C37_same_obs : forall thrD thrI opsD opsI mD mI,
  obs mD = obs mI -> pend_within thrI (obs mI) = true ->
  Forall2 (same_call (s_managed (obs mD))) opsD opsI -> within thrI opsD = true ->
  fst (mexec (cD thrD) mD opsD 0) = None -> fst (mexec (cI thrI) mI opsI 0) = None ->
  Forall2 same_obs opsD opsI /\
  obs (snd (mexec (cD thrD) mD opsD 0)) = obs (snd (mexec (cI thrI) mI opsI 0)).
Proof. exact same_obs_two_runs. Qed.
Print Assumptions C37_same_obs.

(* hypotheses are satisfiable: freshly opened databases, a write of 40 bytes (value log on
   disk, inline in memory) read back in both modes *)
Example C37_same_obs_ex :
  let v := repeat 7 40 in
  let ops := [Base (Begin 0 true 0); Base (Modify 0 (mkE [1] 0 0 0 0 v) 0); Base (Commit 0 1 0);
              Base (Begin 1 false 1); Base (Get 1 [1] (GFound (mkE [1] 1 0 0 0 v)))] in
  let mD := init_msys (cD 32) false true 1 4 1 in
  let mI := init_msys (cI 1024) false true 1 4 1 in
  obs mD = obs mI /\ pend_within 1024 (obs mI) = true /\ within 1024 ops = true /\
  fst (mexec (cD 32) mD ops 0) = None /\ fst (mexec (cI 1024) mI ops 0) = None /\
  m_ev (snd (mexec (cD 32) mD ops 0)) = open_events ++ [Write (FVlog 1); Write (FWal 1)].
Proof. vm_compute. repeat split; reflexivity. Qed.

(* the same label list replayed in both modes: the models stop at the same label with the
   same code, or both accept and reach the same observable state (no directory-listing
   labels: these are checked in disk mode only) *)
Theorem C37_same_obs_one_run : forall thrD thrI ops mD mI i,
  obs mD = obs mI -> pend_within thrI (obs mI) = true -> within thrI ops = true -> no_files ops = true ->
  fst (mexec (cI thrI) mI ops i) = fst (mexec (cD thrD) mD ops i) /\
  obs (snd (mexec (cI thrI) mI ops i)) = obs (snd (mexec (cD thrD) mD ops i)).
Proof. exact same_obs_one_run. Qed.
Print Assumptions C37_same_obs_one_run.

(* the guard is needed: a value of exactly the limit is accepted by Txn.modify in memory and
   panics in writeToLSM (finding F17), a longer one is rejected; both are accepted on disk *)
Theorem C37_limit_is_tight :
  let v := repeat 7 8 in
  let ops r := [Base (Begin 0 true 0); Base (Modify 0 (mkE [1] 0 0 0 0 v) r); Base (Commit 0 1 0)] in
  fst (mexec (cD 4) (init_msys (cD 4) false true 1 4 1) (ops 0) 0) = None /\
  fst (mexec (cI 8) (init_msys (cI 8) false true 1 4 1) (ops 0) 0) = Some (2, 999) /\
  fst (mexec (cI 7) (init_msys (cI 7) false true 1 4 1) (ops c_errTooBig) 0) = None /\
  fst (mexec (cI 7) (init_msys (cI 7) false true 1 4 1) (ops 0) 0) = Some (1, 1).
Proof. exact limit_is_tight. Qed.
Print Assumptions C37_limit_is_tight.

(* the in-memory model emits no persistence event, whatever the history *)
Theorem C37_no_events : forall thr ops m i,
  m_ev m = [] -> m_ev (snd (mexec (cI thr) m ops i)) = [].
Proof. exact inmem_no_events. Qed.
Print Assumptions C37_no_events.
Example C37_no_events_ex : m_ev (init_msys (cI 1024) false true 1 4 1) = [].
Proof. reflexivity. Qed.
