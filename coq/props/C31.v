(* C31 — A merge operator returns the fold of all added values.
   Model: coq/B/MergeOp.v.  iterateAndMerge (Get and the merge compaction's read) is modelled on the
   items the key iterator yields; the theorem is proved on the per-key version list under every
   interleaving of
     KAdd        Add (one update transaction, merge bit, a new larger version),
     KMergeRead  compact(): iterateAndMerge, the write-back is queued (batchSetAsync),
     KMergeWrite a queued write-back is applied: an entry WITHOUT the merge bit and WITH
                 bitDiscardEarlierVersions at the SAME version as the newest operand it read,
     KLsm        an LSM compaction: subcompact's filter (Compact.filter_step, the function the C12
                 theorems are about) over ANY subset of the key's versions, with any discard
                 timestamp, NumVersionsToKeep, overlap flag and time, in any filter state a preceding
                 key can leave behind,
     KResurface  an operand shadowed by a dropped rewrite becomes visible again,
   for every ASSOCIATIVE merge function f (for a non-associative f "the fold" depends on when the
   merge compaction ran, by design: iterateAndMerge nests to the right, f(v1, f(v2, v3))).

   Preconditions (kop_ok): commit timestamps grow; no DropPrefix covers the key; and PRECEDENCE:
   of the two copies of key@version that exist after a write-back, the rewrite is the one reads and
   compactions see (it was written later, so it sits in a newer memtable / L0 table).  Sys does not
   assume this — it carries all sources — and the correspondence (corr/CorrC31.v) checks on every run
   that the key iterator's view in Sys (key_items) equals the abstract list after every label.
   Finding F8 (replaceTables sorts level 0 by smallest key) breaks precedence after an L0->L0
   compaction: the harness replays a deterministic witness through the merge operator
   (c31WitnessF8), C31_precedence_flip_ex shows the same on the abstract list. *)
From Coq Require Import List NArith Bool.
From Verif Require Import Bytes Keys Consts Spec Lsm Compact Iter Sys MergeOp.
From Verif Require MergeOpProofs.
Import ListNotations.
Open Scope N_scope.

(* Get = the fold of all added values in Add order; ErrKeyNotFound (None) before the first Add *)
Theorem C31_fold : forall (f : bytes -> bytes -> bytes),
  (forall a b c, f (f a b) c = f a (f b c)) ->
  forall (key : bytes) (os : list kop) (now : N),
  kops_ok f key k_init os ->
  mget f now (k_list (krun f key k_init os))
  = match MergeOpProofs.adds_of os with
    | [] => None
    | v1 :: vs => Some (fold_left f vs v1)
    end.
Proof. exact MergeOpProofs.fold_thm_labels. Qed.
Print Assumptions C31_fold.

(* the same against the ghost list of adds the machine keeps (version, value; newest first) *)
Theorem C31_fold_state : forall (f : bytes -> bytes -> bytes),
  (forall a b c, f (f a b) c = f a (f b c)) ->
  forall (key : bytes) (os : list kop) (now : N),
  kops_ok f key k_init os ->
  let s := krun f key k_init os in mget f now (k_list s) = fold_of_adds f (k_adds s).
Proof. exact MergeOpProofs.fold_thm. Qed.
Print Assumptions C31_fold_state.

(* KLsm with every version selected, from the initial filter state, IS Compact.compact_filter *)
Theorem C31_lsm_is_compact_filter : forall p L,
  lsm_run p cs_init L (repeat true (length L)) = compact_filter p L.
Proof. intros p L. exact (MergeOpProofs.lsm_run_all p L cs_init). Qed.
Print Assumptions C31_lsm_is_compact_filter.

(* connection to the system model: Get on Sys is mget over what the key iterator
   (Iter.iterate with AllVersions + prefix-is-key over Lsm.merged) yields at the newest read
   timestamp; the correspondence checks key_items s key = k_list of the abstract run every step *)
Theorem C31_sys_get_reads_view : forall f s key,
  sys_mget f s key = mget f (s_now s) (key_items s key).
Proof. reflexivity. Qed.
Print Assumptions C31_sys_get_reads_view.

(* ---- the hypotheses are satisfiable ---- *)
Definition fapp : bytes -> bytes -> bytes := fun a b => a ++ b.
Example C31_fapp_assoc : forall a b c, fapp (fapp a b) c = fapp a (fapp b c).
Proof. intros. unfold fapp. symmetry. apply app_assoc. Qed.

Definition ex_p : cparams := mkCP 10 1 false [] 0.
Definition ex_ops : list kop :=
  [KAdd 1 [97]; KAdd 2 [98]; KMergeRead 0; KAdd 3 [99]; KMergeWrite 0;
   KLsm ex_p cs_init [true; true; true]; KAdd 4 [100]; KMergeRead 0; KMergeWrite 0;
   KLsm ex_p cs_init [false; true]].   (* the compaction dropped operand 1 below rewrite 2 *)

Example C31_ops_ok_ex : kops_ok fapp [109] k_init ex_ops.
Proof. apply MergeOpProofs.kops_okb_sound. vm_compute. reflexivity. Qed.

Example C31_run_ex :
  let s := krun fapp [109] k_init ex_ops in
  map (fun e => (e_ver e, e_meta e, e_val e)) (k_list s) = [(4, 4, [97; 98; 99; 100]); (3, 8, [99]); (2, 4, [97; 98])]
  /\ mget fapp 0 (k_list s) = Some [97; 98; 99; 100].
Proof. vm_compute. split; reflexivity. Qed.

(* precedence is necessary: if the operand of version 2 wins over its rewrite after the LSM
   compaction dropped the older operand (what F8's level-0 sort does), Get loses a value *)
Example C31_precedence_flip_ex :
  let os := [KAdd 1 [97]; KAdd 2 [98]; KMergeRead 0; KMergeWrite 0; KLsm ex_p cs_init [true; true];
             KResurface 2 [98]] in
  mget fapp 0 (k_list (krun fapp [109] k_init os)) = Some [98]
  /\ ~ kops_ok fapp [109] k_init os.
Proof.
  split; [vm_compute; reflexivity|].
  change (~ (kop_ok [109] k_init (KAdd 1 [97]) /\ kops_ok fapp [109] (kstep fapp [109] k_init (KAdd 1 [97]))
              [KAdd 2 [98]; KMergeRead 0; KMergeWrite 0; KLsm ex_p cs_init [true; true]; KResurface 2 [98]])).
  intros [_ H]. revert H.
  set (s5 := krun fapp [109] k_init [KAdd 1 [97]; KAdd 2 [98]; KMergeRead 0; KMergeWrite 0; KLsm ex_p cs_init [true; true]]).
  assert (E : k_list s5 = [mkE [109] 2 c_bitDiscardEarlierVersions 0 0 [97; 98]]) by (vm_compute; reflexivity).
  intros (_ & _ & _ & _ & (_ & H) & _). apply (H (mkE [109] 2 c_bitDiscardEarlierVersions 0 0 [97; 98])).
  - change (In (mkE [109] 2 c_bitDiscardEarlierVersions 0 0 [97; 98]) (k_list s5)). rewrite E. left. reflexivity.
  - reflexivity.
  - reflexivity.
Qed.
