(* C17 — MANIFEST replay reconstructs the table map exactly; and the MANIFEST part of C09
   (torn tail).  Theorem statements only; every proof is `exact <lemma>` from
   A/ManifestPbProofs.v, A/ManifestProofs.v, A/ManifestRunProofs.v, A/ManifestWitness.v.

   Vocabulary (A/Manifest.v, the model the correspondence evaluates against /repo/manifest.go):
     change / pb_changeset / pb_dec_changeset   ManifestChange(Set) and its protobuf wire bytes
     mf_header, mf_record, mf_image ext css      "Bdgr" ‖ ext ‖ version, len ‖ crc32c ‖ payload,
                                                 the file holding the change sets css
     apply_changeset / apply_sets                applyChangeSet, change sets in sequence
     replay ext file                             ReplayManifestFile: RErr e | ROk manifest truncOffset
     mf_create / add_changes / reopen / run      helpOpenOrCreateManifestFile, addChanges (rewrite or
                                                 append), close + open again; `SAdd cs ord`: ord resolves
                                                 the map iteration order of asChanges (ANY list)
     run_ok allow cfg st steps                   all arguments are values of their Go types, every file
                                                 stays < 4 GiB, and (allow = false) no call is rejected
     accepted steps outs                         the change sets addChanges returned nil for
     cfg_atomic_apply                            repair flag for finding F6 (false = the pinned tree) *)
From Verif Require Import Bytes Uvarint Consts Crc32cM Manifest.
From Verif Require ManifestMapProofs ManifestPbProofs ManifestProofs ManifestRunProofs ManifestWitness.
Open Scope N_scope.

(* ---------------------------------------------------------------------------------------- *)
(* encoding                                                                                 *)
(* ---------------------------------------------------------------------------------------- *)
(* proto.Unmarshal inverts proto.Marshal on every ManifestChangeSet (all uint64 / uint32 / int32
   field values, proto3 default omission, any number of changes) *)
Theorem C17_protobuf_roundtrip : forall cs,
  wf_changeset cs = true -> pb_dec_changeset (pb_changeset cs) = DOk cs.
Proof. exact ManifestPbProofs.pb_roundtrip. Qed.
Print Assumptions C17_protobuf_roundtrip.
Example C17_protobuf_roundtrip_ex :
  wf_changeset [mkChange 7 0 3 (two64 - 1) 0 2; mkChange 7 1 0 0 0 0; mkChange 0 (two64 - 1) 0 0 0 0] = true.
Proof. reflexivity. Qed.

(* a file holding change sets that apply in sequence replays to exactly their application,
   truncOffset = file size *)
Theorem C17_replay_image : forall ext css m',
  ext < 65536 ->
  Forall (fun cs => wf_changeset cs = true) css ->
  apply_sets empty_manifest css = (m', None) ->
  N.of_nat (length (mf_image ext css)) < two32 ->
  replay ext (mf_image ext css) = ROk m' (N.of_nat (length (mf_image ext css))).
Proof. exact ManifestProofs.replay_image. Qed.
Print Assumptions C17_replay_image.

(* ---------------------------------------------------------------------------------------- *)
(* C17_replay                                                                               *)
(* ---------------------------------------------------------------------------------------- *)
(* FULL STATEMENT (C17_replay) — FALSE for the pinned tree, see C17_replay_refuted, _refuted_live,
   _refuted_unreplayable :
     forall thr ext steps st outs, let cfg := cfg_current thr ext in
       ext < 65536 -> run_ok true cfg (mf_create cfg) steps ->
       run cfg (mf_create cfg) steps = (st, outs) ->
       exists mr ms,
         replay ext (mf_bytes st) = ROk mr (N.of_nat (length (mf_bytes st)))
         /\ same_tables mr (mf_man st)                                   (replay = live table map)
         /\ (no_reopen steps = true -> same_counters mr (mf_man st))     (creations / deletions)
         /\ apply_sets empty_manifest (accepted steps outs) = (ms, None)
         /\ same_tables mr ms                                           (= the accepted change sets)
   i.e. for every sequence of addChanges calls (creates, deletes incl. unknown ids, rejected
   sets, any rewrite threshold, any map iteration order at each rewrite) and re-opens.       *)

(* what holds on the pinned tree: the same statement for sequences in which no call is
   rejected — any repair-flag setting, any threshold, across automatic rewrites and re-opens *)
Theorem C17_replay_partial : forall cfg steps st outs,
  cfg_ext cfg < 65536 ->
  run_ok false cfg (mf_create cfg) steps ->
  run cfg (mf_create cfg) steps = (st, outs) ->
  exists mr ms,
    replay (cfg_ext cfg) (mf_bytes st) = ROk mr (N.of_nat (length (mf_bytes st)))
    /\ same_tables mr (mf_man st)
    /\ (no_reopen steps = true -> same_counters mr (mf_man st))
    /\ apply_sets empty_manifest (accepted steps outs) = (ms, None)
    /\ same_tables mr ms.
Proof. exact ManifestRunProofs.run_replay_partial. Qed.
Print Assumptions C17_replay_partial.
(* the hypothesis is satisfiable by a run with creates, deletes of known and unknown ids, an
   automatic rewrite (threshold 0, hint order [9; 5]) and a re-open *)
Example C17_replay_partial_ex :
  let cfg := cfg_current 0 7 in
  let steps := [SAdd [mkChange 5 0 1 0 0 2; mkChange 9 0 6 77 0 0] []; SAdd [mkChange 400 1 0 0 0 0] [];
                SAdd [mkChange 3 0 0 0 0 0; mkChange 3 1 0 0 0 0; mkChange 401 1 0 0 0 0;
                      mkChange 402 1 0 0 0 0] [9; 5]; SReopen;
                SAdd [mkChange 9 1 0 0 0 0] []] in
  run_ok false cfg (mf_create cfg) steps
  /\ snd (run cfg (mf_create cfg) steps) = [OAppended; OAppended; ORewrote; OReopened 32; OAppended].
Proof. cbn zeta. split; [cbn [run_ok]; vm_compute; repeat split; left; reflexivity|vm_compute; reflexivity]. Qed.

(* the full statement holds for the repaired addChanges (validate the set, then apply it) *)
Theorem C17_replay_fixed : forall cfg steps st outs,
  cfg_ext cfg < 65536 -> cfg_atomic_apply cfg = true ->
  run_ok true cfg (mf_create cfg) steps ->
  run cfg (mf_create cfg) steps = (st, outs) ->
  exists mr ms,
    replay (cfg_ext cfg) (mf_bytes st) = ROk mr (N.of_nat (length (mf_bytes st)))
    /\ same_tables mr (mf_man st)
    /\ (no_reopen steps = true -> same_counters mr (mf_man st))
    /\ apply_sets empty_manifest (accepted steps outs) = (ms, None)
    /\ same_tables mr ms.
Proof. exact ManifestRunProofs.run_replay_fixed. Qed.
Print Assumptions C17_replay_fixed.

(* finding F6, three consequences on the pinned tree (cfg_current = repair flag off):
   (1) after a rejected change set the replayed table map differs from the live one *)
Theorem C17_replay_refuted_live :
  exists thr ext steps,
    let cfg := cfg_current thr ext in
    ext < 65536 /\ run_ok true cfg (mf_create cfg) steps
    /\ let '(st, outs) := run cfg (mf_create cfg) steps in
       exists mr off, replay ext (mf_bytes st) = ROk mr off /\ m_tables mr <> m_tables (mf_man st).
Proof. exact ManifestWitness.replay_refuted_live. Qed.
Print Assumptions C17_replay_refuted_live.

(* (2) the next rewrite persists the residue: the file replays to a table map that is not the
       application of the accepted change sets *)
Theorem C17_replay_refuted :
  exists thr ext steps,
    let cfg := cfg_current thr ext in
    ext < 65536 /\ run_ok true cfg (mf_create cfg) steps
    /\ let '(st, outs) := run cfg (mf_create cfg) steps in
       exists mr off ms, replay ext (mf_bytes st) = ROk mr off
         /\ apply_sets empty_manifest (accepted steps outs) = (ms, None)
         /\ m_tables mr <> m_tables ms.
Proof. exact ManifestWitness.replay_refuted_persisted. Qed.
Print Assumptions C17_replay_refuted.

(* (3) a residual in-memory DELETE lets a later CREATE be accepted and appended: the file then
       creates a table twice and replay (Open) fails *)
Theorem C17_replay_refuted_unreplayable :
  exists thr ext steps,
    let cfg := cfg_current thr ext in
    ext < 65536 /\ run_ok true cfg (mf_create cfg) steps
    /\ let '(st, outs) := run cfg (mf_create cfg) steps in
       exists e, replay ext (mf_bytes st) = RErr e.
Proof. exact ManifestWitness.replay_refuted_unreplayable. Qed.
Print Assumptions C17_replay_refuted_unreplayable.

(* ---------------------------------------------------------------------------------------- *)
(* C17_atomic: every byte prefix of a MANIFEST                                              *)
(* ---------------------------------------------------------------------------------------- *)
(* exact description: cut at n < 8 => errBadMagic; otherwise with j = the number of whole records
   within the first n bytes, replay returns the state after exactly those j change sets and
   truncOffset = their end — or the "length > file size" error when at least the 8-byte prefix
   of record j+1 survives and its length field exceeds n (finding F16) *)
Theorem C17_atomic_exact : forall ext css mfin n,
  ext < 65536 ->
  Forall (fun cs => wf_changeset cs = true) css ->
  apply_sets empty_manifest css = (mfin, None) ->
  N.of_nat (length (mf_image ext css)) < two32 ->
  (n <= length (mf_image ext css))%nat ->
  (n < 8)%nat /\ replay ext (firstn n (mf_image ext css)) = RErr EBadMagic
  \/
  (8 <= n)%nat /\ exists j mj,
     (j <= length css)%nat /\ apply_sets empty_manifest (firstn j css) = (mj, None)
     /\ (length (mf_image ext (firstn j css)) <= n)%nat
     /\ (forall cs, nth_error css j = Some cs ->
           (n < length (mf_image ext (firstn j css)) + 8 + length (pb_changeset cs))%nat)
     /\ (replay ext (firstn n (mf_image ext css))
           = ROk mj (N.of_nat (length (mf_image ext (firstn j css))))
         \/ (replay ext (firstn n (mf_image ext css)) = RErr ELenGtSize
             /\ exists cs, nth_error css j = Some cs
                  /\ (length (mf_image ext (firstn j css)) + 8 <= n)%nat
                  /\ (n < length (pb_changeset cs))%nat)).
Proof. exact ManifestProofs.replay_prefix. Qed.
Print Assumptions C17_atomic_exact.

(* all-or-nothing: a byte prefix never replays to part of a change set *)
Theorem C17_atomic : forall ext css mfin n,
  ext < 65536 ->
  Forall (fun cs => wf_changeset cs = true) css ->
  apply_sets empty_manifest css = (mfin, None) ->
  N.of_nat (length (mf_image ext css)) < two32 ->
  (n <= length (mf_image ext css))%nat ->
  replay ext (firstn n (mf_image ext css)) = RErr EBadMagic
  \/ replay ext (firstn n (mf_image ext css)) = RErr ELenGtSize
  \/ exists j mj, (j <= length css)%nat
       /\ apply_sets empty_manifest (firstn j css) = (mj, None)
       /\ replay ext (firstn n (mf_image ext css))
          = ROk mj (N.of_nat (length (mf_image ext (firstn j css)))).
Proof. exact ManifestProofs.replay_prefix_atomic. Qed.
Print Assumptions C17_atomic.
Example C17_atomic_ex :
  let css := [[]; [mkChange 1 0 2 0 0 1]; [mkChange 1 1 0 0 0 0; mkChange 2 0 0 9 0 0]] in
  Forall (fun cs => wf_changeset cs = true) css
  /\ snd (apply_sets empty_manifest css) = None /\ N.of_nat (length (mf_image 0 css)) < two32.
Proof. cbn zeta. split; [repeat constructor|split; reflexivity]. Qed.

(* ---------------------------------------------------------------------------------------- *)
(* C17_checksum                                                                             *)
(* ---------------------------------------------------------------------------------------- *)
(* after any whole records, a record whose CRC field differs from the CRC-32C of its payload is
   errBadChecksum — whatever the payload decodes to, whatever follows *)
Theorem C17_checksum : forall ext css m' C p rest,
  ext < 65536 ->
  Forall (fun cs => wf_changeset cs = true) css ->
  apply_sets empty_manifest css = (m', None) ->
  C < two32 -> crc32c_m p <> C ->
  N.of_nat (length (mf_image ext css ++ be_enc 4 (N.of_nat (length p)) ++ be_enc 4 C ++ p ++ rest)) < two32 ->
  replay ext (mf_image ext css ++ be_enc 4 (N.of_nat (length p)) ++ be_enc 4 C ++ p ++ rest)
  = RErr EBadChecksum.
Proof. exact ManifestProofs.replay_bad_checksum. Qed.
Print Assumptions C17_checksum.

(* the record of a change set whose payload bytes were altered (same length, different CRC) *)
Theorem C17_checksum_altered : forall ext css m' cs p' rest,
  ext < 65536 ->
  Forall (fun cs => wf_changeset cs = true) css ->
  apply_sets empty_manifest css = (m', None) ->
  length p' = length (pb_changeset cs) ->
  crc32c_m p' <> crc32c_m (pb_changeset cs) ->
  N.of_nat (length (mf_image ext css ++ be_enc 4 (N.of_nat (length p'))
                    ++ be_enc 4 (crc32c_m (pb_changeset cs)) ++ p' ++ rest)) < two32 ->
  replay ext (mf_image ext css ++ be_enc 4 (N.of_nat (length (pb_changeset cs)))
              ++ be_enc 4 (crc32c_m (pb_changeset cs)) ++ p' ++ rest)
  = RErr EBadChecksum.
Proof. exact ManifestProofs.replay_altered_payload. Qed.
Print Assumptions C17_checksum_altered.
Example C17_checksum_altered_ex :
  crc32c_m [8; 2] <> crc32c_m (pb_changeset [mkChange 1 0 0 0 0 0; mkChange 2 0 0 0 0 0] ).
Proof. vm_compute. discriminate. Qed.

(* ---------------------------------------------------------------------------------------- *)
(* C09, MANIFEST part: torn tail                                                            *)
(* ---------------------------------------------------------------------------------------- *)
(* FULL STATEMENT (C09_manifest_truncated) — FALSE for the pinned tree (C09_manifest_truncated_refuted):
     for F = mf_image ext css (all applying) and every strict prefix p of a further record,
     replay ext (F ++ p) = ROk (state after css) (offset |F|).
   It holds exactly when the 8-byte record prefix did not survive or the payload length does not
   exceed the size of the cut file: *)
Theorem C09_manifest_truncated_partial : forall ext css m' C payload p s,
  ext < 65536 ->
  Forall (fun cs => wf_changeset cs = true) css ->
  apply_sets empty_manifest css = (m', None) ->
  N.of_nat (length payload) < two32 -> s <> [] ->
  p ++ s = be_enc 4 (N.of_nat (length payload)) ++ be_enc 4 C ++ payload ->
  N.of_nat (length (mf_image ext css ++ p)) < two32 ->
  ((length p < 8)%nat \/ (length payload <= length (mf_image ext css ++ p))%nat) ->
  replay ext (mf_image ext css ++ p) = ROk m' (N.of_nat (length (mf_image ext css))).
Proof. exact ManifestProofs.replay_torn_ok. Qed.
Print Assumptions C09_manifest_truncated_partial.

(* ... and otherwise replay fails (finding F16), for every such cut: *)
Theorem C09_manifest_truncated_lensize : forall ext css m' C payload p s,
  ext < 65536 ->
  Forall (fun cs => wf_changeset cs = true) css ->
  apply_sets empty_manifest css = (m', None) ->
  N.of_nat (length payload) < two32 -> s <> [] ->
  p ++ s = be_enc 4 (N.of_nat (length payload)) ++ be_enc 4 C ++ payload ->
  N.of_nat (length (mf_image ext css ++ p)) < two32 ->
  (8 <= length p)%nat -> (length (mf_image ext css ++ p) < length payload)%nat ->
  replay ext (mf_image ext css ++ p) = RErr ELenGtSize.
Proof. exact ManifestProofs.replay_torn_lensize. Qed.
Print Assumptions C09_manifest_truncated_lensize.

Theorem C09_manifest_truncated_refuted :
  exists ext css m' payload n,
    ext < 65536 /\ Forall (fun cs => wf_changeset cs = true) css
    /\ apply_sets empty_manifest css = (m', None)
    /\ (n < length (mf_record payload))%nat
    /\ replay ext (mf_image ext css ++ firstn n (mf_record payload)) = RErr ELenGtSize.
Proof. exact ManifestWitness.truncated_refuted. Qed.
Print Assumptions C09_manifest_truncated_refuted.

(* helpOpenOrCreateManifestFile (the MANIFEST part of Open) on such a file: it is cut back to
   the whole records and the live table map is theirs *)
Theorem C09_manifest_open_truncates : forall cfg css m' p man0,
  cfg_ext cfg < 65536 ->
  Forall (fun cs => wf_changeset cs = true) css ->
  apply_sets empty_manifest css = (m', None) ->
  replay (cfg_ext cfg) (mf_image (cfg_ext cfg) css ++ p)
    = ROk m' (N.of_nat (length (mf_image (cfg_ext cfg) css))) ->
  exists live,
    reopen cfg (mkMF (mf_image (cfg_ext cfg) css ++ p) man0)
    = (mkMF (mf_image (cfg_ext cfg) css) live,
       OReopened (N.of_nat (length (mf_image (cfg_ext cfg) css))))
    /\ m_tables live = m_tables m'.
Proof. exact ManifestRunProofs.reopen_torn. Qed.
Print Assumptions C09_manifest_open_truncates.

(* crash mid-append, open again, keep working (steps: addChanges / re-open, none rejected): the
   later change sets are appended right after the whole records — the file replays to the whole
   records' change sets followed by the accepted ones, and to the live table map.  (The seeded
   "Seek before Truncate" mutation appends at the old size instead: the correspondence compares
   the file bytes after every step of tear / re-open / append / re-open sequences.) *)
Theorem C09_manifest_append_after_torn_tail : forall cfg css m' p man0 steps st outs,
  cfg_ext cfg < 65536 ->
  Forall (fun cs => wf_changeset cs = true) css ->
  apply_sets empty_manifest css = (m', None) ->
  N.of_nat (length (mf_image (cfg_ext cfg) css)) < two32 ->
  replay (cfg_ext cfg) (mf_image (cfg_ext cfg) css ++ p)
    = ROk m' (N.of_nat (length (mf_image (cfg_ext cfg) css))) ->
  let st0 := fst (reopen cfg (mkMF (mf_image (cfg_ext cfg) css ++ p) man0)) in
  run_ok false cfg st0 steps ->
  run cfg st0 steps = (st, outs) ->
  mf_bytes st0 = mf_image (cfg_ext cfg) css
  /\ exists mr ms,
       replay (cfg_ext cfg) (mf_bytes st) = ROk mr (N.of_nat (length (mf_bytes st)))
       /\ same_tables mr (mf_man st)
       /\ apply_sets empty_manifest (css ++ accepted steps outs) = (ms, None)
       /\ same_tables mr ms.
Proof. exact ManifestRunProofs.append_after_torn_tail. Qed.
Print Assumptions C09_manifest_append_after_torn_tail.

(* FULL STATEMENT (C09_manifest_zero_filled) — FALSE for the pinned tree (finding F5):
     ... replay ext (F ++ p ++ zeros) = ROk (state after css) _ .                               *)
Theorem C09_manifest_zero_filled_refuted :
  exists ext css m' payload n,
    ext < 65536 /\ Forall (fun cs => wf_changeset cs = true) css
    /\ apply_sets empty_manifest css = (m', None)
    /\ (n < length (mf_record payload))%nat
    /\ replay ext (mf_image ext css ++ firstn n (mf_record payload)
                   ++ repeat 0 (length (mf_record payload) - n)) = RErr EBadChecksum.
Proof. exact ManifestWitness.zero_filled_refuted. Qed.
Print Assumptions C09_manifest_zero_filled_refuted.

(* what holds: when only zero bytes follow the whole records (the cut is at a record boundary,
   or every surviving byte of the torn record is zero) they read as empty change sets: the
   state is the one before the damage; truncOffset covers the whole 8-byte zero records *)
Theorem C09_manifest_zero_filled_partial : forall ext css m' k,
  ext < 65536 ->
  Forall (fun cs => wf_changeset cs = true) css ->
  apply_sets empty_manifest css = (m', None) ->
  N.of_nat (length (mf_image ext css) + k) < two32 ->
  replay ext (mf_image ext css ++ repeat 0 k)
  = ROk m' (N.of_nat (length (mf_image ext css)) + 8 * N.of_nat (k / 8)).
Proof. exact ManifestProofs.replay_zero_tail. Qed.
Print Assumptions C09_manifest_zero_filled_partial.
