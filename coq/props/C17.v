From Verif Require Import Bytes Manifest.
