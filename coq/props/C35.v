(* C35 — Directory locking excludes a second writer.
   Model: coq/C/Lock.v (flock lock word per directory, Open/Close/Kill labels, db.go Open's
   Dir-then-ValueDir protocol with release on failure).  OS flock(2) semantics are the lock-word
   functions flock_try / flock_unlock (assumed, exercised by the harness across processes).
   Theorem statements only; proofs are `exact <lemma>` from C/LockProofs.v. *)
From Coq Require Import List NArith Bool.
From Verif Require Import Lock.
From Verif Require LockProofs.
Import ListNotations.
Open Scope N_scope.

(* While a directory is held read-write by one DB handle, no other non-bypassing handle — of this
   or another process — holds it (as Dir or as ValueDir): two distinct holders of one directory
   are both read-only.  For all label sequences (Open/Close/Kill, any processes, any directories). *)
Theorem C35_exclusion : forall s, reachable s -> forall d i1 h1 i2 h2,
  holder s i1 h1 d -> holder s i2 h2 d -> i1 <> i2 -> h_ro h1 = true /\ h_ro h2 = true.
Proof. exact LockProofs.exclusion. Qed.
Print Assumptions C35_exclusion.

(* the lock word seen by flock while a read-write holder is live is Exclusive: every further
   LOCK_EX|LOCK_NB and LOCK_SH|LOCK_NB attempt on that directory is refused *)
Theorem C35_rw_holder_refuses : forall s, reachable s -> forall d i h, holder s i h d -> h_ro h = false ->
  lw (st_dirs s d) = Exclusive /\ forall ro, flock_try (lw (st_dirs s d)) ro = None.
Proof. exact LockProofs.rw_holder_refuses. Qed.
Print Assumptions C35_rw_holder_refuses.

(* Read-only opens coexist: a read-only open whose Dir and ValueDir have only read-only holders
   (any number, any process) succeeds, unless the non-lock part of Open fails. *)
Theorem C35_ro_coexist : forall s o, reachable s -> o_env o = EnvOk -> o_ro o = true ->
  (forall i h, holder s i h (o_dir o) -> h_ro h = true) ->
  (forall i h, holder s i h (o_vd o) -> h_ro h = true) ->
  exists s', open_step s o = (s', ROk (st_next s))
             /\ st_handles s' = (st_next s, handle_of o) :: st_handles s.
Proof. exact LockProofs.ro_coexist. Qed.
Print Assumptions C35_ro_coexist.

(* Close releases: Close of an open handle succeeds and removes exactly that handle ... *)
Theorem C35_close_removes : forall s i h, reachable s -> In (i, h) (st_handles s) ->
  exists s', close_step s i = (s', RClosed)
    /\ (forall j hj, In (j, hj) (st_handles s') <-> In (j, hj) (st_handles s) /\ j <> i).
Proof. exact LockProofs.close_removes. Qed.
Print Assumptions C35_close_removes.

(* ... and once no holder of Dir and ValueDir is left (all closed, or their processes died), any
   open of them — read-write or read-only — succeeds.  Guard: the request does not conflict with
   itself (ValueDir reaching Dir through a different path string in a read-write open; the code
   then locks one directory twice and refuses itself — modelled, see C35_self_conflict_ex). *)
Theorem C35_release : forall s o, reachable s -> o_env o = EnvOk -> ~ self_conflict o ->
  (forall i h, ~ holder s i h (o_dir o)) -> (forall i h, ~ holder s i h (o_vd o)) ->
  exists s', open_step s o = (s', ROk (st_next s)).
Proof. exact LockProofs.release_no_holder. Qed.
Print Assumptions C35_release.

Theorem C35_release_all : forall s o, reachable s -> o_env o = EnvOk -> ~ self_conflict o ->
  let s0 := fst (exec s (LockProofs.close_all_labels s)) in
  exists s', open_step s0 o = (s', ROk (st_next s0)).
Proof. exact LockProofs.release_after_close_all. Qed.
Print Assumptions C35_release_all.

(* Dir locked, ValueDir refused => "Cannot acquire directory lock", Dir's lock is released: every
   lock word and the handle table are as before the attempt. *)
Theorem C35_partial_failure_releases : forall s o d1, reachable s -> o_env o <> EnvPre ->
  o_bypass o = false -> o_same o = false ->
  acquire (st_dirs s) (o_proc o) (o_dir o) (o_ro o) = Some d1 ->
  acquire d1 (o_proc o) (o_vdir o) (o_ro o) = None ->
  exists s', open_step s o = (s', RLockFail)
    /\ st_handles s' = st_handles s /\ forall d, lw (st_dirs s' d) = lw (st_dirs s d).
Proof. exact LockProofs.partial_failure. Qed.
Print Assumptions C35_partial_failure_releases.

(* every failed Open (lock refused at Dir or ValueDir, or a later step of Open failing) leaves all
   lock words and the handle table unchanged *)
Theorem C35_failed_open_releases : forall s o s' r, reachable s -> open_step s o = (s', r) ->
  (forall h, r <> ROk h) ->
  st_handles s' = st_handles s /\ forall d, lw (st_dirs s' d) = lw (st_dirs s d).
Proof. exact LockProofs.failed_open_releases. Qed.
Print Assumptions C35_failed_open_releases.

(* no spurious refusal: a refused lock has a live conflicting holder (or the request conflicts
   with itself) *)
Theorem C35_refusal_has_holder : forall s o s', reachable s -> open_step s o = (s', RLockFail) ->
  self_conflict o \/
  exists i h d, holder s i h d /\ (d = o_dir o \/ d = o_vd o) /\ (h_ro h = false \/ o_ro o = false).
Proof. exact LockProofs.lock_fail_has_holder. Qed.
Print Assumptions C35_refusal_has_holder.

(* the advisory pid file of a directory held read-write names the holder's process *)
Theorem C35_pid_file : forall s, reachable s -> forall i h d, holder s i h d -> h_ro h = false ->
  pidf (st_dirs s d) = Some (h_proc h).
Proof. exact LockProofs.pid_file_names_writer. Qed.
Print Assumptions C35_pid_file.

(* ---- the hypotheses are satisfiable / the paths exist (concrete runs of the same model) ---- *)
Definition rw p d v same := Open (mkO p false d v same false EnvOk).
Definition ro p d v same := Open (mkO p true d v same false EnvOk).

(* a writer excludes writer and reader of another process; after Close both get in; two readers coexist *)
Example C35_run_ex :
  snd (exec init [rw 0 1 1 true; rw 1 1 1 true; ro 2 1 1 true; Close 0; ro 1 1 1 true; ro 2 1 1 true;
                  rw 0 1 1 true; Close 1; Close 2; rw 0 1 1 true])
  = [ROk 0; RLockFail; RLockFail; RClosed; ROk 1; ROk 2; RLockFail; RClosed; RClosed; ROk 3].
Proof. vm_compute. reflexivity. Qed.

(* partial failure: ValueDir 2 is held, Dir 1 is free: the open is refused and Dir 1 is free again *)
Example C35_partial_failure_ex :
  let s := fst (exec init [rw 0 2 2 true]) in
  exists d1, acquire (st_dirs s) 1 1 false = Some d1 /\ acquire d1 1 2 false = None
  /\ snd (exec s [rw 1 1 2 false; rw 1 1 1 true]) = [RLockFail; ROk 1].
Proof. eexists. vm_compute. repeat split; reflexivity. Qed.

(* self conflict: ValueDir is a symlink to Dir (same directory, different path strings) *)
Example C35_self_conflict_ex :
  self_conflict (mkO 0 false 1 1 false false EnvOk)
  /\ snd (exec init [rw 0 1 1 false; ro 0 1 1 false; rw 0 1 1 true])
     = [RLockFail; ROk 0; RLockFail].
Proof. split; [unfold self_conflict; cbn; auto|vm_compute; reflexivity]. Qed.

(* BypassLockGuard takes and respects no lock; a killed process's locks vanish, its pid file stays *)
Example C35_bypass_kill_ex :
  let '(s, r) := exec init [rw 1 1 1 true; Open (mkO 0 false 1 1 true true EnvOk); Kill 1; ro 0 1 1 true] in
  r = [ROk 0; ROk 1; RKilled; ROk 2] /\ pidf (st_dirs s 1) = Some 1.
Proof. vm_compute. split; reflexivity. Qed.
