(* C08 — A crash at any point recovers a commit prefix holding every acknowledged commit.
   Statements only; every proof is `exact <lemma>` from coq/C/CrashProofs.v.

   Reading guide.  A trace is a list of single persistence events (file create = openat, Init =
   ftruncate to the pre-allocated size, Append of ONE record, msync/fsync, ftruncate(0), unlink,
   directory fsync) plus the ghost labels PBegin (a request's WAL unit starts) and PAck.
   `run c (init c) tr = Some st` says the trace is one the write path, flusher and compactors
   can produce (Persist.pstep, the protocol relation; arbitrary interleaving of the three).
   Every prefix of an accepted trace is accepted, so "the process is killed at any
   persistence step" = "tr is any accepted trace"; a cut inside a multi-record write is a cut
   between two Append events.  `crash_result c st` = what badger.Open returns on the
   directory the killed process leaves behind (page cache survives).
   `prefix_ok st R`: R refines the entries of the first n issued commits for some n with
   acked <= n (Recover.refines: nothing foreign; every entry present or superseded by a newer
   version of its key).  `no_partial`: a commit with one entry in R has all of them in R (or
   superseded).

   Pinned tree (fix_zerolog = false): REFUTED — finding F25: a zero-size .mem/.vlog file makes
   Open fail (z.OpenMmapFile returns z.NewFile, openMemTables / valueLog.open treat it as
   fatal); zero-size windows exist between openat and ftruncate (newMemTable, createVlogFile)
   and between ftruncate(0) and unlink (z.MmapFile.Delete).  Full statement for the repaired
   behaviour, partial statement for the pinned tree under the narrowest excluding hypothesis
   (no log file of size 0 at the crash point). *)
From Verif Require Import FS Recover Persist Crash.
From Verif Require FSProofs RecoverProofs CrashProofs.
Open Scope N_scope.

(* full strength, with the F25 repair (any SyncWrites setting, with or without the F9 repair) *)
Theorem C08_crash_prefix : forall c tr st, fix_zerolog c = true ->
  run c (init c) tr = Some st ->
  exists R, crash_result c st = Some R /\ prefix_ok st R /\ no_partial st R.
Proof. exact CrashProofs.C08_crash_prefix_fixed. Qed.
Print Assumptions C08_crash_prefix.

(* the same with the crash point explicit: cut an accepted trace after any number of events *)
Theorem C08_crash_every_cut : forall c tr st n, fix_zerolog c = true -> run c (init c) tr = Some st ->
  exists st1 R, run c (init c) (firstn n tr) = Some st1 /\
                crash_result c st1 = Some R /\ prefix_ok st1 R /\ no_partial st1 R.
Proof. exact CrashProofs.C08_every_cut. Qed.
Print Assumptions C08_crash_every_cut.

(* the visible state (newest version of every key) after recovery is that of a commit-order
   prefix containing every acknowledged commit *)
Theorem C08_visible_state : forall c tr st, fix_zerolog c = true -> run c (init c) tr = Some st ->
  exists R n, crash_result c st = Some R /\ (acked st <= n)%nat /\ (n <= length (issued st))%nat /\
    forall e, visible (concat (firstn n (issued st))) e <-> visible R e.
Proof. exact CrashProofs.C08_visible_state. Qed.
Print Assumptions C08_visible_state.

Theorem C08_no_partial_txn : forall c tr st, fix_zerolog c = true -> run c (init c) tr = Some st ->
  exists R, crash_result c st = Some R /\ no_partial st R.
Proof.
  intros c tr st Hf H. destruct (CrashProofs.C08_crash_prefix_fixed c tr st Hf H) as [R [H1 [_ H3]]].
  exists R. split; assumption.
Qed.
Print Assumptions C08_no_partial_txn.

(* pinned tree: holds at every crash point at which no log file has size 0 *)
Theorem C08_crash_prefix_partial : forall c tr st, run c (init c) tr = Some st -> no_zero_logs (pfs st) ->
  exists R, crash_result c st = Some R /\ prefix_ok st R /\ no_partial st R.
Proof. exact CrashProofs.C08_crash_prefix_nozero. Qed.
Print Assumptions C08_crash_prefix_partial.

(* pinned tree: refuted (F25).  Witness 1: killed between openat(O_CREAT) and ftruncate of the
   next WAL (Crash.tr_zero_wal_create).  Witness 2: killed between ftruncate(0) and unlink of a
   flushed WAL (Crash.tr_zero_wal_delete).  Both are replayed on the implementation by the
   harness (mechanism "emulate"). *)
Theorem C08_crash_prefix_refuted_create :
  exists tr st, run (cfg_pinned false) (init (cfg_pinned false)) tr = Some st /\
                crash_result (cfg_pinned false) st = None.
Proof. exact CrashProofs.C08_crash_refuted_create. Qed.
Print Assumptions C08_crash_prefix_refuted_create.

Theorem C08_crash_prefix_refuted_delete :
  exists tr st, run (cfg_pinned true) (init (cfg_pinned true)) tr = Some st /\
                crash_result (cfg_pinned true) st = None.
Proof. exact CrashProofs.C08_crash_refuted_delete. Qed.
Print Assumptions C08_crash_prefix_refuted_delete.

(* hypotheses are satisfiable: a trace with vlog values, rotations, two flushes, WAL removal
   and a compaction is accepted under every configuration, and its crash result is a prefix
   holding both acknowledged commits *)
Example C08_example_accepted :
  forall c, In c [cfg_pinned false; cfg_pinned true; cfg_fixed false; cfg_fixed true] ->
  match run c (init c) (tr_example c) with
  | Some st => match crash_result c st with Some R => prefix_okb st R && Nat.eqb (acked st) 2 | None => false end
  | None => false
  end = true.
Proof. intros c [<-|[<-|[<-|[<-|[]]]]]; vm_compute; reflexivity. Qed.
