(* C28 — Writes validate keys and sizes deterministically; accepted transactions fit.
   Statements only; every proof is `exact <lemma>` from A/TxnModifyProofs.v.
   Model: A/TxnModify.v (Txn.modify, checkSize, isBanned, Txn.Get front part, commitAndSend's
   entry list, sendToWriteCh accounting, batch limits from MemTableSize). *)
From Verif Require Import Bytes Keys Consts TxnModify.
From Verif Require TxnModifyProofs.
Import TxnModifyProofs.
Open Scope Z_scope.

(* ---- rejection: exact conditions, exact error, transaction unchanged ----------------------
   `rejects d thr t e kcap vcap err` (TxnModifyProofs) lists the classes in the code's order:
   read-only txn, discarded txn, empty key, !badger! prefix, key > 65000, value > ValueLogFileSize,
   (InMemory) value > value threshold, banned namespace, ErrTxnTooBig when count/size would reach
   the batch limits.  A call returns an error iff one class applies; the transaction is unchanged. *)
Theorem C28_reject : forall d thr t e kcap vcap t' err,
  modify d thr t e kcap vcap = (t', Some err) <-> (t' = t /\ rejects d thr t e kcap vcap err).
Proof.
  intros. split; [exact (modify_reject_sound d thr t e kcap vcap t' err)|].
  intros [-> R]. exact (modify_reject_complete d thr t e kcap vcap err R).
Qed.
Print Assumptions C28_reject.

(* a rejected write leaves every read of the transaction unchanged (the state is identical) *)
Theorem C28_reject_reads_unchanged : forall d thr t e kcap vcap t' err key now,
  modify d thr t e kcap vcap = (t', Some err) -> txn_get d t' key now = txn_get d t key now.
Proof. intros d thr t e kcap vcap t' err key now H. rewrite (modify_reject_unchanged _ _ _ _ _ _ _ _ H). reflexivity. Qed.
Print Assumptions C28_reject_reads_unchanged.

(* ---- acceptance: every other key and value is accepted and read back ---------------------- *)
Theorem C28_accept : forall d thr t e kcap vcap,
  active t -> key_ok e -> val_ok d thr e -> is_banned d (e_key e) = None -> fits d thr t e ->
  exists t', modify d thr t e kcap vcap = (t', None) /\
    pending_get (e_key e) (t_pending t') = Some (stored e thr) /\
    (forall k, k <> e_key e -> pending_get k (t_pending t') = pending_get k (t_pending t)) /\
    t_count t' = t_count t + 1 /\
    t_size t' = t_size t + fst (estimate e thr) + 10 /\
    t_update t' = true /\ t_discarded t' = false.
Proof. exact modify_accept. Qed.
Print Assumptions C28_accept.
(* hypotheses satisfiable: a 65000-byte key with an empty value in a fresh transaction *)
Example C28_accept_ex :
  let d := mkDb 1048576 false (-1) [] true 1000 10000000 in
  let e := mkEntry (repeat 107%N (650 * 100)) [] 0 0 0 0 0 in
  snd (modify d 1024 (new_txn false true) e (650 * 100) 0) = None.
Proof. vm_compute. reflexivity. Qed.

Theorem C28_accept_roundtrip : forall d thr t e kcap vcap t' now,
  modify d thr t e kcap vcap = (t', None) ->
  txn_get d t' (e_key e) now =
    (if deleted_or_expired (e_meta e) (e_expires e) now then GNotFound else GCached (stored e thr))
  /\ (forall k, k <> e_key e -> txn_get d t' k now = txn_get d t k now).
Proof. exact txn_get_after_accept. Qed.
Print Assumptions C28_accept_roundtrip.

(* no third outcome: a call is either rejected (class listed above) or accepted *)
Theorem C28_total : forall d thr t e kcap vcap,
  (exists err, modify d thr t e kcap vcap = (t, Some err) /\ rejects d thr t e kcap vcap err) \/
  (active t /\ key_ok e /\ val_ok d thr e /\ is_banned d (e_key e) = None /\ fits d thr t e /\
   exists t', modify d thr t e kcap vcap = (t', None)).
Proof. exact modify_cases. Qed.
Print Assumptions C28_total.

(* ---- banned namespaces: exact condition; reads and writes agree ---------------------------- *)
Theorem C28_banned_spec : forall d key,
  d_ns_offset d < 9223372036854775800 ->
  is_banned d key =
    if (0 <=? d_ns_offset d) && (d_ns_offset d + 8 <? zlen key)
       && existsb (N.eqb (ns_of (d_ns_offset d) key)) (d_banned d)
    then Some ErrBannedKey else None.
Proof. exact is_banned_spec. Qed.
Print Assumptions C28_banned_spec.

Theorem C28_banned_reads : forall d t key now,
  key <> [] -> t_discarded t = false -> is_banned d key = Some ErrBannedKey ->
  txn_get d t key now = GErr ErrBannedKey.
Proof. exact banned_read. Qed.
Print Assumptions C28_banned_reads.

Theorem C28_banned_writes : forall d thr t e kcap vcap,
  active t -> key_ok e -> val_ok d thr e -> is_banned d (e_key e) = Some ErrBannedKey ->
  modify d thr t e kcap vcap = (t, Some ErrBannedKey).
Proof. exact banned_write. Qed.
Print Assumptions C28_banned_writes.
Example C28_banned_ex :
  is_banned (mkDb 1048576 false 2 [7%N] true 10 1000) [97; 98; 0; 0; 0; 0; 0; 0; 0; 7; 255]%N = Some ErrBannedKey.
Proof. vm_compute. reflexivity. Qed.

(* ---- rejections are errors, not panics (finding F16) ---------------------------------------
   FULL STATEMENT (false of the pinned tree):
     forall d thr t e kcap vcap t', (length (e_val e) <= vcap)%nat ->
       modify d thr t e kcap vcap <> (t', Some EPanic)
   exceedsSize slices its argument to [:1024] for the error text; in InMemory mode a value longer
   than the value threshold but with capacity below 1024 makes that slice expression panic. *)
Theorem C28_reject_is_error_refuted :
  exists d thr t e kcap vcap, (length (e_val e) <= vcap)%nat /\ active t /\ key_ok e /\
    d_in_memory d = true /\ thr < zlen (e_val e) /\
    modify d thr t e kcap vcap = (t, Some EPanic).
Proof. exact oversize_value_panics. Qed.
Print Assumptions C28_reject_is_error_refuted.

Theorem C28_reject_is_error_partial : forall d thr t e kcap vcap t',
  1023 <= d_vlog_file_size d ->
  d_ns_offset d < 9223372036854775800 ->
  (d_in_memory d = true -> 1023 <= thr \/ (1024 <= vcap)%nat) ->
  modify d thr t e kcap vcap <> (t', Some EPanic).
Proof. exact modify_no_panic. Qed.
Print Assumptions C28_reject_is_error_partial.

(* ---- accepted transactions fit ------------------------------------------------------------
   FULL STATEMENT C28_commit_fits (false of the pinned tree, finding F4):
     forall d upd cs thr_c blocked cts, cts < 2^64 -> Forall (call_thr_ok thr_c) cs ->
       commit d thr_c blocked (fst (run_calls d (new_txn false upd) cs)) cts <> CErr ErrTxnTooBig
   newTransaction reserves len(txnKey)+10 = 21 bytes for the end marker; sendToWriteCh charges it
   len(txnKey)+8+digits(commitTs)+2 (or len(txnKey)+8+14 when digits >= value threshold).  Each
   stored entry was charged 10 for its version suffix but costs 8, so n entries leave 2n spare
   bytes: Commit fails exactly when marker_extra > 2n and Txn.size was within that distance of
   maxBatchSize.
   (call_thr_ok: the threshold cached in an entry at Set time is 0 only if the commit-time
   threshold cannot raise its estimate; excludes ValueThreshold = 0 with dynamic thresholding.) *)
Theorem C28_commit_fits_refuted :
  exists mts cs thr_c cts,
    (cts < two64)%N /\ Forall (call_thr_ok thr_c) cs /\
    all_accepted (snd (run_calls (db_of_memtable mts) (new_txn false true) cs)) /\
    commit (db_of_memtable mts) thr_c false
           (fst (run_calls (db_of_memtable mts) (new_txn false true) cs)) cts = CErr ErrTxnTooBig.
Proof. exact commit_fits_refuted. Qed.
Print Assumptions C28_commit_fits_refuted.

Theorem C28_commit_fits_refuted_small_threshold :
  exists mts cs thr_c cts,
    cts = 1%N /\ Forall (call_thr_ok thr_c) cs /\
    all_accepted (snd (run_calls (db_of_memtable mts) (new_txn false true) cs)) /\
    commit (db_of_memtable mts) thr_c false
           (fst (run_calls (db_of_memtable mts) (new_txn false true) cs)) cts = CErr ErrTxnTooBig.
Proof. exact commit_fits_refuted_small_threshold. Qed.
Print Assumptions C28_commit_fits_refuted_small_threshold.

(* the hypothesis call_thr_ok cannot be dropped (finding F18): an entry whose cached threshold is 0
   (ValueThreshold = 0) is re-estimated with the commit-time threshold; if dynamic thresholding
   raised it above len(value) meanwhile, Commit fails although the marker is covered *)
Theorem C28_commit_fits_refuted_threshold_moved :
  exists mts cs thr_c cts,
    all_accepted (snd (run_calls (db_of_memtable mts) (new_txn false true) cs)) /\
    (let t := fst (run_calls (db_of_memtable mts) (new_txn false true) cs) in
     marker_extra cts thr_c <= 2 * Z.of_nat (length (t_pending t) + length (t_dups t))) /\
    commit (db_of_memtable mts) thr_c false
           (fst (run_calls (db_of_memtable mts) (new_txn false true) cs)) cts = CErr ErrTxnTooBig.
Proof. exact commit_fits_refuted_threshold_moved. Qed.
Print Assumptions C28_commit_fits_refuted_threshold_moved.

(* pinned tree: holds whenever the marker's extra cost (its digits, or 12 when it is estimated as
   a value pointer) is covered by the two spare bytes of each final entry — e.g. always for
   transactions with at least 10 distinct keys, or commit timestamps below 100 with threshold > 2 *)
Theorem C28_commit_fits_partial : forall d upd cs thr_c blocked cts,
  Forall (call_thr_ok thr_c) cs ->
  let t := fst (run_calls d (new_txn false upd) cs) in
  marker_extra cts thr_c <= 2 * Z.of_nat (length (t_pending t) + length (t_dups t)) ->
  commit d thr_c blocked t cts <> CErr ErrTxnTooBig.
Proof. exact commit_fits_partial. Qed.
Print Assumptions C28_commit_fits_partial.
Example C28_commit_fits_partial_ex :
  let d := db_of_memtable 1920 in
  let t := fst (run_calls d (new_txn false true) w4_calls) in
  Forall (call_thr_ok 288) w4_calls /\ marker_extra 99 288 <= 2 * Z.of_nat (length (t_pending t) + length (t_dups t)).
Proof. split; [constructor; [left; vm_compute; discriminate|constructor]|vm_compute; discriminate]. Qed.

Theorem C28_marker_extra_bounds : forall cts thr_c, 1 <= marker_extra cts thr_c <= 20.
Proof. exact marker_extra_bounds. Qed.
Print Assumptions C28_marker_extra_bounds.

(* repaired behaviour (flag fix_marker_size: reserve the marker's real maximum): full statement,
   for every memtable size / batch limit, every script, every commit timestamp *)
Theorem C28_commit_fits_fixed : forall d upd cs thr_c blocked cts,
  Forall (call_thr_ok thr_c) cs ->
  commit d thr_c blocked (fst (run_calls d (new_txn true upd) cs)) cts <> CErr ErrTxnTooBig.
Proof. exact commit_fits_fixed. Qed.
Print Assumptions C28_commit_fits_fixed.

(* ---- an accepted write does not bring the writer down (finding F17) -------------------------
   FULL STATEMENT (false of the pinned tree): forall d thr t e kcap vcap t' blocked cts,
     modify d thr t e kcap vcap = (t', None) -> commit d thr blocked t' cts <> CCrash
   In InMemory mode modify rejects len(value) > threshold, but writeToLSM sends every entry with
   len(value) >= threshold down the value-pointer branch, which indexes the (empty) b.Ptrs:
   the doWrites goroutine panics and the process dies. *)
Theorem C28_accepted_commit_no_crash_refuted :
  exists d thr e kcap vcap t' cts,
    d_in_memory d = true /\ zlen (e_val e) = thr /\
    modify d thr (new_txn false true) e kcap vcap = (t', None) /\
    commit d thr false t' cts = CCrash.
Proof. exact inmemory_value_at_threshold_crashes. Qed.
Print Assumptions C28_accepted_commit_no_crash_refuted.

Theorem C28_accepted_commit_no_crash_partial_disk : forall d thr blocked t cts,
  d_in_memory d = false -> commit d thr blocked t cts <> CCrash.
Proof. exact commit_not_crash_on_disk. Qed.
Print Assumptions C28_accepted_commit_no_crash_partial_disk.

Theorem C28_accepted_commit_no_crash_partial_inmemory : forall d upd fx cs thr_c blocked cts,
  Forall (fun c => zlen (e_val (c_entry c)) < eff_thr (c_entry c) (c_thr c)) cs ->
  zlen (dec_digits cts) < thr_c ->
  commit d thr_c blocked (fst (run_calls d (new_txn fx upd) cs)) cts <> CCrash.
Proof. exact commit_not_crash_in_memory. Qed.
Print Assumptions C28_accepted_commit_no_crash_partial_inmemory.
Example C28_accepted_commit_no_crash_ex :
  Forall (fun c => zlen (e_val (c_entry c)) < eff_thr (c_entry c) (c_thr c)) w4_calls /\ zlen (dec_digits 100) < 288.
Proof. split; [constructor; [vm_compute; reflexivity|constructor]|vm_compute; reflexivity]. Qed.
