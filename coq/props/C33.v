(* C33 — Expired entries are invisible on every read path, live ones visible. *)
From Verif Require Import Bytes Keys Consts Spec Lsm Iter Sys.
From Verif Require SysProofs.
Open Scope N_scope.

(* once expired, always expired: dropping an expired version during compaction or GC cannot
   be observed later (time only moves forward) *)
Theorem C33_expiry_monotone : forall e now now',
  now <= now' -> deleted_or_expired e now = true -> deleted_or_expired e now' = true.
Proof. exact SysProofs.deleted_or_expired_mono. Qed.
Print Assumptions C33_expiry_monotone.

(* no iterator item is expired *)
Theorem C33_iter_never_yields_expired : forall o rts now banned s last e,
  io_all o = false -> In e (fwd_items o rts now banned s last) ->
  In e s /\ e_ver e <= rts /\ deleted_or_expired e now = false.
Proof. exact SysProofs.fwd_items_sound. Qed.
Print Assumptions C33_iter_never_yields_expired.

(* Get honours expiry in every reachable state: for every sequential history (commits, flushes,
   picker-chosen compactions), the lookup result filtered by deleted-or-expired equals the
   specification `vis`, which returns the newest write at or below the read timestamp and
   reports it absent when it is a delete or has expired at `now` — so an expired newest version
   hides older versions exactly as a delete does, a newer non-expiring write is visible, and
   compaction (which drops expired versions using its own, earlier clock) never changes this *)
From Verif Require Import SysTree.
From Verif Require CompactProofs TreeSpecProofs.
Theorem C33_get_matches_spec_with_expiry : forall detect nkeep nlevels next ops,
  (0 < nlevels)%nat -> Forall op_plain ops ->
  let s := snd (exec_tree (init_sys false detect nkeep nlevels next) ops 0) in
  forall k ts now, TreeSpecProofs.max_discard ops <= ts -> TreeSpecProofs.max_now ops <= now ->
    CompactProofs.vis_of now (db_get (s_db s) k ts) = vis (s_writes s) k ts now.
Proof. exact TreeSpecProofs.get_equals_spec. Qed.
Print Assumptions C33_get_matches_spec_with_expiry.

(* the specification itself: an expired (or deleted) newest version makes the key absent,
   whatever older versions exist *)
Lemma C33_spec_expired_hides_older_aux : forall ws k ts now e,
  spec_latest ws k ts None = Some e -> deleted_or_expired e now = true -> vis ws k ts now = None.
Proof. intros ws k ts now e H D. unfold vis. now rewrite H, D. Qed.
Theorem C33_spec_expired_hides_older : forall ws k ts now e,
  spec_latest ws k ts None = Some e -> deleted_or_expired e now = true -> vis ws k ts now = None.
Proof. exact C33_spec_expired_hides_older_aux. Qed.
Print Assumptions C33_spec_expired_hides_older.

(* ---- every iterator path (C05 theorems instantiated for expiry) ---- *)
From Verif Require EntOrderProofs IterOrderProofs IterSpecProofs.
(* any direction, any Seek / Prefix / SinceTs combination, not AllVersions: no item a transaction
   iterator yields is deleted or expired at the iterator's clock *)
Theorem C33_every_iteration_hides_expired : forall o rts now banned m seek e,
  EntOrderProofs.ssorted m -> io_all o = false -> In e (iterate o rts now banned m seek) ->
  deleted_or_expired e now = false.
Proof.
  intros o rts now banned m seek e S A H.
  exact (proj2 (proj2 (proj2 (IterSpecProofs.iterate_sound o rts now banned m seek e S H))) A).
Qed.
Print Assumptions C33_every_iteration_hides_expired.

(* forward iteration: when the newest version at or below the read timestamp is expired (or a
   delete marker) the key does not appear at all — no older version shows through; when it is
   live, exactly that version appears *)
Theorem C33_iteration_expired_newest_hides_key : forall o rts now banned m k,
  io_all o = false -> EntOrderProofs.ssorted m -> IterOrderProofs.cut o m = m ->
  find (fun e => bytes_eqb (e_key e) k) (fwd_items o rts now banned m None) =
  match IterOrderProofs.first_nonskip o rts banned m k with
  | Some e => if deleted_or_expired e now then None else Some e
  | None => None
  end.
Proof. exact IterOrderProofs.fwd_items_lookup. Qed.
Print Assumptions C33_iteration_expired_newest_hides_key.

(* AllVersions is the one path that shows expired entries and delete markers (as documented) *)
Theorem C33_all_versions_shows_expired : forall o rts now banned m,
  io_all o = true ->
  fwd_items o rts now banned m None =
  filter (fun e => negb (skip_common o rts banned e)) (IterOrderProofs.cut o m).
Proof. exact IterOrderProofs.fwd_items_all. Qed.
Print Assumptions C33_all_versions_shows_expired.
