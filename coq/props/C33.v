(* C33 — Expired entries are invisible on every read path, live ones visible. *)
From Verif Require Import Bytes Keys Consts Spec Lsm Iter Sys.
From Verif Require SysProofs.
Open Scope N_scope.

(* once expired, always expired: dropping an expired version during compaction or GC cannot
   be observed later (time only moves forward) *)
Theorem C33_expiry_monotone : forall e now now',
  now <= now' -> deleted_or_expired e now = true -> deleted_or_expired e now' = true.
Proof. exact SysProofs.deleted_or_expired_mono. Qed.
Print Assumptions C33_expiry_monotone.

(* no iterator item is expired *)
Theorem C33_iter_never_yields_expired : forall o rts now banned s last e,
  io_all o = false -> In e (fwd_items o rts now banned s last) ->
  In e s /\ e_ver e <= rts /\ deleted_or_expired e now = false.
Proof. exact SysProofs.fwd_items_sound. Qed.
Print Assumptions C33_iter_never_yields_expired.
