(* C05 — Iterators return the visible keys exactly once, in order, honoring options.
   Statements only. (Grows with B/IterProofs.v.) *)
From Verif Require Import Bytes Keys Consts Spec Lsm Iter.
From Verif Require SysProofs.
Open Scope N_scope.

(* whatever a forward iterator (not AllVersions) yields comes from the merged stream, has a
   version at or below the read timestamp and is neither deleted nor expired *)
Theorem C05_forward_sound : forall o rts now banned s last e,
  io_all o = false -> In e (fwd_items o rts now banned s last) ->
  In e s /\ e_ver e <= rts /\ deleted_or_expired e now = false.
Proof. exact SysProofs.fwd_items_sound. Qed.
Print Assumptions C05_forward_sound.

(* Valid() cuts the sequence at the first item outside the prefix *)
Theorem C05_valid_prefix : forall o l e, In e (take_valid o l) -> In e l /\ item_valid o e = true.
Proof. exact SysProofs.take_valid_sound. Qed.
Print Assumptions C05_valid_prefix.
