(* C05 — Iterators return the visible keys exactly once, in order, honoring options.
   Statements only. (Grows with B/IterProofs.v.) *)
From Verif Require Import Bytes Keys Consts Spec Lsm Iter.
From Verif Require SysProofs.
Open Scope N_scope.

(* whatever a forward iterator (not AllVersions) yields comes from the merged stream, has a
   version at or below the read timestamp and is neither deleted nor expired *)
Theorem C05_forward_sound : forall o rts now banned s last e,
  io_all o = false -> In e (fwd_items o rts now banned s last) ->
  In e s /\ e_ver e <= rts /\ deleted_or_expired e now = false.
Proof. exact SysProofs.fwd_items_sound. Qed.
Print Assumptions C05_forward_sound.

(* Valid() cuts the sequence at the first item outside the prefix *)
Theorem C05_valid_prefix : forall o l e, In e (take_valid o l) -> In e l /\ item_valid o e = true.
Proof. exact SysProofs.take_valid_sound. Qed.
Print Assumptions C05_valid_prefix.

(* ======================================================================================
   Full characterisation (B/IterOrderProofs.v, B/IterSpecProofs.v).  Everything below is about
   the functions of B/Iter.v that the correspondence check evaluates against iterator.go
   (fwd_items, rev_items, take_valid, seek_ge, seek_le_rev, iterate) and Sys.txn_iterate.
   The stream m is any list strictly sorted by ent_cmp (key ascending, version descending; so
   no key@version twice) — `C05_merged_sorted`: the merged view of a well-formed tree is one.
   Auxiliary specification functions (right-hand sides only):
     hidden m e  : some non-skipped entry of m has e's key and a larger version
     emit m e    : e passes the parseItem checks (skip_common = false) and, unless AllVersions,
                   is not hidden and is neither deleted nor expired
     cut m       : m up to the first entry outside Prefix (forward only)
     first_nonskip m k : the first entry of m with key k that passes skip_common
   ====================================================================================== *)
From Verif Require Import Compact CompactProofs EntOrderProofs IterOrderProofs IterSpecProofs.
From Verif Require GetProofs.
From Coq Require Import Sorting.Sorted.

(* ---- A.2 / B: the forward scan, both modes, as one equation ---- *)
Theorem C05_forward_is_spec : forall o rts now banned m,
  ssorted m -> fwd_items o rts now banned m None = filter (emit o rts now banned m) (cut o m).
Proof. exact fwd_items_spec. Qed.
Print Assumptions C05_forward_is_spec.

(* A.1: strictly increasing byte order of the keys — every key at most once *)
Theorem C05_forward_keys_increasing : forall o rts now banned m,
  io_all o = false -> ssorted m -> StronglySorted klt (map e_key (fwd_items o rts now banned m None)).
Proof. exact fwd_items_keys_increasing. Qed.
Print Assumptions C05_forward_keys_increasing.

(* A.2 as membership: yielded iff inside the Prefix cut, not skipped, not hidden, live *)
Theorem C05_forward_in_iff : forall o rts now banned m e,
  io_all o = false -> ssorted m ->
  (In e (fwd_items o rts now banned m None) <->
   In e (cut o m) /\ skip_common o rts banned e = false /\ hidden o rts banned m e = false /\
   deleted_or_expired e now = false).
Proof. exact fwd_items_in_iff. Qed.
Print Assumptions C05_forward_in_iff.

(* "inside the Prefix cut" = no entry up to and including e is outside the prefix *)
Theorem C05_cut_in_iff : forall o (m : src) e,
  In e (cut o m) <-> exists pre post, m = pre ++ e :: post /\ (forall y, In y (pre ++ [e]) -> stream_has_prefix o y = true).
Proof. intros o m e. exact (take_while_in_iff (stream_has_prefix o) m e). Qed.
Print Assumptions C05_cut_in_iff.

(* "not hidden" = the FIRST non-skipped entry of its key in the stream, i.e. the newest version
   that passes the readTs / SinceTs / internal-key / banned checks *)
Theorem C05_not_hidden_is_first : forall o rts banned pre e post,
  ssorted (pre ++ e :: post) ->
  (hidden o rts banned (pre ++ e :: post) e = false <->
   forall e', In e' pre -> e_key e' = e_key e -> skip_common o rts banned e' = true).
Proof. exact hidden_false_first. Qed.
Print Assumptions C05_not_hidden_is_first.

(* soundness and completeness per key (no Prefix cut): e is yielded iff it is the first
   non-skipped entry of its key and live; every key whose newest non-skipped version is live
   appears; the item found under key k is exactly that version *)
Theorem C05_forward_in_iff_first : forall o rts now banned m e,
  io_all o = false -> ssorted m -> cut o m = m ->
  (In e (fwd_items o rts now banned m None) <->
   first_nonskip o rts banned m (e_key e) = Some e /\ deleted_or_expired e now = false).
Proof. exact fwd_items_in_iff_first. Qed.
Print Assumptions C05_forward_in_iff_first.

Theorem C05_forward_complete : forall o rts now banned m k e,
  io_all o = false -> ssorted m -> cut o m = m ->
  first_nonskip o rts banned m k = Some e -> deleted_or_expired e now = false ->
  In e (fwd_items o rts now banned m None).
Proof. exact fwd_items_complete. Qed.
Print Assumptions C05_forward_complete.

Theorem C05_forward_lookup : forall o rts now banned m k,
  io_all o = false -> ssorted m -> cut o m = m ->
  find (fun e => bytes_eqb (e_key e) k) (fwd_items o rts now banned m None) =
  match first_nonskip o rts banned m k with
  | Some e => if deleted_or_expired e now then None else Some e
  | None => None
  end.
Proof. exact fwd_items_lookup. Qed.
Print Assumptions C05_forward_lookup.

Theorem C05_cut_trivial : forall o m, io_reverse o = true \/ io_prefix o = [] -> cut o m = m.
Proof. intros o m [H|H]; [now apply cut_id_reverse|now apply cut_id_noprefix]. Qed.
Print Assumptions C05_cut_trivial.

(* ---- B: AllVersions, forward: every non-skipped entry (delete markers and expired entries
   included), in stream order = per key newest first ---- *)
Theorem C05_all_versions_forward : forall o rts now banned m,
  io_all o = true ->
  fwd_items o rts now banned m None = filter (fun e => negb (skip_common o rts banned e)) (cut o m).
Proof. exact fwd_items_all. Qed.
Print Assumptions C05_all_versions_forward.

Theorem C05_forward_keeps_stream_order : forall o rts now banned m,
  ssorted m -> ssorted (fwd_items o rts now banned m None).
Proof. exact fwd_items_sorted. Qed.
Print Assumptions C05_forward_keeps_stream_order.

(* ---- C: reverse (the stream is read backwards: rev m), both modes ---- *)
Theorem C05_reverse_is_spec : forall o rts now banned m,
  ssorted m -> rev_items o rts now banned (rev m) None = rev (filter (emit o rts now banned m) m).
Proof. exact rev_items_spec. Qed.
Print Assumptions C05_reverse_is_spec.

Theorem C05_all_versions_reverse : forall o rts now banned m,
  io_all o = true -> ssorted m ->
  rev_items o rts now banned (rev m) None = rev (filter (fun e => negb (skip_common o rts banned e)) m).
Proof. exact rev_items_all. Qed.
Print Assumptions C05_all_versions_reverse.

(* reverse yields the forward result backwards (AllVersions: per key OLDEST first) *)
Theorem C05_reverse_is_rev_forward : forall o rts now banned m,
  ssorted m -> cut o m = m ->
  rev_items o rts now banned (rev m) None = rev (fwd_items o rts now banned m None).
Proof. exact rev_items_rev_fwd. Qed.
Print Assumptions C05_reverse_is_rev_forward.

Theorem C05_iterate_reverse_is_rev : forall o rts now banned m,
  io_reverse o = false -> io_prefix o = [] -> io_prefix_is_key o = false -> ssorted m ->
  iterate (set_reverse true o) rts now banned m [] = rev (iterate o rts now banned m []).
Proof. exact iterate_reverse_is_rev. Qed.
Print Assumptions C05_iterate_reverse_is_rev.

Theorem C05_reverse_keys_decreasing : forall o rts now banned m,
  io_reverse o = false -> io_all o = false -> io_prefix o = [] -> io_prefix_is_key o = false -> ssorted m ->
  StronglySorted (fun a b => klt b a) (map e_key (iterate (set_reverse true o) rts now banned m [])).
Proof. exact iterate_reverse_keys_decreasing. Qed.
Print Assumptions C05_reverse_keys_decreasing.

(* ---- A.3 Seek ---- *)
(* the cursor: Seek lands on the first entry >= (k, readTs) / in reverse on the first <= (k, 0) *)
Theorem C05_seek_ge_is_suffix : forall m k ts, ssorted m -> seek_ge m k ts = filter (key_le k ts) m.
Proof. exact seek_ge_filter. Qed.
Print Assumptions C05_seek_ge_is_suffix.
Theorem C05_seek_le_rev_is_suffix : forall m k,
  ssorted m -> seek_le_rev (rev m) k = filter (fun e => le_key (e_key e) k) (rev m).
Proof. intros m k H. apply seek_le_rev_filter. now apply ssorted_rev_dsorted. Qed.
Print Assumptions C05_seek_le_rev_is_suffix.

(* forward Seek(k): exactly the items of the un-seeked iteration whose key is >= k, provided k is
   not below the Prefix (always true without Prefix: kle [] k) *)
Theorem C05_seek_forward : forall o rts now banned m seek,
  io_reverse o = false -> io_prefix_is_key o = false -> ssorted m -> kle (io_prefix o) seek ->
  iterate o rts now banned m seek = filter (fbound seek) (iterate o rts now banned m []).
Proof. exact iterate_seek_forward. Qed.
Print Assumptions C05_seek_forward.

(* without that proviso the statement is FALSE of iterator.go as coded: after Seek(k), k below the
   Prefix, the loop `for iitr.Valid() && hasPrefix(it)` stops on the first entry (which is outside
   the prefix) and the iterator is exhausted although keys >= k inside the Prefix exist.
   Full-strength statement refuted:
     forall o m seek, forward -> ssorted m ->
       iterate o m seek = filter (has Prefix && key >= seek) (iterate (no_prefix o) m [])        *)
Theorem C05_seek_below_prefix_refuted :
  exists o rts now m seek,
    io_reverse o = false /\ io_prefix_is_key o = false /\ ssorted m /\
    iterate o rts now (fun _ => false) m seek = [] /\
    filter (fun e => is_prefix (io_prefix o) (e_key e) && fbound seek e)
           (iterate (no_prefix o) rts now (fun _ => false) m []) <> [].
Proof. exact iterate_seek_below_prefix_refuted. Qed.
Print Assumptions C05_seek_below_prefix_refuted.

(* reverse Seek(k) (no Prefix): the items of the un-seeked reverse iteration with key <= k *)
Theorem C05_seek_reverse : forall o rts now banned m seek,
  io_reverse o = true -> io_prefix o = [] -> io_prefix_is_key o = false -> ssorted m ->
  iterate o rts now banned m seek = filter (rbound seek) (iterate o rts now banned m []).
Proof. exact iterate_seek_reverse. Qed.
Print Assumptions C05_seek_reverse.

(* ---- A.4 Prefix ---- *)
(* keys with a common prefix are contiguous in byte order (initial segment of the keys >= p) *)
Theorem C05_prefix_contiguous : forall p a b, kle p a -> kle a b -> is_prefix p b = true -> is_prefix p a = true.
Proof. exact prefix_block. Qed.
Print Assumptions C05_prefix_contiguous.

(* Prefix = p: exactly the items of the unrestricted iteration whose key has prefix p
   (iteration stops exactly at the prefix boundary, and starts exactly at it) *)
Theorem C05_prefix_forward : forall o rts now banned m,
  io_reverse o = false -> io_prefix_is_key o = false -> ssorted m ->
  iterate o rts now banned m [] =
  filter (fun e => is_prefix (io_prefix o) (e_key e)) (iterate (no_prefix o) rts now banned m []).
Proof. exact iterate_prefix_forward. Qed.
Print Assumptions C05_prefix_forward.

(* Seek and Prefix together (partial: the start position is not below the Prefix) *)
Theorem C05_iterate_forward_partial : forall o rts now banned m seek,
  io_reverse o = false -> io_prefix_is_key o = false -> ssorted m ->
  kle (io_prefix o) (match seek with [] => io_prefix o | _ => seek end) ->
  iterate o rts now banned m seek =
  filter (fun e => is_prefix (io_prefix o) (e_key e) && fbound (match seek with [] => io_prefix o | _ => seek end) e)
         (filter (emit o rts now banned m) m).
Proof. exact iterate_fwd_spec. Qed.
Print Assumptions C05_iterate_forward_partial.

(* reverse with a Prefix, as coded (hasPrefix is not consulted in reverse; Valid() cuts): for a
   start key inside the Prefix, the items with the prefix and key <= start.  Without Seek the
   start key is the Prefix itself, so only the key equal to the Prefix can be yielded — the
   documented behaviour ("append 0xFF to the prefix and Seek there") *)
Theorem C05_iterate_reverse_as_coded : forall o rts now banned m seek,
  io_reverse o = true -> io_prefix_is_key o = false -> ssorted m ->
  is_prefix (io_prefix o) (match seek with [] => io_prefix o | _ => seek end) = true ->
  iterate o rts now banned m seek =
  filter (fun e => is_prefix (io_prefix o) (e_key e) && rbound (match seek with [] => io_prefix o | _ => seek end) e)
         (rev (filter (emit o rts now banned m) m)).
Proof. exact iterate_rev_spec. Qed.
Print Assumptions C05_iterate_reverse_as_coded.

(* NewKeyIterator(key) (Prefix = key, prefixIsKey; the Go code also sets AllVersions): exactly
   the emitted entries of that key — with AllVersions all its non-skipped versions, newest first *)
Theorem C05_key_iterator : forall o rts now banned m,
  io_reverse o = false -> io_prefix_is_key o = true -> ssorted m ->
  iterate o rts now banned m [] =
  filter (fun e => bytes_eqb (e_key e) (io_prefix o)) (filter (emit o rts now banned m) m).
Proof. exact iterate_key_spec. Qed.
Print Assumptions C05_key_iterator.

Theorem C05_emit_all_versions : forall o rts now banned m e,
  io_all o = true -> emit o rts now banned m e = negb (skip_common o rts banned e).
Proof. exact emit_all. Qed.
Print Assumptions C05_emit_all_versions.

(* ---- SinceTs, readTs, internal keys, banned namespaces: every item of every iteration (any
   direction, mode, Prefix, seek key) passed the parseItem checks and Valid() ---- *)
Theorem C05_items_pass_checks : forall o rts now banned m seek e,
  ssorted m -> In e (iterate o rts now banned m seek) ->
  In e m /\ skip_common o rts banned e = false /\ item_valid o e = true /\
  (io_all o = false -> deleted_or_expired e now = false).
Proof. exact iterate_sound. Qed.
Print Assumptions C05_items_pass_checks.

Theorem C05_checks_meaning : forall o rts banned e,
  skip_common o rts banned e = false <->
  (io_internal o = true \/ is_internal e = false) /\ e_ver e <= rts /\
  (io_since o = 0 \/ io_since o < e_ver e) /\ (is_internal e = true \/ banned (e_key e) = false).
Proof. exact skip_common_false_iff. Qed.
Print Assumptions C05_checks_meaning.

(* ---- D: the tie to the tree and to the MVCC specification ---- *)
Theorem C05_merged_sorted : forall d, GetProofs.lsm_wf d -> ssorted (merged d).
Proof. exact merged_sorted. Qed.
Print Assumptions C05_merged_sorted.

(* on a well-formed tree a default forward iteration returns, in strictly increasing key order,
   exactly what Get returns key by key *)
Theorem C05_iterate_is_get : forall d o rts now,
  GetProofs.lsm_wf d -> nodup_kv (GetProofs.all_entries d) ->
  io_reverse o = false -> io_all o = false -> io_prefix o = [] -> io_prefix_is_key o = false -> io_since o = 0 ->
  let l := iterate o rts now (fun _ => false) (merged d) [] in
  StronglySorted klt (map e_key l) /\
  (forall e, In e l <-> allowed o (e_key e) = true /\ vis_of now (db_get d (e_key e) rts) = Some e).
Proof. exact iterate_is_get. Qed.
Print Assumptions C05_iterate_is_get.

Theorem C05_iterate_lookup_is_get : forall d o rts now k,
  GetProofs.lsm_wf d -> nodup_kv (GetProofs.all_entries d) ->
  io_reverse o = false -> io_all o = false -> io_prefix o = [] -> io_prefix_is_key o = false -> io_since o = 0 ->
  find (fun e => bytes_eqb (e_key e) k) (iterate o rts now (fun _ => false) (merged d) []) =
  if allowed o k then vis_of now (db_get d k rts) else None.
Proof. exact iterate_lookup_is_get. Qed.
Print Assumptions C05_iterate_lookup_is_get.

(* every reachable state (normal mode, sequential histories, no drop prefixes — as C01): a
   transaction without pending writes, reading at or above every discard timestamp used so far,
   iterating forward with default options: the result is THE list, in strictly increasing key
   order, of the entries e with Spec.vis (applied writes) (e_key e) readTs now = Some e, over all
   keys the iterator may show (`allowed`: not `!badger!`-prefixed unless InternalAccess).
   Iteration returns exactly what Get returns for every key, in order, and nothing else. *)
From Verif Require Import Sys SysReopen SysTree.
From Verif Require TreeSpecProofs.
Theorem C05_forward_equals_spec : forall detect nkeep nlevels next ops,
  (0 < nlevels)%nat -> Forall op_plain ops ->
  let s := snd (exec_tree (init_sys false detect nkeep nlevels next) ops 0) in
  forall x o,
    pend_src x = [] ->
    io_reverse o = false -> io_all o = false -> io_prefix o = [] -> io_prefix_is_key o = false -> io_since o = 0 ->
    TreeSpecProofs.max_discard ops <= x_read x -> TreeSpecProofs.max_now ops <= s_now s ->
    let l := txn_iterate s x o [] in
    let shown := fun e => allowed o (e_key e) = true /\ vis (s_writes s) (e_key e) (x_read x) (s_now s) = Some e in
    StronglySorted klt (map e_key l) /\
    (forall e, In e l <-> shown e) /\
    (forall l', StronglySorted klt (map e_key l') -> (forall e, In e l' <-> shown e) -> l' = l).
Proof. exact forward_equals_spec. Qed.
Print Assumptions C05_forward_equals_spec.

Theorem C05_no_pending_cases : forall x, x_update x = false \/ x_pend x = [] -> pend_src x = [].
Proof. intros x [H|H]; [now apply pend_src_readonly|now apply pend_src_nopending]. Qed.
Print Assumptions C05_no_pending_cases.

(* ---- the hypotheses are satisfiable, on a stream with keys that are prefixes of one another,
   0x00 and 0xFF bytes, several versions, a version above readTs, a delete marker, an expired
   entry and an internal key ---- *)
Definition ex_stream : src :=
  [ mkE [1] 7 0 0 0 [70];           (* above readTs 6 *)
    mkE [1] 5 1 0 0 [];             (* delete marker: key [1] is invisible *)
    mkE [1] 3 0 0 0 [30];
    mkE [1; 0] 4 0 0 0 [40];
    mkE [1; 0] 2 0 0 0 [20];
    mkE [1; 0; 255] 6 0 0 0 [60];
    mkE [1; 255] 1 0 0 9 [10];      (* expires at 9: expired at now = 10 *)
    mkE [1; 255; 0] 2 0 0 0 [21];
    mkE [2] 3 0 0 0 [31];
    mkE (c_badgerPrefix ++ [1]) 1 0 0 0 [11] ].
Definition ex_default : iopts := mkIO false false [] false 0 false.
Definition nobanned : bytes -> bool := fun _ => false.

Example C05_ex_stream_sorted : ssorted ex_stream.
Proof. repeat constructor. Qed.

Example C05_ex_forward :
  iterate ex_default 6 10 nobanned ex_stream [] =
  [mkE [1; 0] 4 0 0 0 [40]; mkE [1; 0; 255] 6 0 0 0 [60]; mkE [1; 255; 0] 2 0 0 0 [21]; mkE [2] 3 0 0 0 [31]].
Proof. vm_compute. reflexivity. Qed.

Example C05_ex_reverse :
  iterate (set_reverse true ex_default) 6 10 nobanned ex_stream [] =
  rev (iterate ex_default 6 10 nobanned ex_stream []).
Proof. vm_compute. reflexivity. Qed.

Example C05_ex_prefix_and_seek :
  iterate (mkIO false false [1; 0] false 0 false) 6 10 nobanned ex_stream [] =
    [mkE [1; 0] 4 0 0 0 [40]; mkE [1; 0; 255] 6 0 0 0 [60]] /\
  kle [1; 0] [1; 0; 1] /\
  iterate (mkIO false false [1; 0] false 0 false) 6 10 nobanned ex_stream [1; 0; 1] = [mkE [1; 0; 255] 6 0 0 0 [60]] /\
  iterate (set_reverse true ex_default) 6 10 nobanned ex_stream [1; 255] =
    [mkE [1; 0; 255] 6 0 0 0 [60]; mkE [1; 0] 4 0 0 0 [40]].
Proof. vm_compute. repeat split; reflexivity || discriminate. Qed.

Example C05_ex_all_versions_and_key_iterator :
  iterate (mkIO false true [] false 0 false) 6 10 nobanned ex_stream [] =
    filter (fun e => negb (skip_common (mkIO false true [] false 0 false) 6 nobanned e)) ex_stream /\
  iterate (mkIO false true [1] true 0 false) 6 10 nobanned ex_stream [] =
    [mkE [1] 5 1 0 0 []; mkE [1] 3 0 0 0 [30]] /\
  iterate (mkIO false true [] false 4 true) 6 10 nobanned ex_stream [] =
    [mkE [1] 5 1 0 0 []; mkE [1; 0; 255] 6 0 0 0 [60]].
Proof. vm_compute. repeat split; reflexivity. Qed.
