(* C15 — Value-log GC never changes, loses or resurrects data.  Statements only; every proof is
   `exact <lemma>` from B/GcProofs.v, B/GcInvProofs.v, B/GcStepProofs.v, B/GcWitnessProofs.v.

   Vocabulary (B/Gc.v, the model the correspondence evaluates against /repo/value.go,
   iterator.go, levels.go on every run):
     xsys                     the system of B/Sys.v whose tree holds PHYSICAL entries (a value is
                              inline, or a pointer [fid; idx] into the value log), the value log
                              (every file with its records; deleted file ids in v_gone), the rewrite
                              in flight (x_gc: file, clamp = gcDiscardTs, wb), open iterators
                              (numActiveIterators), filesToBeDeleted, items held from Txn.Get,
                              x_dmax = largest discard timestamp any compaction has used (ghost)
     xstep s o = XOk s' tags  label o is accepted in state s (Base o = a label of B/Sys.v; CommitV =
                              commit + observed value-log order; GetHold / ItemValue; ItOpen / ItRun
                              / ItClose; GcStart fid / GcScan / GcWriteBack / GcDelete deferred /
                              GcEnd = the phases of valueLog.rewrite)
     xexec s ops i tags       replay of a history; (None, s', _) = every label accepted
     deref v e / view v e     the entry with its value (None = dangling pointer) / what the API
                              returns (dangling pointer: EMPTY value, nil error)
     vread s k ts             Txn.Get at read timestamp ts: newest version <= ts, None if it is a
                              tombstone / expired, its value through `view`
     gc_label o               o is one of GcStart, GcScan, GcWriteBack, GcDelete, GcEnd, ItOpen, ItClose
     inv s                    the invariant of B/GcInvProofs.v (pointers read records of their own
                              key@version; all copies of a key@version agree; no live lookup result
                              at or above x_dmax points into a deleted file; every entry waiting in
                              wb is still what a lookup of its key@version gives; every other record
                              of the file being rewritten / of a file pending deletion is referenced
                              by no live lookup result)
     admissible s o           what is assumed about the interleaved labels:
                                commit   — writes versions that are new for their keys (normal mode:
                                           always; managed mode: caller contract, finding F10);
                                compact  — adm_compact: the result is well formed, has only entries
                                           of the old tree, every lookup at or above its discard
                                           timestamp is won by the entry that won it before
                                           (SAME-KEY@VERSION PRECEDENCE: the new copy written by GC
                                           must keep winning over the old one; finding F8 violates
                                           it), and a key waiting in wb is still found at or above
                                           its version (keeps_pending; findings F23/F26 violate it
                                           although the #2286 clamp holds);
                                SetNow   — the clock does not go back;  everything else: True
     run_ok s ops             every label of the history is admissible in the state it runs in.

   Reads are compared at timestamps >= x_dmax only: below the discard timestamp no transaction
   can read (normal mode) / may read (managed mode), and a version dropped there by a compaction
   can legitimately be written back. *)
From Verif Require Import Bytes Keys Consts Spec Lsm Compact Iter Sys Gc.
From Verif Require CompactProofs GetProofs GcProofs GcInvProofs GcStepProofs GcWitness GcWitnessProofs.
Open Scope N_scope.
Import CompactProofs GetProofs GcProofs GcInvProofs GcStepProofs GcWitness GcWitnessProofs.

(* ---------------------------------------------------------------------------------------- *)
(* C15_reads_unchanged                                                                      *)
(* ---------------------------------------------------------------------------------------- *)
(* FULL STATEMENT (C15_reads_unchanged) — FALSE for the pinned tree, see C15_reads_unchanged_refuted
   and C15_later_reads_refuted:
     for every history accepted by the model (any interleaving of the rewrite phases with commits,
     deletes, flushes, compactions that respect the #2286 clamp, reads, iterators; normal and
     managed mode), every GC label leaves every read at or above the discard timestamp unchanged,
     and no later label makes a key that GC wrote back visible again after it was deleted.
   What is proved: the statement for histories whose labels are `admissible`. *)
Theorem C15_reads_unchanged_partial :
  forall managed detect nkeep nlevels next thr maxent ops s tags o s' tg,
  run_ok (init_x managed detect nkeep nlevels next thr maxent) ops ->
  xexec (init_x managed detect nkeep nlevels next thr maxent) ops 0 [] = (None, s, tags) ->
  gc_label o = true -> xstep s o = XOk s' tg ->
  forall k ts, x_dmax s <= ts -> vread s' k ts = vread s k ts.
Proof. exact GcStepProofs.gc_reads_unchanged_all_histories. Qed.
Print Assumptions C15_reads_unchanged_partial.

(* the same for any state that satisfies the invariant *)
Theorem C15_gc_step_reads_unchanged : forall s o s' tg,
  inv s -> gc_label o = true -> xstep s o = XOk s' tg ->
  forall k ts, x_dmax s <= ts -> vread s' k ts = vread s k ts.
Proof. exact GcStepProofs.gc_step_reads_unchanged. Qed.
Print Assumptions C15_gc_step_reads_unchanged.

(* in particular no GC label brings back a key that is not visible *)
Theorem C15_no_resurrection_at_gc_steps : forall s o s' tg,
  inv s -> gc_label o = true -> xstep s o = XOk s' tg ->
  forall k ts, x_dmax s <= ts -> vread s k ts = None -> vread s' k ts = None.
Proof. exact GcStepProofs.gc_step_no_resurrection. Qed.
Print Assumptions C15_no_resurrection_at_gc_steps.

(* the invariant holds initially and every accepted, admissible label preserves it — commits,
   flushes and compactions between any two rewrite phases included *)
Theorem C15_invariant_initial : forall managed detect nkeep nlevels next thr maxent,
  inv (init_x managed detect nkeep nlevels next thr maxent).
Proof. exact GcStepProofs.init_inv. Qed.
Print Assumptions C15_invariant_initial.

Theorem C15_invariant_preserved : forall s o s' tg,
  inv s -> admissible s o -> xstep s o = XOk s' tg -> inv s'.
Proof. exact GcStepProofs.xstep_inv. Qed.
Print Assumptions C15_invariant_preserved.

Theorem C15_invariant_all_histories : forall ops s i tags s' tags',
  inv s -> run_ok s ops -> xexec s ops i tags = (None, s', tags') -> inv s'.
Proof. exact GcStepProofs.xexec_inv. Qed.
Print Assumptions C15_invariant_all_histories.

(* the write-back itself: the copies get NEW pointers and land in the memtable at the SAME
   key@version; with the entries of wb still being what lookups of their key@version give, the
   invariant survives and NO lookup (any key, any timestamp) changes its visible result *)
Theorem C15_write_back : forall d v g todel it dmax now v' pes,
  Inv d v (Some g) todel it dmax now -> g_scanned g = true ->
  write_req v (map snd (g_wb g)) = (v', pes) ->
  Inv (apply_entries d pes) v' (Some (mkGc (g_fid g) (g_clamp g) true [])) todel it dmax now
  /\ forall k ts, gvis v' (apply_entries d pes) now k ts = gvis v d now k ts.
Proof. exact GcInvProofs.writeback_inv. Qed.
Print Assumptions C15_write_back.

(* the scan (db.get of the record's own versioned key, discardEntry, pointer comparison) keeps
   exactly the records whose key@version lookup returns that very pointer: the kept ones are what
   lookups give, the others are referenced by no live lookup result *)
Theorem C15_scan_keeps_what_is_referenced : forall d v gc todel it dmax now fid rs k ts e idx,
  Inv d v gc todel it dmax now -> vfind (v_files v) fid = Some rs ->
  db_get d k ts = Some e -> points_to e fid idx ->
  In idx (map fst (gc_scan d now fid 0 rs)) \/ deadb now e.
Proof. exact GcInvProofs.scan_J. Qed.
Print Assumptions C15_scan_keeps_what_is_referenced.

(* the #2286 lemma: while a rewrite is in flight the model only accepts compactions whose
   discard timestamp is at most the clamp, and such a compaction drops no version newer than
   the clamp — in particular no tombstone committed after the rewrite started *)
Theorem C15_clamp_2286 : forall s c out s' tg g e,
  xstep s (Base (Compact c out)) = XOk s' tg -> x_gc s = Some g -> 0 < g_clamp g ->
  c_drop c = [] -> Forall sorted (compaction_inputs (l_levels (x_db s)) c) ->
  In e (merge_all (compaction_inputs (l_levels (x_db s)) c)) -> g_clamp g < e_ver e ->
  In e (compaction_output (l_levels (x_db s)) c).
Proof. exact GcStepProofs.clamp_protects_newer_versions. Qed.
Print Assumptions C15_clamp_2286.

(* what the filter needs in order to keep a version waiting in wb: no marker at or below the
   discard timestamp above it — exactly what F23 lacks (the tombstone is older than the clamp) *)
Theorem C15_filter_keeps_unshadowed : forall p m e,
  cp_drop p = [] -> sorted m -> In e m ->
  (forall mk, In mk m -> e_key mk = e_key e -> e_ver e < e_ver mk -> cp_discard p < e_ver mk) ->
  deleted_or_expired e (cp_now p) = false ->
  In e (compact_filter p m).
Proof. exact GcStepProofs.filter_keeps_unshadowed. Qed.
Print Assumptions C15_filter_keeps_unshadowed.

(* REFUTED (finding F23): a history accepted by the model label by label — so its compaction,
   which runs between scan and write-back, respects the clamp — in which key "k", deleted before
   the rewrite started and invisible at timestamp 3, is visible again (version 1) after
   GcWriteBack.  Recorded from the implementation: harness/gcscen.go gcScenarioF23 *)
Theorem C15_reads_unchanged_refuted :
  exists s tags s' tg e,
    xexec w_init w_f23_before 0 [] = (None, s, tags) /\
    xstep s GcWriteBack = XOk s' tg /\
    x_dmax s <= 3 /\ vread s key_k 3 = None /\ vread s' key_k 3 = Some e /\ e_ver e = 1.
Proof. exact GcWitnessProofs.witness_f23. Qed.
Print Assumptions C15_reads_unchanged_refuted.

(* REFUTED (finding F26): the delete is committed DURING the rewrite (protected by the clamp
   while it lasts); the write-back copy sits above the tombstone; after GcEnd an ordinary
   compaction drops the tombstone and "k" is visible again.  gcScenarioF26 *)
Theorem C15_later_reads_refuted :
  exists s tags s' tg e,
    xexec w_init w_f26_before 0 [] = (None, s, tags) /\ x_gc s = None /\
    xstep s w_f26_compact = XOk s' tg /\
    x_dmax s' <= 4 /\ vread s key_k 4 = None /\ vread s' key_k 4 = Some e /\ e_ver e = 1.
Proof. exact GcWitnessProofs.witness_f26. Qed.
Print Assumptions C15_later_reads_refuted.

(* ---------------------------------------------------------------------------------------- *)
(* C15_open_items_readable                                                                  *)
(* ---------------------------------------------------------------------------------------- *)
(* FULL STATEMENT (C15_open_items_readable) — FALSE for the pinned tree (finding F2):
     every item held by an open transaction (from Txn.Get or from an iterator) dereferences to
     the value it had when it was obtained, for as long as the transaction is open.
   Only iterators are counted (numActiveIterators): *)
Theorem C15_open_items_readable_refuted :
  exists s tags e x,
    xexec w_init w_f2 0 [] = (None, s, tags) /\
    lookup (x_items s) 0 = Some e /\
    lookup (s_txns (x_sys s)) 2 = Some x /\ x_done x = false /\
    e_key e = key_k /\ deref (x_v s) e = None /\ e_val (view (x_v s) e) = [].
Proof. exact GcWitnessProofs.witness_f2. Qed.
Print Assumptions C15_open_items_readable_refuted.

(* PARTIAL 1: an item keeps its value as long as its value-log file has not been deleted (e.g.
   the value is read before the rewrite finishes), through any admissible history *)
Theorem C15_open_items_readable_partial_file_exists : forall s ops i tags s' tags' e x,
  inv s -> run_ok s ops -> xexec s ops i tags = (None, s', tags') ->
  deref (x_v s) e = Some x ->
  (forall fid, ptr_fid e = Some fid -> gone (v_gone (x_v s')) fid = false) ->
  deref (x_v s') e = Some x.
Proof. exact GcStepProofs.held_item_readable_while_file_exists. Qed.
Print Assumptions C15_open_items_readable_partial_file_exists.

(* PARTIAL 2: while some iterator is open no file is deleted (deferred to the last close), so
   everything that dereferences when the iterator is opened — its items included — still
   dereferences, to the same entry, while it stays open *)
Theorem C15_iterator_pins_files : forall ops s i tags s' tags',
  iters_open s ops -> xexec s ops i tags = (None, s', tags') -> v_gone (x_v s') = v_gone (x_v s).
Proof. exact GcStepProofs.iterator_pins_files. Qed.
Print Assumptions C15_iterator_pins_files.

Theorem C15_open_items_readable_partial_iterator : forall s ops i tags s' tags' e x,
  inv s -> run_ok s ops -> iters_open s ops -> xexec s ops i tags = (None, s', tags') ->
  deref (x_v s) e = Some x -> deref (x_v s') e = Some x.
Proof. exact GcStepProofs.iterator_items_readable. Qed.
Print Assumptions C15_open_items_readable_partial_iterator.

(* ---------------------------------------------------------------------------------------- *)
(* the hypotheses are satisfiable                                                           *)
(* ---------------------------------------------------------------------------------------- *)
(* two commits whose values go to the value log, then a complete rewrite of file 1: every label
   is admissible and accepted; the file is deleted at the end *)
Example C15_hypotheses_satisfiable :
  run_ok w_init w_ok /\ exists s tags, xexec w_init w_ok 0 [] = (None, s, tags) /\ v_gone (x_v s) = [1].
Proof. split; [exact GcWitnessProofs.w_ok_run_ok|exact GcWitnessProofs.w_ok_accepted]. Qed.

(* the item of the F2 witness did dereference (40 bytes) before the rewrite *)
Example C15_item_readable_before_gc :
  exists s tags e v,
    xexec w_init (firstn 12 w_f2) 0 [] = (None, s, tags) /\
    lookup (x_items s) 0 = Some e /\ deref (x_v s) e = Some v /\ length (e_val v) = 40%nat.
Proof. exact GcWitnessProofs.witness_f2_before. Qed.
