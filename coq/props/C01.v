(* C01 — Transactions read a consistent snapshot at their read timestamp.
   Statements only; proofs are `exact` of lemmas in B/*Proofs.v. *)
From Verif Require Import Bytes Keys Consts Spec Lsm.
From Verif Require LsmProofs.
Open Scope N_scope.

(* db.get's early return on an exact version match never changes the answer: the lookup is
   "the first candidate of maximal version, in source-precedence order" *)
Theorem C01_early_exit_is_optimisation : forall cs ts best,
  Forall (LsmProofs.ver_le ts) cs -> LsmProofs.ver_le ts best ->
  (forall b, best = Some b -> e_ver b <> ts) ->
  scan cs ts best = LsmProofs.first_max cs best.
Proof. exact LsmProofs.scan_first_max. Qed.
Print Assumptions C01_early_exit_is_optimisation.

(* a source never returns an entry of another key or of a version above the read timestamp *)
Theorem C01_source_lookup_sound : forall s k ts e,
  src_get s k ts = Some e -> e_key e = k /\ e_ver e <= ts.
Proof. exact LsmProofs.src_get_ver_le. Qed.
Print Assumptions C01_source_lookup_sound.

(* the lookup is exactly "newest stored version at or below the read timestamp", over every
   memtable and table of the tree (no version is shadowed by source order) *)
From Verif Require CompactProofs GetProofs.
Theorem C01_get_is_newest_version : forall d k ts,
  GetProofs.lsm_wf d -> db_get d k ts = CompactProofs.newest (GetProofs.all_entries d) k ts.
Proof. exact GetProofs.db_get_newest. Qed.
Print Assumptions C01_get_is_newest_version.

(* ---- end to end (normal mode, sequential histories, no drop prefixes): in every state a history
   reaches, a Get at a read timestamp at or above every discard timestamp a compaction has used
   so far (and evaluated at a wall-clock time at or after every compaction's) returns exactly
   what the MVCC specification Spec.vis says about the list of applied writes.
   Proof: B/TreeSpecProofs.v (on top of the C12 tree invariant and the C11 invariant). *)
From Verif Require Import Compact Iter Sys SysReopen SysTree.
From Verif Require TreeSpecProofs.
Theorem C01_get_equals_spec : forall detect nkeep nlevels next ops,
  (0 < nlevels)%nat -> Forall op_plain ops ->
  let s := snd (exec_tree (init_sys false detect nkeep nlevels next) ops 0) in
  forall k ts now, TreeSpecProofs.max_discard ops <= ts -> TreeSpecProofs.max_now ops <= now ->
    CompactProofs.vis_of now (db_get (s_db s) k ts) = vis (s_writes s) k ts now.
Proof. exact TreeSpecProofs.get_equals_spec. Qed.
Print Assumptions C01_get_equals_spec.

(* the invariant behind it, per label: the reads of the tree and the specification over the
   ghost list of writes stay equal above the largest discard timestamp used so far *)
Theorem C01_refinement_step : forall s o s' D W,
  TreeSpecProofs.SpecInv s D W -> op_plain o -> step_tree s o = Ok s' ->
  TreeSpecProofs.SpecInv s' (N.max D (TreeSpecProofs.op_discard o)) (N.max W (TreeSpecProofs.op_now o)).
Proof. exact TreeSpecProofs.step_tree_spec. Qed.
Print Assumptions C01_refinement_step.

(* Spec.vis is "the newest write at or below ts" when no key@version is written twice *)
Theorem C01_spec_is_newest : forall ws k ts now,
  CompactProofs.nodup_kv ws -> vis ws k ts now = CompactProofs.vis_of now (CompactProofs.newest ws k ts).
Proof. exact TreeSpecProofs.vis_newest. Qed.
Print Assumptions C01_spec_is_newest.
