(* C01 — Transactions read a consistent snapshot at their read timestamp.
   Statements only; proofs are `exact` of lemmas in B/*Proofs.v. *)
From Verif Require Import Bytes Keys Consts Spec Lsm.
From Verif Require LsmProofs.
Open Scope N_scope.

(* db.get's early return on an exact version match never changes the answer: the lookup is
   "the first candidate of maximal version, in source-precedence order" *)
Theorem C01_early_exit_is_optimisation : forall cs ts best,
  Forall (LsmProofs.ver_le ts) cs -> LsmProofs.ver_le ts best ->
  (forall b, best = Some b -> e_ver b <> ts) ->
  scan cs ts best = LsmProofs.first_max cs best.
Proof. exact LsmProofs.scan_first_max. Qed.
Print Assumptions C01_early_exit_is_optimisation.

(* a source never returns an entry of another key or of a version above the read timestamp *)
Theorem C01_source_lookup_sound : forall s k ts e,
  src_get s k ts = Some e -> e_key e = k /\ e_ver e <= ts.
Proof. exact LsmProofs.src_get_ver_le. Qed.
Print Assumptions C01_source_lookup_sound.

(* the lookup is exactly "newest stored version at or below the read timestamp", over every
   memtable and table of the tree (no version is shadowed by source order) *)
From Verif Require CompactProofs GetProofs.
Theorem C01_get_is_newest_version : forall d k ts,
  GetProofs.lsm_wf d -> db_get d k ts = CompactProofs.newest (GetProofs.all_entries d) k ts.
Proof. exact GetProofs.db_get_newest. Qed.
Print Assumptions C01_get_is_newest_version.
