(* C30 — Sequence numbers are unique and increasing, across restarts and crashes.
   Model: coq/B/Sequence.v (GetSequence / Next / Release / updateLease as update transactions;
   every call split at its transaction's snapshot and commit so that calls of different objects
   interleave arbitrarily; Restart = close/re-open or crash: objects forgotten, store kept).

   The pinned code violates the property: updateLease assigns seq.next and seq.leased inside the
   transaction closure; when the commit then fails (ErrConflict against a concurrent Sequence
   object of the same key, or ErrBlockedWrites during DropAll/DropPrefix) the object keeps a
   lease that was never stored and hands out its numbers on the following calls.
     FULL STATEMENT (false of the pinned code, see C30_unique_refuted / C30_increasing_refuted):
       forall ls k i, let s := fst (exec false init ls) in
         st_wrapped s = false -> NoDup (nums_of_key s k) /\ StronglySorted N.lt (nums_of_obj s i)
   It is proved (a) for the pinned code under the narrowest hypothesis that excludes the defect:
   no call is made on an object after one of its lease updates failed (ghost flag st_misuse), and
   (b) unconditionally for the repaired code (fx = true: assign after the commit succeeded).
   st_wrapped = false: no lease computation wrapped around 2^64 (uint64). *)
From Coq Require Import List NArith Bool Sorted.
From Verif Require Import Sequence.
From Verif Require SequenceProofs.
Import ListNotations.
Open Scope N_scope.

(* ---- refutation of the full statement on the faithful model (both replayed on the real DB by
        the harness on every run: c30WitnessBlocked / c30WitnessConflict) ---- *)
Definition nexts o (n : nat) := repeat (NextCall o) n.   (* served from the lease: no transaction *)

(* one goroutine: A's refresh fails with ErrBlockedWrites, A goes on; B leases the same numbers *)
Definition witness_blocked : list label :=
  [GetCall 1 5; Ret 0 false] ++ nexts 0 5
  ++ [NextCall 0; Ret 0 true]            (* Next -> ErrBlockedWrites; next = 5, leased = 10, stored = 5 *)
  ++ [NextCall 0]                        (* A returns 5 *)
  ++ [GetCall 1 5; Ret 1 false; NextCall 1].   (* B leases [5,10) and returns 5 *)

Theorem C30_unique_refuted : exists ls, let s := fst (exec false init ls) in
  st_wrapped s = false /\ ~ NoDup (nums_of_key s 1).
Proof.
  exists witness_blocked. split; [vm_compute; reflexivity|].
  apply SequenceProofs.has_dupb_not_nodup. vm_compute. reflexivity.
Qed.
Print Assumptions C30_unique_refuted.

(* two objects refresh concurrently; the loser gets ErrConflict, is called again and returns the
   number the winner returned *)
Definition witness_conflict : list label :=
  [GetCall 1 1; Ret 0 false; GetCall 1 1; Ret 1 false; NextCall 0; NextCall 1]
  ++ [NextCall 0; NextCall 1; Ret 0 false; Ret 1 false]   (* 0 -> number 2, 1 -> ErrConflict *)
  ++ [NextCall 1].                                          (* 1 -> number 2 again *)

Theorem C30_unique_refuted_conflict :
  snd (exec false init witness_conflict)
  = [RPending; ROk; RPending; ROk; RNum 0; RNum 1; RPending; RPending; RNum 2; RErrConflict; RNum 2].
Proof. vm_compute. reflexivity. Qed.
Print Assumptions C30_unique_refuted_conflict.

(* per-object monotonicity breaks too: the poisoned A releases its never-stored lease over B's *)
Definition witness_order : list label :=
  [GetCall 1 5; Ret 0 false] ++ nexts 0 5
  ++ [NextCall 0; Ret 0 true]
  ++ [GetCall 1 5; Ret 1 false] ++ nexts 1 5   (* B returns 5..9 *)
  ++ [RelCall 0; Ret 0 false]            (* stored = 10 = A.leased: A writes its next = 5 *)
  ++ [NextCall 1; Ret 1 false].          (* B refreshes from 5 and returns 5 *)

Theorem C30_increasing_refuted : exists ls i, let s := fst (exec false init ls) in
  st_wrapped s = false /\ ~ StronglySorted N.lt (nums_of_obj s i).
Proof.
  exists witness_order, 1. split; [vm_compute; reflexivity|].
  apply SequenceProofs.sortedb_false_not_sorted. vm_compute. reflexivity.
Qed.
Print Assumptions C30_increasing_refuted.

(* ---- what holds of the pinned code ---- *)
Theorem C30_unique_partial : forall s, reachable false s -> st_misuse s = false -> st_wrapped s = false ->
  forall k, NoDup (nums_of_key s k).
Proof. exact (SequenceProofs.unique false). Qed.
Print Assumptions C30_unique_partial.

Theorem C30_increasing_partial : forall s, reachable false s -> st_misuse s = false -> st_wrapped s = false ->
  forall i, StronglySorted N.lt (nums_of_obj s i).
Proof. exact (SequenceProofs.increasing false). Qed.
Print Assumptions C30_increasing_partial.

(* restarts and crashes: every number ever handed out stays below the stored lease, so a later
   lease (which starts at the stored value) cannot contain it *)
Theorem C30_below_stored_partial : forall s, reachable false s -> st_misuse s = false -> st_wrapped s = false ->
  forall k i n, In (k, i, n) (st_hist s) -> n < sval (st_store s k).
Proof. exact (SequenceProofs.below_stored false). Qed.
Print Assumptions C30_below_stored_partial.

(* ---- the full statement for the repaired behaviour (fx = true) ---- *)
Theorem C30_unique : forall s, reachable true s -> st_wrapped s = false -> forall k, NoDup (nums_of_key s k).
Proof. exact SequenceProofs.unique_fixed. Qed.
Print Assumptions C30_unique.

Theorem C30_increasing : forall s, reachable true s -> st_wrapped s = false ->
  forall i, StronglySorted N.lt (nums_of_obj s i).
Proof. exact SequenceProofs.increasing_fixed. Qed.
Print Assumptions C30_increasing.

(* ---- seq.lock must span the release transaction ----
   Sequence.v's xstep has the lock explicit: L l are the calls as the code has them (Release and
   Next hold seq.lock across db.Update), SRelSnap / SRelCall / SRelRet / SRelSet are a Release that
   locks only around its accesses to seq.next / seq.leased.  For every interleaving of the
   locked calls the property holds (this is C30_unique_partial etc. read on xexec) ... *)
Theorem C30_locked_unique_partial : forall fx ls, locked_only ls -> let s := x_s (fst (xexec fx xinit ls)) in
  st_misuse s = false -> st_wrapped s = false -> forall k, NoDup (nums_of_key s k).
Proof. exact SequenceProofs.locked_unique. Qed.
Print Assumptions C30_locked_unique_partial.

Theorem C30_locked_increasing_partial : forall fx ls, locked_only ls -> let s := x_s (fst (xexec fx xinit ls)) in
  st_misuse s = false -> st_wrapped s = false -> forall i, StronglySorted N.lt (nums_of_obj s i).
Proof. exact SequenceProofs.locked_increasing. Qed.
Print Assumptions C30_locked_increasing_partial.

(* the stored lease is at least every number handed out + 1 — at every point of every interleaving,
   in particular whenever no object holds an unreleased lease (after Release / restart / crash) *)
Theorem C30_locked_below_stored_partial : forall fx ls, locked_only ls -> let s := x_s (fst (xexec fx xinit ls)) in
  st_misuse s = false -> st_wrapped s = false ->
  forall k i n, In (k, i, n) (st_hist s) -> n + 1 <= sval (st_store s k).
Proof. exact SequenceProofs.locked_below_stored. Qed.
Print Assumptions C30_locked_below_stored_partial.

(* ... and one Next of the same object between the snapshot and the commit of a split Release
   breaks it, with no failed lease update involved (st_misuse = false), also for the repaired
   updateLease (fx = true): the number served from memory is handed out again by the next lease *)
Definition witness_split (tail : list xlabel) : list xlabel :=
  [L (GetCall 1 5); L (Ret 0 false); L (NextCall 0); L (NextCall 0)]  (* 0, 1; next = 2, leased = stored = 5 *)
  ++ [SRelSnap 0; SRelCall 0]       (* snapshot (2, 5); closure: stored = 5 = leased0, writes 2 *)
  ++ [L (NextCall 0)]               (* Next, served from memory: 2 *)
  ++ [SRelRet 0 false; SRelSet 0]   (* stored := 2; leased := next = 3 *)
  ++ tail.
Definition split_same_object := witness_split [L (NextCall 0); L (Ret 0 false)].
Definition split_second_object := witness_split [L (GetCall 1 3); L (Ret 1 false); L (NextCall 1)].
Definition split_after_restart := witness_split [L Restart; L (GetCall 1 3); L (Ret 1 false); L (NextCall 1)].

Theorem C30_split_release_refuted : forall fx, exists ls, let s := x_s (fst (xexec fx xinit ls)) in
  st_misuse s = false /\ st_wrapped s = false /\ ~ NoDup (nums_of_key s 1).
Proof.
  intros fx. exists split_same_object.
  destruct fx; (split; [vm_compute; reflexivity|split; [vm_compute; reflexivity|]]);
    apply SequenceProofs.has_dupb_not_nodup; vm_compute; reflexivity.
Qed.
Print Assumptions C30_split_release_refuted.

Theorem C30_split_release_refuted_traces :
  snd (xexec false xinit split_same_object)
  = [RPending; ROk; RNum 0; RNum 1; RPending; RPending; RNum 2; RPending; ROk; RPending; RNum 2]
  /\ nums_of_key (x_s (fst (xexec false xinit split_second_object))) 1 = [0; 1; 2; 2]
  /\ nums_of_key (x_s (fst (xexec false xinit split_after_restart))) 1 = [0; 1; 2; 2].
Proof. vm_compute. repeat split; reflexivity. Qed.
Print Assumptions C30_split_release_refuted_traces.

(* the same calls with the locked Release: the Next in the window is not enabled (RInvalid: it waits
   for seq.lock), runs after the Release and starts a new lease *)
Example C30_locked_release_ex :
  let ls := [GetCall 1 5; Ret 0 false; NextCall 0; NextCall 0; RelCall 0; NextCall 0; Ret 0 false;
             NextCall 0; Ret 0 false; NextCall 0] in
  snd (exec false init ls) = [RPending; ROk; RNum 0; RNum 1; RPending; RInvalid; ROk; RPending; RNum 2; RNum 3].
Proof. vm_compute. reflexivity. Qed.

(* ---- the hypotheses are satisfiable: a run with two objects, conflict, release, restart ---- *)
Example C30_safe_run_ex :
  let ls := [GetCall 1 3; Ret 0 false; GetCall 1 2; Ret 1 false; NextCall 0; NextCall 1; NextCall 0; NextCall 1;
             NextCall 1; Ret 1 false; RelCall 0; Ret 0 false; Restart; GetCall 1 2; Ret 2 false;
             NextCall 2; NextCall 2; NextCall 2; Ret 2 false] in
  let s := fst (exec false init ls) in
  st_misuse s = false /\ st_wrapped s = false /\ nums_of_key s 1 = [0; 3; 1; 4; 5; 7; 8; 9].
Proof. vm_compute. repeat split; reflexivity. Qed.

(* on the blocked-writes witness the repaired model hands out distinct numbers: A's Next after the
   failed one starts a new lease update (in flight at the end of the witness), B returns 5 *)
Example C30_fixed_witness_ex :
  nums_of_key (fst (exec true init witness_blocked)) 1 = [0; 1; 2; 3; 4; 5].
Proof. vm_compute. reflexivity. Qed.
