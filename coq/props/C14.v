(* C14 — The LSM tree and MANIFEST stay structurally consistent.
   Statements only; proofs are `exact` of lemmas in B/LevelsWfProofs.v, B/CompactWfProofs.v.

   levels_wf (SysReopen.v): every table is non-empty and strictly sorted by internal key; on each
   level >= 1 consecutive tables satisfy biggest(i) < smallest(i+1) in internal-key order with
   DIFFERENT user keys at the boundary, and table ids are distinct.
   Modelled and proved: the in-memory tree (= the MANIFEST's table map in sequential histories)
   across writes, flushes, compactions, close + open, DropAll.  Checked on the implementation only
   (harness): *.sst files in the directory = MANIFEST tables = DB.Tables() after every Open.
   Not covered here: interleaved compactions (compareAndAdd), crash points, StreamWriter. *)
From Verif Require Import Bytes Keys Consts Spec Lsm Compact Iter Sys SysReopen.
From Verif Require LevelsWfProofs CompactWfProofs.
Open Scope N_scope.

(* flush only touches level 0 *)
Theorem C14_flush_preserves_wf : forall ls m id,
  levels_wf ls = true -> m <> [] -> src_sorted m = true -> levels_wf (add_l0 ls (mkT id m)) = true.
Proof. exact CompactWfProofs.flush_preserves_wf. Qed.
Print Assumptions C14_flush_preserves_wf.
Example C14_flush_preserves_wf_ex :
  levels_wf [[mkT 1 [mkE [1] 2 0 0 0 []]]; []] = true /\ [mkE [1] 3 0 0 0 []] <> [] /\ src_sorted [mkE [1] 3 0 0 0 []] = true.
Proof. repeat split. discriminate. Qed.

(* a memtable stays strictly sorted under Put (what a flush turns into a table) *)
Theorem C14_memtable_sorted : forall es s,
  EntOrderProofs.ssorted s -> EntOrderProofs.ssorted (fold_left mt_put es s).
Proof. exact LevelsWfProofs.fold_mt_put_sorted. Qed.
Print Assumptions C14_memtable_sorted.

(* compaction: a label inside the picker relation (Sys.pick_check: L0->Lbase with all overlapping
   base tables, Li->Li+1 with one table and all overlapping tables, L0->L0 into no bottom table,
   Lmax->Lmax), whose new tables break only between different user keys and whose observed order
   is duplicate-free (compact_extra_check) and sorted by smallest key (Sys.step), keeps levels_wf *)
Theorem C14_compaction_preserves_wf : forall ls c,
  levels_wf ls = true -> pick_check ls c = 0 -> compact_extra_check ls c = 0 ->
  (sorted_by_smallest (nth (c_next c) (apply_compaction ls c) []) = true \/
   (length (nth (c_next c) (apply_compaction ls c) []) <= 1)%nat) ->
  levels_wf (apply_compaction ls c) = true.
Proof. exact CompactWfProofs.compaction_preserves_wf. Qed.
Print Assumptions C14_compaction_preserves_wf.
Example C14_compaction_preserves_wf_ex :
  let ls := [[mkT 4 [mkE [1] 5 0 0 0 []; mkE [3] 4 0 0 0 []]]; [];
             [mkT 1 [mkE [1] 2 0 0 0 []]; mkT 2 [mkE [2] 1 0 0 0 []]; mkT 3 [mkE [9] 1 0 0 0 []]]] in
  let c := mkC 0 2 [4] [1; 2] 0 1 [] 0 [(5, 2); (6, 2)] [5; 6; 3] in
  levels_wf ls = true /\ pick_check ls c = 0 /\ compact_extra_check ls c = 0 /\
  sorted_by_smallest (nth (c_next c) (apply_compaction ls c) []) = true.
Proof. vm_compute. repeat split. Qed.

(* the compaction output is one strictly sorted run made of entries of the tables it read *)
Theorem C14_compaction_output_sorted : forall ls c,
  LevelsWfProofs.levels_ok ls -> (c_next c = O -> c_bot c = []) ->
  EntOrderProofs.ssorted (compaction_output ls c).
Proof. exact CompactWfProofs.compaction_output_sorted. Qed.
Print Assumptions C14_compaction_output_sorted.

(* the invariant: every label accepted by xstep keeps memtables sorted and levels well-formed *)
Theorem C14_invariant_step : forall xs o xs',
  LevelsWfProofs.db_ok (s_db (x_sys xs)) -> xstep xs o = XOk xs' -> LevelsWfProofs.db_ok (s_db (x_sys xs')).
Proof. exact CompactWfProofs.xstep_preserves_db_ok. Qed.
Print Assumptions C14_invariant_step.

(* every state a history reaches (any mode, any options): levels_wf holds - a CheckWf label never
   fails - and Open's levelHandler.validate succeeds on every level *)
Theorem C14_levels_wf_reachable : forall m d k n next ops,
  let s := x_sys (snd (xexec (init_xsys m d k n next) ops 0)) in
  levels_wf (l_levels (s_db s)) = true /\ validate_levels (l_levels (s_db s)) = true.
Proof. exact CompactWfProofs.reachable_levels_wf. Qed.
Print Assumptions C14_levels_wf_reachable.

Theorem C14_validate_never_fails : forall ls, levels_wf ls = true -> validate_levels ls = true.
Proof. exact LevelsWfProofs.levels_wf_validate. Qed.
Print Assumptions C14_validate_never_fails.

(* all versions of a user key on a level >= 1 live in a single table *)
Theorem C14_one_table_per_key : forall ls n a b x y,
  levels_wf ls = true -> In a (nth (S n) ls []) -> In b (nth (S n) ls []) ->
  In x (t_ents a) -> In y (t_ents b) -> e_key x = e_key y -> a = b.
Proof. exact CompactWfProofs.one_table_per_key. Qed.
Print Assumptions C14_one_table_per_key.

(* the bool predicate is exactly the Prop-level structure used in the proofs *)
Theorem C14_levels_wf_spec : forall ls, levels_wf ls = true <-> LevelsWfProofs.levels_ok ls.
Proof. exact LevelsWfProofs.levels_wf_iff. Qed.
Print Assumptions C14_levels_wf_spec.
