(* C07 — Close and re-open preserves all content; read-only opens change nothing.
   Statements only; proofs are `exact` of lemmas in B/ReopenReadProofs.v, B/ReopenTsProofs.v.

   Full statement: for every state d, every key k and read timestamp ts,
       db_get (reopen_db d ids) k ts = db_get d k ts     and     merged (reopen_db d ids) = merged d
   where reopen_db = Open after Close (SysReopen.v).  Close alone satisfies it for all states
   (C07_close_preserves_reads / _merged).  Open re-sorts level 0 by file id
   (levelHandler.initTables), whereas in a running DB an L0->L0 compaction leaves level 0 sorted
   by smallest key (levelHandler.replaceTables): if the SAME key@version lies in two L0 tables
   with different contents, the table consulted first changes and the full statement is false in
   the model (C07_reopen_preserves_reads_refuted) - this needs a history that writes one
   key@version twice (managed mode; the duplicate-version class of finding F8).  The `_partial`
   theorems hold under the narrowest hypothesis that excludes it. *)
From Verif Require Import Bytes Keys Consts Spec Lsm Compact Iter Sys SysReopen.
From Verif Require ReopenReadProofs ReopenTsProofs ReopenMergeProofs LevelsWfProofs EntOrderProofs.
Open Scope N_scope.

(* Close: rotating the active memtable and flushing every immutable memtable to level 0 changes
   no point lookup (any key, any read timestamp, any state, any ids) ... *)
Theorem C07_close_preserves_reads : forall d ids k ts,
  db_get (close_db d ids) k ts = db_get d k ts.
Proof. exact ReopenReadProofs.db_get_close_db. Qed.
Print Assumptions C07_close_preserves_reads.

(* ... and leaves the merged view that every iterator walks identical, as a list *)
Theorem C07_close_preserves_merged : forall d ids, merged (close_db d ids) = merged d.
Proof. exact ReopenReadProofs.merged_close_db. Qed.
Print Assumptions C07_close_preserves_merged.

(* Close + Open, point lookups, for every L0 order: no key@version in two L0 tables *)
Theorem C07_reopen_preserves_reads_partial : forall d ids k ts,
  ReopenReadProofs.l0_distinct (ReopenReadProofs.closed_l0 d ids) ->
  db_get (reopen_db d ids) k ts = db_get d k ts.
Proof. exact ReopenReadProofs.reopen_preserves_get. Qed.
Print Assumptions C07_reopen_preserves_reads_partial.
Example C07_reopen_preserves_reads_partial_ex :
  ReopenReadProofs.l0_distinct (ReopenReadProofs.closed_l0 ReopenReadProofs.ex_db1 [6]).
Proof. exact ReopenReadProofs.ex_db1_distinct. Qed.

(* Close + Open, iterator view, for every L0 order: all sources strictly sorted (the C14
   invariant db_ok, see C14_invariant_step) and no key@version twice in level 0 *)
Theorem C07_reopen_preserves_merged_partial : forall d ids,
  LevelsWfProofs.db_ok d -> ReopenMergeProofs.l0_nodup (ReopenReadProofs.closed_l0 d ids) ->
  merged (reopen_db d ids) = merged d.
Proof. exact ReopenMergeProofs.reopen_preserves_merged. Qed.
Print Assumptions C07_reopen_preserves_merged_partial.
Example C07_reopen_preserves_merged_partial_ex :
  LevelsWfProofs.db_ok ReopenReadProofs.ex_db1 /\
  ReopenMergeProofs.l0_nodup (ReopenReadProofs.closed_l0 ReopenReadProofs.ex_db1 [6]).
Proof. exact ReopenMergeProofs.ex_db1_ok. Qed.

(* the merged view does not depend on the order of strictly sorted sources sharing no key@version *)
Theorem C07_merge_order_irrelevant : forall z ss ss',
  Permutation.Permutation ss ss' -> EntOrderProofs.ssorted z -> Forall EntOrderProofs.ssorted ss ->
  ReopenMergeProofs.srcs_nodup ss -> fold_right merge2 z ss = fold_right merge2 z ss'.
Proof. exact ReopenMergeProofs.fold_merge_perm. Qed.
Print Assumptions C07_merge_order_irrelevant.

(* Close + Open when level 0 is in file-id order (no L0->L0 compaction since the last Open):
   nothing at all changes, for lookups and for the iterator view, with no other hypothesis *)
Theorem C07_reopen_preserves_reads_sorted_l0 : forall d ids k ts,
  sort_by_id (ReopenReadProofs.closed_l0 d ids) = ReopenReadProofs.closed_l0 d ids ->
  db_get (reopen_db d ids) k ts = db_get d k ts.
Proof. exact ReopenReadProofs.reopen_preserves_get_sorted_l0. Qed.
Print Assumptions C07_reopen_preserves_reads_sorted_l0.

Theorem C07_reopen_preserves_merged_sorted_l0 : forall d ids,
  sort_by_id (ReopenReadProofs.closed_l0 d ids) = ReopenReadProofs.closed_l0 d ids ->
  merged (reopen_db d ids) = merged d.
Proof. exact ReopenReadProofs.reopen_preserves_merged_sorted_l0. Qed.
Print Assumptions C07_reopen_preserves_merged_sorted_l0.
Example C07_reopen_preserves_merged_sorted_l0_ex :
  let d := mkLsm [mkE [1] 7 0 0 0 [9]] [] [[mkT 2 [mkE [1] 3 0 0 0 [8]]; mkT 5 [mkE [1] 4 0 0 0 [7]]]; []] in
  sort_by_id (ReopenReadProofs.closed_l0 d [6]) = ReopenReadProofs.closed_l0 d [6].
Proof. reflexivity. Qed.

(* the full statement is false in the model: the same key@version in two L0 tables that are
   not in file-id order (table 9 = output of an L0->L0 compaction, placed before the newer
   table 8 by replaceTables' sort on the smallest key) *)
Theorem C07_reopen_preserves_reads_refuted : exists d ids k ts,
  db_get (reopen_db d ids) k ts <> db_get d k ts.
Proof.
  exists (mkLsm [] [] [[mkT 9 [mkE [1] 5 0 0 0 [1]]; mkT 8 [mkE [1] 5 0 0 0 [2]]]; []]), [], [1], 5.
  vm_compute. discriminate.
Qed.
Print Assumptions C07_reopen_preserves_reads_refuted.

(* Open leaves no transaction, and nextTxnTs = largest stored version + 1 *)
Theorem C07_reopen_state : forall s ids,
  s_txns (reopen_sys s ids) = [] /\ s_committed (reopen_sys s ids) = [] /\
  s_next (reopen_sys s ids) = max_version (reopen_db (s_db s) ids) + 1.
Proof. intros s ids. repeat split. Qed.
Print Assumptions C07_reopen_state.

(* read-only sessions: a read-only DB has read-only transactions only, every Set/Delete is
   answered ErrReadOnlyTxn (code 3) ... *)
Theorem C07_readonly_rejects_writes : forall x e, x_update x = false -> txn_modify x e = (3, x).
Proof. exact ReopenReadProofs.ro_modify_rejected. Qed.
Print Assumptions C07_readonly_rejects_writes.

(* ... and no label other than the next Reopen changes the stored data or the oracle *)
Theorem C07_readonly_session_changes_nothing : forall xs o xs',
  ReopenTsProofs.ro_inv xs -> x_ro xs = true -> xstep xs o = XOk xs' ->
  (forall ro ids next dump, o <> Reopen ro ids next dump) ->
  s_db (x_sys xs') = s_db (x_sys xs) /\ s_next (x_sys xs') = s_next (x_sys xs) /\ x_ro xs' = true /\
  ReopenTsProofs.ro_inv xs'.
Proof. exact ReopenTsProofs.ro_session_pure. Qed.
Print Assumptions C07_readonly_session_changes_nothing.

Theorem C07_readonly_invariant : forall xs o xs',
  ReopenTsProofs.ro_inv xs -> xstep xs o = XOk xs' -> ReopenTsProofs.ro_inv xs'.
Proof. exact ReopenTsProofs.xstep_preserves_ro_inv. Qed.
Print Assumptions C07_readonly_invariant.
Example C07_readonly_invariant_ex : forall m d k n next, ReopenTsProofs.ro_inv (init_xsys m d k n next).
Proof. intros. intros H. discriminate. Qed.
