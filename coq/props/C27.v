(* C27 — WriteBatch applies every operation, later operations winning. Statements only.
   A WriteBatch is a sequence of internal transactions (batch.go: commit-and-retry on
   ErrTxnTooBig); the harness replays every batch as the Begin/Modify/Commit labels of those
   transactions, so the theorems are about Sys.txn_modify / Sys.commit_entries / Lsm.mt_put. *)
From Verif Require Import Bytes Keys Consts Spec Lsm Sys.
From Verif Require SysProofs BatchProofs.
Open Scope N_scope.
Import BatchProofs.

(* the pending map holds, per key, the last accepted call *)
Theorem C27_pending_is_last_write : forall x es k,
  klookup (x_pend (SysProofs.modifies x es)) k = SysProofs.last_write x es k (klookup (x_pend x) k).
Proof. exact SysProofs.pending_is_last_write. Qed.
Print Assumptions C27_pending_is_last_write.

(* entries applied to the memtable in order: the LAST one with a given key@version is what a
   lookup of that key@version finds (skl.Put overwrites) *)
Theorem C27_apply_later_wins : forall L s k v,
  find_kv (fold_left mt_put L s) k v =
  match last_match (kv_match k v) L with Some e => Some e | None => find_kv s k v end.
Proof. exact BatchProofs.apply_later_wins. Qed.
Print Assumptions C27_apply_later_wins.

(* one internal transaction of the batch: whatever mixture of Set / SetEntry / Delete /
   SetEntryAt / DeleteAt calls (any keys, any explicit versions, repeated key@version included),
   after the commit the memtable holds under key@version the LAST accepted call stored at that
   version — this is the statement finding F3 violated before its repair *)
Theorem C27_later_call_wins : forall x0 es ts s k v,
  pend_ok x0 -> x_pend x0 = [] -> x_dups x0 = [] ->
  let x := SysProofs.modifies x0 es in
  find_kv (fold_left mt_put (commit_entries x ts) s) k v =
  match last_match (fun e => kv_match k v (stamp ts e)) (accepted_calls x0 es) with
  | Some e => Some (stamp ts e)
  | None => find_kv s k v
  end.
Proof. exact BatchProofs.commit_later_call_wins. Qed.
Print Assumptions C27_later_call_wins.

(* the F3 witness, now on the right side: k@5=v1; k@7=v2; k@5=v3 stores v3 under k@5 *)
Example C27_F3_witness_repaired :
  let k := [107] in
  let x0 := mkTxn 0 true [] [] [] false in
  let x := SysProofs.modifies x0 [mkE k 5 0 0 0 [1]; mkE k 7 0 0 0 [2]; mkE k 5 0 0 0 [3]] in
  find_kv (fold_left mt_put (commit_entries x 0) []) k 5 = Some (mkE k 5 0 0 0 [3]).
Proof. reflexivity. Qed.

(* splits: consecutive internal transactions are applied one after the other, so the same
   statement composes (the later transaction's entries are later in the applied list) *)
Theorem C27_splits_compose : forall L1 L2 s,
  fold_left mt_put (L1 ++ L2) s = fold_left mt_put L2 (fold_left mt_put L1 s).
Proof. intros. apply fold_left_app. Qed.
Print Assumptions C27_splits_compose.
