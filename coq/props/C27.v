(* C27 — WriteBatch applies every operation, later operations winning. Statements only.
   A WriteBatch is a sequence of internal transactions (batch.go: commit-and-retry on
   ErrTxnTooBig); the harness replays every batch as the Begin/Modify/Commit labels of those
   transactions, so the theorems are about Sys.txn_modify / Sys.commit_entries / Lsm.mt_put. *)
From Verif Require Import Bytes Keys Consts Spec Lsm Sys.
From Verif Require SysProofs BatchProofs EntOrderProofs BatchSplitProofs.
Open Scope N_scope.
Import BatchProofs.
Import BatchSplitProofs.

(* the pending map holds, per key, the last accepted call *)
Theorem C27_pending_is_last_write : forall x es k,
  klookup (x_pend (SysProofs.modifies x es)) k = SysProofs.last_write x es k (klookup (x_pend x) k).
Proof. exact SysProofs.pending_is_last_write. Qed.
Print Assumptions C27_pending_is_last_write.

(* entries applied to the memtable in order: the LAST one with a given key@version is what a
   lookup of that key@version finds (skl.Put overwrites) *)
Theorem C27_apply_later_wins : forall L s k v,
  find_kv (fold_left mt_put L s) k v =
  match last_match (kv_match k v) L with Some e => Some e | None => find_kv s k v end.
Proof. exact BatchProofs.apply_later_wins. Qed.
Print Assumptions C27_apply_later_wins.

(* one internal transaction of the batch: whatever mixture of Set / SetEntry / Delete /
   SetEntryAt / DeleteAt calls (any keys, any explicit versions, repeated key@version included),
   after the commit the memtable holds under key@version the LAST accepted call stored at that
   version — this is the statement finding F3 violated before its repair *)
Theorem C27_later_call_wins : forall x0 es ts s k v,
  pend_ok x0 -> x_pend x0 = [] -> x_dups x0 = [] ->
  let x := SysProofs.modifies x0 es in
  find_kv (fold_left mt_put (commit_entries x ts) s) k v =
  match last_match (fun e => kv_match k v (stamp ts e)) (accepted_calls x0 es) with
  | Some e => Some (stamp ts e)
  | None => find_kv s k v
  end.
Proof. exact BatchProofs.commit_later_call_wins. Qed.
Print Assumptions C27_later_call_wins.

(* the F3 witness, now on the right side: k@5=v1; k@7=v2; k@5=v3 stores v3 under k@5 *)
Example C27_F3_witness_repaired :
  let k := [107] in
  let x0 := mkTxn 0 true [] [] [] false in
  let x := SysProofs.modifies x0 [mkE k 5 0 0 0 [1]; mkE k 7 0 0 0 [2]; mkE k 5 0 0 0 [3]] in
  find_kv (fold_left mt_put (commit_entries x 0) []) k 5 = Some (mkE k 5 0 0 0 [3]).
Proof. reflexivity. Qed.

(* splits: consecutive internal transactions are applied one after the other, so the same
   statement composes (the later transaction's entries are later in the applied list) *)
Theorem C27_splits_compose : forall L1 L2 s,
  fold_left mt_put (L1 ++ L2) s = fold_left mt_put L2 (fold_left mt_put L1 s).
Proof. intros. apply fold_left_app. Qed.
Print Assumptions C27_splits_compose.

(* ------------------------------------------------------------------------------------------
   SPLIT INVARIANCE.  batch.go: WriteBatch.handleEntry / Delete commit the internal transaction on
   ErrTxnTooBig and re-apply the call on a fresh one, so the calls `es` of a batch are cut into
   consecutive groups (`concat groups = es`), one internal transaction each:
     run_batch groups tss s  =  for each group g_i with commit timestamp ts_i, in order:
                                 x_i := modifies (fresh update txn) g_i;
                                 fold_left mt_put (commit_entries x_i ts_i) into the memtable.
   `tagged groups tss` is the call list with every call paired with its group's timestamp
   (C27_tagged_is_call_list), `call_counts` = Txn.modify accepts the call (non-empty key without
   the reserved prefix), `stamp_call (ts, e)` = the entry as stored.
   ------------------------------------------------------------------------------------------ *)
Theorem C27_tagged_is_call_list : forall groups tss,
  length groups = length tss -> map snd (tagged groups tss) = concat groups.
Proof. exact BatchSplitProofs.tagged_calls. Qed.
Print Assumptions C27_tagged_is_call_list.

(* the accepted calls of a fresh update transaction are the calls with an acceptable key *)
Theorem C27_accepted_calls : forall g, accepted_calls batch_txn g = filter call_ok g.
Proof. exact BatchSplitProofs.accepted_calls_batch. Qed.
Print Assumptions C27_accepted_calls.

(* ALL MODES: for any cut and any commit timestamps, key@version holds the LAST accepted call of
   the whole batch whose stored entry (stamped with the timestamp of ITS group) has that key and
   version; nothing of the batch there = the previous content *)
Theorem C27_split_later_call_wins : forall groups tss s k v,
  find_kv (run_batch groups tss s) k v =
  match last_match (fun te => call_counts te && kv_match k v (stamp_call te)) (tagged groups tss) with
  | Some te => Some (stamp_call te)
  | None => find_kv s k v
  end.
Proof. exact BatchSplitProofs.batch_split_later_wins_tagged. Qed.
Print Assumptions C27_split_later_call_wins.

(* (a) one commit timestamp for every internal transaction (NewWriteBatchAt(ts); managed batches,
   ts = 0): every key@version lookup answers as for the unsplit batch — which is the last
   accepted call of the call list stored under that key@version ... *)
Theorem C27_split_invariance_same_ts : forall groups ts s k v,
  find_kv (run_batch groups (repeat ts (length groups)) s) k v =
  find_kv (run_batch [concat groups] [ts] s) k v.
Proof. exact BatchSplitProofs.batch_split_invariance_same_ts. Qed.
Print Assumptions C27_split_invariance_same_ts.

Theorem C27_same_ts_later_call_wins : forall groups ts s k v,
  find_kv (run_batch groups (repeat ts (length groups)) s) k v =
  match last_match (fun e => kv_match k v (stamp ts e)) (filter call_ok (concat groups)) with
  | Some e => Some (stamp ts e)
  | None => find_kv s k v
  end.
Proof. exact BatchSplitProofs.batch_same_ts_later_wins. Qed.
Print Assumptions C27_same_ts_later_call_wins.

(* ... and two cuts of one call list leave the very same memtable *)
Theorem C27_two_splits_same_memtable : forall g1 g2 ts s,
  concat g1 = concat g2 -> EntOrderProofs.ssorted s ->
  run_batch g1 (repeat ts (length g1)) s = run_batch g2 (repeat ts (length g2)) s.
Proof. exact BatchSplitProofs.batch_two_splits_same_ts. Qed.
Print Assumptions C27_two_splits_same_memtable.

(* (a') every call carries an explicit version (SetEntryAt / DeleteAt): neither the cut nor the
   commit timestamps of the internal transactions matter *)
Theorem C27_split_invariance_explicit : forall groups tss ts s,
  length groups = length tss -> all_explicit groups -> EntOrderProofs.ssorted s ->
  run_batch groups tss s = run_batch [concat groups] [ts] s.
Proof. exact BatchSplitProofs.batch_split_invariance_explicit. Qed.
Print Assumptions C27_split_invariance_explicit.

(* (b) normal mode — strictly increasing commit timestamps above what the memtable holds for k,
   no explicit versions: a reader at or above the last commit timestamp finds the LAST call on k
   of the whole batch (up to the version it was stamped with), wherever the splits fell *)
Theorem C27_split_normal_reader : forall groups tss s k rts,
  length groups = length tss ->
  all_ver0 groups -> increasing tss -> EntOrderProofs.ssorted s ->
  (forall e ts, In e s -> e_key e = k -> In ts tss -> e_ver e < ts) ->
  (forall ts, In ts tss -> ts <= rts) ->
  option_map unver (src_get (run_batch groups tss s) k rts) =
  match last_match (on_key k) (filter call_ok (concat groups)) with
  | Some e => Some e
  | None => option_map unver (src_get s k rts)
  end.
Proof. exact BatchSplitProofs.batch_split_normal_reader_view. Qed.
Print Assumptions C27_split_normal_reader.

Theorem C27_split_invariance_normal : forall g1 t1 g2 t2 s k rts,
  concat g1 = concat g2 ->
  length g1 = length t1 -> length g2 = length t2 ->
  all_ver0 g1 -> increasing t1 -> increasing t2 -> EntOrderProofs.ssorted s ->
  (forall e ts, In e s -> e_key e = k -> In ts (t1 ++ t2) -> e_ver e < ts) ->
  (forall ts, In ts (t1 ++ t2) -> ts <= rts) ->
  option_map unver (src_get (run_batch g1 t1 s) k rts) =
  option_map unver (src_get (run_batch g2 t2 s) k rts).
Proof. exact BatchSplitProofs.batch_split_invariance_normal. Qed.
Print Assumptions C27_split_invariance_normal.

(* the earlier calls on k that fell into earlier groups: the i-th group's last call on k is stored
   at the i-th commit timestamp, and everything stored under k besides the entry the reader finds
   is strictly older *)
Theorem C27_split_normal_group_version : forall groups tss s i g ts k,
  all_ver0 groups -> increasing tss -> nth_error groups i = Some g -> nth_error tss i = Some ts ->
  find_kv (run_batch groups tss s) k ts =
  match last_match (on_key k) (filter call_ok g) with
  | Some e => Some (stamp ts e)
  | None => find_kv s k ts
  end.
Proof. exact BatchSplitProofs.batch_split_normal_group_version. Qed.
Print Assumptions C27_split_normal_group_version.

Theorem C27_split_normal_older : forall groups tss s k e',
  all_ver0 groups -> increasing tss -> EntOrderProofs.ssorted s ->
  (forall e ts, In e s -> e_key e = k -> In ts tss -> e_ver e < ts) ->
  last_match (on_key k) (stamped_calls groups tss) = Some e' ->
  forall x, In x (run_batch groups tss s) -> e_key x = k -> x = e' \/ e_ver x < e_ver e'.
Proof. exact BatchSplitProofs.batch_split_normal_older. Qed.
Print Assumptions C27_split_normal_older.

(* the link to the system model the correspondence replays (Begin / Modify* / Commit per internal
   transaction): a batch transaction reads nothing, so Sys.txn_commit never refuses it, and the
   memtable after the batch's commits is run_batch at the timestamps the commits used — in
   managed mode the given ones, in normal mode nextTxnTs, nextTxnTs + 1, ... (increasing) *)
Theorem C27_batch_commit_step : forall s t rts g cts,
  let x := SysProofs.modifies (wb_txn rts) g in
  let ts := if s_managed s then cts else s_next s in
  let r := txn_commit s t x cts in
  fst (fst r) = 0 /\
  l_mt (s_db (snd r)) = fold_left mt_put (group_entries g ts) (l_mt (s_db s)) /\
  s_managed (snd r) = s_managed s /\
  s_next (snd r) = (if s_managed s || (match x_pend x with [] => true | _ => false end)
                    then s_next s else s_next s + 1).
Proof. exact BatchSplitProofs.wb_commit_step. Qed.
Print Assumptions C27_batch_commit_step.

Theorem C27_batch_is_sys_commits : forall groups s t rts ctss,
  l_mt (s_db (sys_batch s t rts groups ctss)) =
  run_batch groups (sys_batch_tss s t rts groups ctss) (l_mt (s_db s)).
Proof. exact BatchSplitProofs.sys_batch_memtable. Qed.
Print Assumptions C27_batch_is_sys_commits.

Theorem C27_batch_tss_managed : forall groups s t rts ctss,
  s_managed s = true -> length groups = length ctss -> sys_batch_tss s t rts groups ctss = ctss.
Proof. exact BatchSplitProofs.sys_batch_tss_managed. Qed.
Print Assumptions C27_batch_tss_managed.

Theorem C27_batch_tss_normal : forall groups s t rts ctss,
  s_managed s = false -> length groups = length ctss ->
  (forall g, In g groups -> x_pend (SysProofs.modifies (wb_txn rts) g) <> []) ->
  sys_batch_tss s t rts groups ctss = count_from (s_next s) (length groups) /\
  increasing (count_from (s_next s) (length groups)).
Proof. exact BatchSplitProofs.sys_batch_tss_normal_increasing. Qed.
Print Assumptions C27_batch_tss_normal.

(* what is NOT invariant.  Normal mode: the stored versions depend on the cut (a WriteBatch is not
   atomic; the full key@version statement of (a) does not carry over) *)
Theorem C27_split_normal_versions_refuted :
  exists g1 t1 g2 t2 k v,
    concat g1 = concat g2 /\ length g1 = length t1 /\ length g2 = length t2 /\
    all_ver0 g1 /\ increasing t1 /\ increasing t2 /\
    find_kv (run_batch g1 t1 []) k v <> find_kv (run_batch g2 t2 []) k v.
Proof. exact BatchSplitProofs.batch_split_normal_versions_refuted. Qed.
Print Assumptions C27_split_normal_versions_refuted.

(* increasing commit timestamps mixed with explicit versions (WriteBatch.DeleteAt is not guarded
   by managed mode): DeleteAt(k, 11); Set(k, 1) reads as deleted when unsplit at 10 and as 1 when
   split at 10, 11 — `all_ver0` in (b) is necessary *)
Theorem C27_split_mixed_refuted :
  exists g1 t1 g2 t2 k rts,
    concat g1 = concat g2 /\ length g1 = length t1 /\ length g2 = length t2 /\
    increasing t1 /\ increasing t2 /\ (forall ts, In ts (t1 ++ t2) -> ts <= rts) /\
    option_map unver (src_get (run_batch g1 t1 []) k rts) <>
    option_map unver (src_get (run_batch g2 t2 []) k rts).
Proof. exact BatchSplitProofs.batch_split_mixed_refuted. Qed.
Print Assumptions C27_split_mixed_refuted.

(* six calls on two keys, key@version repeated (k1@5 twice, k1@7 twice, k2@5 twice), managed
   batch (commit timestamp 0): three cuts — among them one where a group's duplicateWrites hold
   k1@5 and a LATER group writes k1@5 again — leave the memtable of the unsplit batch *)
Example C27_split_example_managed :
  let k1 := [107; 49] in let k2 := [107; 50] in
  let a := mkE k1 5 0 0 0 [1] in let b := mkE k2 5 0 0 0 [2] in let c := mkE k1 7 0 0 0 [3] in
  let d := mkE k1 5 0 0 0 [4] in let e := mkE k2 5 1 0 0 [] in let f := mkE k1 7 0 0 0 [6] in
  let unsplit := run_batch [[a; b; c; d; e; f]] [0] [] in
  unsplit = [f; d; e] /\
  run_batch [[a; b]; [c; d]; [e; f]] [0; 0; 0] [] = unsplit /\
  run_batch [[a; b; c]; [d]; [e; f]] [0; 0; 0] [] = unsplit /\
  run_batch [[a]; [b; c; d; e]; [f]] [0; 0; 0] [] = unsplit.
Proof. vm_compute. repeat split. Qed.

(* the same with NewWriteBatchAt(9) and calls without explicit versions mixed in *)
Example C27_split_example_at :
  let k1 := [107; 49] in let k2 := [107; 50] in
  let a := mkE k1 0 0 0 0 [1] in let b := mkE k2 9 0 0 0 [2] in let c := mkE k1 7 0 0 0 [3] in
  let d := mkE k1 9 0 0 0 [4] in let e := mkE k2 0 1 0 0 [] in let f := mkE k1 7 0 0 0 [6] in
  let unsplit := run_batch [[a; b; c; d; e; f]] [9] [] in
  unsplit = [d; f; mkE k2 9 1 0 0 []] /\
  run_batch [[a; b]; [c; d]; [e; f]] [9; 9; 9] [] = unsplit /\
  run_batch [[a; b; c]; [d]; [e; f]] [9; 9; 9] [] = unsplit /\
  run_batch [[a]; [b; c; d; e]; [f]] [9; 9; 9] [] = unsplit.
Proof. vm_compute. repeat split. Qed.

(* normal mode: six calls on two keys; the three cuts store different version histories, the
   reader above the last commit sees the same: k1 = 6, k2 deleted (the last calls) *)
Example C27_split_example_normal :
  let k1 := [107; 49] in let k2 := [107; 50] in
  let a := mkE k1 0 0 0 0 [1] in let b := mkE k2 0 0 0 0 [2] in let c := mkE k1 0 0 0 0 [3] in
  let d := mkE k1 0 0 0 0 [4] in let e := mkE k2 0 1 0 0 [] in let f := mkE k1 0 0 0 0 [6] in
  let view := fun m => map (fun k => option_map unver (src_get m k 50)) [k1; k2] in
  let m1 := run_batch [[a; b; c; d; e; f]] [10] [] in
  let m2 := run_batch [[a; b]; [c; d]; [e; f]] [10; 11; 12] [] in
  let m3 := run_batch [[a; b; c]; [d]; [e; f]] [20; 30; 40] [] in
  view m1 = [Some f; Some e] /\ view m2 = view m1 /\ view m3 = view m1 /\
  (length m1 = 2 /\ length m2 = 5 /\ length m3 = 5)%nat /\
  map e_ver m2 = [12; 11; 10; 12; 10].
Proof. vm_compute. repeat split. Qed.
