(* C36 — Managed mode honors caller-chosen timestamps. Statements only. *)
From Verif Require Import Bytes Keys Consts Spec Lsm Compact Sys.
From Verif Require CompactProofs GetProofs ManagedProofs BatchProofs SysProofs.
Open Scope N_scope.

(* commits use exactly the caller's commit timestamp; explicit per-entry versions are kept *)
Theorem C36_commit_ts_exact : forall s t x cts r ts s',
  s_managed s = true -> txn_commit s t x cts = (r, ts, s') -> r = 0 -> x_pend x <> [] ->
  ts = cts
  /\ s_writes s' = s_writes s ++ commit_entries x cts
  /\ s_next s' = s_next s
  /\ (forall e, In e (commit_entries x cts) ->
        exists e0, (In e0 (x_dups x) \/ In e0 (map snd (x_pend x))) /\ e = stamp cts e0
                   /\ (e_ver e0 = 0 -> e_ver e = cts) /\ (e_ver e0 <> 0 -> e = e0)).
Proof. exact ManagedProofs.managed_commit_ts_exact. Qed.
Print Assumptions C36_commit_ts_exact.

(* a read at any chosen timestamp returns the newest stored version at or below it, over every
   memtable and table (no dependence on the mode) *)
Theorem C36_read_is_newest_stored : forall d k ts,
  GetProofs.lsm_wf d -> db_get d k ts = CompactProofs.newest (GetProofs.all_entries d) k ts.
Proof. exact GetProofs.db_get_newest. Qed.
Print Assumptions C36_read_is_newest_stored.

(* for the same key@version the later call of a transaction wins (after the repair of F3) *)
Theorem C36_same_version_later_wins : forall x0 es ts s k v,
  BatchProofs.pend_ok x0 -> x_pend x0 = [] -> x_dups x0 = [] ->
  let x := SysProofs.modifies x0 es in
  BatchProofs.find_kv (fold_left mt_put (commit_entries x ts) s) k v =
  match BatchProofs.last_match (fun e => BatchProofs.kv_match k v (stamp ts e)) (BatchProofs.accepted_calls x0 es) with
  | Some e => Some (stamp ts e)
  | None => BatchProofs.find_kv s k v
  end.
Proof. exact BatchProofs.commit_later_call_wins. Qed.
Print Assumptions C36_same_version_later_wins.

(* Full statement "a read at any timestamp sees exactly the newest WRITE at or below it, for
   arbitrary (non-monotonic) commit timestamps" is FALSE of the faithful model (finding F10):
   a delete at 7 compacted away, then an older version 5 written: the read at 9 returns it.
   What holds: the statement for histories whose versions per key never decrease — that is
   C12_all_histories / C01_get_equals_spec (normal mode is the special case the proof covers). *)
Theorem C36_reads_refuted :
  let '(bad, s) := exec (init_sys true false 1 2 1) ManagedProofs.f10_ops 0 in
  bad = None
  /\ db_get (s_db s) ManagedProofs.f10_key 9 = Some (mkE ManagedProofs.f10_key 5 0 0 0 [5])
  /\ vis (s_writes s) ManagedProofs.f10_key 9 0 = None.
Proof. exact ManagedProofs.managed_nonmonotonic_refuted. Qed.
Print Assumptions C36_reads_refuted.
