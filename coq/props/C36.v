(* C36 — statements only; grows with B/*Proofs.v *)
From Verif Require Import Bytes Keys Consts Spec Lsm Sys.
From Verif Require LsmProofs SysProofs.
Open Scope N_scope.

Theorem C36_pending_is_last_write : forall x es k,
  klookup (x_pend (SysProofs.modifies x es)) k = SysProofs.last_write x es k (klookup (x_pend x) k).
Proof. exact SysProofs.pending_is_last_write. Qed.
Print Assumptions C36_pending_is_last_write.
