(* C36 — Managed mode honors caller-chosen timestamps. Statements only. *)
From Verif Require Import Bytes Keys Consts Spec Lsm Compact Sys SysTree.
From Verif Require CompactProofs GetProofs ManagedProofs BatchProofs SysProofs ManagedSpecProofs.
Open Scope N_scope.

(* commits use exactly the caller's commit timestamp; explicit per-entry versions are kept *)
Theorem C36_commit_ts_exact : forall s t x cts r ts s',
  s_managed s = true -> txn_commit s t x cts = (r, ts, s') -> r = 0 -> x_pend x <> [] ->
  ts = cts
  /\ s_writes s' = s_writes s ++ commit_entries x cts
  /\ s_next s' = s_next s
  /\ (forall e, In e (commit_entries x cts) ->
        exists e0, (In e0 (x_dups x) \/ In e0 (map snd (x_pend x))) /\ e = stamp cts e0
                   /\ (e_ver e0 = 0 -> e_ver e = cts) /\ (e_ver e0 <> 0 -> e = e0)).
Proof. exact ManagedProofs.managed_commit_ts_exact. Qed.
Print Assumptions C36_commit_ts_exact.

(* a read at any chosen timestamp returns the newest stored version at or below it, over every
   memtable and table (no dependence on the mode) *)
Theorem C36_read_is_newest_stored : forall d k ts,
  GetProofs.lsm_wf d -> db_get d k ts = CompactProofs.newest (GetProofs.all_entries d) k ts.
Proof. exact GetProofs.db_get_newest. Qed.
Print Assumptions C36_read_is_newest_stored.

(* for the same key@version the later call of a transaction wins (after the repair of F3) *)
Theorem C36_same_version_later_wins : forall x0 es ts s k v,
  BatchProofs.pend_ok x0 -> x_pend x0 = [] -> x_dups x0 = [] ->
  let x := SysProofs.modifies x0 es in
  BatchProofs.find_kv (fold_left mt_put (commit_entries x ts) s) k v =
  match BatchProofs.last_match (fun e => BatchProofs.kv_match k v (stamp ts e)) (BatchProofs.accepted_calls x0 es) with
  | Some e => Some (stamp ts e)
  | None => BatchProofs.find_kv s k v
  end.
Proof. exact BatchProofs.commit_later_call_wins. Qed.
Print Assumptions C36_same_version_later_wins.

(* Full statement "a read at any timestamp sees exactly the newest WRITE at or below it, for
   arbitrary (non-monotonic) commit timestamps" is FALSE of the faithful model (finding F10):
   a delete at 7 compacted away, then an older version 5 written: the read at 9 returns it.
   What holds: (a) the statement for histories whose versions per key never decrease — that is
   C12_all_histories / C01_get_equals_spec (normal mode is the special case the proof covers);
   (b) the statement for ARBITRARY (non-monotonic) commit timestamps as long as no compaction
   runs with a discard timestamp above 0 (SetDiscardTs never called):
   C36_managed_get_equals_spec_no_discard below. *)
Theorem C36_reads_refuted :
  let '(bad, s) := exec (init_sys true false 1 2 1) ManagedProofs.f10_ops 0 in
  bad = None
  /\ db_get (s_db s) ManagedProofs.f10_key 9 = Some (mkE ManagedProofs.f10_key 5 0 0 0 [5])
  /\ vis (s_writes s) ManagedProofs.f10_key 9 0 = None.
Proof. exact ManagedProofs.managed_nonmonotonic_refuted. Qed.
Print Assumptions C36_reads_refuted.

(* ---- managed mode without a discard timestamp: arbitrary (non-monotonic) commit timestamps ---- *)

(* whenever the tree stores exactly the committed writes (and no key@version was written twice
   with different contents), every read at every timestamp and wall-clock time is the
   specification's answer *)
Theorem C36_reads_when_all_stored : forall d ws k ts now,
  GetProofs.lsm_wf d -> CompactProofs.nodup_kv ws ->
  (forall x, In x ws <-> In x (GetProofs.all_entries d)) ->
  CompactProofs.vis_of now (db_get d k ts) = vis ws k ts now.
Proof. exact ManagedSpecProofs.managed_reads_when_all_stored. Qed.
Print Assumptions C36_reads_when_all_stored.

(* the labels the next theorems are about: commit timestamps are positive (CommitAt(0) is
   rejected by commitPrecheck unless an entry carries its own version; Sys.txn_commit does not
   model the rejection: C36_zero_commit_ts_not_stored_refuted), every compaction ran with discard
   timestamp 0 and without drop prefixes.  Nothing is required of the ORDER of the timestamps,
   nor of explicit per-entry versions (SetEntryAt). *)
Example C36_op_managed_def : forall o,
  ManagedSpecProofs.op_managed o =
  match o with
  | Commit _ cts _ => 0 < cts
  | Compact c _ => c_discard c = 0 /\ c_drop c = []
  | _ => True
  end.
Proof. reflexivity. Qed.

(* every state a managed history reaches is well-formed, all stored versions are positive, and
   the memtable + tables hold EXACTLY the committed writes — provided no key@version was
   written twice with different contents (nodup_kv of the final list of writes; excluded because
   the memtable overwrites the first copy and across tables the precedence of two copies can
   flip: finding F8) *)
Theorem C36_managed_stored_exactly : forall detect nkeep nlevels next ops,
  (0 < nlevels)%nat -> Forall ManagedSpecProofs.op_managed ops ->
  let s := snd (exec_tree (init_sys true detect nkeep nlevels next) ops 0) in
  GetProofs.lsm_wf (s_db s) /\
  (forall w, In w (s_writes s) -> 0 < e_ver w) /\
  (CompactProofs.nodup_kv (s_writes s) ->
   forall x, In x (s_writes s) <-> In x (GetProofs.all_entries (s_db s))).
Proof. exact ManagedSpecProofs.managed_stored_exactly. Qed.
Print Assumptions C36_managed_stored_exactly.

(* ... and therefore a read at any chosen timestamp, at any wall-clock time, returns exactly the
   newest write at or below it, whatever the order of the caller-chosen commit timestamps *)
Theorem C36_managed_get_equals_spec_no_discard : forall detect nkeep nlevels next ops,
  (0 < nlevels)%nat -> Forall ManagedSpecProofs.op_managed ops ->
  let s := snd (exec_tree (init_sys true detect nkeep nlevels next) ops 0) in
  CompactProofs.nodup_kv (s_writes s) ->
  forall k ts now, CompactProofs.vis_of now (db_get (s_db s) k ts) = vis (s_writes s) k ts now.
Proof. exact ManagedSpecProofs.managed_get_equals_spec_no_discard. Qed.
Print Assumptions C36_managed_get_equals_spec_no_discard.

(* the hypotheses are satisfiable by a history with non-monotonic timestamps: key 107 written at
   version 9, flushed, compacted into level 1; then the OLDER version 5 written and flushed, so
   level 0 (consulted first) holds the older version and level 1 the newer one; reads return the
   newest version at or below the read timestamp *)
Example C36_nonmonotonic_history :
  let '(bad, s) := exec_tree (init_sys true false 1 2 1) ManagedSpecProofs.nm_ops 0 in
  bad = None
  /\ l_levels (s_db s) = [[mkT 3 [mkE ManagedSpecProofs.nm_key 5 0 0 0 [5]]];
                           [mkT 2 [mkE ManagedSpecProofs.nm_key 9 0 0 0 [9]]]]
  /\ s_writes s = [mkE ManagedSpecProofs.nm_key 9 0 0 0 [9]; mkE ManagedSpecProofs.nm_key 5 0 0 0 [5]]
  /\ db_get (s_db s) ManagedSpecProofs.nm_key 10 = Some (mkE ManagedSpecProofs.nm_key 9 0 0 0 [9])
  /\ db_get (s_db s) ManagedSpecProofs.nm_key 7 = Some (mkE ManagedSpecProofs.nm_key 5 0 0 0 [5])
  /\ db_get (s_db s) ManagedSpecProofs.nm_key 4 = None
  /\ ManagedSpecProofs.nodup_kv_b (s_writes s) = true.
Proof. exact ManagedSpecProofs.nm_ops_accepted. Qed.

Example C36_nonmonotonic_history_hyps :
  Forall ManagedSpecProofs.op_managed ManagedSpecProofs.nm_ops /\
  CompactProofs.nodup_kv (s_writes (snd (exec_tree (init_sys true false 1 2 1) ManagedSpecProofs.nm_ops 0))).
Proof. exact ManagedSpecProofs.nm_ops_hyps. Qed.

(* what "0 < cts" excludes: the model stores a CommitAt(0) delete at version 0, which is at or
   below the discard timestamp 0, and a compaction without overlap below drops it *)
Theorem C36_zero_commit_ts_not_stored_refuted :
  let '(bad, s) := exec_tree (init_sys true false 1 2 1) ManagedSpecProofs.z_ops 0 in
  bad = None
  /\ s_writes s = [mkE ManagedSpecProofs.nm_key 0 1 0 0 []]
  /\ GetProofs.all_entries (s_db s) = [].
Proof. exact ManagedSpecProofs.zero_commit_ts_not_stored_refuted. Qed.
Print Assumptions C36_zero_commit_ts_not_stored_refuted.
