(* C13 — Compaction retains the versions the retention settings promise. Statements only.
   (Model: Compact.v filter_step = subcompact's loop; these are corollaries of the drop
   classification proved in CompactProofs.v; the all-histories lift is C12's.) *)
From Verif Require Import Bytes Keys Consts Spec Lsm Compact.
From Verif Require CompactProofs RetentionProofs.
Open Scope N_scope.
Import CompactProofs.

(* Compaction never removes a version newer than the discard watermark *)
Theorem C13_keeps_above_discard : forall p, cp_drop p = [] -> forall m e,
  sorted m -> In e m -> cp_discard p < e_ver e -> In e (compact_filter p m).
Proof. exact RetentionProofs.keeps_above_discard. Qed.
Print Assumptions C13_keeps_above_discard.

(* the only ways a version is dropped: (a) it is older than an entry of its key at or below the
   watermark (the NumVersionsToKeep-th one, a discard-earlier entry, a delete or an expired one),
   or (b) it is itself a deleted/expired entry at or below the watermark and nothing below
   overlaps; in case (b) nothing older of that key survives in the output *)
Theorem C13_drop_classification : forall p, cp_drop p = [] -> forall m, sorted m ->
  forall e, In e m ->
    In e (compact_filter p m)
    \/ (exists mk, In mk m /\ e_key mk = e_key e /\ e_ver e < e_ver mk /\ e_ver mk <= cp_discard p)
    \/ (dead_marker p e /\ cp_overlap p = false
        /\ forall y, In y (compact_filter p m) -> e_key y = e_key e -> e_ver e < e_ver y).
Proof. exact CompactProofs.filter_class. Qed.
Print Assumptions C13_drop_classification.

(* merge-operator entries are never dropped on their own account *)
Theorem C13_merge_entries_kept : forall p, cp_drop p = [] -> forall m e,
  sorted m -> In e m -> is_merge e = true -> ~ In e (compact_filter p m) ->
  exists mk, In mk m /\ e_key mk = e_key e /\ e_ver e < e_ver mk /\ e_ver mk <= cp_discard p.
Proof. exact RetentionProofs.merge_entry_dropped_only_behind_marker. Qed.
Print Assumptions C13_merge_entries_kept.

(* live entries go only behind a newer entry at or below the watermark *)
Theorem C13_live_entries : forall p, cp_drop p = [] -> forall m e,
  sorted m -> In e m -> deleted_or_expired e (cp_now p) = false -> ~ In e (compact_filter p m) ->
  exists mk, In mk m /\ e_key mk = e_key e /\ e_ver e < e_ver mk /\ e_ver mk <= cp_discard p.
Proof. exact RetentionProofs.live_entry_dropped_only_behind_marker. Qed.
Print Assumptions C13_live_entries.

(* AllVersions iteration can only show what was written: the output is drawn from the input *)
Theorem C13_nothing_invented : forall p m e,
  In e (compact_filter p m) -> In e m.
Proof. exact RetentionProofs.output_from_input. Qed.
Print Assumptions C13_nothing_invented.

Example C13_keep_two_versions :
  let p := mkCP 10 2 false [] 0 in
  compact_filter p [mkE [7] 9 0 0 0 [3]; mkE [7] 8 0 0 0 [2]; mkE [7] 7 0 0 0 [1]]
  = [mkE [7] 9 0 0 0 [3]; mkE [7] 8 0 0 0 [2]].
Proof. reflexivity. Qed.
