(* C13 — Compaction retains the versions the retention settings promise. Statements only.
   (Model: Compact.v filter_step = subcompact's loop; these are corollaries of the drop
   classification proved in CompactProofs.v; the all-histories lift is C12's.) *)
From Verif Require Import Bytes Keys Consts Spec Lsm Compact.
From Verif Require CompactProofs RetentionProofs RetentionExactProofs.
Open Scope N_scope.
Import CompactProofs.

(* Compaction never removes a version newer than the discard watermark *)
Theorem C13_keeps_above_discard : forall p, cp_drop p = [] -> forall m e,
  sorted m -> In e m -> cp_discard p < e_ver e -> In e (compact_filter p m).
Proof. exact RetentionProofs.keeps_above_discard. Qed.
Print Assumptions C13_keeps_above_discard.

(* the only ways a version is dropped: (a) it is older than an entry of its key at or below the
   watermark (the NumVersionsToKeep-th one, a discard-earlier entry, a delete or an expired one),
   or (b) it is itself a deleted/expired entry at or below the watermark and nothing below
   overlaps; in case (b) nothing older of that key survives in the output *)
Theorem C13_drop_classification : forall p, cp_drop p = [] -> forall m, sorted m ->
  forall e, In e m ->
    In e (compact_filter p m)
    \/ (exists mk, In mk m /\ e_key mk = e_key e /\ e_ver e < e_ver mk /\ e_ver mk <= cp_discard p)
    \/ (dead_marker p e /\ cp_overlap p = false
        /\ forall y, In y (compact_filter p m) -> e_key y = e_key e -> e_ver e < e_ver y).
Proof. exact CompactProofs.filter_class. Qed.
Print Assumptions C13_drop_classification.

(* merge-operator entries are never dropped on their own account *)
Theorem C13_merge_entries_kept : forall p, cp_drop p = [] -> forall m e,
  sorted m -> In e m -> is_merge e = true -> ~ In e (compact_filter p m) ->
  exists mk, In mk m /\ e_key mk = e_key e /\ e_ver e < e_ver mk /\ e_ver mk <= cp_discard p.
Proof. exact RetentionProofs.merge_entry_dropped_only_behind_marker. Qed.
Print Assumptions C13_merge_entries_kept.

(* live entries go only behind a newer entry at or below the watermark *)
Theorem C13_live_entries : forall p, cp_drop p = [] -> forall m e,
  sorted m -> In e m -> deleted_or_expired e (cp_now p) = false -> ~ In e (compact_filter p m) ->
  exists mk, In mk m /\ e_key mk = e_key e /\ e_ver e < e_ver mk /\ e_ver mk <= cp_discard p.
Proof. exact RetentionProofs.live_entry_dropped_only_behind_marker. Qed.
Print Assumptions C13_live_entries.

(* AllVersions iteration can only show what was written: the output is drawn from the input *)
Theorem C13_nothing_invented : forall p m e,
  In e (compact_filter p m) -> In e m.
Proof. exact RetentionProofs.output_from_input. Qed.
Print Assumptions C13_nothing_invented.

Example C13_keep_two_versions :
  let p := mkCP 10 2 false [] 0 in
  compact_filter p [mkE [7] 9 0 0 0 [3]; mkE [7] 8 0 0 0 [2]; mkE [7] 7 0 0 0 [1]]
  = [mkE [7] 9 0 0 0 [3]; mkE [7] 8 0 0 0 [2]].
Proof. reflexivity. Qed.

(* ======================================================================================
   The POSITIVE side: exactly what the coded filter keeps (RetentionExactProofs.v).

   Specification, computed from the source m alone (entries of one key appear newest first):
     counted p e        e_ver e <= discard  and  e is not a merge-operator entry
     rank p m e         number of counted entries of e's key strictly newer than e
     stopper p m e      e is counted and (deleted/expired at cp_now, or bitDiscardEarlierVersions,
                        or rank + 1 = NumVersionsToKeep)        -- the retention-ending condition
     behind_stop p m e  some strictly newer entry of e's key is a stopper
     stop_entry p m e   stopper and not behind_stop: THE stop entry of the key
     kept_spec p m e    not behind_stop, and (not stopper, or live, or hasOverlap)
   ====================================================================================== *)
Import RetentionExactProofs.

(* the filter IS the specification, entry for entry and in the same order *)
Theorem C13_retention_exact : forall p, cp_drop p = [] -> forall m, sorted m ->
  compact_filter p m = filter (kept_spec p m) m.
Proof. exact RetentionExactProofs.retention_exact. Qed.
Print Assumptions C13_retention_exact.

(* the same, case by case: (a) above the watermark; (b) before the stop entry of its key and not
   itself retention-ending; (c) the stop entry itself, if live or if something below overlaps *)
Theorem C13_retention_exact_iff : forall p, cp_drop p = [] -> forall m e, sorted m -> In e m ->
  (In e (compact_filter p m) <->
     cp_discard p < e_ver e
     \/ (behind_stop p m e = false /\ stopper p m e = false)
     \/ (stop_entry p m e = true
         /\ (deleted_or_expired e (cp_now p) = false \/ cp_overlap p = true))).
Proof. exact RetentionExactProofs.retention_exact_iff. Qed.
Print Assumptions C13_retention_exact_iff.

(* how to read the boolean specification *)
Theorem C13_spec_stopper : forall p m e,
  stopper p m e = true <->
  e_ver e <= cp_discard p /\ is_merge e = false /\
  (deleted_or_expired e (cp_now p) = true \/ has_discard e = true \/ rank p m e + 1 = cp_nkeep p).
Proof. exact RetentionExactProofs.stopper_iff. Qed.
Print Assumptions C13_spec_stopper.

Theorem C13_spec_behind_stop : forall p m e,
  behind_stop p m e = true <->
  exists x, In x m /\ e_key x = e_key e /\ e_ver e < e_ver x /\ stopper p m x = true.
Proof. exact RetentionExactProofs.behind_stop_iff. Qed.
Print Assumptions C13_spec_behind_stop.

Theorem C13_spec_stop_entry : forall p m e,
  stop_entry p m e = true <-> stopper p m e = true /\ behind_stop p m e = false.
Proof. exact RetentionExactProofs.stop_entry_iff. Qed.
Print Assumptions C13_spec_stop_entry.

Theorem C13_stop_entry_unique : forall p m a b,
  In a m -> In b m -> e_key a = e_key b ->
  stop_entry p m a = true -> stop_entry p m b = true -> e_ver a = e_ver b.
Proof. exact RetentionExactProofs.stop_entry_unique. Qed.
Print Assumptions C13_stop_entry_unique.

(* "keeps the newest NumVersionsToKeep versions of each key": fewer than NumVersionsToKeep counted
   entries above it, none of them a delete / expired / discard-earlier entry, itself live => kept *)
Theorem C13_keeps_newest_nkeep : forall p, cp_drop p = [] -> forall m e,
  sorted m -> In e m ->
  rank p m e < cp_nkeep p ->
  (forall x, In x m -> e_key x = e_key e -> e_ver e < e_ver x ->
     e_ver x <= cp_discard p -> is_merge x = false ->
     deleted_or_expired x (cp_now p) = false /\ has_discard x = false) ->
  deleted_or_expired e (cp_now p) = false ->
  In e (compact_filter p m).
Proof. exact RetentionExactProofs.keeps_newest_nkeep. Qed.
Print Assumptions C13_keeps_newest_nkeep.

(* "stopping early at (and dropping older than)": everything of the key older than the stop
   entry goes, merge entries included; everything newer stays *)
Theorem C13_stops_at_marker : forall p, cp_drop p = [] -> forall m s e,
  sorted m -> In s m -> stop_entry p m s = true ->
  e_key e = e_key s -> e_ver e < e_ver s -> ~ In e (compact_filter p m).
Proof. exact RetentionExactProofs.stops_at_marker. Qed.
Print Assumptions C13_stops_at_marker.

Theorem C13_kept_before_stop : forall p, cp_drop p = [] -> forall m s e,
  sorted m -> In s m -> stop_entry p m s = true ->
  In e m -> e_key e = e_key s -> e_ver s < e_ver e -> In e (compact_filter p m).
Proof. exact RetentionExactProofs.kept_before_stop. Qed.
Print Assumptions C13_kept_before_stop.

Theorem C13_keeps_all_without_stop : forall p, cp_drop p = [] -> forall m e,
  sorted m -> In e m ->
  (forall x, In x m -> e_key x = e_key e -> stopper p m x = false) ->
  In e (compact_filter p m).
Proof. exact RetentionExactProofs.keeps_all_without_stop. Qed.
Print Assumptions C13_keeps_all_without_stop.

(* at most NumVersionsToKeep counted versions of a key survive (NumVersionsToKeep >= 1) *)
Theorem C13_at_most_nkeep_live_below_watermark : forall p, cp_drop p = [] -> forall m k,
  sorted m -> 1 <= cp_nkeep p ->
  N.of_nat (length (filter (fun e => bytes_eqb (e_key e) k && counted p e) (compact_filter p m)))
  <= cp_nkeep p.
Proof. exact RetentionExactProofs.at_most_nkeep_live_below_watermark. Qed.
Print Assumptions C13_at_most_nkeep_live_below_watermark.

(* merge-operator entries: kept exactly until the first retention-ending entry of their key *)
Theorem C13_merge_entries_kept_until_marker : forall p, cp_drop p = [] -> forall m e,
  sorted m -> In e m -> is_merge e = true ->
  (In e (compact_filter p m) <->
   forall x, In x m -> e_key x = e_key e -> e_ver e < e_ver x -> stopper p m x = false).
Proof. exact RetentionExactProofs.merge_entries_kept_until_marker. Qed.
Print Assumptions C13_merge_entries_kept_until_marker.

(* a version above the watermark never ends retention — not even a delete or a
   discard-earlier-versions entry: those act only once the watermark has passed them *)
Theorem C13_above_watermark_never_stops : forall p m x,
  cp_discard p < e_ver x -> stopper p m x = false.
Proof. exact RetentionExactProofs.above_watermark_never_stops. Qed.
Print Assumptions C13_above_watermark_never_stops.

(* NumVersionsToKeep = 0 is accepted by Options and means "every version": the count rule
   (numVersions == NumVersionsToKeep, tested after the increment) never fires *)
Theorem C13_nkeep_zero_keeps_every_version : forall p, cp_drop p = [] -> forall m e,
  cp_nkeep p = 0 -> sorted m -> In e m ->
  (forall x, In x m -> e_key x = e_key e -> e_ver e <= e_ver x ->
     deleted_or_expired x (cp_now p) = false /\ has_discard x = false) ->
  In e (compact_filter p m).
Proof. exact RetentionExactProofs.nkeep_zero_keeps_every_version. Qed.
Print Assumptions C13_nkeep_zero_keeps_every_version.

(* ... so the upper bound needs its guard 1 <= NumVersionsToKeep *)
Theorem C13_at_most_nkeep_unguarded_refuted :
  exists p m k, cp_drop p = [] /\ sorted m /\
    ~ N.of_nat (length (filter (fun e => bytes_eqb (e_key e) k && counted p e) (compact_filter p m)))
      <= cp_nkeep p.
Proof. exact RetentionExactProofs.at_most_nkeep_unguarded_refuted. Qed.
Print Assumptions C13_at_most_nkeep_unguarded_refuted.

(* ... and the exact characterisation needs the strict order (no repeated key@version) *)
Theorem C13_retention_exact_duplicates_refuted :
  exists p m, cp_drop p = [] /\ compact_filter p m <> filter (kept_spec p m) m.
Proof. exact RetentionExactProofs.retention_exact_duplicates_refuted. Qed.
Print Assumptions C13_retention_exact_duplicates_refuted.

(* loop state on ARBITRARY streams (unsorted, with drop prefixes): the skip key is always the
   last key, so a skip is only cleared by an entry of another key, at which point the version
   count restarts — it never carries over to the next key and a key never resumes counting *)
Theorem C13_skip_is_last_step : forall p st x st' b,
  skip_is_last st -> filter_step p st x = (st', b) -> skip_is_last st'.
Proof. exact RetentionExactProofs.skip_is_last_step. Qed.
Print Assumptions C13_skip_is_last_step.

Theorem C13_count_restarts_after_skip : forall p st x st' b k,
  skip_is_last st -> cs_skip st = Some k -> e_key x <> k ->
  has_any_prefix (cp_drop p) x = false ->
  filter_step p st x = (st', b) ->
  cs_nver st' = (if counted p x then 1 else 0).
Proof. exact RetentionExactProofs.count_restarts_after_skip. Qed.
Print Assumptions C13_count_restarts_after_skip.

(* A concrete stream: watermark 10, NumVersionsToKeep 2, now = 100; meta bits: 1 delete,
   4 discard-earlier, 8 merge. Keys [1] < [1;2] < [2] ([1] is a byte-prefix of [1;2]). *)
Definition C13_stream : src :=
  [ mkE [1] 12 4 0 0 [12]     (* above the watermark, discard-earlier: kept, stops nothing *)
  ; mkE [1] 11 0 0 0 [11]     (* above the watermark: kept *)
  ; mkE [1]  9 8 0 0 [9]      (* merge entry: kept, not counted *)
  ; mkE [1]  8 0 0 0 [8]      (* counted #1: kept *)
  ; mkE [1]  7 8 0 0 [7]      (* merge entry: kept *)
  ; mkE [1]  6 0 0 0 [6]      (* counted #2 = NumVersionsToKeep: the stop entry, live: kept *)
  ; mkE [1]  5 8 0 0 [5]      (* merge entry behind the stop entry: dropped *)
  ; mkE [1]  4 0 0 0 [4]      (* dropped *)
  ; mkE [1;2] 9 0 0 0 [9]     (* new key, count restarts: #1 kept *)
  ; mkE [1;2] 8 0 0 50 [8]    (* expired (50 <= 100): the stop entry; kept only with overlap *)
  ; mkE [1;2] 7 0 0 0 [7]     (* dropped *)
  ; mkE [2] 10 4 0 0 [10]     (* at the watermark, discard-earlier: the stop entry, live: kept *)
  ; mkE [2]  3 0 0 0 [3] ].   (* dropped *)

Example C13_stream_sorted : sorted C13_stream.
Proof. repeat constructor. Qed.

Example C13_stream_no_overlap :
  compact_filter (mkCP 10 2 false [] 100) C13_stream
  = [ mkE [1] 12 4 0 0 [12]; mkE [1] 11 0 0 0 [11]; mkE [1] 9 8 0 0 [9]; mkE [1] 8 0 0 0 [8]
    ; mkE [1] 7 8 0 0 [7]; mkE [1] 6 0 0 0 [6]
    ; mkE [1;2] 9 0 0 0 [9]
    ; mkE [2] 10 4 0 0 [10] ].
Proof. vm_compute. reflexivity. Qed.

Example C13_stream_with_overlap :
  compact_filter (mkCP 10 2 true [] 100) C13_stream
  = [ mkE [1] 12 4 0 0 [12]; mkE [1] 11 0 0 0 [11]; mkE [1] 9 8 0 0 [9]; mkE [1] 8 0 0 0 [8]
    ; mkE [1] 7 8 0 0 [7]; mkE [1] 6 0 0 0 [6]
    ; mkE [1;2] 9 0 0 0 [9]; mkE [1;2] 8 0 0 50 [8]
    ; mkE [2] 10 4 0 0 [10] ].
Proof. vm_compute. reflexivity. Qed.

(* the specification computes the same thing, and names the three stop entries *)
Example C13_stream_spec :
  let p := mkCP 10 2 false [] 100 in
  filter (kept_spec p C13_stream) C13_stream = compact_filter p C13_stream
  /\ filter (stop_entry p C13_stream) C13_stream
     = [ mkE [1] 6 0 0 0 [6]; mkE [1;2] 8 0 0 50 [8]; mkE [2] 10 4 0 0 [10] ]
  /\ map (rank p C13_stream) C13_stream = [0;0;0;0;1;1;2;2;0;1;2;0;1].
Proof. vm_compute. repeat split. Qed.
