(* C10 — With SyncWrites, acknowledged commits survive loss of unsynced data.
   Statements only; proofs in coq/C/PowerLossProofs.v.

   `power_loss_result c st` = what badger.Open returns on the image a power loss leaves of
   state st (FS.power_loss): names as of the last directory fsync; every file with the content
   of its last fsync/msync; never-synced files empty; unsynced appends, truncations and
   unlinks undone.  `fixed_sync c` = SyncWrites on, with the repairs of F9 (directory fsync
   after creating a .mem / .vlog / flushed .sst before its first use) and F25 (a zero-size
   log file is an empty log).

   Pinned tree: REFUTED (F9) by three witnesses; the full statement is proved for the
   repaired behaviour.  No `_partial` variant is stated: on the pinned tree the value-log file
   of every session is created after Open's only directory fsync, so the excluding
   hypothesis would have to rule out every value-log value and every memtable rotation. *)
From Verif Require Import FS Recover Persist Crash.
From Verif Require FSProofs RecoverProofs CrashProofs PowerLossProofs.
Open Scope N_scope.

Theorem C10_power_loss_prefix : forall c tr st,
  sync_writes c = true /\ fix_dirsync c = true /\ fix_zerolog c = true ->
  run c (init c) tr = Some st ->
  exists R, power_loss_result c st = Some R /\ prefix_ok st R.
Proof. exact PowerLossProofs.C10_power_loss_prefix_fixed. Qed.
Print Assumptions C10_power_loss_prefix.

Theorem C10_visible_state : forall c tr st,
  sync_writes c = true /\ fix_dirsync c = true /\ fix_zerolog c = true ->
  run c (init c) tr = Some st ->
  exists R n, power_loss_result c st = Some R /\ (acked st <= n)%nat /\ (n <= length (issued st))%nat /\
    forall e, visible (concat (firstn n (issued st))) e <-> visible R e.
Proof. exact PowerLossProofs.C10_visible_state. Qed.
Print Assumptions C10_visible_state.

(* F9 (a): rotation without directory fsync, one more acknowledged commit into the new WAL,
   power loss: the WAL's name is gone and with it the acknowledged commit *)
Theorem C10_power_loss_refuted_wal_name :
  exists tr st R, run (cfg_pinned true) (init (cfg_pinned true)) tr = Some st /\
    power_loss_result (cfg_pinned true) st = Some R /\ ~ prefix_ok st R.
Proof. exact PowerLossProofs.C10_refuted_wal_name. Qed.
Print Assumptions C10_power_loss_refuted_wal_name.

(* F9 (b): flush without directory fsync: the MANIFEST (fsynced) lists a table whose name is
   gone: Open fails *)
Theorem C10_power_loss_refuted_table_name :
  exists tr st, run (cfg_pinned true) (init (cfg_pinned true)) tr = Some st /\
    power_loss_result (cfg_pinned true) st = None.
Proof. exact PowerLossProofs.C10_refuted_table_name. Qed.
Print Assumptions C10_power_loss_refuted_table_name.

(* F9 (c): the session's value-log file is created after Open's directory fsync: the first
   acknowledged commit with a value-log value loses its value *)
Theorem C10_power_loss_refuted_vlog_name :
  exists tr st R, run (cfg_pinned true) (init (cfg_pinned true)) tr = Some st /\
    power_loss_result (cfg_pinned true) st = Some R /\ ~ prefix_ok st R.
Proof. exact PowerLossProofs.C10_refuted_vlog_name. Qed.
Print Assumptions C10_power_loss_refuted_vlog_name.

(* The sync events are what makes content durable in the model, and the harness takes them from
   the system calls the process really made (strace; harness/strace.go): a sync the code skips
   is an event the trace lacks.  These are the guards that then reject the trace: an
   acknowledgement needs the current WAL msynced; a flushed WAL is truncated / unlinked only
   when its table is in the MANIFEST as of the last MANIFEST fsync; a change set is appended
   only to a fsynced MANIFEST. *)
Theorem C10_sync_events_required : forall c st,
  (forall st', sync_writes c = true -> pstep c st PAck = Some st' ->
     log_synced (pfs st) (Wal (walcur st)) = true) /\
  (forall f st', pstep c st (PE (Truncate0 (Wal f))) = Some st' \/ pstep c st (PE (Unlink (Wal f))) = Some st' ->
     f <= nflushed_s st) /\
  (forall cs st', pstep c st (PE (Append Manifest (IM cs))) = Some st' -> synced (pfs st) Manifest = true).
Proof. exact PowerLossProofs.C10_sync_events_required. Qed.
Print Assumptions C10_sync_events_required.

(* a flush whose change set is not fsynced before the flushed WAL is released (the hook
   persist.manifest.done fires all the same): REJECTED by the guard; accepted with the fsync,
   and then the acknowledged commit survives; the same file-system events without the guard:
   Open succeeds and the acknowledged commit is gone *)
Example C10_missing_manifest_sync_rejected :
  run (cfg_fixed true) (init (cfg_fixed true)) (tr_flush_release false) = None /\
  match run (cfg_fixed true) (init (cfg_fixed true)) (tr_flush_release true) with
  | Some st => match power_loss_result (cfg_fixed true) st with
               | Some R => prefix_okb st R && Nat.eqb (acked st) 1 && Nat.eqb (length R) 1
               | None => false end
  | None => false
  end = true /\
  recover (cfg_fixed true)
    (power_loss (apply_events (init_fs (cfg_fixed true)) (fs_events (tr_flush_release false)))) = Some [].
Proof. exact PowerLossProofs.C10_missing_manifest_sync. Qed.

(* hypotheses are satisfiable: the example trace (vlog value, rotations, flushes, WAL removal,
   compaction, with the repaired directory fsyncs) is accepted with both repairs and its
   power-loss image recovers both acknowledged commits; the same witnesses that refute the
   pinned tree are REJECTED by the repaired protocol (they skip the directory fsync) *)
Example C10_example_fixed :
  match run (cfg_fixed true) (init (cfg_fixed true)) (tr_example (cfg_fixed true)) with
  | Some st => match power_loss_result (cfg_fixed true) st with
               | Some R => prefix_okb st R && Nat.eqb (acked st) 2 | None => false end
  | None => false
  end = true.
Proof. vm_compute. reflexivity. Qed.
Example C10_witnesses_need_the_defect :
  run (cfg_fixed true) (init (cfg_fixed true)) (tr_f9_wal false) = None /\
  run (cfg_fixed true) (init (cfg_fixed true)) (tr_flush false) = None /\
  (exists st, run (cfg_fixed true) (init (cfg_fixed true)) (tr_f9_wal true) = Some st) /\
  (exists st, run (cfg_fixed true) (init (cfg_fixed true)) (tr_flush true) = Some st).
Proof. repeat split; try (vm_compute; reflexivity); eexists; vm_compute; reflexivity. Qed.
