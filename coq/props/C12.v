(* C12 — Flushes and compactions never change reads at or above the discard watermark.
   Statements only; proofs in B/CompactProofs.v, B/GetProofs.v, B/MergeProofs.v, B/C12Proofs.v.

   Full statement (kept visible): for every reachable state and every compaction the picker
   relation allows, every read at ts >= discard is unchanged.  What is proved here is that
   statement with the tree-shape facts it needs made explicit as hypotheses:
     - lsm_wf: every source sorted, levels >= 1 sorted/disjoint (C14),
     - nodup_kv: no key@version stored twice (true in normal mode; the managed-mode
       rewrite of a key@version is the recorded finding F8),
     - (R): a marker dropped for lack of overlap hides nothing outside the compaction
       (what Mono / L0 age order / NoSkip give; its failure modes are findings F1 (fixed),
       F10, F11).
   The lift of (R) from the picker relation over all reachable states is C12_…_partial
   work in progress (DESIGN.md §6 C12). *)
From Verif Require Import Bytes Keys Consts Spec Lsm Compact.
From Verif Require Import Sys.
From Verif Require LsmProofs CompactProofs GetProofs MergeProofs C12Proofs InstallProofs.
Open Scope N_scope.
Import CompactProofs GetProofs.

(* Theorem A: the compaction filter (subcompact's loop, as coded) never changes the newest
   visible version at or above the discard timestamp, for any bag O of entries outside the
   compaction *)
Theorem C12_filter_preserves_reads : forall p, cp_drop p = [] -> forall m O k ts now',
  sorted m -> nodup_kv (m ++ O) ->
  (forall e, In e m -> dead_marker p e -> cp_overlap p = false ->
     forall o, In o O -> e_key o = e_key e -> e_ver e < e_ver o) ->
  cp_discard p <= ts -> cp_now p <= now' ->
  vis_of now' (newest (compact_filter p m ++ O) k ts) = vis_of now' (newest (m ++ O) k ts).
Proof. exact CompactProofs.filter_preserves_reads. Qed.
Print Assumptions C12_filter_preserves_reads.

(* what the filter may drop: only versions behind a newer marker at or below the discard
   timestamp, or dead markers when nothing below overlaps *)
Theorem C12_filter_drop_classification : forall p, cp_drop p = [] -> forall m, sorted m ->
  forall e, In e m ->
    In e (compact_filter p m)
    \/ (exists mk, In mk m /\ e_key mk = e_key e /\ e_ver e < e_ver mk /\ e_ver mk <= cp_discard p)
    \/ (dead_marker p e /\ cp_overlap p = false
        /\ forall y, In y (compact_filter p m) -> e_key y = e_key e -> e_ver e < e_ver y).
Proof. exact CompactProofs.filter_class. Qed.
Print Assumptions C12_filter_drop_classification.

(* Theorem B: db.get as coded (memtables newest first, L0 newest first, one table per deeper
   level, early exit on exact version) = the newest version <= ts over ALL stored entries *)
Theorem C12_get_is_newest_over_all_entries : forall d k ts,
  lsm_wf d -> db_get d k ts = newest (all_entries d) k ts.
Proof. exact GetProofs.db_get_newest. Qed.
Print Assumptions C12_get_is_newest_over_all_entries.

(* the merged compaction input is sorted and loses nothing *)
Theorem C12_merge_sorted : forall ss, Forall sorted ss -> sorted (merge_all ss).
Proof. exact MergeProofs.merge_all_sorted. Qed.
Print Assumptions C12_merge_sorted.
Theorem C12_merge_complete : forall ss x,
  nodup_kv (concat ss) -> In x (concat ss) -> In x (merge_all ss).
Proof. exact MergeProofs.merge_all_complete. Qed.
Print Assumptions C12_merge_complete.

(* combined: a compaction that replaces `inputs` by the filtered merge leaves every Get at
   ts >= discard unchanged (also at any later wall-clock time) *)
Theorem C12_compaction_preserves_reads_partial : forall d d' p inputs O k ts now',
  lsm_wf d -> lsm_wf d' -> Forall sorted inputs -> nodup_kv (all_entries d) ->
  (forall x, In x (all_entries d) <-> In x (concat inputs ++ O)) ->
  (forall x, In x (all_entries d') <-> In x (compact_filter p (merge_all inputs) ++ O)) ->
  cp_drop p = [] ->
  (forall e, In e (concat inputs) -> dead_marker p e -> cp_overlap p = false ->
     forall o, In o O -> e_key o = e_key e -> e_ver e < e_ver o) ->
  cp_discard p <= ts -> cp_now p <= now' ->
  vis_of now' (db_get d' k ts) = vis_of now' (db_get d k ts).
Proof. exact C12Proofs.compaction_preserves_get. Qed.
Print Assumptions C12_compaction_preserves_reads_partial.

(* a memtable flush changes no read at all *)
Theorem C12_flush_preserves_reads : forall d id k ts,
  lsm_wf d -> lsm_wf (flush_oldest (rotate d) id) -> l_levels d <> [] ->
  nodup_kv (all_entries d) ->
  db_get (flush_oldest (rotate d) id) k ts = db_get d k ts.
Proof. exact C12Proofs.flush_preserves_get. Qed.
Print Assumptions C12_flush_preserves_reads.

(* the hypotheses are satisfiable by a non-trivial tree: a tombstone over an older version *)
Example C12_hypotheses_satisfiable :
  let t1 := mkT 1 [mkE [7] 5 1 0 0 []] in
  let t2 := mkT 2 [mkE [7] 3 0 0 0 [1]] in
  let d := mkLsm [] [] [[t2; t1]; []] in
  sorted (merge_all [t_ents t1; t_ents t2]) /\ db_get d [7] 9 = Some (mkE [7] 5 1 0 0 []).
Proof. split; [repeat constructor|reflexivity]. Qed.

(* Theorem C: installing a compaction as the code does (replaceTables on the output level in
   the observed order, deleteTables on the input level) leaves every Get at ts >= discard
   unchanged: the bookkeeping (fresh table ids, output layout, observed order — exactly what
   Sys.step_strict checks on every label of every correspondence run) is discharged here; what
   remains as hypotheses is the tree shape (lsm_wf before and after = C14), distinct key@version
   and (R) *)
Import InstallProofs.
Theorem C12_installed_compaction_preserves_reads_partial : forall d c k ts now',
  let ls := l_levels d in
  lsm_wf d -> lsm_wf (tree_after d c) ->
  NoDup (all_ids ls) -> pick_wf ls c -> fresh_layout ls c ->
  layout_sum (c_layout c) = length (compaction_output ls c) ->
  order_ok (c_order c)
    (let nl := drop_tables (c_bot c) (nth (c_next c) ls []) ++ new_tables ls c in
     if (c_this c =? c_next c)%nat then drop_tables (c_top c) nl else nl) = true ->
  c_drop c = [] ->
  nodup_kv (all_entries d) ->
  Forall sorted (compaction_inputs ls c) ->
  (forall e, In e (concat (compaction_inputs ls c)) -> dead_marker (cparams_of ls c) e ->
     compaction_overlap ls c = false ->
     forall o, In o (outside d c) -> e_key o = e_key e -> e_ver e < e_ver o) ->
  c_discard c <= ts -> c_now c <= now' ->
  vis_of now' (db_get (tree_after d c) k ts) = vis_of now' (db_get d k ts).
Proof. exact InstallProofs.installed_compaction_preserves_get. Qed.
Print Assumptions C12_installed_compaction_preserves_reads_partial.

(* the tree after the installation holds exactly: the tables that were not picked + the new ones *)
Theorem C12_install_tables : forall ls c t,
  NoDup (all_ids ls) -> (c_this c < length ls)%nat -> (c_next c < length ls)%nat ->
  fresh_layout ls c ->
  (forall i, In i (c_top c) -> In i (map t_id (nth (c_this c) ls []))) ->
  order_ok (c_order c)
    (let nl := drop_tables (c_bot c) (nth (c_next c) ls []) ++ new_tables ls c in
     if (c_this c =? c_next c)%nat then drop_tables (c_top c) nl else nl) = true ->
  in_levels (apply_compaction ls c) t <->
  (in_levels ls t /\ ~ picked ls c t) \/ In t (new_tables ls c).
Proof. exact InstallProofs.apply_compaction_tables. Qed.
Print Assumptions C12_install_tables.
