(* C12 — Flushes and compactions never change reads at or above the discard watermark.
   Statements only; proofs in B/CompactProofs.v, B/GetProofs.v, B/MergeProofs.v, B/C12Proofs.v.

   Full statement (kept visible): for every reachable state and every compaction the picker
   relation allows, every read at ts >= discard is unchanged.  What is proved here is that
   statement with the tree-shape facts it needs made explicit as hypotheses:
     - lsm_wf: every source sorted, levels >= 1 sorted/disjoint (C14),
     - nodup_kv: no key@version stored twice (true in normal mode; the managed-mode
       rewrite of a key@version is the recorded finding F8),
     - (R): a marker dropped for lack of overlap hides nothing outside the compaction
       (what Mono / L0 age order / NoSkip give; its failure modes are findings F1 (fixed),
       F10, F11).
   The lift of (R) from the picker relation over all reachable states is C12_…_partial
   work in progress (DESIGN.md §6 C12). *)
From Verif Require Import Bytes Keys Consts Spec Lsm Compact.
From Verif Require Import Sys.
From Verif Require LsmProofs CompactProofs GetProofs MergeProofs C12Proofs InstallProofs.
Open Scope N_scope.
Import CompactProofs GetProofs.

(* Theorem A: the compaction filter (subcompact's loop, as coded) never changes the newest
   visible version at or above the discard timestamp, for any bag O of entries outside the
   compaction *)
Theorem C12_filter_preserves_reads : forall p, cp_drop p = [] -> forall m O k ts now',
  sorted m -> nodup_kv (m ++ O) ->
  (forall e, In e m -> dead_marker p e -> cp_overlap p = false ->
     forall o, In o O -> e_key o = e_key e -> e_ver e < e_ver o) ->
  cp_discard p <= ts -> cp_now p <= now' ->
  vis_of now' (newest (compact_filter p m ++ O) k ts) = vis_of now' (newest (m ++ O) k ts).
Proof. exact CompactProofs.filter_preserves_reads. Qed.
Print Assumptions C12_filter_preserves_reads.

(* what the filter may drop: only versions behind a newer marker at or below the discard
   timestamp, or dead markers when nothing below overlaps *)
Theorem C12_filter_drop_classification : forall p, cp_drop p = [] -> forall m, sorted m ->
  forall e, In e m ->
    In e (compact_filter p m)
    \/ (exists mk, In mk m /\ e_key mk = e_key e /\ e_ver e < e_ver mk /\ e_ver mk <= cp_discard p)
    \/ (dead_marker p e /\ cp_overlap p = false
        /\ forall y, In y (compact_filter p m) -> e_key y = e_key e -> e_ver e < e_ver y).
Proof. exact CompactProofs.filter_class. Qed.
Print Assumptions C12_filter_drop_classification.

(* Theorem B: db.get as coded (memtables newest first, L0 newest first, one table per deeper
   level, early exit on exact version) = the newest version <= ts over ALL stored entries *)
Theorem C12_get_is_newest_over_all_entries : forall d k ts,
  lsm_wf d -> db_get d k ts = newest (all_entries d) k ts.
Proof. exact GetProofs.db_get_newest. Qed.
Print Assumptions C12_get_is_newest_over_all_entries.

(* the merged compaction input is sorted and loses nothing *)
Theorem C12_merge_sorted : forall ss, Forall sorted ss -> sorted (merge_all ss).
Proof. exact MergeProofs.merge_all_sorted. Qed.
Print Assumptions C12_merge_sorted.
Theorem C12_merge_complete : forall ss x,
  nodup_kv (concat ss) -> In x (concat ss) -> In x (merge_all ss).
Proof. exact MergeProofs.merge_all_complete. Qed.
Print Assumptions C12_merge_complete.

(* combined: a compaction that replaces `inputs` by the filtered merge leaves every Get at
   ts >= discard unchanged (also at any later wall-clock time) *)
Theorem C12_compaction_preserves_reads_partial : forall d d' p inputs O k ts now',
  lsm_wf d -> lsm_wf d' -> Forall sorted inputs -> nodup_kv (all_entries d) ->
  (forall x, In x (all_entries d) <-> In x (concat inputs ++ O)) ->
  (forall x, In x (all_entries d') <-> In x (compact_filter p (merge_all inputs) ++ O)) ->
  cp_drop p = [] ->
  (forall e, In e (concat inputs) -> dead_marker p e -> cp_overlap p = false ->
     forall o, In o O -> e_key o = e_key e -> e_ver e < e_ver o) ->
  cp_discard p <= ts -> cp_now p <= now' ->
  vis_of now' (db_get d' k ts) = vis_of now' (db_get d k ts).
Proof. exact C12Proofs.compaction_preserves_get. Qed.
Print Assumptions C12_compaction_preserves_reads_partial.

(* a memtable flush changes no read at all *)
Theorem C12_flush_preserves_reads : forall d id k ts,
  lsm_wf d -> lsm_wf (flush_oldest (rotate d) id) -> l_levels d <> [] ->
  nodup_kv (all_entries d) ->
  db_get (flush_oldest (rotate d) id) k ts = db_get d k ts.
Proof. exact C12Proofs.flush_preserves_get. Qed.
Print Assumptions C12_flush_preserves_reads.

(* the hypotheses are satisfiable by a non-trivial tree: a tombstone over an older version *)
Example C12_hypotheses_satisfiable :
  let t1 := mkT 1 [mkE [7] 5 1 0 0 []] in
  let t2 := mkT 2 [mkE [7] 3 0 0 0 [1]] in
  let d := mkLsm [] [] [[t2; t1]; []] in
  sorted (merge_all [t_ents t1; t_ents t2]) /\ db_get d [7] 9 = Some (mkE [7] 5 1 0 0 []).
Proof. split; [repeat constructor|reflexivity]. Qed.

(* Theorem C: installing a compaction as the code does (replaceTables on the output level in
   the observed order, deleteTables on the input level) leaves every Get at ts >= discard
   unchanged: the bookkeeping (fresh table ids, output layout, observed order — exactly what
   Sys.step_strict checks on every label of every correspondence run) is discharged here; what
   remains as hypotheses is the tree shape (lsm_wf before and after = C14), distinct key@version
   and (R) *)
Import InstallProofs.
Theorem C12_installed_compaction_preserves_reads_partial : forall d c k ts now',
  let ls := l_levels d in
  lsm_wf d -> lsm_wf (tree_after d c) ->
  NoDup (all_ids ls) -> pick_wf ls c -> fresh_layout ls c ->
  layout_sum (c_layout c) = length (compaction_output ls c) ->
  order_ok (c_order c)
    (let nl := drop_tables (c_bot c) (nth (c_next c) ls []) ++ new_tables ls c in
     if (c_this c =? c_next c)%nat then drop_tables (c_top c) nl else nl) = true ->
  c_drop c = [] ->
  nodup_kv (all_entries d) ->
  Forall sorted (compaction_inputs ls c) ->
  (forall e, In e (concat (compaction_inputs ls c)) -> dead_marker (cparams_of ls c) e ->
     compaction_overlap ls c = false ->
     forall o, In o (outside d c) -> e_key o = e_key e -> e_ver e < e_ver o) ->
  c_discard c <= ts -> c_now c <= now' ->
  vis_of now' (db_get (tree_after d c) k ts) = vis_of now' (db_get d k ts).
Proof. exact InstallProofs.installed_compaction_preserves_get. Qed.
Print Assumptions C12_installed_compaction_preserves_reads_partial.

(* the tree after the installation holds exactly: the tables that were not picked + the new ones *)
Theorem C12_install_tables : forall ls c t,
  NoDup (all_ids ls) -> (c_this c < length ls)%nat -> (c_next c < length ls)%nat ->
  fresh_layout ls c ->
  (forall i, In i (c_top c) -> In i (map t_id (nth (c_this c) ls []))) ->
  order_ok (c_order c)
    (let nl := drop_tables (c_bot c) (nth (c_next c) ls []) ++ new_tables ls c in
     if (c_this c =? c_next c)%nat then drop_tables (c_top c) nl else nl) = true ->
  in_levels (apply_compaction ls c) t <->
  (in_levels ls t /\ ~ picked ls c t) \/ In t (new_tables ls c).
Proof. exact InstallProofs.apply_compaction_tables. Qed.
Print Assumptions C12_install_tables.

(* ---- the last step: (R) and the shape hypotheses discharged from a tree invariant, over all
   histories (normal mode, sequential, no drop prefixes).  Proofs: B/TreeInvProofs.v,
   B/TreeStepProofs.v.
   TreeInv d = no immutable memtable between labels, at least one level, the C14 structure
   (db_ok), distinct table ids, distinct key@version, Mono (the memtable holds newer versions
   than every level, level i newer than level j for i < j) and L0Inv (level 0 = A ++ B, A sorted by
   smallest key = what the last L0->L0 compaction left, B = the tables flushed since, in age
   order, each newer than all of A).  SysInv s = the C11 invariant (nextTxnTs above every stored
   version, no pending write carries a version) + TreeInv (s_db s).
   step_tree (B/SysTree.v) = Sys.step_strict + three more decidable label checks (fresh id for a
   flushed table also when the id is 0; c_next < number of levels; compact_extra_check = table
   breaks only between different user keys, contiguous Lmax->Lmax pick). *)
From Verif Require Import SysReopen SysTree.
From Verif Require ReopenTsProofs TreeInvProofs TreeStepProofs.
Import TreeInvProofs TreeStepProofs.

(* (R): a marker dropped for lack of overlap hides nothing outside the compaction *)
Theorem C12_R_from_tree_invariant : forall d c,
  TreeInv d -> pick_check (l_levels d) c = 0 -> c_drop c = [] ->
  forall e, In e (concat (compaction_inputs (l_levels d) c)) ->
  compaction_overlap (l_levels d) c = false ->
  forall o, In o (outside d c) -> e_key o = e_key e -> e_ver e < e_ver o.
Proof. exact TreeInvProofs.R_holds. Qed.
Print Assumptions C12_R_from_tree_invariant.

(* the invariant is kept by every label *)
Theorem C12_tree_invariant_step : forall s o s',
  SysInv s -> op_plain o -> step_tree s o = Ok s' -> SysInv s'.
Proof. exact TreeStepProofs.step_tree_preserves. Qed.
Print Assumptions C12_tree_invariant_step.

(* one compaction label: every Get at ts >= its discard timestamp is unchanged, at the
   compaction's wall-clock time and at any later one; no shape hypothesis is left *)
Theorem C12_compaction_step_preserves_reads : forall s c out s',
  SysInv s -> c_drop c = [] -> step_tree s (Compact c out) = Ok s' ->
  forall k ts now', c_discard c <= ts -> c_now c <= now' ->
  vis_of now' (db_get (s_db s') k ts) = vis_of now' (db_get (s_db s) k ts).
Proof. exact TreeStepProofs.compaction_step_preserves_reads. Qed.
Print Assumptions C12_compaction_step_preserves_reads.

Theorem C12_flush_step_preserves_reads : forall s id s',
  SysInv s -> step_tree s (Flush id) = Ok s' ->
  forall k ts, db_get (s_db s') k ts = db_get (s_db s) k ts.
Proof. exact TreeStepProofs.flush_step_preserves_reads. Qed.
Print Assumptions C12_flush_step_preserves_reads.

(* all histories: the invariant holds after every accepted prefix, and the next flush or
   compaction label changes no read at or above its discard timestamp *)
Theorem C12_all_histories : forall detect nkeep nlevels next pre o s',
  (0 < nlevels)%nat -> Forall op_plain pre -> op_plain o ->
  let s := snd (exec_tree (init_sys false detect nkeep nlevels next) pre 0) in
  step_tree s o = Ok s' ->
  SysInv s /\ SysInv s' /\
  (forall id, o = Flush id -> forall k ts, db_get (s_db s') k ts = db_get (s_db s) k ts) /\
  (forall c out, o = Compact c out -> forall k ts now', c_discard c <= ts -> c_now c <= now' ->
     vis_of now' (db_get (s_db s') k ts) = vis_of now' (db_get (s_db s) k ts)).
Proof. exact TreeStepProofs.all_histories. Qed.
Print Assumptions C12_all_histories.
Example C12_all_histories_ex :
  fst (exec_tree (init_sys false false 1 2 1) ex_history 0) = None /\ Forall op_plain ex_history.
Proof. exact TreeStepProofs.ex_history_accepted. Qed.
