(* C12 — Flushes and compactions never change reads at or above the discard watermark.
   Statements only. (Grows with B/CompactProofs.v.) *)
From Verif Require Import Bytes Keys Consts Spec Lsm Compact.
From Verif Require LsmProofs.
Open Scope N_scope.

Theorem C12_source_lookup_sound : forall s k ts e,
  src_get s k ts = Some e -> e_key e = k /\ e_ver e <= ts.
Proof. exact LsmProofs.src_get_ver_le. Qed.
Print Assumptions C12_source_lookup_sound.
