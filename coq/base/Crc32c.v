(* Crc32c.v — CRC-32C (Castagnoli), reflected, polynomial 0x82F63B78, as computed by Go's
   hash/crc32 with crc32.MakeTable(crc32.Castagnoli) (y.CastagnoliCrcTable):
     simpleUpdate: crc = ^crc; for v in p { crc = tab[byte(crc)^v] ^ (crc >> 8) }; return ^crc
   with tab[i] = eight LFSR steps applied to i.  The model is the bitwise form; that
   tab[byte(c)^v] ^ (c>>8) = eight steps applied to (c xor v) is lemma crc_byte_table
   (Crc32cProofs.v) and the whole function is compared with hash/crc32 on every run.
   Definitions only; proofs in Crc32cProofs.v *)
From Verif Require Import Bytes.
Open Scope N_scope.

Definition crc_poly : N := 2197175160.   (* 0x82F63B78 *)
Definition mask32 : N := 4294967295.     (* 0xFFFFFFFF *)

(* one step of the reflected LFSR: shift right, xor the polynomial if a 1 fell out *)
Definition crc_shift (c : N) : N :=
  if N.odd c then N.lxor (N.div2 c) crc_poly else N.div2 c.

Fixpoint iter_shift (n : nat) (c : N) : N :=
  match n with
  | O => c
  | S n' => iter_shift n' (crc_shift c)
  end.

Definition crc_byte (c b : N) : N := iter_shift 8 (N.lxor c b).

Definition crc_update (c : N) (l : bytes) : N := fold_left crc_byte l c.

(* crc32.Checksum(l, castagnoli) = hash.Sum32() after Write(l) on a fresh crc32.New(castagnoli) *)
Definition crc32c (l : bytes) : N := N.lxor (crc_update mask32 l) mask32.

(* the 256-entry table Go builds (simpleMakeTable), and the table-driven byte step *)
Definition crc_table_entry (i : N) : N := iter_shift 8 i.
Definition crc_byte_tab (c b : N) : N :=
  N.lxor (crc_table_entry (N.lxor (c mod 256) b)) (c / 256).
