From Verif Require Import Bytes BytesProofs Uvarint.
From Coq Require Import ZifyN ZifyNat ZifyBool.
Open Scope N_scope.

Lemma put_uvarint_f_wf f x : wf_bytes (put_uvarint_f f x) = true.
Proof.
  revert x; induction f as [|f IH]; intros x; cbn [put_uvarint_f]; auto.
  destruct (x <? 128) eqn:E.
  - cbn. unfold wf_byte. rewrite andb_true_r. apply N.ltb_lt. apply N.ltb_lt in E. lia.
  - cbn [wf_bytes forallb]. fold (wf_bytes (put_uvarint_f f (x / 128))). rewrite IH, andb_true_r.
    unfold wf_byte. apply N.ltb_lt. pose proof (N.mod_lt x 128). lia.
Qed.

Lemma put_uvarint_wf x : wf_bytes (put_uvarint x) = true.
Proof. apply put_uvarint_f_wf. Qed.

Lemma put_uvarint_f_len_le f x : (length (put_uvarint_f f x) <= f)%nat.
Proof.
  revert x; induction f as [|f IH]; intros x; cbn [put_uvarint_f]; auto.
  destruct (x <? 128); cbn [length]; [lia|]. specialize (IH (x / 128)). lia.
Qed.

Lemma put_uvarint_len_le x : (length (put_uvarint x) <= 10)%nat.
Proof. apply put_uvarint_f_len_le. Qed.

Lemma put_uvarint_f_nonempty f x : (0 < f)%nat -> (0 < length (put_uvarint_f f x))%nat.
Proof. destruct f; [lia|]. intros _. cbn [put_uvarint_f]. destruct (x <? 128); cbn; lia. Qed.

(* Main round-trip lemma, generalised over the position inside the varint *)
Lemma uvarint_f_put f i x acc rest :
  (i + f = 10)%nat -> (0 < f)%nat -> x * 2 ^ (7 * N.of_nat i) < two64 ->
  uvarint_f (put_uvarint_f f x ++ rest) i acc (7 * N.of_nat i) =
  (acc + x * 2 ^ (7 * N.of_nat i), Z.of_nat (i + length (put_uvarint_f f x))).
Proof.
  revert i x acc; induction f as [|f IH]; intros i x acc Hif Hf Hx; [lia|].
  cbn [put_uvarint_f].
  assert (Hi10: Nat.eqb i 10 = false) by (apply Nat.eqb_neq; lia).
  destruct (x <? 128) eqn:E.
  - cbn [app uvarint_f length]. rewrite Hi10, E.
    destruct (Nat.eqb i 9) eqn:E9.
    + apply Nat.eqb_eq in E9. subst i.
      assert (x < 2).
      { change (7 * N.of_nat 9) with 63 in Hx. unfold two64 in Hx.
        change (2 ^ 63) with 9223372036854775808 in Hx. lia. }
      assert (H1: (1 <? x) = false) by (apply N.ltb_ge; lia). rewrite H1. cbn [andb].
      f_equal; try lia.
    + cbn [andb]. f_equal; try lia.
  - apply N.ltb_ge in E.
    assert (f <> 0)%nat.
    { intros ->. assert (i = 9)%nat by lia. subst i.
      change (7 * N.of_nat 9) with 63 in Hx. unfold two64 in Hx.
      change (2 ^ 63) with 9223372036854775808 in Hx. lia. }
    cbn [app uvarint_f length]. rewrite Hi10.
    assert (Hb: (x mod 128 + 128 <? 128) = false) by (apply N.ltb_ge; lia). rewrite Hb.
    replace ((x mod 128 + 128) mod 128) with (x mod 128).
    2:{ rewrite <- (N.mul_1_l 128) at 3. rewrite N.mod_add by lia. now rewrite N.mod_mod by lia. }
    replace (7 * N.of_nat i + 7) with (7 * N.of_nat (S i)) by lia.
    rewrite IH; try lia.
    + f_equal; [|lia].
      replace (7 * N.of_nat (S i)) with (7 * N.of_nat i + 7) by lia.
      rewrite N.pow_add_r. change (2 ^ 7) with 128.
      pose proof (N.div_mod' x 128). nia.
    + replace (7 * N.of_nat (S i)) with (7 * N.of_nat i + 7) by lia.
      rewrite N.pow_add_r. change (2 ^ 7) with 128.
      pose proof (N.div_mod' x 128). pose proof (N.mod_lt x 128).
      assert (x / 128 * 128 <= x) by lia.
      assert (0 < 2 ^ (7 * N.of_nat i)) by (apply N.neq_0_lt_0, N.pow_nonzero; lia).
      nia.
Qed.

Theorem uvarint_put x rest : x < two64 ->
  uvarint (put_uvarint x ++ rest) = (x, Z.of_nat (length (put_uvarint x))).
Proof.
  intros Hx. unfold uvarint, put_uvarint.
  pose proof (uvarint_f_put 10 0 x 0 rest) as H. cbn [N.of_nat N.mul] in H.
  change (2 ^ 0) with 1 in H. rewrite N.mul_1_r in H. rewrite H by lia.
  f_equal.
Qed.

Lemma size_varint_f_put f x : length (put_uvarint_f f x) = size_varint_f f x.
Proof.
  revert x; induction f as [|f IH]; intros x; cbn [put_uvarint_f size_varint_f]; auto.
  destruct (x <? 128) eqn:E.
  - apply N.ltb_lt in E. assert (H: x / 128 = 0) by (apply N.div_small; lia).
    rewrite H. reflexivity.
  - apply N.ltb_ge in E.
    assert (H: (x / 128 =? 0) = false).
    { apply N.eqb_neq. intros H0. apply N.div_small_iff in H0; lia. }
    rewrite H. cbn [length]. now rewrite IH.
Qed.

Theorem size_varint_put x : length (put_uvarint x) = size_varint x.
Proof. apply size_varint_f_put. Qed.

Lemma slice_from_app a b : slice_from (a ++ b) (Z.of_nat (length a)) = Some b.
Proof.
  unfold slice_from. rewrite app_length.
  assert (H: ((Z.of_nat (length a) <? 0) || (Z.of_nat (length a + length b) <? Z.of_nat (length a)))%Z = false) by lia.
  rewrite H, Nat2Z.id, skipn_app, Nat.sub_diag, skipn_all. reflexivity.
Qed.
