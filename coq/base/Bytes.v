(* Bytes.v — byte strings as lists of N, Go's bytes.Compare, fixed-width integer codecs,
   hex decoding for the correspondence case files.  Definitions only; proofs in BytesProofs.v *)
From Coq Require Export List NArith ZArith Lia Bool.
Export ListNotations.
Open Scope N_scope.

Definition bytes := list N.

Definition wf_byte (b : N) : bool := b <? 256.
Definition wf_bytes (l : bytes) : bool := forallb wf_byte l.

(* Go bytes.Compare: -1 / 0 / +1 as comparison *)
Fixpoint lex_cmp (a b : bytes) : comparison :=
  match a, b with
  | [], [] => Eq
  | [], _ :: _ => Lt
  | _ :: _, [] => Gt
  | x :: a', y :: b' =>
      match x ?= y with
      | Eq => lex_cmp a' b'
      | c => c
      end
  end.

Fixpoint bytes_eqb (a b : bytes) : bool :=
  match a, b with
  | [], [] => true
  | x :: a', y :: b' => (x =? y) && bytes_eqb a' b'
  | _, _ => false
  end.

Fixpoint is_prefix (p l : bytes) : bool :=
  match p, l with
  | [], _ => true
  | x :: p', y :: l' => (x =? y) && is_prefix p' l'
  | _ :: _, [] => false
  end.

(* big-endian, n bytes: the low 8n bits of x *)
Fixpoint be_enc (n : nat) (x : N) : bytes :=
  match n with
  | O => []
  | S n' => (x / 256 ^ N.of_nat n') mod 256 :: be_enc n' (x mod 256 ^ N.of_nat n')
  end.

Definition be_dec (l : bytes) : N := fold_left (fun acc b => acc * 256 + b) l 0.

(* little-endian, n bytes *)
Fixpoint le_enc (n : nat) (x : N) : bytes :=
  match n with
  | O => []
  | S n' => x mod 256 :: le_enc n' (x / 256)
  end.

Fixpoint le_dec (l : bytes) : N :=
  match l with
  | [] => 0
  | b :: l' => b + 256 * le_dec l'
  end.

Definition lastn {A} (n : nat) (l : list A) : list A := skipn (length l - n) l.
Definition dropn_end {A} (n : nat) (l : list A) : list A := firstn (length l - n) l.

Definition two64 : N := 18446744073709551616.
Definition two32 : N := 4294967296.
Definition max_u64 : N := 18446744073709551615.

(* ---- hex strings, used only by generated case files ---- *)
From Coq Require Import String Ascii.
Definition hexval (c : ascii) : N :=
  let n := N_of_ascii c in
  if (48 <=? n) && (n <=? 57) then n - 48
  else if (97 <=? n) && (n <=? 102) then n - 87
  else 0.

Fixpoint hx (s : string) : bytes :=
  match s with
  | String a (String b r) => (16 * hexval a + hexval b) :: hx r
  | _ => []
  end.

Definition cmp_to_Z (c : comparison) : Z :=
  match c with Lt => (-1)%Z | Eq => 0%Z | Gt => 1%Z end.
