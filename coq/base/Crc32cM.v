(* Crc32cM.v — CRC-32C (Castagnoli), bitwise reflected form, as computed by Go's
   hash/crc32.Checksum(buf, crc32.MakeTable(crc32.Castagnoli)) (= y.CastagnoliCrcTable):
   crc = ^0; for each byte: crc ^= b; 8 x { crc = (crc >> 1) ^ (0x82F63B78 if crc & 1) }; result ^crc.
   Minimal private copy for the MANIFEST model (coq/base/Crc32c.v is owned by another slice). *)
From Verif Require Import Bytes.
Open Scope N_scope.

Definition crcm_poly : N := 2197175160. (* 0x82F63B78 *)
Definition crcm_ones : N := 4294967295. (* 0xFFFFFFFF *)

Definition crcm_bit (c : N) : N :=
  if N.odd c then N.lxor (N.shiftr c 1) crcm_poly else N.shiftr c 1.

Definition crcm_byte (c b : N) : N :=
  crcm_bit (crcm_bit (crcm_bit (crcm_bit (crcm_bit (crcm_bit (crcm_bit (crcm_bit (N.lxor c b)))))))).

Definition crc32c_m (l : bytes) : N := N.lxor (fold_left crcm_byte l crcm_ones) crcm_ones.
