(* Crc32cProofs.v — algebra of the CRC-32C model: the LFSR step is GF(2)-linear and a bijection
   on 32-bit states (the reflected polynomial has its top bit set), processing bytes is the same
   as xoring the little-endian value of the message into the state and stepping 8 bits per byte;
   hence any change confined to 32 consecutive bits of the message changes the checksum. *)
From Verif Require Import Bytes BytesProofs Crc32c.
From Coq Require Import ZifyN ZifyNat ZifyBool.
Open Scope N_scope.

Ltac xor_solve :=
  apply N.bits_inj; intros ?n; rewrite ?N.lxor_spec, ?N.bits_0;
  repeat match goal with |- context [N.testbit ?a ?n] => destruct (N.testbit a n) end; reflexivity.

Lemma two32_pow2 : two32 = 2 ^ 32.
Proof. reflexivity. Qed.

Lemma lxor_lt_pow2 a b n : a < 2 ^ n -> b < 2 ^ n -> N.lxor a b < 2 ^ n.
Proof.
  intros Ha Hb.
  destruct (N.eq_dec (N.lxor a b) 0) as [E|E].
  { rewrite E. apply N.neq_0_lt_0, N.pow_nonzero. lia. }
  destruct (N.eq_dec a 0) as [->|Ha0]. { now rewrite N.lxor_0_l. }
  destruct (N.eq_dec b 0) as [->|Hb0]. { now rewrite N.lxor_0_r. }
  apply N.log2_lt_pow2; [lia|].
  pose proof (N.log2_lxor a b) as H.
  apply N.log2_lt_pow2 in Ha; [|lia]. apply N.log2_lt_pow2 in Hb; [|lia]. lia.
Qed.

Lemma lxor_lt32 a b : a < two32 -> b < two32 -> N.lxor a b < two32.
Proof. rewrite two32_pow2. apply lxor_lt_pow2. Qed.

Lemma lxor_cancel_r a b c : N.lxor a c = N.lxor b c -> a = b.
Proof.
  intros H. apply N.lxor_eq.
  replace (N.lxor a b) with (N.lxor (N.lxor a c) (N.lxor b c)) by xor_solve.
  rewrite H. apply N.lxor_nilpotent.
Qed.

(* ---- one step ---- *)
Lemma odd_lxor a b : N.odd (N.lxor a b) = xorb (N.odd a) (N.odd b).
Proof. rewrite <- !N.bit0_odd. apply N.lxor_spec. Qed.

Lemma div2_lxor a b : N.div2 (N.lxor a b) = N.lxor (N.div2 a) (N.div2 b).
Proof. rewrite !N.div2_spec. apply N.shiftr_lxor. Qed.

Lemma crc_shift_lxor a b : crc_shift (N.lxor a b) = N.lxor (crc_shift a) (crc_shift b).
Proof.
  unfold crc_shift. rewrite odd_lxor, div2_lxor.
  destruct (N.odd a), (N.odd b); cbn [xorb]; xor_solve.
Qed.

Lemma crc_shift_0 : crc_shift 0 = 0.
Proof. reflexivity. Qed.

Lemma div2_lt32 c : c < two32 -> N.div2 c < 2147483648.
Proof.
  intros H. rewrite N.div2_div. apply N.div_lt_upper_bound; [lia|]. unfold two32 in H. lia.
Qed.

Lemma crc_shift_lt32 c : c < two32 -> crc_shift c < two32.
Proof.
  intros H. pose proof (div2_lt32 c H) as Hd. unfold crc_shift.
  destruct (N.odd c).
  - apply lxor_lt32; unfold two32, crc_poly in *; lia.
  - unfold two32. lia.
Qed.

(* the kernel of the step on 32-bit states is trivial: the polynomial's bit 31 is set while
   (c >> 1) has bit 31 clear *)
Lemma crc_shift_kernel d : d < two32 -> crc_shift d = 0 -> d = 0.
Proof.
  intros Hd H. pose proof (div2_lt32 d Hd) as Hlt.
  pose proof (N.div2_odd d) as E. unfold crc_shift in H.
  destruct (N.odd d).
  - apply N.lxor_eq in H. rewrite H in Hlt. unfold crc_poly in Hlt. lia.
  - rewrite H in E. cbn in E. exact E.
Qed.

Lemma crc_shift_inj a b : a < two32 -> b < two32 -> crc_shift a = crc_shift b -> a = b.
Proof.
  intros Ha Hb H. apply N.lxor_eq. apply crc_shift_kernel; [now apply lxor_lt32|].
  rewrite crc_shift_lxor, H. apply N.lxor_nilpotent.
Qed.

Lemma crc_shift_double x : crc_shift (2 * x) = x.
Proof.
  unfold crc_shift. rewrite N.odd_mul. cbn [N.odd andb]. apply N.div2_double.
Qed.

(* ---- n steps ---- *)
Lemma iter_shift_add n m c : iter_shift (n + m) c = iter_shift m (iter_shift n c).
Proof. revert c; induction n as [|n IH]; intros c; cbn [iter_shift Nat.add]; auto. Qed.

Lemma iter_shift_lxor n a b : iter_shift n (N.lxor a b) = N.lxor (iter_shift n a) (iter_shift n b).
Proof. revert a b; induction n as [|n IH]; intros a b; cbn [iter_shift]; auto. now rewrite crc_shift_lxor. Qed.

Lemma iter_shift_0 n : iter_shift n 0 = 0.
Proof. induction n as [|n IH]; cbn [iter_shift]; auto. Qed.

Lemma iter_shift_lt32 n c : c < two32 -> iter_shift n c < two32.
Proof. revert c; induction n as [|n IH]; intros c H; cbn [iter_shift]; auto. apply IH, crc_shift_lt32, H. Qed.

Lemma iter_shift_kernel n d : d < two32 -> iter_shift n d = 0 -> d = 0.
Proof.
  revert d; induction n as [|n IH]; intros d Hd H; cbn [iter_shift] in H; auto.
  apply crc_shift_kernel; auto. apply IH; auto. now apply crc_shift_lt32.
Qed.

Lemma iter_shift_inj n a b : a < two32 -> b < two32 -> iter_shift n a = iter_shift n b -> a = b.
Proof.
  intros Ha Hb H. apply N.lxor_eq. apply (iter_shift_kernel n); [now apply lxor_lt32|].
  rewrite iter_shift_lxor, H. apply N.lxor_nilpotent.
Qed.

Lemma iter_shift_pow2 n x : iter_shift n (2 ^ N.of_nat n * x) = x.
Proof.
  induction n as [|n IH]; cbn [iter_shift].
  - change (2 ^ N.of_nat 0) with 1. now rewrite N.mul_1_l.
  - rewrite Nat2N.inj_succ, N.pow_succ_r', <- N.mul_assoc, crc_shift_double. exact IH.
Qed.

(* ---- bytes ---- *)
Lemma wf_byte_lt b : wf_byte b = true -> b < 256.
Proof. unfold wf_byte. intros H. apply N.ltb_lt in H. exact H. Qed.

Lemma byte_add_lxor b x : b < 256 -> b + 256 * x = N.lxor b (256 * x).
Proof.
  intros Hb. apply N.add_nocarry_lxor. apply N.bits_inj. intros n.
  rewrite N.land_spec, N.bits_0.
  destruct (N.lt_ge_cases n 8) as [Hn|Hn].
  - replace (256 * x) with (N.shiftl x 8) by (rewrite N.shiftl_mul_pow2; change (2 ^ 8) with 256; lia).
    rewrite (N.shiftl_spec_low x 8 n Hn). apply andb_false_r.
  - rewrite <- (N.mod_small b (2 ^ 8)) by (change (2 ^ 8) with 256; exact Hb).
    rewrite (N.mod_pow2_bits_high b 8 n Hn). reflexivity.
Qed.

Lemma crc_byte_lt32 c b : c < two32 -> b < 256 -> crc_byte c b < two32.
Proof.
  intros Hc Hb. unfold crc_byte. apply iter_shift_lt32, lxor_lt32; auto. unfold two32. lia.
Qed.

Lemma crc_byte_inj_state c c' b : c < two32 -> c' < two32 -> b < 256 ->
  crc_byte c b = crc_byte c' b -> c = c'.
Proof.
  intros Hc Hc' Hb H. unfold crc_byte in H.
  assert (Hb32: b < two32) by (unfold two32; lia).
  apply iter_shift_inj in H; try (apply lxor_lt32; auto).
  now apply lxor_cancel_r in H.
Qed.

(* Go's table-driven step: tab[byte(c) ^ b] ^ (c >> 8) *)
Lemma crc_byte_table c b : crc_byte c b = crc_byte_tab c b.
Proof.
  unfold crc_byte, crc_byte_tab, crc_table_entry.
  pose proof (N.div_mod' c 256) as E. pose proof (N.mod_lt c 256 ltac:(lia)) as Hm.
  assert (Hc: c = N.lxor (c mod 256) (256 * (c / 256))).
  { rewrite <- byte_add_lxor by exact Hm. lia. }
  rewrite Hc at 1.
  replace (N.lxor (N.lxor (c mod 256) (256 * (c / 256))) b)
    with (N.lxor (N.lxor (c mod 256) b) (256 * (c / 256))) by xor_solve.
  rewrite iter_shift_lxor. f_equal.
  change 256 with (2 ^ N.of_nat 8) at 1. apply iter_shift_pow2.
Qed.

Lemma crc_update_app c a b : crc_update c (a ++ b) = crc_update (crc_update c a) b.
Proof. unfold crc_update. apply fold_left_app. Qed.

Lemma crc_update_lt32 l : forall c, c < two32 -> wf_bytes l = true -> crc_update c l < two32.
Proof.
  induction l as [|b l IH]; intros c Hc Hw; cbn [crc_update fold_left]; auto.
  cbn [wf_bytes forallb] in Hw. apply andb_true_iff in Hw. destruct Hw as [Hb Hl].
  apply IH; auto. apply crc_byte_lt32; auto. now apply wf_byte_lt.
Qed.

Lemma crc32c_lt32 l : wf_bytes l = true -> crc32c l < two32.
Proof.
  intros H. unfold crc32c. apply lxor_lt32; [|reflexivity].
  apply crc_update_lt32; auto. reflexivity.
Qed.

Lemma crc_update_inj_state l : forall c c', c < two32 -> c' < two32 -> wf_bytes l = true ->
  crc_update c l = crc_update c' l -> c = c'.
Proof.
  induction l as [|b l IH]; intros c c' Hc Hc' Hw H; cbn [crc_update fold_left] in H; auto.
  cbn [wf_bytes forallb] in Hw. apply andb_true_iff in Hw. destruct Hw as [Hb Hl].
  apply wf_byte_lt in Hb.
  apply IH in H; auto using crc_byte_lt32. now apply crc_byte_inj_state in H.
Qed.

(* the "slicing" identity: feeding the bytes of l is xoring their little-endian value into the
   state and stepping 8 bits per byte (in unbounded arithmetic) *)
Lemma crc_update_le l : forall c, wf_bytes l = true ->
  crc_update c l = iter_shift (8 * length l) (N.lxor c (le_dec l)).
Proof.
  induction l as [|b l IH]; intros c Hw.
  - cbn. now rewrite N.lxor_0_r.
  - cbn [wf_bytes forallb] in Hw. apply andb_true_iff in Hw. destruct Hw as [Hb Hl].
    apply wf_byte_lt in Hb.
    cbn [crc_update fold_left length le_dec]. fold (crc_update (crc_byte c b) l).
    rewrite IH by exact Hl.
    replace (8 * S (length l))%nat with (8 + 8 * length l)%nat by lia.
    rewrite iter_shift_add. f_equal.
    rewrite byte_add_lxor by exact Hb.
    replace (N.lxor c (N.lxor b (256 * le_dec l))) with (N.lxor (N.lxor c b) (256 * le_dec l)) by xor_solve.
    rewrite iter_shift_lxor. unfold crc_byte. f_equal.
    change 256 with (2 ^ N.of_nat 8). now rewrite iter_shift_pow2.
Qed.

Lemma le_dec_lt l : wf_bytes l = true -> le_dec l < 2 ^ (8 * N.of_nat (length l)).
Proof.
  induction l as [|b l IH]; intros Hw.
  - cbn. lia.
  - cbn [wf_bytes forallb] in Hw. apply andb_true_iff in Hw. destruct Hw as [Hb Hl].
    apply wf_byte_lt in Hb. specialize (IH Hl).
    cbn [le_dec length]. rewrite Nat2N.inj_succ.
    replace (8 * N.succ (N.of_nat (length l))) with (8 + 8 * N.of_nat (length l)) by lia.
    rewrite N.pow_add_r. change (2 ^ 8) with 256. lia.
Qed.

Lemma le_dec_inj a : forall b, length a = length b -> wf_bytes a = true -> wf_bytes b = true ->
  le_dec a = le_dec b -> a = b.
Proof.
  induction a as [|x a IH]; intros [|y b] Hlen Ha Hb H; try discriminate; auto.
  cbn [wf_bytes forallb] in Ha, Hb. apply andb_true_iff in Ha, Hb.
  destruct Ha as [Hx Ha], Hb as [Hy Hb]. apply wf_byte_lt in Hx, Hy.
  cbn [le_dec] in H. cbn [length] in Hlen.
  assert (x = y /\ le_dec a = le_dec b) as [-> H'] by lia.
  f_equal. apply IH; auto.
Qed.

(* ---- burst detection ---- *)
(* Two messages that agree outside a window w / w' of equal length, and whose difference inside
   the window (as a little-endian bit string: the order in which the reflected CRC consumes bits)
   is a non-zero pattern v of at most 32 bits shifted by t, have different checksums. *)
Theorem crc_burst32_detected pre w w' post t v :
  wf_bytes pre = true -> wf_bytes w = true -> wf_bytes w' = true -> wf_bytes post = true ->
  length w = length w' ->
  N.lxor (le_dec w) (le_dec w') = 2 ^ t * v -> v <> 0 -> v < two32 ->
  crc32c (pre ++ w ++ post) <> crc32c (pre ++ w' ++ post).
Proof.
  intros Hpre Hw Hw' Hpost Hlen HD Hv0 Hv32 H.
  unfold crc32c in H. apply lxor_cancel_r in H.
  rewrite !crc_update_app in H.
  set (c1 := crc_update mask32 pre) in *.
  assert (Hc1: c1 < two32) by (apply crc_update_lt32; [reflexivity|exact Hpre]).
  apply crc_update_inj_state in H; auto using crc_update_lt32.
  rewrite !crc_update_le in H by assumption. rewrite <- Hlen in H.
  set (n := (8 * length w)%nat) in *.
  assert (HZ: iter_shift n (2 ^ t * v) = 0).
  { rewrite <- HD.
    replace (N.lxor (le_dec w) (le_dec w')) with (N.lxor (N.lxor c1 (le_dec w)) (N.lxor c1 (le_dec w'))) by xor_solve.
    rewrite iter_shift_lxor, H. apply N.lxor_nilpotent. }
  (* t < 8 |w| because the difference is below 2^(8|w|) *)
  assert (Ht: t < N.of_nat n).
  { pose proof (le_dec_lt w Hw) as B1. pose proof (le_dec_lt w' Hw') as B2. rewrite <- Hlen in B2.
    pose proof (lxor_lt_pow2 _ _ _ B1 B2) as B. rewrite HD in B.
    assert (2 ^ t < 2 ^ (8 * N.of_nat (length w))).
    { assert (0 < 2 ^ t) by (apply N.neq_0_lt_0, N.pow_nonzero; lia). nia. }
    apply N.pow_lt_mono_r_iff in H0; [|lia]. unfold n. lia. }
  replace n with (N.to_nat t + (n - N.to_nat t))%nat in HZ by lia.
  rewrite iter_shift_add in HZ.
  replace (2 ^ t) with (2 ^ N.of_nat (N.to_nat t)) in HZ by (now rewrite N2Nat.id).
  rewrite iter_shift_pow2 in HZ.
  apply iter_shift_kernel in HZ; auto.
Qed.

(* any change inside a window of at most 4 bytes *)
Corollary crc_window4_detected pre w w' post :
  wf_bytes pre = true -> wf_bytes w = true -> wf_bytes w' = true -> wf_bytes post = true ->
  length w = length w' -> (length w <= 4)%nat -> w <> w' ->
  crc32c (pre ++ w ++ post) <> crc32c (pre ++ w' ++ post).
Proof.
  intros Hpre Hw Hw' Hpost Hlen H4 Hne.
  apply (crc_burst32_detected pre w w' post 0 (N.lxor (le_dec w) (le_dec w'))); auto.
  - change (2 ^ 0) with 1. now rewrite N.mul_1_l.
  - intros E. apply N.lxor_eq in E. apply le_dec_inj in E; auto.
  - pose proof (le_dec_lt w Hw) as B1. pose proof (le_dec_lt w' Hw') as B2. rewrite <- Hlen in B2.
    rewrite two32_pow2.
    assert (Hle: 2 ^ (8 * N.of_nat (length w)) <= 2 ^ 32) by (apply N.pow_le_mono_r; lia).
    apply lxor_lt_pow2; lia.
Qed.

(* altering exactly one byte *)
Corollary crc_single_byte_detected pre x x' post :
  wf_bytes pre = true -> x < 256 -> x' < 256 -> wf_bytes post = true -> x <> x' ->
  crc32c (pre ++ x :: post) <> crc32c (pre ++ x' :: post).
Proof.
  intros Hpre Hx Hx' Hpost Hne.
  assert (W: forall b, b < 256 -> wf_bytes [b] = true).
  { intros b Hb. cbn. unfold wf_byte. rewrite andb_true_r. now apply N.ltb_lt. }
  apply (crc_window4_detected pre [x] [x'] post); auto; try (cbn; lia); congruence.
Qed.

(* the checksum of the zero header that a zero-filled region decodes to is not zero *)
Lemma crc32c_zero5 : crc32c [0; 0; 0; 0; 0] <> 0.
Proof. vm_compute. discriminate. Qed.
