From Verif Require Import Bytes.
From Coq Require Import ZifyN ZifyNat ZifyBool.
Open Scope N_scope.

Lemma lex_cmp_refl a : lex_cmp a a = Eq.
Proof. induction a as [|x a IH]; cbn; [reflexivity|]. now rewrite N.compare_refl. Qed.

Lemma lex_cmp_eq a b : lex_cmp a b = Eq <-> a = b.
Proof.
  revert b; induction a as [|x a IH]; intros [|y b]; cbn; try (split; congruence).
  destruct (x ?= y) eqn:E.
  - apply N.compare_eq_iff in E; subst. rewrite IH. split; congruence.
  - split; [discriminate|]. intros [= -> _]. rewrite N.compare_refl in E; discriminate.
  - split; [discriminate|]. intros [= -> _]. rewrite N.compare_refl in E; discriminate.
Qed.

Lemma lex_cmp_antisym a b : lex_cmp b a = CompOpp (lex_cmp a b).
Proof.
  revert b; induction a as [|x a IH]; intros [|y b]; cbn; try reflexivity.
  rewrite (N.compare_antisym x y). destruct (x ?= y); cbn; auto.
Qed.

Lemma lex_cmp_trans_lt a b c : lex_cmp a b = Lt -> lex_cmp b c = Lt -> lex_cmp a c = Lt.
Proof.
  revert b c; induction a as [|x a IH]; intros [|y b] [|z c]; cbn; try congruence.
  destruct (x ?= y) eqn:E1; destruct (y ?= z) eqn:E2; try congruence.
  - apply N.compare_eq_iff in E1, E2; subst. rewrite N.compare_refl. apply IH.
  - apply N.compare_eq_iff in E1; subst. now rewrite E2.
  - apply N.compare_eq_iff in E2; subst. now rewrite E1.
  - intros _ _. rewrite N.compare_lt_iff in *. assert (H: x < z) by lia.
    apply N.compare_lt_iff in H. now rewrite H.
Qed.

(* common prefix does not influence the comparison *)
Lemma lex_cmp_app_l p a b : lex_cmp (p ++ a) (p ++ b) = lex_cmp a b.
Proof. induction p as [|x p IH]; cbn; [reflexivity|]. now rewrite N.compare_refl. Qed.

(* if the heads differ, the tails do not matter *)
Lemma lex_cmp_app_ne a b s t : lex_cmp a b <> Eq -> length a = length b ->
  lex_cmp (a ++ s) (b ++ t) = lex_cmp a b.
Proof.
  revert b; induction a as [|x a IH]; intros [|y b]; cbn; try congruence; try discriminate.
  intros H L. destruct (x ?= y); auto.
Qed.

Lemma bytes_eqb_eq a b : bytes_eqb a b = true <-> a = b.
Proof.
  revert b; induction a as [|x a IH]; intros [|y b]; cbn; try (split; congruence).
  rewrite andb_true_iff, N.eqb_eq, IH. split; [intros [-> ->]; auto | intros [= -> ->]; auto].
Qed.

Lemma bytes_eqb_refl a : bytes_eqb a a = true.
Proof. now apply bytes_eqb_eq. Qed.

Lemma is_prefix_app p l : is_prefix p (p ++ l) = true.
Proof. induction p as [|x p IH]; cbn; auto. now rewrite N.eqb_refl. Qed.

Lemma is_prefix_spec p l : is_prefix p l = true <-> exists r, l = p ++ r.
Proof.
  revert l; induction p as [|x p IH]; intros l; cbn.
  - split; eauto.
  - destruct l as [|y l]; [split; [discriminate|intros [r H]; discriminate]|].
    rewrite andb_true_iff, N.eqb_eq, IH. split.
    + intros [-> [r ->]]. eauto.
    + intros [r [= -> ->]]. eauto.
Qed.

(* ---- lastn / dropn_end on appended suffixes ---- *)
Lemma dropn_end_app {A} (k s : list A) : dropn_end (length s) (k ++ s) = k.
Proof.
  unfold dropn_end. rewrite app_length.
  replace (length k + length s - length s)%nat with (length k) by lia.
  rewrite firstn_app, Nat.sub_diag, firstn_all. cbn. now rewrite app_nil_r.
Qed.

Lemma lastn_app {A} (k s : list A) : lastn (length s) (k ++ s) = s.
Proof.
  unfold lastn. rewrite app_length.
  replace (length k + length s - length s)%nat with (length k) by lia.
  rewrite skipn_app, Nat.sub_diag, skipn_all. reflexivity.
Qed.

(* ---- big-endian ---- *)
Lemma be_enc_length n x : length (be_enc n x) = n.
Proof. revert x; induction n as [|n IH]; intros x; cbn [be_enc length]; auto. Qed.

Lemma pow256_pos n : 0 < 256 ^ N.of_nat n.
Proof. apply N.neq_0_lt_0, N.pow_nonzero. lia. Qed.

Lemma wf_bytes_be_enc n x : wf_bytes (be_enc n x) = true.
Proof.
  revert x; induction n as [|n IH]; intros x; cbn [be_enc wf_bytes forallb]; auto.
  fold (wf_bytes (be_enc n (x mod 256 ^ N.of_nat n))). rewrite IH, andb_true_r.
  unfold wf_byte. apply N.ltb_lt. apply N.mod_lt. lia.
Qed.

Lemma be_dec_acc l acc :
  fold_left (fun a b => a * 256 + b) l acc = acc * 256 ^ N.of_nat (length l) + be_dec l.
Proof.
  unfold be_dec. revert acc; induction l as [|b l IH]; intros acc.
  - cbn. lia.
  - cbn [fold_left length]. rewrite IH, (IH (0 * 256 + b)).
    rewrite Nat2N.inj_succ, N.pow_succ_r'. lia.
Qed.

Lemma pow256_succ n : 256 ^ N.of_nat (S n) = 256 ^ N.of_nat n * 256.
Proof. rewrite Nat2N.inj_succ, N.pow_succ_r'. lia. Qed.

Lemma be_dec_enc n x : be_dec (be_enc n x) = x mod 256 ^ N.of_nat n.
Proof.
  revert x; induction n as [|n IH]; intros x.
  - cbn. now rewrite N.mod_1_r.
  - cbn [be_enc]. unfold be_dec. cbn [fold_left]. rewrite be_dec_acc, IH, be_enc_length.
    rewrite pow256_succ.
    pose proof (pow256_pos n) as P.
    rewrite ?N.mod_mod by lia.
    rewrite (N.mod_mul_r x (256 ^ N.of_nat n) 256) by lia. lia.
Qed.

Lemma be_dec_enc_small n x : x < 256 ^ N.of_nat n -> be_dec (be_enc n x) = x.
Proof. intros H. rewrite be_dec_enc. now apply N.mod_small. Qed.

Lemma be_enc_cmp n x y : x < 256 ^ N.of_nat n -> y < 256 ^ N.of_nat n ->
  lex_cmp (be_enc n x) (be_enc n y) = (x ?= y).
Proof.
  revert x y; induction n as [|n IH]; intros x y Hx Hy.
  - cbn in *. assert (x = 0) by lia. assert (y = 0) by lia. subst. reflexivity.
  - cbn [be_enc lex_cmp]. rewrite pow256_succ in Hx, Hy.
    pose proof (pow256_pos n) as P. set (p := 256 ^ N.of_nat n) in *.
    assert (Hxd: x / p < 256) by (apply N.div_lt_upper_bound; lia).
    assert (Hyd: y / p < 256) by (apply N.div_lt_upper_bound; lia).
    rewrite !(N.mod_small _ 256) by assumption.
    pose proof (N.div_mod' x p) as Ex. pose proof (N.div_mod' y p) as Ey.
    pose proof (N.mod_lt x p ltac:(lia)) as Mx. pose proof (N.mod_lt y p ltac:(lia)) as My.
    destruct (x / p ?= y / p) eqn:E.
    + apply N.compare_eq_iff in E. rewrite IH by assumption.
      destruct (x mod p ?= y mod p) eqn:E2; symmetry.
      * apply N.compare_eq_iff in E2. apply N.compare_eq_iff. nia.
      * rewrite N.compare_lt_iff in *. nia.
      * rewrite N.compare_gt_iff in *. nia.
    + symmetry. rewrite N.compare_lt_iff in *. nia.
    + symmetry. rewrite N.compare_gt_iff in *. nia.
Qed.

(* ---- little-endian ---- *)
Lemma le_enc_length n x : length (le_enc n x) = n.
Proof. revert x; induction n as [|n IH]; intros x; cbn [le_enc length]; auto. Qed.

Lemma wf_bytes_le_enc n x : wf_bytes (le_enc n x) = true.
Proof.
  revert x; induction n as [|n IH]; intros x; cbn [le_enc wf_bytes forallb]; auto.
  fold (wf_bytes (le_enc n (x / 256))). rewrite IH, andb_true_r.
  unfold wf_byte. apply N.ltb_lt, N.mod_lt. lia.
Qed.

Lemma le_dec_enc n x : le_dec (le_enc n x) = x mod 256 ^ N.of_nat n.
Proof.
  revert x; induction n as [|n IH]; intros x.
  - cbn. now rewrite N.mod_1_r.
  - cbn [le_enc le_dec]. rewrite IH.
    rewrite Nat2N.inj_succ, N.pow_succ_r'.
    pose proof (pow256_pos n) as P.
    rewrite (N.mod_mul_r x 256 (256 ^ N.of_nat n)) by lia. lia.
Qed.

Lemma le_dec_enc_small n x : x < 256 ^ N.of_nat n -> le_dec (le_enc n x) = x.
Proof. intros H. rewrite le_dec_enc. now apply N.mod_small. Qed.

Lemma le_dec_app a b : le_dec (a ++ b) = le_dec a + 256 ^ N.of_nat (length a) * le_dec b.
Proof.
  induction a as [|x a IH]; cbn [app le_dec length].
  - change (256 ^ N.of_nat 0) with 1. lia.
  - rewrite IH, Nat2N.inj_succ, N.pow_succ_r'. lia.
Qed.

Lemma wf_bytes_app a b : wf_bytes (a ++ b) = wf_bytes a && wf_bytes b.
Proof. unfold wf_bytes. apply forallb_app. Qed.

Lemma two64_pow : two64 = 256 ^ N.of_nat 8.
Proof. reflexivity. Qed.
Lemma two32_pow : two32 = 256 ^ N.of_nat 4.
Proof. reflexivity. Qed.
