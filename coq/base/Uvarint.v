(* Uvarint.v — Go encoding/binary PutUvarint / Uvarint (values are uint64) *)
From Verif Require Import Bytes.
Open Scope N_scope.

(* PutUvarint: for x >= 0x80 { emit byte(x)|0x80; x >>= 7 }; emit byte(x).
   A uint64 needs at most 10 bytes, so fuel 10 is exact for x < 2^64. *)
Fixpoint put_uvarint_f (fuel : nat) (x : N) : bytes :=
  match fuel with
  | O => []
  | S f => if x <? 128 then [x] else (x mod 128 + 128) :: put_uvarint_f f (x / 128)
  end.
Definition put_uvarint (x : N) : bytes := put_uvarint_f 10 x.

(* y/iterator.go sizeVarint *)
Fixpoint size_varint_f (fuel : nat) (x : N) : nat :=
  match fuel with
  | O => O
  | S f => if x / 128 =? 0 then 1%nat else S (size_varint_f f (x / 128))
  end.
Definition size_varint (x : N) : nat := size_varint_f 10 x.

(* binary.Uvarint(buf) = (value, n): n > 0 bytes read; n = 0 buffer too small;
   n < 0 overflow (value 0).  i = index of the byte examined, x = accumulator, s = shift. *)
Fixpoint uvarint_f (buf : bytes) (i : nat) (x s : N) : N * Z :=
  match buf with
  | [] => (0, 0%Z)
  | b :: r =>
      if Nat.eqb i 10 then (0, (- (Z.of_nat i + 1))%Z)
      else if b <? 128 then
        if Nat.eqb i 9 && (1 <? b) then (0, (- (Z.of_nat i + 1))%Z)
        else (x + b * 2 ^ s, (Z.of_nat i + 1)%Z)
      else uvarint_f r (S i) (x + (b mod 128) * 2 ^ s) (s + 7)
  end.
Definition uvarint (buf : bytes) : N * Z := uvarint_f buf 0 0 0.

(* Go slice expression buf[i:] with a run-time index: None = panic *)
Definition slice_from (buf : bytes) (i : Z) : option bytes :=
  if ((i <? 0) || (Z.of_nat (length buf) <? i))%Z then None
  else Some (skipn (Z.to_nat i) buf).
