(* Corr.v — helpers shared by the correspondence entry points (corr/*.v).
   A generated cases.v defines `cases : list (N * case)` and evaluates
   `check_all run_case cases` with vm_compute; each result is (id, (agree, tags)). *)
From Verif Require Import Bytes.
Open Scope N_scope.

Definition check_all {C} (run : C -> bool * list N) (cs : list (N * C))
  : list (N * (bool * list N)) :=
  map (fun ic => (fst ic, run (snd ic))) cs.

Definition opt_eqb {A} (eqb : A -> A -> bool) (a b : option A) : bool :=
  match a, b with
  | None, None => true
  | Some x, Some y => eqb x y
  | _, _ => false
  end.

Definition pair_eqb {A B} (ea : A -> A -> bool) (eb : B -> B -> bool) (a b : A * B) : bool :=
  ea (fst a) (fst b) && eb (snd a) (snd b).

Fixpoint list_eqb {A} (eqb : A -> A -> bool) (a b : list A) : bool :=
  match a, b with
  | [], [] => true
  | x :: a', y :: b' => eqb x y && list_eqb eqb a' b'
  | _, _ => false
  end.

Definition cmp_eqb (a b : comparison) : bool :=
  match a, b with Eq, Eq | Lt, Lt | Gt, Gt => true | _, _ => false end.

Definition b2n (b : bool) : N := if b then 1 else 0.
