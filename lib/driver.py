#!/usr/bin/env python3
"""Shared driver for every property check.

  ./check <ID> quick|thorough        run the check (honours VERIF_SEED, VERIF_TIER)
  ./check <ID> --replay <path>       re-run a recorded case

Steps (DESIGN.md §2.1): regenerate gen/Consts.v from /repo, rebuild the Coq objects this
property depends on, re-check props/<ID>.v (collecting Print Assumptions), build the harness
from /repo's working tree with -tags verif, run the implementation on generated cases,
evaluate the model on the same cases inside Coq (vm_compute), evaluate the property oracle,
decide, write evidence.
"""
import sys, os, json, re, subprocess, time, fcntl, hashlib, shutil, glob, tempfile
from concurrent.futures import ThreadPoolExecutor

VERIF = os.path.dirname(os.path.dirname(os.path.abspath(__file__)))
REPO = os.environ.get("VERIF_REPO", "/repo")
COQ = os.path.join(VERIF, "coq")
OUT = os.path.join(VERIF, "out")
EVID = os.environ.get("VERIF_EVIDENCE_DIR", os.path.join(VERIF, "evidence"))
BIN = os.path.join(OUT, "bin", "vharness" + ("" if os.path.realpath(REPO) == "/repo" else "-alt"))
COQ_DIRS = ["base", "gen", "A", "B", "C", "corr", "props"]
QFLAGS = sum((["-Q", os.path.join(COQ, d), "Verif"] for d in COQ_DIRS), [])
WFLAGS = ["-w", "-notation-overridden,-deprecated-hint-without-locality,-deprecated-syntactic-definition"]
GOENV = dict(os.environ, GOFLAGS="-mod=mod", GOPROXY="off", GOSUMDB="off", GOTOOLCHAIN="local",
             CGO_ENABLED=os.environ.get("CGO_ENABLED", "1"))

TRUSTED_BASE = [
    "Coq 8.16.1 kernel; vm_compute (proofs by reflection and model evaluation); no native_compute",
    "no Axiom/Parameter/Admitted in the development (grep gate in setup); Print Assumptions per theorem recorded below",
    "hand-written Gallina model of the anchored Go code (modelled, not verified: tied by the correspondence run)",
    "correspondence check: Go harness /verif/harness built from /repo with -tags verif, verif_export.go hooks, case generators (sampling), cases.v emitter, canonicalisation, this driver",
    "property oracles in the harness (Go) evaluated on the implementation's outputs",
    "tools/genconsts (source-to-Coq translator for constants)",
    "Go runtime, OS, mmap/page cache, ristretto, protobuf, flatbuffers, compression, AES are not modelled",
]


def log(*a):
    print(*a, file=sys.stderr, flush=True)


def run(cmd, cwd=None, env=None, timeout=None, capture=True):
    try:
        p = subprocess.run(cmd, cwd=cwd, env=env, timeout=timeout, stdout=subprocess.PIPE if capture else None,
                           stderr=subprocess.STDOUT if capture else None, text=True)
        return p.returncode, p.stdout or ""
    except subprocess.TimeoutExpired as e:
        o = e.stdout or ""
        if isinstance(o, bytes):
            o = o.decode("utf8", "replace")
        return 124, o + "\nTIMEOUT"


class Lock:
    def __enter__(self):
        os.makedirs(OUT, exist_ok=True)
        self.f = open(os.path.join(VERIF, ".build.lock"), "w")
        fcntl.flock(self.f, fcntl.LOCK_EX)
        return self

    def __exit__(self, *a):
        fcntl.flock(self.f, fcntl.LOCK_UN)
        self.f.close()


def load_cfg(pid):
    p = os.path.join(VERIF, "checks", pid + ".json")
    with open(p) as f:
        return json.load(f)


def load_known():
    p = os.path.join(VERIF, "known_findings.jsonl")
    out = []
    if os.path.exists(p):
        for l in open(p):
            l = l.strip()
            if l and l.startswith("{"):
                out.append(json.loads(l))
    return out


def gen_consts():
    """Translator: regenerate gen/Consts.v from /repo's sources; rewrite only on change."""
    rc, out = run(["go", "run", ".", REPO], cwd=os.path.join(VERIF, "tools", "genconsts"), env=GOENV, timeout=300)
    if rc != 0:
        return False, out
    p = os.path.join(COQ, "gen", "Consts.v")
    old = open(p).read() if os.path.exists(p) else None
    if old != out:
        with open(p, "w") as f:
            f.write(out)
    return True, ""


def coq_build(targets, timeout=3000):
    run(["sh", os.path.join(VERIF, "tools", "mkcoqproject.sh")])
    if not os.path.exists(os.path.join(COQ, "Makefile")) or \
            os.path.getmtime(os.path.join(COQ, "Makefile")) < os.path.getmtime(os.path.join(COQ, "_CoqProject")):
        rc, out = run(["coq_makefile", "-f", "_CoqProject", "-o", "Makefile"], cwd=COQ)
        if rc != 0:
            return False, out
    rc, out = run(["make", "-j16"] + targets, cwd=COQ, timeout=timeout)
    return rc == 0, out


def build_harness():
    src = os.path.join(VERIF, "harness")
    shutil.copyfile(os.path.join(REPO, "go.sum"), os.path.join(src, "go.sum"))
    os.makedirs(os.path.dirname(BIN), exist_ok=True)
    cmd = ["go", "build", "-tags", "verif", "-o", BIN]
    if os.path.realpath(REPO) != "/repo":
        # testing against a scratch copy of the repository: same module file, other replace target
        alt = os.path.join(src, "go.alt.mod")
        with open(alt, "w") as f:
            f.write(open(os.path.join(src, "go.mod")).read().replace("=> /repo", "=> " + os.path.realpath(REPO)))
        shutil.copyfile(os.path.join(REPO, "go.sum"), os.path.join(src, "go.alt.sum"))
        cmd += ["-modfile", alt]
    rc, out = run(cmd + ["."], cwd=src, env=GOENV, timeout=1200)
    return rc == 0, out


def strip_coq_comments(t):
    out, depth, i = [], 0, 0
    while i < len(t):
        if t.startswith("(*", i):
            depth += 1
            i += 2
        elif t.startswith("*)", i) and depth > 0:
            depth -= 1
            i += 2
        else:
            if depth == 0:
                out.append(t[i])
            i += 1
    return "".join(out)


def theorem_names(path):
    return re.findall(r"^\s*(?:Theorem|Corollary)\s+(\w+)", strip_coq_comments(open(path).read()), re.M)


def check_props_file(pid, outdir):
    """Re-check props/<ID>.v on this run; returns (ok, n_theorems, assumptions list, raw)."""
    src = os.path.join(COQ, "props", pid + ".v")
    thms = theorem_names(src)
    pc = os.path.join(outdir, "propscheck")
    os.makedirs(pc, exist_ok=True)
    rc, out = run(["coqc"] + QFLAGS + WFLAGS + ["-o", os.path.join(pc, pid + ".vo"), src], cwd=COQ, timeout=1200)
    shutil.rmtree(pc, ignore_errors=True)
    assum = []
    closed = len(re.findall(r"Closed under the global context", out))
    for m in re.finditer(r"Axioms:\n((?:.+\n?)+?)(?=\n|$|Closed|Axioms:)", out):
        for l in m.group(1).splitlines():
            l = l.strip()
            if l and not l.startswith(":") and " : " in l or re.match(r"^[\w.]+\s*:?", l):
                assum.append(l)
    return rc == 0, thms, closed, sorted(set(assum)), out


def run_coqchk(pid):
    """Thorough tier: independent re-check of the compiled development behind props/<ID>.vo with
    coqchk (cached per set of .vo files); returns a summary dict."""
    vos = sorted(glob.glob(os.path.join(COQ, "*", "*.vo")))
    h = hashlib.sha256()
    for v in vos:
        st = os.stat(v)
        h.update(("%s %d %d\n" % (v, st.st_size, int(st.st_mtime))).encode())
    key = h.hexdigest()[:16]
    cdir = os.path.join(OUT, "coqchk")
    os.makedirs(cdir, exist_ok=True)
    cfile = os.path.join(cdir, "%s.%s.json" % (pid, key))
    if os.path.exists(cfile):
        d = json.load(open(cfile))
        d["cached"] = True
        return d
    q = sum((["-Q", os.path.join(COQ, d), "Verif"] for d in COQ_DIRS), [])
    t = time.time()
    rc, out = run(["coqchk", "-silent", "-o"] + q + ["Verif." + pid], cwd=COQ, timeout=7200)
    m = re.search(r"\* Axioms:\s*(.*?)\n\s*\n\s*\* Constants/Inductives relying on type-in-type", out, re.S)
    axioms = (m.group(1).strip() if m else "?")
    d = {"ran": True, "ok": rc == 0, "axioms": axioms, "seconds": round(time.time() - t, 1), "cached": False,
         "tail": out[-400:] if rc != 0 else ""}
    if rc == 0:
        json.dump(d, open(cfile, "w"))
    return d


def eval_shards(outdir, timeout_each=1800):
    shards = sorted(glob.glob(os.path.join(outdir, "cases_*.v")))

    def one(s):
        rc, out = run(["coqc"] + QFLAGS + WFLAGS + ["-o", s[:-2] + ".vo", s], cwd=outdir, timeout=timeout_each)
        for ext in (".vo", ".glob", ".vok", ".vos"):
            try:
                os.remove(s[:-2] + ext)
            except OSError:
                pass
        try:
            os.remove(os.path.join(os.path.dirname(s), "." + os.path.basename(s)[:-2] + ".aux"))
        except OSError:
            pass
        return s, rc, out

    results = {}
    errors = []
    with ThreadPoolExecutor(max_workers=14) as ex:
        for s, rc, out in ex.map(one, shards):
            if rc != 0:
                errors.append((s, out[-2000:]))
                continue
            flat = re.sub(r"\s+", " ", out)
            for m in re.finditer(r"\(\s*(\d+),\s*\(\s*(true|false),\s*\[([^\]]*)\]\s*\)\s*\)", flat):
                tags = [int(x) for x in m.group(3).replace(" ", "").split(";") if x]
                results[int(m.group(1))] = (m.group(2) == "true", tags)
    return results, errors, len(shards)


def write_evidence(pid, ev):
    os.makedirs(EVID, exist_ok=True)
    p = os.path.join(EVID, pid + ".json")
    tmp = p + ".tmp%d" % os.getpid()
    with open(tmp, "w") as f:
        json.dump(ev, f, indent=1, sort_keys=True)
    os.replace(tmp, p)


def write_replay(outdir, name, data):
    p = os.path.join(outdir, name)
    with open(p, "w") as f:
        json.dump(data, f, indent=1, sort_keys=True)
    return p


def run_harness(pid, seed, n, outdir, mode="corr", extra=None, timeout=3000, shard=500):
    if os.path.isdir(outdir):
        shutil.rmtree(outdir)
    os.makedirs(outdir)
    scratch = tempfile.mkdtemp(prefix="verif_%s_" % pid, dir=os.environ.get("VERIF_SCRATCH", "/tmp"))
    env = dict(os.environ, VERIF_SCRATCH_DIR=scratch, VERIF_DIR=VERIF, VERIF_REPO=REPO)
    try:
        cmd = [BIN, pid, "-seed", str(seed), "-n", str(n), "-out", outdir, "-mode", mode, "-shard", str(shard)] + (extra or [])
        rc, out = run(cmd, env=env, timeout=timeout, cwd=scratch)
    finally:
        shutil.rmtree(scratch, ignore_errors=True)
    return rc, out


def read_jsonl(p):
    out = []
    if os.path.exists(p):
        for l in open(p, errors="replace"):
            l = l.strip()
            if l:
                try:
                    out.append(json.loads(l))
                except ValueError:
                    pass  # a line cut off when the harness was killed (reported as harness-run)
    return out


def classify_failures(pid, fails, known):
    """Split oracle failures into (known: {finding id -> [fails]}, unknown: [fails])."""
    k = {}
    unknown = []
    for f in fails:
        hit = None
        for kf in known:
            if kf.get("status") != "known":
                continue
            if pid in kf.get("properties", [kf.get("property")]) and f.get("sig") == kf.get("sig"):
                hit = kf
                break
        if hit:
            k.setdefault(hit["id"], []).append(f)
        else:
            unknown.append(f)
    return k, unknown


def main():
    if len(sys.argv) < 3:
        print("usage: check <ID> quick|thorough | check <ID> --replay <path>")
        sys.exit(2)
    pid = sys.argv[1]
    t0 = time.time()
    phases = {}
    cfg = load_cfg(pid)
    replay_path = None
    if sys.argv[2] == "--replay":
        replay_path = sys.argv[3]
        tier = "quick"
    else:
        tier = os.environ.get("VERIF_TIER") or sys.argv[2]
    if tier not in ("quick", "thorough"):
        tier = "quick"
    seed = int(os.environ.get("VERIF_SEED", "1") or "1")
    n = cfg["n_" + tier]
    outdir = os.path.join(OUT, pid, "%s-%d%s" % (tier, seed, "" if os.path.realpath(REPO) == "/repo" else "-alt"))
    os.makedirs(outdir, exist_ok=True)
    known = load_known()
    broken = []      # (kind, name, detail)
    ev_cov = {}
    assumptions_seen = []

    # --- 1. translator + proofs + harness build (serialised) ---
    with Lock():
        ok, out = gen_consts()
        if not ok:
            broken.append(("translator", "tools/genconsts", out[-1500:]))
        targets = ["props/%s.vo" % pid] + ["corr/%s.vo" % c for c in cfg.get("corr_files", [])]
        ok, out = coq_build(targets)
        if not ok:
            m = re.search(r'File "([^"]+)", line (\d+)[\s\S]{0,600}', out)
            broken.append(("proof", m.group(1) if m else "coq build", (m.group(0) if m else out[-1500:])))
        okh, outh = build_harness()
        if not okh:
            broken.append(("harness-build", "go build -tags verif (tie to /repo broken)", outh[-2000:]))
    phases['build'] = round(time.time() - t0, 1)
    okp, thms, closed, assum, praw = (False, [], 0, [], "")
    if not any(b[0] == "proof" for b in broken):
        okp, thms, closed, assum, praw = check_props_file(pid, outdir)
        if not okp:
            broken.append(("proof", "props/%s.v" % pid, praw[-1500:]))
    else:
        thms = theorem_names(os.path.join(COQ, "props", pid + ".v"))
    obligations = len(thms)
    discharged = obligations if okp else 0
    coqchk = None
    if tier == "thorough" and okp and not replay_path and not os.environ.get("VERIF_NO_COQCHK"):
        coqchk = run_coqchk(pid)
        if not coqchk.get("ok"):
            broken.append(("proof", "coqchk rejects the compiled development behind props/%s.vo" % pid, coqchk.get("tail", "")))

    if replay_path:
        rp = json.load(open(replay_path))
        rseed, rn = rp.get("seed", seed), rp.get("n", n)
        rdir = os.path.join(OUT, pid, "replay")
        rc, out = run_harness(pid, rseed, rn, rdir, mode=rp.get("mode", "corr"), extra=cfg.get("harness_args", []))
        print("harness rc=%d" % rc)
        fails = read_jsonl(os.path.join(rdir, "oracle.jsonl"))
        print("oracle failures on replay: %d" % len(fails))
        for f in fails[:5]:
            print(json.dumps(f)[:2000])
        if "case_id" in rp:
            res, errs, _ = eval_shards(rdir)
            cid = rp["case_id"]
            print("model vs implementation on case %s: %s" % (cid, res.get(cid)))
            for l in open(os.path.join(rdir, "impl.jsonl")):
                r = json.loads(l)
                if r["id"] == cid:
                    print("case input:", json.dumps(r)[:3000])
        sys.exit(0)

    phases['props'] = round(time.time() - t0, 1)
    # --- 2. implementation run + model evaluation + oracle ---
    stats, results, fails, corr_mismatch, eval_errors = {}, {}, [], [], []
    if not any(b[0] == "harness-build" for b in broken):
        rc, hout = run_harness(pid, seed, n, outdir, extra=cfg.get("harness_args", []), timeout=cfg.get("harness_timeout_" + tier, 900 if tier == "quick" else 10800), shard=cfg.get("shard_" + tier, cfg.get("shard", 500) * (4 if tier == "thorough" and cfg.get("shard", 500) <= 50 else 1)))
        sp = os.path.join(outdir, "stats.json")
        if os.path.exists(sp):
            stats = json.load(open(sp))
        if rc != 0:
            broken.append(("harness-run", "vharness %s exited %d" % (pid, rc), hout[-2000:]))
        fails = read_jsonl(os.path.join(outdir, "oracle.jsonl"))
        phases['harness'] = round(time.time() - t0, 1)
        if not any(b[0] == "proof" for b in broken):
            results, eval_errors, nshards = eval_shards(outdir)
            for s, e in eval_errors:
                broken.append(("correspondence", "model evaluation failed on %s" % os.path.basename(s), e))
            corr_mismatch = sorted(i for i, (ok_, _) in results.items() if not ok_)
            if stats and len(results) != stats.get("cases", 0) and not eval_errors:
                broken.append(("correspondence", "model evaluated %d of %d cases" % (len(results), stats.get("cases", 0)), ""))
    phases['eval'] = round(time.time() - t0, 1)
    impl_recs = {}
    ip = os.path.join(outdir, "impl.jsonl")
    if os.path.exists(ip):
        for l in open(ip, errors="replace"):
            try:
                r = json.loads(l)
            except ValueError:
                continue
            impl_recs[r["id"]] = r
    # a disagreement whose model reason code belongs to a recorded finding (e.g. the picker
    # relation rejecting the pick of finding F11) is that finding, not a broken correspondence
    corr_known = {}
    if corr_mismatch:
        keep = []
        for i in corr_mismatch:
            codes = [t - 100000 for t in results[i][1] if t >= 100000]
            hit = None
            for kf in known:
                if kf.get("status") == "known" and pid in kf.get("properties", [kf.get("property")]) \
                        and codes and all(c in kf.get("corr_codes", []) for c in codes):
                    hit = kf
                    break
            if hit:
                corr_known.setdefault(hit["id"], []).append(i)
            else:
                keep.append(i)
        corr_mismatch = keep
    if corr_mismatch:
        first = corr_mismatch[0]
        broken.append(("correspondence", "%s.%s disagrees with the implementation on %d case(s)" % (
            cfg.get("corr_files", ["?"])[0], cfg.get("run_fn", "run_case"), len(corr_mismatch)),
            json.dumps(impl_recs.get(first, {}))[:1500]))

    # --- 3. search for a failing input when something is broken but the oracle is quiet ---
    kfails, unknown = classify_failures(pid, fails, known)
    searched = 0
    if broken and not unknown and not any(b[0] == "harness-build" for b in broken):
        for k in range(cfg.get("search_rounds", 3)):
            sdir = os.path.join(outdir, "search%d" % k)
            rc, _ = run_harness(pid, seed * 1000 + 17 + k, cfg.get("search_n", n * 4), sdir, mode="search",
                                extra=cfg.get("harness_args", []), timeout=cfg.get("search_timeout", 1200))
            sf = read_jsonl(os.path.join(sdir, "oracle.jsonl"))
            st = json.load(open(os.path.join(sdir, "stats.json"))) if os.path.exists(os.path.join(sdir, "stats.json")) else {}
            searched += st.get("oracle_evaluations", 0)
            k2, u2 = classify_failures(pid, sf, known)
            if u2:
                for f in u2:
                    f["n"] = cfg.get("search_n", n * 4)
                    f["mode"] = "search"
                unknown = u2
                break
            for g in glob.glob(os.path.join(sdir, "cases_*.v")):
                os.remove(g)

    # --- 4. nontrivial / distinct measurement ---
    trivial_tags = set(cfg.get("trivial_tags", [0]))
    tag_hist = {}
    nontrivial_hashes = set()
    for i, (ok_, tags) in results.items():
        for t in tags:
            tag_hist[str(t)] = tag_hist.get(str(t), 0) + 1
        if any(t not in trivial_tags for t in tags):
            h = impl_recs.get(i, {}).get("hash")
            if h:
                nontrivial_hashes.add(h)

    # --- 5. decide ---
    violations = 0
    lines = []
    for fid in sorted(set(kfails) | set(corr_known)):
        kf = [x for x in known if x["id"] == fid][0]
        lines.append("KNOWN-FINDING: property=%s %s [%s, %d occurrence(s) this run]" % (
            pid, kf["text"], fid, len(kfails.get(fid, [])) + len(corr_known.get(fid, []))))
    # known findings are always announced on the tree where they still reproduce (the harness
    # replays every witness); if a listed witness no longer fails nothing is printed for it.
    if unknown:
        f = unknown[0]
        rp = write_replay(outdir, "violation.json", dict(f, property=pid, n=f.get("n", n), tier=tier,
                          broken=[dict(kind=b[0], name=b[1]) for b in broken]))
        lines.append("VIOLATION property=%s replay=%s" % (pid, rp))
        violations = len(unknown)
    elif broken:
        rp = write_replay(outdir, "broken.json", dict(property=pid, seed=seed, n=n, tier=tier,
                          broken=[dict(kind=b[0], name=b[1], detail=b[2]) for b in broken],
                          case_id=(corr_mismatch[0] if corr_mismatch else None),
                          first_disagreeing_case=impl_recs.get(corr_mismatch[0]) if corr_mismatch else None,
                          searched_oracle_evaluations=searched,
                          note="a theorem or the model/implementation correspondence no longer checks; the search found no concrete input on which the property oracle fails"))
        lines.append("VIOLATION property=%s replay=%s no-failing-input-found" % (pid, rp))
        violations = 1

    # --- 5b. companion checks: parts of this property whose model/harness live with another
    # property (e.g. the MANIFEST half of C09 is developed and exercised with C17) ---
    companions = {}
    for q in cfg.get("also_check", []):
        env = dict(os.environ, VERIF_EVIDENCE_DIR=os.path.join(outdir, "companion_evidence"), VERIF_COMPANION_OF=pid)
        rc, cout = run([sys.executable, os.path.abspath(__file__), q, tier], cwd=VERIF, env=env, timeout=7200)
        vl = [l for l in cout.splitlines() if l.startswith("VIOLATION ")]
        companions[q] = {"exit": rc, "violations": len(vl), "summary": (cout.strip().splitlines() or [""])[-1][:300]}
        for l in cout.splitlines():
            if l.startswith("KNOWN-FINDING: property=%s " % q):
                l2 = "KNOWN-FINDING: property=%s " % pid + l.split(" ", 2)[2] + " (through the %s machinery)" % q
                if l2 not in lines:
                    lines.append(l2)
        for l in vl:
            lines.append(re.sub(r"property=\S+", "property=%s" % pid, l))
            violations += 1
        if rc != 0 and not vl:
            lines.append("VIOLATION property=%s replay=%s no-failing-input-found" % (pid, os.path.join(outdir, "companion_evidence", q + ".json")))
            violations += 1

    wall = time.time() - t0
    samples = list(stats.get("samples") or [])[:4]
    samples.append({"obligations": thms})
    cov = {
        "obligations": obligations, "discharged": discharged,
        "checker_cmd": "make -C coq props/%s.vo && coqc props/%s.v (Print Assumptions re-run on every check)" % (pid, pid),
        "trusted_base": TRUSTED_BASE + cfg.get("trusted_base_extra", []),
        "theorems": thms,
        "print_assumptions": {"closed_under_global_context": closed, "axioms": assum},
        "evaluations": stats.get("cases", 0) + stats.get("oracle_evaluations", 0),
        "correspondence_cases": stats.get("cases", 0),
        "correspondence_cases_agreeing": sum(1 for ok_, _ in results.values() if ok_),
        "oracle_evaluations": stats.get("oracle_evaluations", 0),
        "oracle_failures": stats.get("oracle_failures", 0),
        "distinct_nontrivial": len(nontrivial_hashes),
        "rule": cfg.get("rule", "") + " | non-trivial = the model evaluation of the case reports at least one branch tag outside %s; distinct = SHA-256 of the canonical input" % sorted(trivial_tags),
        "samples": samples,
        "traces_validated_against_impl": stats.get("cases", 0) if cfg.get("cases_are_traces") else 0,
        "input_distribution": stats.get("distribution", {}),
        "model_branch_tags": tag_hist,
        "known_findings_seen": sorted(set(kfails) | set(corr_known)),
        "broken": [dict(kind=b[0], name=b[1]) for b in broken],
        "extra": stats.get("extra", {}),
        "search_oracle_evaluations": searched,
        "exhaustive": False,
        "phase_end_s": phases,
        "companion_checks": companions,
        "coqchk": coqchk,
    }
    ev = {"property_id": pid, "tier": tier, "seed": seed, "level": "proof", "coverage": cov,
          "assumptions": cfg.get("assumptions", []), "wall_s": round(wall, 2), "violations": violations}
    write_evidence(pid, ev)
    for l in lines:
        print(l)
    print("%s %s: %d/%d obligations, %d corr cases (%d agree), %d oracle evals, %d known finding(s), %.1fs" % (
        pid, tier, discharged, obligations, cov["correspondence_cases"], cov["correspondence_cases_agreeing"],
        cov["oracle_evaluations"], len(set(kfails) | set(corr_known)), wall))
    sys.exit(1 if violations else 0)


if __name__ == "__main__":
    main()
