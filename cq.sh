#!/bin/sh
cd /tmp/va/c13proofs/coq
Q="-Q base Verif -Q gen Verif -Q A Verif -Q B Verif -Q C Verif -Q corr Verif -Q props Verif"
timeout 600 coqc $Q -w -notation-overridden,-deprecated-hint-without-locality,-deprecated-syntactic-definition "$@" 2>&1 | head -60
