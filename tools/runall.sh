#!/bin/sh
# runall.sh [tier]: run every claimed check once, print one verdict line per property
cd "$(dirname "$0")/.."
tier=${1:-quick}
for p in $(python3 -c "import json;print(' '.join(c['property_id'] for c in json.load(open('MANIFEST.json'))['checks']))"); do
  ./check $p $tier 2>&1 | grep -v "^KNOWN-FINDING" | sed "s/^/[$p] /" | cut -c1-200
done
