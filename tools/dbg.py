#!/usr/bin/env python3
# usage: dbg.py file.v LINE  -> compiles file up to LINE (exclusive), then prints goals
import sys,subprocess,os
f,line=sys.argv[1],int(sys.argv[2])
src=open(f).read().split('\n')
tmp='/tmp/dbg_'+os.path.basename(f)
open(tmp,'w').write('\n'.join(src[:line-1])+'\nShow.\nAbort.\n')
r=subprocess.run(['coqc',*sum((['-Q','/verif/coq/'+d,'Verif'] for d in ['base','gen','A','B','C','corr','props']),[]),'-w','-all',tmp],capture_output=True,text=True)
print(r.stdout[-6000:]);print(r.stderr[-3000:])
