#!/usr/bin/env python3
# usage: tools/dbg.py coq/A/File.v LINE  -> compiles the file up to LINE (exclusive), then prints the open goals
import sys,subprocess,os
f,line=sys.argv[1],int(sys.argv[2])
root=os.path.join(os.path.dirname(os.path.dirname(os.path.abspath(__file__))),'coq')
src=open(f).read().split('\n')
tmp='/tmp/dbg_%d_%s'%(os.getpid(),os.path.basename(f))
open(tmp,'w').write('\n'.join(src[:line-1])+'\nShow.\nAbort.\n')
q=sum((['-Q',os.path.join(root,d),'Verif'] for d in ['base','gen','A','B','C','corr','props']),[])
r=subprocess.run(['timeout','600','coqc',*q,'-w','-all',tmp],capture_output=True,text=True)
print(r.stdout[-6000:]);print(r.stderr[-3000:])
for e in ('','o','ok','os'):
    try: os.remove(tmp+e if e=='' else tmp[:-2]+'.v'+e)
    except OSError: pass
