#!/bin/sh
# confirm_mut.sh <mutdir> <pkgdir (. | table | skl | y)> <test regex>
# Confirms a seeded change: applies, builds, demo must FAIL; reverted, demo must PASS.
d="$1"; pkg="$2"; re="$3"
export GOFLAGS=-mod=mod GOPROXY=off GOSUMDB=off GOTOOLCHAIN=local
W=/tmp/confmut_$$
git -C /repo worktree add -q --detach "$W" HEAD || exit 2
cp "$d/demo_test.go.txt" "$W/$pkg/zz_mut_demo_test.go"
cd "$W"
git apply "$d/patch.diff" || { echo "APPLY FAILED"; cd /; git -C /repo worktree remove --force "$W"; exit 2; }
go build ./... > /tmp/confmut_$$.log 2>&1 && echo "build-with-patch: ok" || { echo "build-with-patch: FAIL"; tail -5 /tmp/confmut_$$.log; }
if go test -vet=off -count=1 -run "$re" ./$pkg/ > /tmp/confmut_$$.log 2>&1; then echo "demo-with-patch: PASS (unexpected)"; else echo "demo-with-patch: fails (expected)"; fi
git apply -R "$d/patch.diff"
if go test -vet=off -count=1 -run "$re" ./$pkg/ > /tmp/confmut_$$.log 2>&1; then echo "demo-without-patch: passes (expected)"; else echo "demo-without-patch: FAIL (unexpected)"; tail -5 /tmp/confmut_$$.log; fi
cd /; git -C /repo worktree remove --force "$W"; rm -f /tmp/confmut_$$.log
