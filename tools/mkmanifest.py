#!/usr/bin/env python3
"""Assemble MANIFEST.json from checks/*.json (one fragment per claimed property)."""
import json, glob, os, subprocess
V = os.path.dirname(os.path.dirname(os.path.abspath(__file__)))
props = [json.loads(l) for l in open(os.path.join(V, "properties.jsonl")) if l.strip()]
ids = [p["id"] for p in props]
checks = []
claimed = set()
for pid in ids:
    p = os.path.join(V, "checks", pid + ".json")
    if not os.path.exists(p):
        continue
    c = json.load(open(p))
    if c.get("disabled"):
        continue
    claimed.add(pid)
    checks.append({
        "property_id": pid,
        "quick_cmd": "./check %s quick" % pid,
        "thorough_cmd": "./check %s thorough" % pid,
        "evidence_file": "/verif/evidence/%s.json" % pid,
        "replay_cmd_template": "./check %s --replay {path}" % pid,
        "engine": "coq-model+correspondence",
        "level_claimed": {
            "category": "proof",
            "text": c.get("level_text", ""),
            "design_ref": c.get("design_ref", "DESIGN.md §6 " + pid),
        },
        "level_note": c.get("level_note", "") + " Trusted base: Coq 8.16.1 kernel + vm_compute (no native_compute); no axioms declared (Print Assumptions recorded per theorem in evidence); hand-written Gallina model tied to /repo by the correspondence run (Go harness built with -tags verif, generators, cases.v emitter, canonicalisation) and by tools/genconsts; property oracles in Go.",
        "technique": c.get("technique", "Coq proof over an executable Gallina model + vm_compute correspondence against the implementation"),
    })
na_path = os.path.join(V, "checks", "not_applicable.json")
na = json.load(open(na_path)) if os.path.exists(na_path) else {}
not_app = []
for pid in ids:
    if pid not in claimed:
        not_app.append({"property_id": pid, "reason": na.get(pid, "not yet claimed: model / theorem / correspondence for this property are not built in this revision (see DESIGN.md §6 " + pid + ")")})
hooks_commits = subprocess.run(["git", "-C", "/repo", "log", "--format=%H %s"], capture_output=True, text=True).stdout.splitlines()
src = [l.split()[0] for l in hooks_commits if " verif:" in l or l.split(" ", 1)[1].startswith("verif")]
m = {
    "version": 1,
    "setup_cmd": "sh ./setup.sh",
    "hooks": {
        "guard": "verif",
        "enable": "go build -tags verif (harness module /verif/harness with replace github.com/dgraph-io/badger/v4 => /repo)",
        "baseline_off_cmd": "cd /repo && go test -mod=mod -json -vet=off -count=1 -timeout 25m ./...",
        "source_commits": src,
        "add_only": True,
    },
    "engines": [{"name": "coq-model+correspondence", "path": "/verif/lib/driver.py",
                 "serves_properties": sorted(claimed),
                 "kind_free_text": "Coq 8.16 proofs over a hand-written executable Gallina model (coq/), re-checked on every run; model tied to /repo by differential execution (harness/ built from /repo with -tags verif; cases evaluated by vm_compute) and by a constants translator (tools/genconsts); property oracles evaluated on the implementation"}],
    "checks": checks,
    "not_applicable": not_app,
    "notes": "See DESIGN.md. known_findings.jsonl lists genuine defects of the pinned tree (known / fixed).",
}
json.dump(m, open(os.path.join(V, "MANIFEST.json"), "w"), indent=1)
print("claimed:", len(checks), "not claimed:", len(not_app))
