#!/bin/sh
# mutest.sh <patch.diff> <PROP> [<PROP>...]: apply a seeded change to a scratch worktree of
# /repo, run the given checks (quick) against it, print their verdict lines, remove the worktree.
patch="$1"; shift
W=/tmp/mutrepo_$$
git -C /repo worktree add -q --detach "$W" HEAD || exit 2
# add-only export files a builder has not handed over yet (untracked in /repo) belong to the tree under test
for f in $(git -C /repo ls-files --others --exclude-standard | grep 'verif_[^/]*\.go$'); do
  mkdir -p "$W/$(dirname "$f")"; cp "/repo/$f" "$W/$f"
done
if ! git -C "$W" apply "$patch"; then echo "PATCH DOES NOT APPLY"; git -C /repo worktree remove --force "$W"; exit 2; fi
cd "$(dirname "$0")/.."
for p in "$@"; do
  VERIF_REPO="$W" VERIF_EVIDENCE_DIR=/tmp/mutev_$$ ./check "$p" quick 2>&1 | grep -v "^KNOWN-FINDING" | sed "s|^|[$p] |" | cut -c1-300
done
git -C /repo worktree remove --force "$W"; rm -rf /tmp/mutev_$$
