module genconsts

go 1.21
