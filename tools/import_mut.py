#!/usr/bin/env python3
"""import_mut.py <srcdir> <name> <pkgdir> <test-regex> <detected-by text>: copy a confirmed seeded
change into /verif/seeded/<name>/ (patch.diff, demonstration, meta.json)."""
import sys, os, json, shutil
src, name, pkg, rx, det = sys.argv[1:6]
dst = os.path.join(os.path.dirname(os.path.dirname(os.path.abspath(__file__))), "seeded", name)
os.makedirs(dst, exist_ok=True)
shutil.copy(os.path.join(src, "patch.diff"), dst)
for f in os.listdir(src):
    if f.startswith("demo") and f.endswith(".txt"):
        shutil.copy(os.path.join(src, f), dst)
m = json.load(open(os.path.join(src, "meta.json")))
meta = {
    "property": m.get("property"),
    "breaks": m.get("what_it_breaks"),
    "needs_to_manifest": m.get("needs_to_manifest"),
    "files": m.get("files"),
    "author": "independent sub-agent given only the property text and a scratch worktree of /repo",
    "author_ran": m.get("ran"),
    "confirmed_by_me": ["tools/confirm_mut.sh: patch applies on /repo HEAD and builds; demonstration (placed in ./%s, go test -run '%s') fails with the patch and passes without it" % (pkg, rx),
                        "existing suite with the patch: run by the author (see author_ran / full_root.log where present)"],
    "checks_result": det,
}
json.dump(meta, open(os.path.join(dst, "meta.json"), "w"), indent=1)
print("imported", dst)
