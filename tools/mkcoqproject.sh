#!/bin/sh
# Regenerate coq/_CoqProject from the directory listing (coqdep orders the build).
cd "$(dirname "$0")/../coq"
{
  for d in base gen A B C corr props; do echo "-Q $d Verif"; done
  echo "-arg -w -arg -notation-overridden,-deprecated-hint-without-locality,-deprecated-syntactic-definition"
  for d in base gen A B C corr props; do ls $d/*.v 2>/dev/null; done
} > _CoqProject.new
if cmp -s _CoqProject.new _CoqProject; then rm _CoqProject.new; else mv _CoqProject.new _CoqProject; fi
