#!/bin/sh
# cb.sh <targets…>: regenerate _CoqProject/Makefile and build the given .vo targets
cd "$(dirname "$0")/../coq" && sh ../tools/mkcoqproject.sh && { [ Makefile -nt _CoqProject ] || coq_makefile -f _CoqProject -o Makefile >/dev/null; } && timeout 1800 make -j16 "$@" 2>&1 | grep -v "^COQDEP\|^COQC\|Closed under" | tail -40
