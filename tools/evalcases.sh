#!/bin/sh
# evalcases.sh DIR : evaluate all cases_*.v in DIR, print mismatching ids + tag histogram
cd "$1"; Q=$(for d in base gen A B C corr props; do printf "%s " "-Q /verif/coq/$d Verif"; done)
ls cases_*.v | xargs -P 14 -I{} sh -c "coqc $Q {} > {}.out 2>&1; rm -f \$(basename {} .v).vo \$(basename {} .v).glob .\$(basename {} .v).aux"
cat cases_*.v.out | tr -s ' \n' ' ' | python3 -c "
import re,sys,collections
t=sys.stdin.read()
bad=[];h=collections.Counter();n=0
for m in re.finditer(r'\(\s*(\d+),\s*\(\s*(true|false),\s*\[([^\]]*)\]\s*\)\s*\)',t):
    n+=1
    tags=[int(x) for x in m.group(3).replace(' ','').split(';') if x]
    if m.group(2)=='false': bad.append((int(m.group(1)),tags))
    for x in tags: h[x]+=1
print('cases',n,'bad',bad[:20]); print(sorted(h.items()))
if 'Error' in t: print(t[t.index('Error')-300:t.index('Error')+600])
"
