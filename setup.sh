#!/bin/sh
# Build the framework offline from files on disk: axiom gate, constants translator,
# full .vo build of the Coq development, harness build from /repo (tag verif).
set -e
cd "$(dirname "$0")"
export GOFLAGS=-mod=mod GOPROXY=off GOSUMDB=off GOTOOLCHAIN=local
if grep -rnE '^\s*(Axiom|Parameter|Conjecture|Admitted|Admit Obligations)\b|\badmit\b|Unset Guard|bypass_check|type-in-type|impredicative-set' coq --include='*.v' ; then
  echo "setup: forbidden declaration found in the Coq development" >&2; exit 1
fi
mkdir -p out/bin evidence coq/gen
(cd tools/genconsts && go run . /repo) > coq/gen/Consts.v.new
if ! cmp -s coq/gen/Consts.v.new coq/gen/Consts.v; then mv coq/gen/Consts.v.new coq/gen/Consts.v; else rm coq/gen/Consts.v.new; fi
sh tools/mkcoqproject.sh
(cd coq && coq_makefile -f _CoqProject -o Makefile >/dev/null && timeout 7200 make -j16)
cp /repo/go.sum harness/go.sum
(cd harness && go build -tags verif -o ../out/bin/vharness .)
echo "setup: ok"
