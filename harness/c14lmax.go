package main

// C14 (oracle-only phase): the last level's own clean-up compaction (fillMaxLevelTables: a table of
// the last level that is over an hour old and holds at least 10 MB of stale data is rewritten,
// together with the tables that FOLLOW it until the target file size is reached). The level must
// stay sorted and disjoint, every live key readable, and the directory must re-open. The stale
// data are expired entries written while a reader holds the discard timestamp below them (so the
// first compaction keeps them, marked stale); the volume is what the picker's thresholds demand.

import (
	"bytes"
	"fmt"
	"os"
	"path/filepath"
	"time"

	badger "github.com/dgraph-io/badger/v4"
)

func runC14LmaxCompaction(c *Ctx) error {
	done := make(chan error, 1)
	go func() { done <- c14Lmax(c) }()
	select {
	case err := <-done:
		return err
	case <-time.After(180 * time.Second):
		c.Oracle(false, "c14-lmax-compaction-call-did-not-return", "a write, compaction or re-open of the last-level clean-up scenario did not return within 180 s", nil)
		return nil
	}
}

func c14Lmax(c *Ctx) error {
	dir := filepath.Join(os.Getenv("VERIF_SCRATCH_DIR"), "c14lmax")
	os.RemoveAll(dir)
	defer os.RemoveAll(dir)
	o := sysOpts{NKeep: 1, MaxLevels: 4, VThreshold: 4096, TableSize: 48 << 20, BaseLevelSize: 256 << 20, MemSize: 64 << 20}
	db, err := openSysDB(dir, o)
	if err != nil {
		return err
	}
	closed := false
	defer func() {
		if !closed {
			db.Close()
		}
	}()
	val := bytes.Repeat([]byte{'s'}, 1024)
	block := func(prefix string, n int, expired bool) error {
		for i := 0; i < n; {
			err := db.Update(func(tx *badger.Txn) error {
				for j := 0; j < 400 && i < n; j, i = j+1, i+1 {
					e := badger.NewEntry([]byte(fmt.Sprintf("%s%06d", prefix, i)), val)
					if expired && i%100 != 0 { // every hundredth entry stays live: the rewritten table is not empty
						e.ExpiresAt = 1
					}
					if err := tx.SetEntry(e); err != nil {
						return err
					}
				}
				return nil
			})
			if err != nil {
				return err
			}
		}
		if err := db.VerifFlushMemtable(); err != nil {
			return err
		}
		return db.VerifCompact(0, false, nil)
	}
	hold := db.NewTransaction(false) // keeps the discard timestamp below everything written next
	if err := block("a", 14500, true); err != nil {
		return fmt.Errorf("c14lmax: block a: %v", err)
	}
	if err := block("m", 300, false); err != nil {
		return fmt.Errorf("c14lmax: block m: %v", err)
	}
	if err := block("x", 11500, true); err != nil {
		return fmt.Errorf("c14lmax: block x: %v", err)
	}
	hold.Discard()
	for i := 0; i < 2; i++ {
		db.View(func(tx *badger.Txn) error { return nil })
	}
	db.VerifSettleWatermarks()
	last := 0
	for _, t := range db.Tables() {
		if t.Level > last {
			last = t.Level
		}
	}
	nBefore := len(db.Tables())
	var layout []string
	for _, t := range db.Tables() {
		layout = append(layout, fmt.Sprintf("L%d #%d [%s..%s] size=%d stale=%d maxv=%d", t.Level, t.ID, t.Left, t.Right, t.OnDiskSize, t.StaleDataSize, t.MaxVersion))
	}
	c.Extra["lmax_layout_before"] = layout
	c.Extra["lmax_discard_ts"] = db.VerifDiscardTs()
	db.VerifBackdateTables(2*time.Hour, nil)
	cerr := db.VerifCompact(last, false, nil)
	ran := cerr == nil
	if cerr != nil && !badger.VerifIsFillTablesErr(cerr) {
		return fmt.Errorf("c14lmax: last-level compaction: %v", cerr)
	}
	c.Extra["lmax_compaction_ran"] = ran
	c.Extra["lmax_tables_before"] = nBefore
	c.Count(fmt.Sprintf("lmax-cleanup-compaction-ran=%v", ran))
	check := func(db *badger.DB, where string) {
		var bad []string
		byLevel := map[int][]badger.TableInfo{}
		for _, t := range db.Tables() {
			byLevel[t.Level] = append(byLevel[t.Level], t)
		}
		for lv, ts := range byLevel {
			if lv == 0 {
				continue
			}
			for i := 1; i < len(ts); i++ {
				if bytes.Compare(ts[i-1].Right, ts[i].Left) >= 0 {
					bad = append(bad, fmt.Sprintf("level %d: table %d [%q..%q] is not below table %d [%q..%q]", lv, ts[i-1].ID, ts[i-1].Left, ts[i-1].Right, ts[i].ID, ts[i].Left, ts[i].Right))
				}
			}
		}
		missing := 0
		db.View(func(tx *badger.Txn) error {
			for i := 0; i < 300; i++ {
				if _, err := tx.Get([]byte(fmt.Sprintf("m%06d", i))); err != nil {
					missing++
				}
			}
			for _, pre := range []string{"a", "x"} {
				for i := 0; i < 11500; i += 100 {
					if _, err := tx.Get([]byte(fmt.Sprintf("%s%06d", pre, i))); err != nil {
						missing++
					}
				}
			}
			return nil
		})
		if missing > 0 {
			bad = append(bad, fmt.Sprintf("%d of 530 live keys are not found", missing))
		}
		if len(bad) > 5 {
			bad = bad[:5]
		}
		c.Oracle(len(bad) == 0, "c14-last-level-not-disjoint-after-cleanup-compaction",
			"after the last level's clean-up compaction the level is not sorted and disjoint, or a live key is not found",
			J{"where": where, "compaction_ran": ran, "tables_before": nBefore, "tables_after": len(db.Tables()), "mismatches": bad})
	}
	var after []string
	for _, t := range db.Tables() {
		after = append(after, fmt.Sprintf("L%d #%d [%s..%s] size=%d stale=%d", t.Level, t.ID, t.Left, t.Right, t.OnDiskSize, t.StaleDataSize))
	}
	c.Extra["lmax_layout_after"] = after
	check(db, "after the compaction")
	closed = true
	if err := db.Close(); err != nil {
		c.Oracle(false, "c14-close-fails-after-cleanup-compaction", err.Error(), nil)
		return nil
	}
	db2, err := openSysDB(dir, o)
	if err != nil {
		c.Oracle(false, "c14-reopen-fails-after-cleanup-compaction", "re-open after the last level's clean-up compaction fails: "+err.Error(), nil)
		return nil
	}
	check(db2, "after re-open")
	db2.Close()
	return nil
}
