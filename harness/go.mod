module vharness

go 1.23.0

toolchain go1.23.5

require (
	github.com/dgraph-io/badger/v4 v4.0.0
	github.com/dgraph-io/ristretto/v2 v2.2.0
	google.golang.org/protobuf v1.36.7
)

require (
	github.com/cespare/xxhash/v2 v2.3.0 // indirect
	github.com/dustin/go-humanize v1.0.1 // indirect
	github.com/go-logr/logr v1.4.3 // indirect
	github.com/go-logr/stdr v1.2.2 // indirect
	github.com/google/flatbuffers v25.2.10+incompatible // indirect
	github.com/klauspost/compress v1.18.0 // indirect
	go.opentelemetry.io/auto/sdk v1.1.0 // indirect
	go.opentelemetry.io/otel v1.37.0 // indirect
	go.opentelemetry.io/otel/metric v1.37.0 // indirect
	go.opentelemetry.io/otel/trace v1.37.0 // indirect
	golang.org/x/sys v0.35.0 // indirect
)

replace github.com/dgraph-io/badger/v4 => /repo
