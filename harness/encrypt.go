package main

// C23 — encryption at rest is transparent and keeps plaintext off disk.
//
// Function level (model coq/C/Encrypt.v, cipher instantiated by key streams captured from
// y.XORBlock): log records (logFile.encodeEntry / decodeEntry), table files of real databases
// (stored blocks / index, file assembly, Table.decrypt), KEYREGISTRY files.
// History level: one generated call sequence on an unencrypted and on an encrypted real DB
// (16/24/32-byte master keys; data-key rotation either every use or never), both replayed by the
// system model.  Oracles (Go, no model involved):
//   c23-encrypted-read-differs   an observation differs between the two runs
//   c23-plaintext-on-disk        8 consecutive bytes of a user key / value occur in a file
//   c23-iv-reuse                 two cipher uses share (data key, IV); .../ctr-overlap: their
//                                CTR counter ranges meet
//   c23-wrong-key-...            re-open with another key: not ErrEncryptionKeyMismatch, or files changed
//   c23-rotation-...             after `badger rotate` the new key must read everything, the old must fail

import (
	"bytes"
	"crypto/sha256"
	"encoding/binary"
	"encoding/hex"
	"errors"
	"fmt"
	"math/big"
	"os"
	"os/exec"
	"path/filepath"
	"sort"
	"strings"
	"time"

	badger "github.com/dgraph-io/badger/v4"
	"github.com/dgraph-io/badger/v4/y"
)

func optBytes(b []byte) string {
	if b == nil {
		return "None"
	}
	return Some(B(b))
}

func keystream(key, iv []byte, n int) []byte {
	ks, err := y.XORBlockAllocate(make([]byte, n), key, iv)
	if err != nil {
		panic(err)
	}
	return ks
}

func ksEntry(key, iv []byte, n int) string {
	return fmt.Sprintf("(%s, %s, %s)", B(key), B(iv), B(keystream(key, iv, n)))
}

func randBytes(c *Ctx, n int) []byte {
	b := make([]byte, n)
	c.Rng.Read(b)
	return b
}

// ---- function level: log records ----
func c23LogRecord(c *Ctx) {
	var aes []byte
	if c.Rng.Intn(5) != 0 {
		aes = randBytes(c, []int{16, 24, 32}[c.Rng.Intn(3)])
	}
	biv := randBytes(c, 12)
	var off uint32
	switch c.Rng.Intn(6) {
	case 0:
		off = 20
	case 1:
		off = 0xFFFFFF00 + uint32(c.Rng.Intn(255)) // the 4 offset bytes close to wrapping
	case 2:
		off = uint32(c.Rng.Intn(1 << 16))
	default:
		off = c.Rng.Uint32()
	}
	kl := 1 + c.Rng.Intn(40)
	vl := []int{0, 1, 15, 16, 17, 31, 32, 33, c.Rng.Intn(200)}[c.Rng.Intn(9)]
	key, val := randBytes(c, kl), randBytes(c, vl)
	meta, umeta := byte([]int{0, 1, 4, 64, 128, 66}[c.Rng.Intn(6)]), byte(c.Rng.Intn(256))
	exp := []uint64{0, 1, 1 << 40, c.Rng.Uint64()}[c.Rng.Intn(4)]
	rec, err := badger.VerifEncLogRecord(key, val, meta, umeta, exp, off, aes, biv)
	if err != nil {
		c.Oracle(false, "harness-error:c23-encode", err.Error(), nil)
		return
	}
	dk, dv, ok := badger.VerifDecLogRecord(rec, off, aes, biv)
	c.Oracle(ok && bytes.Equal(dk, key) && bytes.Equal(dv, val), "c23-encrypted-read-differs/log-record",
		"decodeEntry(encodeEntry(e)) does not return e's key and value", J{"key": key, "val": val, "off": off, "aes": aes, "biv": biv})
	if aes != nil {
		// confinement on one record: no 8-byte window of key or value in the stored bytes
		leak := false
		for _, s := range [][]byte{key, val} {
			for i := 0; i+8 <= len(s); i++ {
				if bytes.Contains(rec, s[i:i+8]) {
					leak = true
				}
			}
		}
		c.Oracle(!leak, "c23-plaintext-on-disk/log-record", "an encrypted log record contains plaintext of its key or value", J{"key": key, "val": val, "rec": rec})
	}
	iv := append(append([]byte{}, biv...), 0, 0, 0, 0)
	binary.BigEndian.PutUint32(iv[12:], off)
	ks := "[]"
	if aes != nil {
		ks = ListOf([]string{ksEntry(aes, iv, kl+vl+8)})
	}
	crc := binary.BigEndian.Uint32(rec[len(rec)-4:])
	term := fmt.Sprintf("(LogRec %s %s %s %d (mkLE %s %s %d %d %d) %d %s %s %s)", optBytes(aes), ks, B(biv), off,
		B(key), B(val), exp, meta, umeta, crc, B(rec), B(dk), B(dv))
	c.Case("log-record", term, J{"key": key, "val": val, "off": off, "aes": aes, "biv": biv, "meta": meta, "exp": exp})
}

// ---- cipher-use bookkeeping ----
type ctrRange struct {
	start *big.Int
	n     int64
	id    string
}

type ivBook struct {
	seen   map[string]string     // keyid|iv -> identity of the use
	ranges map[uint64][]ctrRange // per data key
	nUses  int
	reuse  []string
}

func newIVBook() *ivBook { return &ivBook{seen: map[string]string{}, ranges: map[uint64][]ctrRange{}} }

func (b *ivBook) add(keyID uint64, iv []byte, nbytes int, id string) {
	if keyID == 0 {
		return
	}
	k := fmt.Sprintf("%d|%x", keyID, iv)
	if old, ok := b.seen[k]; ok {
		if old != id {
			b.reuse = append(b.reuse, fmt.Sprintf("data key %d iv %x used by %s and by %s", keyID, iv, old, id))
		}
		return
	}
	b.seen[k] = id
	b.nUses++
	b.ranges[keyID] = append(b.ranges[keyID], ctrRange{new(big.Int).SetBytes(iv), int64((nbytes + 15) / 16), id})
}

func (b *ivBook) overlaps() []string {
	var out []string
	for kid, rs := range b.ranges {
		sort.Slice(rs, func(i, j int) bool { return rs[i].start.Cmp(rs[j].start) < 0 })
		for i := 0; i+1 < len(rs); i++ {
			end := new(big.Int).Add(rs[i].start, big.NewInt(rs[i].n))
			if end.Cmp(rs[i+1].start) > 0 {
				out = append(out, fmt.Sprintf("data key %d: counter ranges of %s and %s meet", kid, rs[i].id, rs[i+1].id))
			}
		}
	}
	return out
}

func (b *ivBook) collect(h *hist, epoch int) error {
	lus, err := h.db.VerifLogUses()
	if err != nil {
		return fmt.Errorf("VerifLogUses: %w", err)
	}
	for _, u := range lus {
		for i, off := range u.Offsets {
			iv := append(append([]byte{}, u.BaseIV...), 0, 0, 0, 0)
			binary.BigEndian.PutUint32(iv[12:], off)
			b.add(u.KeyID, iv, int(u.KVLens[i]), fmt.Sprintf("e%d/%s@%d", epoch, filepath.Base(u.Name), off))
		}
	}
	ts, err := h.db.VerifTablesEnc()
	if err != nil {
		return fmt.Errorf("VerifTablesEnc: %w", err)
	}
	for _, t := range ts {
		if t.KeyID == 0 {
			continue
		}
		for i, bl := range t.Blocks {
			b.add(t.KeyID, bl.Raw[len(bl.Raw)-16:], len(bl.Raw)-16, fmt.Sprintf("e%d/t%d/b%d", epoch, t.ID, i))
		}
		b.add(t.KeyID, t.Index.Raw[len(t.Index.Raw)-16:], len(t.Index.Raw)-16, fmt.Sprintf("e%d/t%d/index", epoch, t.ID))
	}
	return nil
}

// ---- raw scan of a directory for user bytes ----
type userBytes struct {
	windows map[string]string // 8-byte window -> what it belongs to
}

func (u *userBytes) add(kind string, s []byte) {
	for i := 0; i+8 <= len(s); i++ {
		w := string(s[i : i+8])
		if _, ok := u.windows[w]; !ok {
			u.windows[w] = fmt.Sprintf("%s %x", kind, s)
		}
	}
}

func (u *userBytes) scanDir(dir string) (hits []string, nbytes int) {
	ents, _ := os.ReadDir(dir)
	for _, e := range ents {
		if e.IsDir() {
			continue
		}
		b, err := os.ReadFile(filepath.Join(dir, e.Name()))
		if err != nil {
			continue
		}
		nbytes += len(b)
		found := map[string]bool{}
		for i := 0; i+8 <= len(b); i++ {
			if binary.LittleEndian.Uint64(b[i:]) == 0 { // the zero-filled tail of pre-sized files
				continue
			}
			if what, ok := u.windows[string(b[i:i+8])]; ok && !found[what] {
				found[what] = true
				hits = append(hits, fmt.Sprintf("%s offset %d: %s", e.Name(), i, what))
			}
		}
	}
	return
}

func treeHash(dir string) string {
	h := sha256.New()
	ents, _ := os.ReadDir(dir)
	for _, e := range ents {
		b, _ := os.ReadFile(filepath.Join(dir, e.Name()))
		s := sha256.Sum256(b)
		fmt.Fprintf(h, "%s %d %x\n", e.Name(), len(b), s)
	}
	return hex.EncodeToString(h.Sum(nil))
}

func openC23DB(dir string, o sysOpts, rot time.Duration) (*badger.DB, error) {
	opt := badger.DefaultOptions(dir)
	opt = opt.WithLoggingLevel(badger.ERROR).WithNumCompactors(0).WithNumLevelZeroTables(1000).
		WithNumLevelZeroTablesStall(2000).WithMemTableSize(1 << 20).WithValueLogFileSize(1 << 20).
		WithNumVersionsToKeep(o.NKeep).WithDetectConflicts(o.Detect).WithMaxLevels(o.MaxLevels).
		WithBaseTableSize(o.TableSize).WithBaseLevelSize(o.BaseLevelSize).WithLevelSizeMultiplier(2).
		WithNumMemtables(8).WithBlockSize(64).WithMetricsEnabled(false).WithCompactL0OnClose(false).
		WithValueThreshold(c37ThrDisk).WithIndexCacheSize(1 << 20).WithBlockCacheSize(1 << 20)
	if o.EncKey != nil {
		opt = opt.WithEncryptionKey(o.EncKey).WithEncryptionKeyRotationDuration(rot)
	}
	if o.Managed {
		return badger.OpenManaged(opt)
	}
	return badger.Open(opt)
}

func isKeyMismatch(err error) bool {
	return err != nil && (errors.Is(err, badger.ErrEncryptionKeyMismatch) || strings.Contains(err.Error(), badger.ErrEncryptionKeyMismatch.Error()))
}

// readEverything: every key through Get plus a full iteration, as strings (no AllVersions:
// which old versions survive depends on the discard watermark's timing)
func readEverything(db *badger.DB, managed bool, keys [][]byte) []string {
	var tx *badger.Txn
	if managed {
		tx = db.NewTransactionAt(^uint64(0), false)
	} else {
		tx = db.NewTransaction(false)
	}
	defer tx.Discard()
	var out []string
	for _, k := range keys {
		it, err := tx.Get(k)
		switch {
		case err == nil:
			oi, verr := readItem(it)
			out = append(out, fmt.Sprintf("%x -> v=%d um=%d exp=%d val=%x err=%v", k, oi.Ver, oi.UMeta, oi.Exp, oi.Val, verr))
		case errors.Is(err, badger.ErrKeyNotFound):
			out = append(out, fmt.Sprintf("%x -> notfound", k))
		default:
			out = append(out, fmt.Sprintf("%x -> err %v", k, err))
		}
	}
	itr := tx.NewIterator(badger.DefaultIteratorOptions)
	for itr.Rewind(); itr.Valid(); itr.Next() {
		oi, verr := readItem(itr.Item())
		out = append(out, fmt.Sprintf("it %x v=%d meta=%d val=%x err=%v", oi.Key, oi.Ver, oi.Meta, oi.Val, verr))
	}
	itr.Close()
	return out
}

// ---- function level on real files: tables and the key registry ----
func c23TableCases(c *Ctx, h *hist, max int) error {
	ts, err := h.db.VerifTablesEnc()
	if err != nil {
		return err
	}
	dks := map[uint64][]byte{}
	for _, k := range h.db.VerifDataKeys() {
		dks[k.ID] = k.Data
	}
	n := 0
	for _, t := range ts {
		if n >= max || len(t.File) > 6000 {
			continue
		}
		var aes []byte
		if t.KeyID != 0 {
			aes = dks[t.KeyID]
			if aes == nil {
				c.Oracle(false, "c23-encrypted-read-differs/unknown-data-key", "a table names a data key the registry does not hold", J{"table": t.ID, "key": t.KeyID})
				continue
			}
		}
		var ks, bls, raws []string
		part := func(p []byte, raw []byte) string {
			iv := []byte{}
			if aes != nil {
				iv = raw[len(raw)-16:]
				ks = append(ks, ksEntry(aes, iv, len(p)))
			}
			raws = append(raws, B(raw))
			return fmt.Sprintf("(%s, %s)", B(p), B(iv))
		}
		for _, b := range t.Blocks {
			bls = append(bls, part(b.Plain, b.Raw))
		}
		idx := part(t.Index.Plain, t.Index.Raw)
		// footer: ... index | be32 len(index) | checksum | be32 len(checksum)
		f := t.File
		cl := int(binary.BigEndian.Uint32(f[len(f)-4:]))
		cks := f[len(f)-4-cl : len(f)-4]
		term := fmt.Sprintf("(TblFile %s %s %s %s %s %s %s)", optBytes(aes), ListOf(ks), ListOf(bls), idx, B(cks), ListOf(raws), B(f))
		c.Case("table-file", term, J{"table": t.ID, "key_id": t.KeyID, "blocks": len(t.Blocks), "size": len(f), "sha": fmt.Sprintf("%x", sha256.Sum256(f))})
		n++
	}
	return nil
}

func dkTerm(id uint64, data, iv []byte, created int64) string {
	return fmt.Sprintf("(mkDK %d %s %s %d)", id, B(data), B(iv), created)
}

// c23RegistryCase: the KEYREGISTRY file of dir against the model; plain = the data keys in
// plain text (from an open registry); wrong = a master key the implementation rejected
func c23RegistryCase(c *Ctx, dir string, master []byte, plain map[uint64][]byte, wrong []byte) {
	iv, sanity, recs, ok := badger.VerifParseKeyRegistry(filepath.Join(dir, "KEYREGISTRY"))
	if !ok {
		c.Oracle(false, "harness-error:c23-registry-parse", "KEYREGISTRY does not parse", J{"dir": dir})
		return
	}
	file, _ := os.ReadFile(filepath.Join(dir, "KEYREGISTRY"))
	var ks, dks, crcs []string
	if master != nil {
		ks = append(ks, ksEntry(master, iv, len(sanity)))
	}
	if wrong != nil {
		ks = append(ks, ksEntry(wrong, iv, len(sanity)))
	}
	for _, r := range recs {
		p, okp := plain[r.Key.ID]
		if !okp {
			c.Oracle(false, "harness-error:c23-registry-key", "a stored data key is unknown to the open registry", J{"id": r.Key.ID})
			return
		}
		if master != nil {
			ks = append(ks, ksEntry(master, r.Key.IV, len(p)))
		}
		dks = append(dks, dkTerm(r.Key.ID, p, r.Key.IV, r.Key.CreatedAt))
		crcs = append(crcs, fmt.Sprintf("(%s, %d)", B(r.PB), r.CRC))
	}
	term := fmt.Sprintf("(Registry %s %s %s %s %s %s %s)", optBytes(master), ListOf(ks), B(iv), ListOf(dks), ListOf(crcs), B(file), optBytes(wrong))
	c.Case("registry", term, J{"master_len": len(master), "n_keys": len(recs), "sha": fmt.Sprintf("%x", sha256.Sum256(file)), "wrong": wrong != nil})
}

var c23cli string

func c23buildCLI(c *Ctx) error {
	if c23cli != "" {
		return nil
	}
	repo := os.Getenv("VERIF_REPO")
	if repo == "" {
		repo = "/repo"
	}
	out := filepath.Join(c.Out, "badger-cli")
	cmd := exec.Command("go", "build", "-o", out, "./badger")
	cmd.Dir = repo
	cmd.Env = append(os.Environ(), "GOFLAGS=-mod=mod", "GOPROXY=off", "GOSUMDB=off", "GOTOOLCHAIN=local")
	if b, err := cmd.CombinedOutput(); err != nil {
		return fmt.Errorf("building the badger command: %v: %s", err, b)
	}
	c23cli = out
	return nil
}

func c23rotate(dir string, oldKey, newKey []byte) error {
	args := []string{"rotate", "--dir", dir}
	if oldKey != nil {
		p := filepath.Join(filepath.Dir(dir), "old.key")
		os.WriteFile(p, oldKey, 0o600)
		defer os.Remove(p)
		args = append(args, "--old-key-path", p)
	}
	if newKey != nil {
		p := filepath.Join(filepath.Dir(dir), "new.key")
		os.WriteFile(p, newKey, 0o600)
		defer os.Remove(p)
		args = append(args, "--new-key-path", p)
	}
	if b, err := exec.Command(c23cli, args...).CombinedOutput(); err != nil {
		return fmt.Errorf("badger rotate: %v: %s", err, b)
	}
	return nil
}

func c23History(c *Ctx, i int) error {
	keys := make([][]byte, 4+c.Rng.Intn(5))
	for j := range keys {
		keys[j] = randBytes(c, 16+c.Rng.Intn(9))
	}
	ub := &userBytes{windows: map[string]string{}}
	for _, k := range keys {
		ub.add("key", k)
	}
	p := &c37profile{managed: i%5 == 4, detect: i%2 == 0, nOps: 40 + c.Rng.Intn(40), keys: keys,
		nkeep: []int{1, 2, 100}[c.Rng.Intn(3)], wDropAll: 0}
	if i%3 == 2 {
		p.wDropAll = 2
	}
	p.value = func(c *Ctx) []byte {
		n := 16 + c.Rng.Intn(24)
		if c.Rng.Intn(3) == 0 {
			n = 60 + c.Rng.Intn(240)
		}
		v := randBytes(c, n)
		ub.add("value", v)
		return v
	}
	o := sysOpts{Managed: p.managed, Detect: p.detect, NKeep: p.nkeep, MaxLevels: 4,
		TableSize: int64(256) << uint(c.Rng.Intn(5)), BaseLevelSize: []int64{200, 600, 2 << 10, 8 << 10}[c.Rng.Intn(4)]}

	// ---- run 1: unencrypted ----
	dirP := scratchDir("p")
	db, err := openC23DB(dirP, o, 0)
	if err != nil {
		return err
	}
	rp := &c37run{h: newHistOn(c, o, dirP, db)}
	rp.h.files()
	steps, err := c37generate(c, p, rp)
	if err != nil {
		c.Oracle(false, "harness-error:c23-plain", err.Error(), J{"history": rp.h.desc})
		rp.h.close()
		return err
	}
	finalP := readEverything(rp.h.db, o.Managed, keys)
	if i < 3 {
		if err := c23TableCases(c, rp.h, 1); err != nil {
			return err
		}
	}
	hitsP, _ := ub.scanDir(dirP) // positive control of the scanner
	if len(hitsP) > 0 {
		c.Count("scanner-finds-plaintext-in-unencrypted-db")
	} else if len(rp.h.ref) > 0 {
		c.Count("scanner-found-nothing-in-unencrypted-db")
	}
	rp.h.close()

	// ---- run 2: encrypted ----
	oe := o
	oe.EncKey = randBytes(c, []int{16, 24, 32}[i%3])
	rot := 10 * 24 * time.Hour
	if i%2 == 0 {
		rot = time.Nanosecond // a new data key for every log file and every table
	}
	dirE := scratchDir("e")
	dbe, err := openC23DB(dirE, oe, rot)
	if err != nil {
		return err
	}
	re := &c37run{h: newHistOn(c, oe, dirE, dbe)}
	re.h.files()
	book := newIVBook()
	re.after = func(h *hist) error {
		epoch := 0 // table ids restart after DropAll: the epoch is part of a use's identity
		for _, l := range h.ops {
			if l == "X:DropAll" {
				epoch++
			}
		}
		return book.collect(h, epoch)
	}
	var runErr error
	for _, f := range steps {
		if runErr = re.apply(f); runErr != nil {
			break
		}
	}
	if runErr != nil {
		c.Oracle(false, "harness-error:c23-encrypted", runErr.Error(), J{"history": re.h.desc})
		re.h.close()
		return runErr
	}
	finalE := readEverything(re.h.db, o.Managed, keys)
	c.Oracle(strings.Join(finalP, "\n") == strings.Join(finalE, "\n"), "c23-encrypted-read-differs/final",
		"the final content (every key) differs between the unencrypted and the encrypted run", J{"plain": finalP, "encrypted": finalE, "history": re.h.desc})
	for s := range steps {
		var a, b []string
		for _, l := range rp.labels(s) {
			if isReadLabel(l) {
				a = append(a, l)
			}
		}
		for _, l := range re.labels(s) {
			if isReadLabel(l) {
				b = append(b, l)
			}
		}
		if len(a) == 0 && len(b) == 0 {
			continue
		}
		c.Oracle(strings.Join(a, "\n") == strings.Join(b, "\n"), "c23-encrypted-read-differs",
			"an observation differs between the unencrypted and the encrypted run of the same call sequence",
			J{"plain": rp.h.desc, "encrypted": re.h.desc, "step": s, "plain_labels": a, "encrypted_labels": b})
	}
	c.Oracle(len(book.reuse) == 0, "c23-iv-reuse", "two cipher uses share a data key and an IV", J{"reuse": book.reuse, "history": re.h.desc})
	ov := book.overlaps()
	c.Oracle(len(ov) == 0, "c23-iv-reuse/ctr-overlap", "the CTR counter ranges of two cipher uses under one data key meet", J{"overlaps": ov, "history": re.h.desc})
	c.Count(fmt.Sprintf("cipher-uses>=%d", (book.nUses/50)*50))
	plainKeys := map[uint64][]byte{}
	for _, k := range re.h.db.VerifDataKeys() {
		plainKeys[k.ID] = k.Data
	}
	c.Count(fmt.Sprintf("data-keys=%d", min(len(plainKeys), 9)))
	if err := c23TableCases(c, re.h, 2); err != nil {
		return err
	}
	// raw scan with the database open (WAL and value log are mapped files) ...
	hits, nb := ub.scanDir(dirE)
	c.Oracle(len(hits) == 0, "c23-plaintext-on-disk", "user key / value bytes occur in a file of the encrypted database (open)", J{"hits": hits, "history": re.h.desc})
	c.Extra["bytes_scanned"] = fmt.Sprint(nb)
	// keep the open database's files, close
	re.h.dir = "" // close() must not remove the directory yet
	re.h.close()
	defer os.RemoveAll(dirE)
	// ... and after Close
	hits, _ = ub.scanDir(dirE)
	c.Oracle(len(hits) == 0, "c23-plaintext-on-disk", "user key / value bytes occur in a file of the encrypted database (closed)", J{"hits": hits, "history": re.h.desc})

	// ---- wrong keys ----
	before := treeHash(dirE)
	wrongs := [][]byte{randBytes(c, len(oe.EncKey)), randBytes(c, []int{16, 24, 32}[(i+1)%3]), nil}
	flip := append([]byte{}, oe.EncKey...)
	flip[c.Rng.Intn(len(flip))] ^= 1 << uint(c.Rng.Intn(8))
	wrongs = append(wrongs, flip)
	for _, w := range wrongs {
		ow := oe
		ow.EncKey = w
		dbw, err := openC23DB(dirE, ow, rot)
		c.Oracle(isKeyMismatch(err), "c23-wrong-key-accepted", "opening with a different key did not fail with ErrEncryptionKeyMismatch", J{"err": fmt.Sprint(err), "wrong_len": len(w)})
		if err == nil && dbw != nil {
			dbw.Close()
		}
		c.Oracle(treeHash(dirE) == before, "c23-wrong-key-changed-files", "a failed open with a different key changed the files", J{"wrong_len": len(w)})
	}

	// ---- re-open with the right key: data under every earlier data key is readable ----
	dbr, err := openC23DB(dirE, oe, rot)
	if err != nil {
		c.Oracle(false, "c23-reopen-failed", "re-opening with the right key failed: "+err.Error(), nil)
		return nil
	}
	again := readEverything(dbr, o.Managed, keys)
	c.Oracle(strings.Join(again, "\n") == strings.Join(finalP, "\n"), "c23-encrypted-read-differs/reopen",
		"after re-opening the encrypted database its content differs from the unencrypted run", J{"plain": finalP, "encrypted": again})
	// Close flushed the memtable and every open creates a WAL: with rotation on each of them
	// drew a new data key; the registry now open knows all keys the file holds
	for _, k := range dbr.VerifDataKeys() {
		plainKeys[k.ID] = k.Data
	}
	dbr.Close()
	c23RegistryCase(c, dirE, oe.EncKey, plainKeys, wrongs[0])

	// ---- master-key rotation through the badger command ----
	if err := c23buildCLI(c); err != nil {
		c.Oracle(false, "harness-error:c23-cli", err.Error(), nil)
		return err
	}
	var newKey []byte
	if i%4 != 3 {
		newKey = randBytes(c, []int{16, 24, 32}[(i+2)%3])
	} // else: rotate to "no master key" (registry in plain text; data files stay encrypted)
	dataBefore := treeHashExcept(dirE, "KEYREGISTRY")
	if err := c23rotate(dirE, oe.EncKey, newKey); err != nil {
		c.Oracle(false, "c23-rotation-failed", err.Error(), nil)
		return nil
	}
	c.Oracle(treeHashExcept(dirE, "KEYREGISTRY") == dataBefore, "c23-rotation-touched-data", "badger rotate changed a file other than KEYREGISTRY", nil)
	on := oe
	on.EncKey = newKey
	if newKey != nil {
		dbo, err := openC23DB(dirE, oe, rot)
		if err == nil {
			dbo.Close()
		}
		c.Oracle(isKeyMismatch(err), "c23-rotation-old-key-accepted", "after rotation the old master key still opens the database", J{"err": fmt.Sprint(err)})
		c23RegistryCase(c, dirE, newKey, plainKeys, oe.EncKey)
		dbn, err := openC23DB(dirE, on, rot)
		if err != nil {
			c.Oracle(false, "c23-rotation-unreadable", "after rotation the new master key does not open the database: "+err.Error(), nil)
			return nil
		}
		got := readEverything(dbn, o.Managed, keys)
		c.Oracle(strings.Join(got, "\n") == strings.Join(finalP, "\n"), "c23-rotation-unreadable",
			"after master-key rotation the content differs", J{"plain": finalP, "rotated": got})
		// write under the new master key, flush, read back
		extra := randBytes(c, 40)
		ub.add("value", extra)
		err = writeOne(dbn, o.Managed, keys[0], extra)
		c.Oracle(err == nil, "c23-rotation-write-failed", "a write after rotation failed: "+fmt.Sprint(err), nil)
		dbn.Close()
		hits, _ = ub.scanDir(dirE)
		c.Oracle(len(hits) == 0, "c23-plaintext-on-disk", "user bytes in a file after rotation and further writes", J{"hits": hits})
		c.Count("rotation-to-new-key")
	} else {
		c23RegistryCase(c, dirE, nil, plainKeys, oe.EncKey)
		c.Count("rotation-to-no-key")
	}
	c.Case("hist-plain", "(HistE "+strings.Replace(rp.h.termM(c37ThrDisk), "(HistM", "(CorrC37.HistM", 1)+")", histInput(rp.h))
	c.Case("hist-encrypted", "(HistE "+strings.Replace(re.h.termM(c37ThrDisk), "(HistM", "(CorrC37.HistM", 1)+")", histInput(re.h))
	return nil
}

func treeHashExcept(dir, name string) string {
	h := sha256.New()
	ents, _ := os.ReadDir(dir)
	for _, e := range ents {
		if e.Name() == name {
			continue
		}
		b, _ := os.ReadFile(filepath.Join(dir, e.Name()))
		s := sha256.Sum256(b)
		fmt.Fprintf(h, "%s %d %x\n", e.Name(), len(b), s)
	}
	return hex.EncodeToString(h.Sum(nil))
}

func writeOne(db *badger.DB, managed bool, k, v []byte) error {
	if managed {
		tx := db.NewTransactionAt(^uint64(0)-1, true)
		defer tx.Discard()
		if err := tx.Set(k, v); err != nil {
			return err
		}
		return tx.CommitAt(1<<40, nil)
	}
	return db.Update(func(tx *badger.Txn) error { return tx.Set(k, v) })
}

func runC23(c *Ctx) error {
	c.Setup("Uvarint Codec Keys Spec Lsm Compact Iter Sys SysMode Encrypt CorrC23", "run_case")
	// about 8 cases per history (2 replays, tables, registries); the rest are log records
	nHist := c.N / 24
	if nHist < 3 {
		nHist = 3
	}
	for i := 0; i < nHist; i++ {
		if err := c23History(c, i); err != nil {
			return err
		}
		for j := 0; j < 8; j++ {
			c23LogRecord(c)
		}
	}
	for c.nCases < c.N {
		c23LogRecord(c)
	}
	return nil
}

func init() { register("C23", runC23) }
