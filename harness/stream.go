package main

// C25 (Stream) and C24 (Backup / Load): histories on a real DB with Stream.Orchestrate and
// Stream.Backup runs, DB.Load into a fresh DB, function-level calls of Stream.ToList and of
// Backup's KeyToList closure, and the controlled-schedule witnesses of finding F7.
// Model side: coq/B/Stream.v, coq/B/SysStream.v, coq/corr/CorrC25.v.

import (
	"bytes"
	"context"
	"encoding/binary"
	"fmt"
	"io"
	"os"
	"path/filepath"
	"sort"
	"strings"
	"sync"
	"sync/atomic"
	"time"

	badger "github.com/dgraph-io/badger/v4"
	"github.com/dgraph-io/badger/v4/pb"
	"github.com/dgraph-io/badger/v4/y"
	"github.com/dgraph-io/ristretto/v2/z"
	"google.golang.org/protobuf/proto"
)

const (
	bitTxnMask = 64 | 128 // bitTxn | bitFinTxn
)

// one delivered pb.KV, projected
type skv struct {
	Key     []byte
	Ver     uint64
	Meta    byte // first Meta byte & (delete|discard|merge), 0 when absent
	RawMeta byte
	UMeta   byte
	Exp     uint64
	Val     []byte
	Stream  uint32
	Done    bool
}

func kvOf(kv *pb.KV) skv {
	x := skv{Key: append([]byte{}, kv.Key...), Ver: kv.Version, Exp: kv.ExpiresAt, Val: append([]byte{}, kv.Value...),
		Stream: kv.StreamId, Done: kv.StreamDone}
	if len(kv.Meta) > 0 {
		x.RawMeta = kv.Meta[0]
		x.Meta = kv.Meta[0] & mMask
	}
	if len(kv.UserMeta) > 0 {
		x.UMeta = kv.UserMeta[0]
	}
	return x
}
func skvTerm(x skv) string { return entTerm(x.Key, x.Ver, x.Meta, x.UMeta, x.Exp, x.Val) }
func skvTerms(l []skv) string {
	s := make([]string, len(l))
	for i, x := range l {
		s[i] = skvTerm(x)
	}
	return ListOf(s)
}
func obsTerms(l []obsItem) string {
	s := make([]string, len(l))
	for i, x := range l {
		s[i] = entTerm(x.Key, x.Ver, x.Meta, x.UMeta, x.Exp, x.Val)
	}
	return ListOf(s)
}
func sameKV(a, b skv) bool {
	return bytes.Equal(a.Key, b.Key) && a.Ver == b.Ver && a.Meta == b.Meta && a.UMeta == b.UMeta && a.Exp == b.Exp && bytes.Equal(a.Val, b.Val)
}

type streamCfg struct {
	NumGo     int
	Prefix    []byte
	Since     uint64
	Reject    [][]byte
	Backup    bool
	ReadTs    uint64 // managed mode: NewStreamAt
	SlowSend  bool
	DoneMarks bool
}

func (h *hist) kindTerm(cfg streamCfg) string {
	if cfg.Backup {
		return fmt.Sprintf("(KBackup %d)", cfg.Since)
	}
	return fmt.Sprintf("(KToList %d)", h.o.NKeep)
}
func (h *hist) cfgTerm(cfg streamCfg) string {
	rj := make([]string, len(cfg.Reject))
	for i, k := range cfg.Reject {
		rj[i] = B(k)
	}
	return fmt.Sprintf("(mkRun %s %d %s %s)", B(cfg.Prefix), cfg.Since, h.kindTerm(cfg), ListOf(rj))
}

func (h *hist) newStream(cfg streamCfg) *badger.Stream {
	var st *badger.Stream
	if h.o.Managed {
		st = h.db.NewStreamAt(cfg.ReadTs)
	} else {
		st = h.db.NewStream()
	}
	st.NumGo = cfg.NumGo
	st.Prefix = cfg.Prefix
	st.SinceTs = cfg.Since
	st.LogPrefix = "verif"
	if len(cfg.Reject) > 0 {
		rj := map[string]bool{}
		for _, k := range cfg.Reject {
			rj[string(k)] = true
		}
		st.ChooseKey = func(item *badger.Item) bool { return !rj[string(item.Key())] }
	}
	return st
}

func parseBackup(data []byte) ([]skv, error) {
	r := bytes.NewReader(data)
	var out []skv
	for {
		var sz uint64
		err := binary.Read(r, binary.LittleEndian, &sz)
		if err == io.EOF {
			return out, nil
		}
		if err != nil {
			return out, err
		}
		buf := make([]byte, sz)
		if _, err := io.ReadFull(r, buf); err != nil {
			return out, err
		}
		list := &pb.KVList{}
		if err := proto.Unmarshal(buf, list); err != nil {
			return out, err
		}
		for _, kv := range list.Kv {
			out = append(out, kvOf(kv))
		}
	}
}

type runResult struct {
	kvs     []skv
	ret     uint64
	data    []byte // backup stream
	maxConc int32
	sends   int
}

// runStream executes one Stream.Orchestrate (or Stream.Backup) on the real DB.
// wrap, when non-nil, may adjust the Stream before it runs (witnesses install ChooseKey).
func (h *hist) runStream(cfg streamCfg, wrap func(st *badger.Stream)) (runResult, error) {
	st := h.newStream(cfg)
	if wrap != nil {
		wrap(st)
	}
	var res runResult
	if cfg.Backup {
		var buf bytes.Buffer
		ret, err := st.Backup(&buf, cfg.Since)
		if err != nil {
			return res, err
		}
		res.ret, res.data = ret, buf.Bytes()
		kvs, err := parseBackup(res.data)
		res.kvs = kvs
		return res, err
	}
	var in, maxc int32
	var mu sync.Mutex
	st.SendDoneMarkers(cfg.DoneMarks)
	st.Send = func(buf *z.Buffer) error {
		n := atomic.AddInt32(&in, 1)
		for {
			m := atomic.LoadInt32(&maxc)
			if n <= m || atomic.CompareAndSwapInt32(&maxc, m, n) {
				break
			}
		}
		list, err := badger.BufferToKVList(buf)
		if err != nil {
			atomic.AddInt32(&in, -1)
			return err
		}
		if cfg.SlowSend {
			time.Sleep(200 * time.Microsecond)
		}
		mu.Lock()
		res.sends++
		for _, kv := range list.Kv {
			res.kvs = append(res.kvs, kvOf(kv))
		}
		mu.Unlock()
		atomic.AddInt32(&in, -1)
		return nil
	}
	err := st.Orchestrate(context.Background())
	res.maxConc = atomic.LoadInt32(&maxc)
	for _, x := range res.kvs {
		if !x.Done && x.Ver > res.ret {
			res.ret = x.Ver
		}
	}
	return res, err
}

// groupByStream: per StreamId (= per key range) the KVs in delivery order, groups ordered by
// their first key; done markers removed (count returned per stream)
func groupByStream(kvs []skv) (groups [][]skv, done map[uint32]int, doneLast bool) {
	idx := map[uint32]int{}
	done = map[uint32]int{}
	doneLast = true
	for _, x := range kvs {
		if x.Done {
			done[x.Stream]++
			continue
		}
		if done[x.Stream] > 0 {
			doneLast = false
		}
		i, ok := idx[x.Stream]
		if !ok {
			i = len(groups)
			idx[x.Stream] = i
			groups = append(groups, nil)
		}
		groups[i] = append(groups[i], x)
	}
	sort.SliceStable(groups, func(i, j int) bool { return bytes.Compare(groups[i][0].Key, groups[j][0].Key) < 0 })
	return
}

func groupsTerm(g [][]skv) string {
	s := make([]string, len(g))
	for i := range g {
		s[i] = skvTerms(g[i])
	}
	return ListOf(s)
}

// scanAll: the AllVersions scan of a read transaction with the stream's iterator options
func scanAll(tx *badger.Txn, prefix []byte, since uint64) ([]obsItem, error) {
	it := tx.NewIterator(badger.IteratorOptions{AllVersions: true, Prefix: prefix, SinceTs: since, PrefetchValues: true, PrefetchSize: 4})
	defer it.Close()
	var out []obsItem
	for it.Rewind(); it.Valid(); it.Next() {
		oi, err := readItem(it.Item())
		if err != nil {
			return out, err
		}
		out = append(out, oi)
	}
	return out, nil
}

// expectedFromScan: the property itself, computed from ONE snapshot scan: per key (not
// rejected) the versions the run must deliver.
func expectedFromScan(scan []obsItem, cfg streamCfg, nkeep int, now uint64) []skv {
	rj := map[string]bool{}
	for _, k := range cfg.Reject {
		rj[string(k)] = true
	}
	var out []skv
	for i := 0; i < len(scan); {
		j := i
		for j < len(scan) && bytes.Equal(scan[j].Key, scan[i].Key) {
			j++
		}
		if !rj[string(scan[i].Key)] {
			for _, x := range scan[i:j] {
				dead := expired(x.Meta, x.Exp, now)
				if cfg.Backup {
					kv := skv{Key: x.Key, Ver: x.Ver, Meta: x.Meta, UMeta: x.UMeta, Exp: x.Exp, Val: x.Val}
					if dead {
						kv.Val = nil
					}
					out = append(out, kv)
					if x.Meta&mDiscard != 0 {
						out = append(out, skv{Key: x.Key, Ver: x.Ver - 1, Meta: mDelete})
						break
					}
					if dead {
						break
					}
				} else {
					if dead {
						break
					}
					out = append(out, skv{Key: x.Key, Ver: x.Ver, UMeta: x.UMeta, Exp: x.Exp, Val: x.Val})
					if nkeep == 1 || x.Meta&mDiscard != 0 {
						break
					}
				}
			}
		}
		i = j
	}
	return out
}

func flatten(g [][]skv) []skv {
	var out []skv
	for _, x := range g {
		out = append(out, x...)
	}
	return out
}

func equalKVs(a, b []skv) bool {
	if len(a) != len(b) {
		return false
	}
	for i := range a {
		if !sameKV(a[i], b[i]) {
			return false
		}
	}
	return true
}

// keyTwice: some key's KVs are not one contiguous block of the delivered sequence
func keyTwice(kvs []skv) bool {
	seen := map[string]bool{}
	for i, x := range kvs {
		if i > 0 && bytes.Equal(kvs[i-1].Key, x.Key) {
			continue
		}
		if seen[string(x.Key)] {
			return true
		}
		seen[string(x.Key)] = true
	}
	return false
}

func (h *hist) checkRanges(prefix []byte, lefts, rights [][]byte) ([][]byte, bool) {
	ok := len(lefts) > 0 && len(lefts[0]) == 0 && len(rights[len(rights)-1]) == 0
	var splits [][]byte
	for i := 0; ok && i+1 < len(lefts); i++ {
		if !bytes.Equal(rights[i], lefts[i+1]) || len(rights[i]) == 0 || !bytes.HasPrefix(rights[i], prefix) {
			ok = false
		}
		if i > 0 && bytes.Compare(rights[i-1], rights[i]) > 0 {
			ok = false
		}
		splits = append(splits, rights[i])
	}
	return splits, ok
}

var streamTxnSeq = 100000

// quiescentRun: snapshot scan by a read-only transaction opened right before the run, the
// run itself with no concurrent writer, the `Run` label for the model, the property oracles.
func (h *hist) quiescentRun(cfg streamCfg) (runResult, []obsItem, error) {
	streamTxnSeq++
	t := streamTxnSeq
	h.begin(t, false, cfg.ReadTs)
	rts := h.txns[t].VerifReadTs()
	scan, err := scanAll(h.txns[t], cfg.Prefix, cfg.Since)
	if err != nil {
		return runResult{}, nil, err
	}
	lefts, rights := h.db.VerifRanges(cfg.Prefix, cfg.NumGo)
	splits, shapeOK := h.checkRanges(cfg.Prefix, lefts, rights)
	h.c.Oracle(shapeOK, "c25-ranges-not-partition", "DB.Ranges did not return contiguous sorted ranges [nil,k1) .. [kn,nil) with prefixed split keys",
		J{"history": h.desc, "lefts": lefts, "rights": rights})
	res, err := h.runStream(cfg, nil)
	if err != nil {
		h.discard(t)
		return res, scan, err
	}
	now := uint64(time.Now().Unix())
	groups, done, doneLast := groupByStream(res.kvs)
	h.emit(fmt.Sprintf("(Run %s %d %s %s %d)", h.cfgTerm(cfg), rts, bytesList(splits), groupsTerm(groups), res.ret),
		fmt.Sprintf("run backup=%v numgo=%d prefix=%x since=%d reject=%d rts=%d splits=%d -> %d kvs in %d ranges ret=%d", cfg.Backup, cfg.NumGo, cfg.Prefix, cfg.Since, len(cfg.Reject), rts, len(splits), len(res.kvs), len(groups), res.ret))
	h.c.Count(fmt.Sprintf("ranges=%d", min(len(lefts), 6)))
	h.c.Count(fmt.Sprintf("nonempty-ranges=%d", min(len(groups), 6)))
	h.c.Count(fmt.Sprintf("numgo=%d", cfg.NumGo))
	// ---- property oracles ----
	got := flatten(groups)
	want := expectedFromScan(scan, cfg, h.o.NKeep, now)
	h.c.Oracle(!keyTwice(got), "c25-key-delivered-twice", "a key's versions were delivered in more than one place of the stream", J{"history": h.desc})
	okSnap := equalKVs(got, want)
	if !okSnap {
		h.failed = true
	}
	h.c.Oracle(okSnap, "c25-delivered-differs-from-snapshot", "the delivered KVs are not what one read snapshot taken at the start of the run shows",
		J{"history": h.desc, "got": len(got), "want": len(want)})
	if !cfg.Backup {
		h.c.Oracle(res.maxConc <= 1, "c25-send-concurrent", "Send was entered while another Send call was running", J{"history": h.desc, "max": res.maxConc})
		if cfg.DoneMarks {
			okd := doneLast
			for _, n := range done {
				if n != 1 {
					okd = false
				}
			}
			h.c.Oracle(okd && len(done) == len(lefts), "c25-done-markers", "not exactly one done marker per key range, after the range's KVs", J{"history": h.desc})
		}
	}
	for _, x := range res.kvs {
		if x.RawMeta&bitTxnMask != 0 {
			h.c.Oracle(false, "c24-txn-bits-in-backup", "a KV carries transaction bits in Meta", J{"history": h.desc})
			break
		}
	}
	// independent of the iterator: with ToList and NumVersionsToKeep = 1 the stream is exactly
	// the visible state according to the reference MVCC map
	if !cfg.Backup && h.o.NKeep == 1 {
		rj := map[string]bool{}
		for _, k := range cfg.Reject {
			rj[string(k)] = true
		}
		var ref []skv
		for _, k := range h.keyUniverse(t) {
			if !bytes.HasPrefix(k, cfg.Prefix) || rj[string(k)] {
				continue
			}
			w := refLatest(h.ref, k, rts)
			if w == nil || expired(w.Meta, w.Exp, now) || (cfg.Since > 0 && w.Ver <= cfg.Since) {
				continue
			}
			ref = append(ref, skv{Key: w.Key, Ver: w.Ver, UMeta: w.UMeta, Exp: w.Exp, Val: w.Val})
		}
		okRef := equalKVs(got, ref)
		h.c.Oracle(okRef, "c25-delivered-differs-from-reference", "the stream is not the visible state of the reference MVCC map", J{"history": h.desc, "got": len(got), "want": len(ref)})
	}
	h.discard(t)
	return res, scan, nil
}

// ---- Load into a fresh DB and compare ----
type backupRec struct {
	since, ret uint64
	data       []byte
	kvs        []skv
}

var loadSeq int

func (h *hist) loadAndCompare(chain []backupRec, srcScan []obsItem, cfgLast streamCfg, concurrent bool) error {
	loadSeq++
	dir := filepath.Join(os.Getenv("VERIF_SCRATCH_DIR"), fmt.Sprintf("load%d", loadSeq))
	if os.Getenv("VERIF_SCRATCH_DIR") == "" {
		dir = filepath.Join(os.TempDir(), fmt.Sprintf("verif_load%d_%d", os.Getpid(), loadSeq))
	}
	os.RemoveAll(dir)
	os.MkdirAll(dir, 0o755)
	defer os.RemoveAll(dir)
	to := h.o
	to.Managed = false
	// half of the targets get a memtable of a few KiB: their maxBatchCount / maxBatchSize are a
	// handful of entries / a few hundred bytes, so Load needs several loader batches
	to.MemSize = []int64{0, 0, 0, 2048, 4096, 8192}[h.c.Rng.Intn(6)]
	h.c.Count(fmt.Sprintf("load-target-mem=%d", memSize(to)))
	tdb, err := openSysDB(dir, to)
	if err != nil {
		return err
	}
	defer tdb.Close()
	next0 := tdb.VerifNextTs()
	var all []skv
	for _, b := range chain {
		if err := tdb.Load(bytes.NewReader(b.data), 16); err != nil {
			h.c.Oracle(false, "c24-load-error", "DB.Load failed: "+err.Error(), J{"history": h.desc})
			return nil
		}
		all = append(all, b.kvs...)
	}
	now := uint64(time.Now().Unix())
	next := tdb.VerifNextTs()
	ttx := tdb.NewTransaction(false)
	defer ttx.Discard()
	trts := ttx.VerifReadTs()
	tscan, err := scanAll(ttx, nil, 0)
	if err != nil {
		return err
	}
	// source snapshot: a read transaction at the snapshot of the last backup
	streamTxnSeq++
	t := streamTxnSeq
	h.begin(t, false, cfgLast.ReadTs)
	defer h.discard(t)
	stx := h.txns[t]
	keys := h.keyUniverse(t)
	var gets []string
	okVisible := true
	var badKey []byte
	classGC := false
	for _, k := range keys {
		var sv, tv *obsItem
		if it, err := stx.Get(k); err == nil {
			oi, _ := readItem(it)
			sv = &oi
		}
		it, err := ttx.Get(k)
		if err == nil {
			oi, _ := readItem(it)
			tv = &oi
			gets = append(gets, fmt.Sprintf("(%s, GFound %s)", B(k), entTerm(oi.Key, oi.Ver, oi.Meta, oi.UMeta, oi.Exp, oi.Val)))
		} else {
			gets = append(gets, fmt.Sprintf("(%s, GNotFound)", B(k)))
		}
		same := (sv == nil && tv == nil) || (sv != nil && tv != nil && sv.Ver == tv.Ver && bytes.Equal(sv.Val, tv.Val) && sv.UMeta == tv.UMeta && sv.Exp == tv.Exp && sv.Meta == tv.Meta)
		if !same && okVisible {
			okVisible = false
			badKey = k
			// root cause class: the source no longer holds ANY entry of this key above the version the
			// restored DB shows (its deletion marker / expired version was dropped by a compaction
			// before an incremental backup could see it)
			if sv == nil && tv != nil {
				classGC = true
				for _, x := range srcScan {
					if bytes.Equal(x.Key, k) && x.Ver > tv.Ver {
						classGC = false
					}
				}
				w := refLatest(h.ref, k, stx.VerifReadTs())
				if w == nil || !expired(w.Meta, w.Exp, now) {
					classGC = false
				}
			}
		}
	}
	sig := "c24-visible-state-differs"
	switch {
	case concurrent && len(chain) > 1:
		sig = "F7-incremental-backup-misses-version"
	case concurrent:
		sig = "F7-stream-producers-read-different-snapshots"
	case classGC && len(chain) > 1:
		sig = "F21-incremental-backup-misses-compacted-delete"
	}
	if !okVisible {
		h.failed = true
	}
	h.c.Oracle(okVisible, sig, "after loading the backup chain into an empty DB a key's visible value/meta/expiry differs from the source",
		J{"history": h.desc, "key": badKey, "chain": len(chain)})
	// every retained version (full backup of one snapshot)
	if len(chain) == 1 && chain[0].since == 0 && !concurrent {
		want := expectedFromScan(srcScan, streamCfg{Backup: true}, h.o.NKeep, now)
		var got []skv
		for _, x := range tscan {
			got = append(got, skv{Key: x.Key, Ver: x.Ver, Meta: x.Meta, UMeta: x.UMeta, Exp: x.Exp, Val: x.Val})
		}
		h.c.Oracle(equalKVs(got, want), "c24-versions-differ", "the loaded DB does not hold exactly the retained versions (down to the first delete / expired / discard-earlier marker, plus the synthetic delete)",
			J{"history": h.desc, "got": len(got), "want": len(want)})
	}
	h.c.Oracle(next > maxVer(all), "c24-next-ts-not-raised", "after Load nextTxnTs is not above every loaded version", J{"next": next})
	term := fmt.Sprintf("(Loaded %d %d %d %s %d %d %s %s)", h.o.NKeep, next0, now, skvTerms(all), next, trts, obsTerms(tscan), ListOf(gets))
	h.c.Case("load", h.c.sterm(term), J{"kvs": len(all), "chain": len(chain), "digest": digest([]string{term})})
	return nil
}

func maxVer(l []skv) uint64 {
	var m uint64
	for _, x := range l {
		if x.Ver > m {
			m = x.Ver
		}
	}
	return m
}

// ---- function level: Stream.ToList / Backup's KeyToList on a real key iterator ----
func (h *hist) ktlCases(rts uint64, n int) error {
	newTx := func() *badger.Txn {
		if h.o.Managed {
			return h.db.NewTransactionAt(rts, false)
		}
		return h.db.NewTransaction(false)
	}
	tx := newTx()
	defer tx.Discard()
	keys := h.keyUniverse(-1)
	keys = append(keys, []byte("zz-absent"), []byte("a\x00"))
	c := h.c
	closures := map[uint64]*badger.Stream{}
	for i := 0; i < n; i++ {
		key := keys[c.Rng.Intn(len(keys))]
		backup := c.Rng.Intn(2) == 0
		var itSince, bkSince uint64
		if c.Rng.Intn(3) == 0 {
			itSince = uint64(c.Rng.Intn(int(rts) + 2))
		}
		bkSince = itSince
		if backup && c.Rng.Intn(6) == 0 {
			// Stream.Backup(w, since) with Stream.SinceTs left different: the closure's own check
			bkSince = uint64(c.Rng.Intn(int(rts) + 2))
		}
		var prefix []byte
		if c.Rng.Intn(4) == 0 && len(key) > 0 {
			prefix = key[:1]
		}
		opts := badger.IteratorOptions{AllVersions: true, Prefix: prefix, SinceTs: itSince, PrefetchValues: true, PrefetchSize: 1 + c.Rng.Intn(4)}
		itr := tx.NewIterator(opts)
		var its []obsItem
		for itr.Seek(key); itr.Valid(); itr.Next() {
			oi, err := readItem(itr.Item())
			if err != nil {
				itr.Close()
				return err
			}
			its = append(its, oi)
		}
		itr.Seek(key)
		itr.Alloc = z.NewAllocator(1<<16, "verif.ktl")
		kparam := key
		if itr.Valid() {
			kparam = itr.Item().KeyCopy(nil) // as produceKVs calls it
		}
		if c.Rng.Intn(8) == 0 {
			kparam = key // possibly not the key under the iterator
		}
		var st *badger.Stream
		cfg := streamCfg{NumGo: 1, ReadTs: rts, Since: bkSince, Backup: backup}
		var kd string
		var list *pb.KVList
		var err error
		now := uint64(time.Now().Unix())
		if backup {
			// Stream.Backup installs its KeyToList closure on the Stream (and runs a backup);
			// the closure only captures `since`, so one Stream per since value is enough
			st = closures[bkSince]
			if st == nil {
				st = h.newStream(cfg)
				if _, err := st.Backup(io.Discard, bkSince); err != nil {
					itr.Alloc.Release()
					itr.Close()
					return err
				}
				closures[bkSince] = st
			}
			kd = fmt.Sprintf("(KBackup %d)", bkSince)
			list, err = st.KeyToList(kparam, itr)
		} else {
			st = h.newStream(cfg)
			kd = fmt.Sprintf("(KToList %d)", h.o.NKeep)
			list, err = st.ToList(kparam, itr)
		}
		out := "None"
		var kvs []skv
		if err == nil {
			if list != nil {
				for _, kv := range list.Kv {
					kvs = append(kvs, kvOf(kv))
				}
			}
			out = Some(skvTerms(kvs))
		}
		remaining := 0
		for ; itr.Valid(); itr.Next() {
			remaining++
		}
		itr.Alloc.Release()
		itr.Close()
		term := fmt.Sprintf("(KTL %s %d %s %s %s %d)", kd, now, B(kparam), obsTerms(its), out, remaining)
		c.Case("ktl", c.sterm(term), J{"kd": kd, "key": kparam, "rts": rts, "itsince": itSince, "prefix": prefix, "n_items": len(its), "digest": digest([]string{term})})
		// property at function level: every KV is a stored version of the key with the stored
		// content; no transaction bits; nothing at or below SinceTs
		ok := true
		for j, x := range kvs {
			if x.RawMeta&bitTxnMask != 0 {
				ok = false
			}
			synth := backup && j > 0 && x.Meta == mDelete && kvs[j-1].Meta&mDiscard != 0 && x.Ver == kvs[j-1].Ver-1
			if synth {
				continue
			}
			w := refLatestExact(h.ref, x.Key, x.Ver)
			if w == nil || w.UMeta != x.UMeta || w.Exp != x.Exp || x.Ver > rts || (itSince > 0 && x.Ver <= itSince) {
				ok = false
			} else if !expired(w.Meta, w.Exp, now) && !bytes.Equal(w.Val, x.Val) {
				ok = false
			}
		}
		c.Oracle(ok, "c24-keytolist-content", "KeyToList returned a KV that is not a stored version (<= readTs, > SinceTs) with its stored value / user meta / expiry", J{"history": h.desc, "key": kparam})
	}
	return nil
}

// ---- history generator ----
type streamProfile struct {
	name                                     string
	wCommit, wFlush, wCompact, wRun, wBackup int
	wKtl                                     int
	nOps                                     int
	longHist                                 bool // few keys that extend one another, one of them with a long version history
}

var streamKeys = func() [][]byte {
	ks := append([][]byte{}, keySetA...)
	for i := 0; i < 24; i++ {
		ks = append(ks, []byte(fmt.Sprintf("k%02d", i)))
	}
	return ks
}()

func (h *hist) xterm() string {
	ops := make([]string, len(h.ops))
	for i, o := range h.ops {
		if strings.HasPrefix(o, "(Run ") || strings.HasPrefix(o, "(ProdBegin ") || strings.HasPrefix(o, "(ProdRange ") {
			ops[i] = o
		} else {
			ops[i] = "(Base " + o + ")"
		}
	}
	return fmt.Sprintf("(XHist %s %s %d %d %d [\n  %s])", Bool(h.o.Managed), Bool(h.o.Detect), h.o.NKeep, h.o.MaxLevels, h.next0,
		strings.Join(ops, ";\n  "))
}

func (c *Ctx) randCfg(h *hist, keys [][]byte, mts uint64, backup bool) streamCfg {
	cfg := streamCfg{NumGo: 1 + c.Rng.Intn(8), Backup: backup, SlowSend: c.Rng.Intn(4) == 0, DoneMarks: !backup && c.Rng.Intn(3) == 0}
	if c.Rng.Intn(2) == 0 {
		cfg.NumGo = 1 + c.Rng.Intn(2) // every producer allocates 32 MiB buffers: keep half of the runs cheap
	}
	if h.o.Managed {
		cfg.ReadTs = 1 + uint64(c.Rng.Intn(int(mts)+2))
	}
	if !backup {
		if c.Rng.Intn(3) == 0 {
			cfg.Prefix = [][]byte{[]byte("a"), []byte("b"), []byte("ab"), []byte("k"), []byte("k1"), {0xff}, []byte("q")}[c.Rng.Intn(7)]
		}
		if c.Rng.Intn(3) == 0 {
			cfg.Since = uint64(c.Rng.Intn(int(h.db.VerifNextTs()) + 1))
		}
		if c.Rng.Intn(3) == 0 {
			for _, k := range keys {
				if c.Rng.Intn(3) == 0 {
					cfg.Reject = append(cfg.Reject, k)
				}
			}
		}
	}
	return cfg
}

func runStreamHistory(c *Ctx, p *streamProfile, idx int) (*hist, error) {
	o := sysOpts{Managed: idx%4 == 3, Detect: false, NKeep: []int{1, 1, 3, 1 << 30}[c.Rng.Intn(4)], MaxLevels: 4,
		VThreshold: 32, TableSize: int64(256) << uint(c.Rng.Intn(4)), BaseLevelSize: []int64{200, 600, 2 << 10, 8 << 10}[c.Rng.Intn(4)]}
	if p.longHist {
		o.NKeep = 1 << 30
	}
	h, err := newHist(c, o)
	if err != nil {
		return nil, err
	}
	defer h.close()
	keys := append([][]byte{}, streamKeys[:4+c.Rng.Intn(len(streamKeys)-4)]...)
	if p.longHist {
		// a producer steps over every old version of "u" before it reaches the keys that extend it
		keys = [][]byte{[]byte("u"), []byte("u"), []byte("u"), []byte("u"), []byte("u/1"), []byte("u0"), {'u', 0}, []byte("ux"), []byte("t"), []byte("v")}
	}
	// boundary: DB.Ranges uses INTERNAL keys (user key + 8-byte version suffix) as split points;
	// user keys that are byte-equal to such a split key sit exactly on a range boundary
	for j := 0; j < 6; j++ {
		base := keys[c.Rng.Intn(len(keys))]
		if len(base) < 8 {
			keys = append(keys, y.KeyWithTs(base, uint64(1+c.Rng.Intn(6))))
		}
	}
	var mts uint64 = 1
	nextT := 0
	var chain []backupRec
	commit := func() {
		t := nextT
		nextT++
		h.begin(t, true, mts)
		n := 1 + c.Rng.Intn(6)
		for j := 0; j < n; j++ {
			k := keys[c.Rng.Intn(len(keys))]
			meta, umeta, exp := byte(0), byte(c.Rng.Intn(3)), uint64(0)
			switch c.Rng.Intn(9) {
			case 0, 1:
				meta = mDelete
			case 2:
				meta = mDiscard
			case 3:
				exp = 1
			case 4:
				exp = 1 << 40
			}
			n := c.Rng.Intn(6)
			if c.Rng.Intn(4) == 0 {
				n = 30 + c.Rng.Intn(20) // around the value threshold: inline or value log
			}
			v := make([]byte, n)
			for i := range v {
				v[i] = byte('0' + c.Rng.Intn(10))
			}
			h.modify(t, k, v, meta, umeta, exp)
		}
		if h.o.Managed {
			mts += 1 + uint64(c.Rng.Intn(2))
		}
		h.commit(t, mts)
	}
	backup := func() error {
		cfg := c.randCfg(h, keys, mts, true)
		if h.o.Managed {
			cfg.ReadTs = mts + 1 // a chain needs non-decreasing snapshots
		}
		if len(chain) > 0 {
			cfg.Since = chain[len(chain)-1].ret
		}
		res, scan, err := h.quiescentRun(cfg)
		if err != nil {
			return err
		}
		chain = append(chain, backupRec{since: cfg.Since, ret: res.ret, data: res.data, kvs: res.kvs})
		h.c.Count(fmt.Sprintf("chain-len=%d", min(len(chain), 4)))
		fullScan := scan
		if cfg.Since > 0 {
			// the source's retained versions for the comparison: a scan without SinceTs
			streamTxnSeq++
			t := streamTxnSeq
			h.begin(t, false, cfg.ReadTs)
			fullScan, err = scanAll(h.txns[t], nil, 0)
			h.discard(t)
			if err != nil {
				return err
			}
		}
		if err := h.loadAndCompare(chain, fullScan, cfg, false); err != nil {
			return err
		}
		if c.Rng.Intn(3) == 0 {
			chain = nil // start a new chain with a full backup next time
		}
		return nil
	}
	total := p.wCommit + p.wFlush + p.wCompact + p.wRun + p.wBackup + p.wKtl
	commit()
	for step := 0; step < p.nOps; step++ {
		r := c.Rng.Intn(total)
		switch {
		case r < p.wCommit:
			commit()
		case r < p.wCommit+p.wFlush:
			if err := h.flush(); err != nil {
				return h, err
			}
		case r < p.wCommit+p.wFlush+p.wCompact:
			lvl := 0
			if c.Rng.Intn(2) == 0 {
				d := h.db.VerifDump()
				var ne []int
				for l := range d {
					if len(d[l]) > 0 {
						ne = append(ne, l)
					}
				}
				if len(ne) > 0 {
					lvl = ne[c.Rng.Intn(len(ne))]
				}
			}
			if _, err := h.compact(lvl, false, nil); err != nil {
				return h, fmt.Errorf("compact: %w", err)
			}
		case r < p.wCommit+p.wFlush+p.wCompact+p.wRun:
			if _, _, err := h.quiescentRun(c.randCfg(h, keys, mts, false)); err != nil {
				return h, err
			}
		case r < p.wCommit+p.wFlush+p.wCompact+p.wRun+p.wBackup:
			if err := backup(); err != nil {
				return h, err
			}
		default:
			rts := h.db.VerifNextTs() - 1
			if h.o.Managed {
				rts = 1 + uint64(c.Rng.Intn(int(mts)+1))
			}
			if err := h.ktlCases(rts, 6+c.Rng.Intn(10)); err != nil {
				return h, err
			}
		}
	}
	if _, _, err := h.quiescentRun(c.randCfg(h, keys, mts, false)); err != nil {
		return h, err
	}
	if p.wBackup > 0 {
		if err := backup(); err != nil {
			return h, err
		}
	}
	h.dump()
	return h, nil
}

func runStreamProp(c *Ctx, mk func(i int) *streamProfile) error {
	c.Setup("Keys Spec Lsm Compact Iter Sys Stream SysStream "+map[string]string{"C24": "CorrC24", "C25": "CorrC25"}[c.Prop], "run_case")
	if err := runStreamScenarios(c); err != nil {
		return err
	}
	if c.Prop == "C25" {
		if err := runC25ChooseByContent(c); err != nil {
			return err
		}
	}
	if c.Prop == "C24" {
		// loads that span several loader batches (c24load.go)
		if err := runLoaderScenarios(c); err != nil {
			return err
		}
	}
	for i := 0; c.nCases < c.N; i++ {
		p := mk(i)
		h, err := runStreamHistory(c, p, i)
		if err != nil {
			if h != nil {
				c.Oracle(false, "harness-error:"+p.name, err.Error(), J{"history": h.desc})
			}
			return err
		}
		c.Case(p.name, c.sterm(h.xterm()), histInput(h))
		if c.Prop == "C24" && i%4 == 3 {
			if err := runLdRandom(c, i); err != nil {
				return err
			}
		}
	}
	return nil
}

func init() {
	register("C25", func(c *Ctx) error {
		return runStreamProp(c, func(i int) *streamProfile {
			if i%4 == 2 {
				return &streamProfile{name: "stream-long-history", wCommit: 16, wFlush: 3, wCompact: 2, wRun: 5, wBackup: 0, wKtl: 2, nOps: 40 + c.Rng.Intn(30), longHist: true}
			}
			return &streamProfile{name: "stream", wCommit: 10, wFlush: 5, wCompact: 4, wRun: 6, wBackup: 0, wKtl: 2, nOps: 20 + c.Rng.Intn(30)}
		})
	})
	register("C24", func(c *Ctx) error {
		return runStreamProp(c, func(i int) *streamProfile {
			return &streamProfile{name: "backup", wCommit: 10, wFlush: 4, wCompact: 3, wRun: 1, wBackup: 4, wKtl: 3, nOps: 10 + c.Rng.Intn(16)}
		})
	})
}
