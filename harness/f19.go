package main

// Finding F19: in managed mode with conflict detection, once SetDiscardTs(>0) has run,
// NewManagedWriteBatch commits its internal transaction at commit timestamp 0 and
// oracle.newCommitTs trips `y.AssertTrue(ts >= o.lastCleanupTs)` => log.Fatal: the whole
// process dies inside WriteBatch.Flush.  The witness therefore runs in a child process
// (the harness binary re-executes itself).

import (
	"fmt"
	"os"
	"os/exec"
	"path/filepath"
	"strings"

	badger "github.com/dgraph-io/badger/v4"
)

func init() {
	if os.Getenv("VERIF_F19_CHILD") == "" {
		return
	}
	dir := os.Getenv("VERIF_F19_CHILD")
	opt := badger.DefaultOptions(dir).WithLoggingLevel(badger.ERROR).WithDetectConflicts(true).
		WithMemTableSize(1 << 20).WithValueLogFileSize(1 << 20).WithNumCompactors(0).WithValueThreshold(32)
	db, err := badger.OpenManaged(opt)
	if err != nil {
		fmt.Println("F19-child: open failed:", err)
		os.Exit(3)
	}
	db.SetDiscardTs(5)
	wb := db.NewManagedWriteBatch()
	if err := wb.SetEntryAt(badger.NewEntry([]byte("k"), []byte("v")), 7); err != nil {
		fmt.Println("F19-child: SetEntryAt:", err)
		os.Exit(3)
	}
	err = wb.Flush()
	fmt.Println("F19-child: flush returned:", err)
	txn := db.NewTransactionAt(9, false)
	_, gerr := txn.Get([]byte("k"))
	txn.Discard()
	db.Close()
	if err != nil || gerr != nil {
		os.Exit(4)
	}
	os.Exit(0)
}

// scenarioF19 runs the witness; the C27 statement "after Flush returns nil the database reflects
// every SetEntryAt" fails because Flush never returns (process abort).
func scenarioF19(c *Ctx) {
	dir := filepath.Join(os.Getenv("VERIF_SCRATCH_DIR"), "f19")
	os.RemoveAll(dir)
	os.MkdirAll(dir, 0o755)
	defer os.RemoveAll(dir)
	cmd := exec.Command(os.Args[0], "list")
	cmd.Env = append(os.Environ(), "VERIF_F19_CHILD="+dir)
	out, err := cmd.CombinedOutput()
	aborted := err != nil && strings.Contains(string(out), "Assert failed")
	ok := err == nil
	c.Extra["witness_F19_reproduced"] = aborted
	sig := "F19-managed-writebatch-commit-ts-0-trips-lastcleanup-assert"
	if !ok && !aborted {
		sig = "f19-witness-child-failed-differently"
	}
	c.Oracle(ok, sig, "NewManagedWriteBatch.Flush after SetDiscardTs with conflict detection aborts the process (Assert failed) instead of returning", J{"child_output": tail(string(out), 600)})
}

func tail(s string, n int) string {
	if len(s) > n {
		return s[len(s)-n:]
	}
	return s
}
