package main

// C34 (oracle-only phase): a commit that was given a commit timestamp and is then refused by the
// write path (ErrBlockedWrites while a drop or Close blocks writes; ErrTxnTooBig at the request
// size check) must still mark its timestamp done: otherwise the commit watermark stays below it
// and every later transaction waits for it forever.

import (
	"errors"
	"fmt"
	"os"
	"path/filepath"
	"time"

	badger "github.com/dgraph-io/badger/v4"
)

// returns wedged=true when a transaction did not start: the remaining phases (which also go through
// refused commits) would only wait for their own watchdogs
func runC34RejectedCommits(c *Ctx) (wedged bool, err error) {
	for r := 0; r < 3; r++ {
		dir := filepath.Join(os.Getenv("VERIF_SCRATCH_DIR"), fmt.Sprintf("c34rej_%d", r))
		os.RemoveAll(dir)
		db, err := openSysDB(dir, sysOpts{Detect: r%2 == 0, NKeep: 1, MaxLevels: 4, VThreshold: 32, TableSize: 1 << 20, BaseLevelSize: 8 << 10})
		if err != nil {
			return false, err
		}
		if err := db.Update(func(tx *badger.Txn) error { return tx.Set([]byte("a"), []byte("1")) }); err != nil {
			return false, err
		}
		nRej := 0
		for i := 0; i < 1+r; i++ {
			tx := db.NewTransaction(true)
			tx.Set([]byte(fmt.Sprintf("k%d", i)), []byte("v"))
			badger.VerifBlockWrites(db, true)
			err := tx.Commit()
			badger.VerifBlockWrites(db, false)
			if errors.Is(err, badger.ErrBlockedWrites) {
				nRej++
			} else {
				c.Oracle(false, "c34-commit-with-blocked-writes-not-rejected", fmt.Sprintf("a commit while writes are blocked returned %v", err), J{"round": r})
			}
		}
		c.Count(fmt.Sprintf("rejected-commits=%d", nRej))
		// every later transaction must start (its read timestamp waits for the commit watermark)
		done := make(chan error, 1)
		go func() {
			done <- db.Update(func(tx *badger.Txn) error {
				if _, err := tx.Get([]byte("a")); err != nil {
					return err
				}
				return tx.Set([]byte("after"), []byte("x"))
			})
		}()
		hung := false
		select {
		case err := <-done:
			c.Oracle(err == nil, "c34-transaction-after-rejected-commit-fails", fmt.Sprint(err), J{"round": r})
		case <-time.After(10 * time.Second):
			hung = true
			c.Oracle(false, "c34-transactions-wait-forever-after-rejected-commit",
				"after a commit was refused by the write path (it had been given a commit timestamp) a new transaction did not start within 10 s: the commit watermark never passed the refused timestamp",
				J{"round": r, "rejected_commits": nRej, "next_ts": db.VerifNextTs()})
		}
		if !hung {
			c.Oracle(true, "c34-transactions-wait-forever-after-rejected-commit", "", nil)
			db.Close()
		}
		// a wedged DB is abandoned (Close would wait too)
		os.RemoveAll(dir)
		if hung {
			return true, nil
		}
	}
	return false, nil
}
