package main

// C22 — the memtable skiplist behaves as a sorted map, also under concurrency.
//
// Correspondence: operation sequences on one real skl.Skiplist (Put / Get / one Iterator with all
// six positioning calls / dump of every level through the read-only hook), the tower height of
// every inserted node read back and given to the model.  Property oracle: the same sequences
// against a sorted-map reference in Go, and a concurrent stress (writers + readers + iterators)
// checked for: strictly sorted duplicate-free iteration at all times, no torn values, every
// completed Put visible to later Gets, final content = last completed Put per key.

import (
	"bytes"
	"encoding/binary"
	"encoding/json"
	"fmt"
	"hash/crc32"
	"math"
	"os"
	"os/exec"
	"sort"
	"strings"
	"sync"
	"sync/atomic"
	"time"

	"github.com/dgraph-io/badger/v4/skl"
	"github.com/dgraph-io/badger/v4/y"
)

func init() {
	if s := os.Getenv("VERIF_C22_CHILD"); s != "" {
		c22SameKeyChild(s)
		os.Exit(0)
	}
	register("C22", runC22)
}

type c22J = map[string]interface{}

type sklOp struct {
	K   string `json:"k"` // P G S SP F L N V X(levels)
	Key []byte `json:"key,omitempty"`
	Val []byte `json:"val,omitempty"`
	M   byte   `json:"m,omitempty"`
	U   byte   `json:"u,omitempty"`
	E   uint64 `json:"e,omitempty"`
}

type sklRef struct {
	keys [][]byte
	vals map[string]y.ValueStruct
}

func (r *sklRef) idxGE(k []byte) int {
	return sort.Search(len(r.keys), func(i int) bool { return y.CompareKeys(r.keys[i], k) >= 0 })
}
func (r *sklRef) put(k []byte, v y.ValueStruct) {
	i := r.idxGE(k)
	if i < len(r.keys) && bytes.Equal(r.keys[i], k) {
		r.vals[string(k)] = v
		return
	}
	r.keys = append(r.keys, nil)
	copy(r.keys[i+1:], r.keys[i:])
	r.keys[i] = append([]byte{}, k...)
	r.vals[string(k)] = v
}

func vsCoq(v y.ValueStruct) string {
	return fmt.Sprintf("(mkVS %d %d %d %s)", v.Meta, v.UserMeta, v.ExpiresAt, B(v.Value))
}
func vsEq(a, b y.ValueStruct) bool {
	return a.Meta == b.Meta && a.UserMeta == b.UserMeta && a.ExpiresAt == b.ExpiresAt && bytes.Equal(a.Value, b.Value)
}

// c22Key: user keys over a small alphabet (shared prefixes), few versions => many versions of one
// user key and frequent exact overwrites
func c22Key(c *Ctx, short bool) []byte {
	r := c.Rng
	if short {
		return c.rawBytes(7)
	}
	var uk []byte
	switch r.Intn(6) {
	case 0:
		uk = []byte{}
	case 1:
		uk = c.key(6)
	default:
		n := 1 + r.Intn(3)
		uk = make([]byte, n)
		for i := range uk {
			uk[i] = "ab\x00\xff"[r.Intn(4)]
		}
	}
	var ts uint64
	switch r.Intn(8) {
	case 0:
		ts = c.u64()
	case 1:
		ts = 0
	default:
		ts = uint64(1 + r.Intn(5))
	}
	if r.Intn(12) == 0 {
		// raw 8-byte suffix, not necessarily produced by KeyWithTs
		suf := make([]byte, 8)
		for i := range suf {
			suf[i] = byte(r.Intn(3)) * 127
		}
		return append(append([]byte{}, uk...), suf...)
	}
	return y.KeyWithTs(uk, ts)
}

func runC22Seq(c *Ctx, malformed bool) {
	r := c.Rng
	s := skl.NewSkiplist(1 << 20)
	defer s.DecrRef()
	it := s.NewIterator()
	defer it.Close()
	ref := &sklRef{vals: map[string]y.ValueStruct{}}
	refPos := -1 // index into ref.keys of the iterator, -1 = invalid
	var ops, obs []string
	var jops []sklOp
	n := 8 + r.Intn(56)
	if malformed {
		n = 3 + r.Intn(12)
	}
	okGet, okIter, okLevels := true, true, true
	storedShort := false
	for k := 0; k < n; k++ {
		var op sklOp
		short := malformed && (r.Intn(3) == 0 || (k == 0 && r.Intn(2) == 0))
		x := r.Intn(20)
		switch {
		case x < 8:
			op = sklOp{K: "P", Key: c22Key(c, short), Val: c.rawBytes(6), M: byte(r.Intn(4)), U: byte(r.Intn(3)), E: uint64(r.Intn(3))}
			if len(ref.keys) > 0 && !short && r.Intn(4) == 0 {
				op.Key = append([]byte{}, ref.keys[r.Intn(len(ref.keys))]...) // exact overwrite
			}
		case x < 11:
			op = sklOp{K: "G", Key: c22Key(c, short)}
			if len(ref.keys) > 0 && !short && r.Intn(2) == 0 {
				// same user key, some other version
				base := y.ParseKey(ref.keys[r.Intn(len(ref.keys))])
				op.Key = y.KeyWithTs(base, uint64(r.Intn(7)))
			}
		case x < 13:
			op = sklOp{K: "S", Key: c22Key(c, short)}
		case x < 15:
			op = sklOp{K: "SP", Key: c22Key(c, short)}
		case x == 15:
			op = sklOp{K: "F"}
		case x == 16:
			op = sklOp{K: "L"}
		case x < 19:
			if !it.Valid() {
				op = sklOp{K: "F"}
			} else if r.Intn(2) == 0 {
				op = sklOp{K: "N"}
			} else {
				op = sklOp{K: "V"}
			}
		default:
			op = sklOp{K: "X"}
		}
		if k == n-1 {
			op = sklOp{K: "X"}
		}
		jops = append(jops, op)
		var ob string
		posOb := func() string {
			if !it.Valid() {
				return "(OPos None)"
			}
			return fmt.Sprintf("(OPos (Some (%s, %s)))", B(it.Key()), vsCoq(it.Value()))
		}
		// the reference never sees short keys: a malformed sequence is only compared with the model
		checkPos := func() {
			if malformed {
				return
			}
			if refPos < 0 || refPos >= len(ref.keys) {
				refPos = -1
				if it.Valid() {
					okIter = false
				}
				return
			}
			if !it.Valid() || !bytes.Equal(it.Key(), ref.keys[refPos]) || !vsEq(it.Value(), ref.vals[string(ref.keys[refPos])]) {
				okIter = false
			}
		}
		switch op.K {
		case "P":
			v := y.ValueStruct{Meta: op.M, UserMeta: op.U, ExpiresAt: op.E, Value: op.Val}
			if recoverPanic(func() { s.Put(op.Key, v) }) {
				ob = "OPanic"
				ops = append(ops, fmt.Sprintf("SPut %s %s 0", B(op.Key), vsCoq(v)))
			} else {
				ob = "OUnit"
				h := 0
				if len(op.Key) >= 8 && !storedShort {
					h = s.VerifNodeHeight(op.Key)
				} else {
					// short key stored in the empty list: nothing can be compared with it
					h = len(s.VerifLevelKeys(0))
					for l := 0; l < skl.VerifMaxHeight(); l++ {
						if len(s.VerifLevelKeys(l)) > 0 {
							h = l + 1
						}
					}
					storedShort = true
				}
				ops = append(ops, fmt.Sprintf("SPut %s %s %d", B(op.Key), vsCoq(v), h))
				if !malformed {
					// the iterator keeps pointing at its node: re-locate it in the reference
					var cur []byte
					if refPos >= 0 {
						cur = ref.keys[refPos]
					}
					ref.put(op.Key, v)
					if cur != nil {
						refPos = ref.idxGE(cur)
					}
				}
			}
		case "G":
			var v y.ValueStruct
			if recoverPanic(func() { v = s.Get(op.Key) }) {
				ob = "OPanic"
			} else {
				ob = fmt.Sprintf("(OGet %s %d)", vsCoq(v), v.Version)
				if !malformed {
					// newest version <= ts of the same user key = first entry >= key with the same user key
					i := ref.idxGE(op.Key)
					var want y.ValueStruct
					if i < len(ref.keys) && y.SameKey(op.Key, ref.keys[i]) {
						want = ref.vals[string(ref.keys[i])]
						want.Version = y.ParseTs(ref.keys[i])
					}
					if !vsEq(v, want) || v.Version != want.Version {
						okGet = false
					}
				}
			}
			ops = append(ops, "SGet "+B(op.Key))
		case "S":
			if recoverPanic(func() { it.Seek(op.Key) }) {
				ob = "OPanic"
			} else {
				ob = posOb()
				if !malformed {
					refPos = ref.idxGE(op.Key)
					checkPos()
				}
			}
			ops = append(ops, "SSeek "+B(op.Key))
		case "SP":
			if recoverPanic(func() { it.SeekForPrev(op.Key) }) {
				ob = "OPanic"
			} else {
				ob = posOb()
				if !malformed {
					i := ref.idxGE(op.Key)
					if i < len(ref.keys) && bytes.Equal(ref.keys[i], op.Key) {
						refPos = i
					} else {
						refPos = i - 1
					}
					checkPos()
				}
			}
			ops = append(ops, "SSeekForPrev "+B(op.Key))
		case "F":
			it.SeekToFirst()
			ob = posOb()
			if len(ref.keys) > 0 {
				refPos = 0
			} else {
				refPos = -1
			}
			checkPos()
			ops = append(ops, "SFirst")
		case "L":
			it.SeekToLast()
			ob = posOb()
			refPos = len(ref.keys) - 1
			checkPos()
			ops = append(ops, "SLast")
		case "N":
			it.Next()
			ob = posOb()
			refPos++
			checkPos()
			ops = append(ops, "SNext")
		case "V":
			if recoverPanic(func() { it.Prev() }) {
				ob = "OPanic"
			} else {
				ob = posOb()
				refPos--
				checkPos()
			}
			ops = append(ops, "SPrev")
		case "X":
			h := s.VerifHeight()
			var ls []string
			for l := 0; l <= h; l++ {
				ks := s.VerifLevelKeys(l)
				it := make([]string, len(ks))
				for i, kk := range ks {
					it[i] = B(kk)
				}
				ls = append(ls, ListOf(it))
				if !malformed {
					// strictly sorted, and a subsequence of the level below
					for i := 1; i < len(ks); i++ {
						if y.CompareKeys(ks[i-1], ks[i]) >= 0 {
							okLevels = false
						}
					}
					if l == 0 {
						if len(ks) != len(ref.keys) {
							okLevels = false
						}
						for i := range ks {
							if i < len(ref.keys) && !bytes.Equal(ks[i], ref.keys[i]) {
								okLevels = false
							}
						}
					} else {
						below := s.VerifLevelKeys(l - 1)
						j := 0
						for _, kk := range ks {
							for j < len(below) && !bytes.Equal(below[j], kk) {
								j++
							}
							if j == len(below) {
								okLevels = false
							}
						}
					}
				}
			}
			ob = fmt.Sprintf("(OLv %d %s)", h, ListOf(ls))
			ops = append(ops, "SLevels")
		}
		obs = append(obs, ob)
	}
	kind := "SklSeq"
	if malformed {
		kind = "SklMalformed"
	}
	c.Case(kind, fmt.Sprintf("(SklSeq %s %s)", ListOf(ops), ListOf(obs)), c22J{"ops": jops})
	if !malformed {
		c.Oracle(okGet, "skl-get-not-map", "Get differs from the sorted-map reference (newest version <= ts of the user key)", c22J{"ops": jops})
		c.Oracle(okIter, "skl-iterator-not-map", "an iterator positioning call differs from the sorted-map reference", c22J{"ops": jops})
		c.Oracle(okLevels, "skl-levels-unsorted", "a level is not strictly sorted / not a subsequence of the level below / level 0 differs from the reference", c22J{"ops": jops})
	}
}

func runC22(c *Ctx) error {
	c.Setup("Keys Codec Skiplist CorrC22", "run_case")
	for i := 0; c.nCases < c.N; i++ {
		runC22Seq(c, i%8 == 7)
	}
	if err := c22Stress(c); err != nil {
		return err
	}
	c22HotKey(c)
	c22InsertRace(c)
	return c22SameKey(c)
}

// c22InsertRace: writers insert NEW keys (ascending within each writer's key space, so fresh nodes
// are linked at the ends of runs) as fast as they can; after Put(k) has returned the key is
// published. Readers pick published keys and Get them, and scan the list counting the keys of one
// writer: a published key must be found, and a scan that started after n keys of a writer were
// published must see at least n of them. A node that is reachable before its own forward pointers
// are set makes a traversal stop early.
func c22InsertRace(c *Ctx) {
	dur := 1200 * time.Millisecond
	if c.N >= 3000 {
		dur = 8 * time.Second
	}
	s := skl.NewSkiplist(512 << 20)
	const W = 3
	var published [W]atomic.Int64
	key := func(w int, i int64) []byte { return y.KeyWithTs([]byte(fmt.Sprintf("w%d-%09d", w, i)), 1) }
	var stop atomic.Bool
	var missing, shortScan, gets, scans atomic.Int64
	var firstBad atomic.Value
	var wg sync.WaitGroup
	for w := 0; w < W; w++ {
		wg.Add(1)
		go func(w int) {
			defer wg.Done()
			for i := int64(1); !stop.Load() && i < 900000; i++ {
				s.Put(key(w, i), y.ValueStruct{Value: c22Val(w, uint64(i), uint32(i))})
				published[w].Store(i)
			}
		}(w)
	}
	for r := 0; r < 6; r++ {
		wg.Add(1)
		go func(r int) {
			defer wg.Done()
			x := uint32(c.Seed)*31 + uint32(r)*7919
			for !stop.Load() {
				w := r % W
				p := published[w].Load()
				if p == 0 {
					continue
				}
				if r < 4 {
					x = x*1664525 + 1013904223
					i := p
					if x%3 != 0 {
						i = 1 + int64(x>>8)%p // any published key; every third time the newest one
					}
					v := s.Get(key(w, i))
					gets.Add(1)
					if _, seq, ok := c22ValOK(v.Value); !ok || seq != uint64(i) {
						if missing.Add(1) == 1 {
							firstBad.Store(fmt.Sprintf("Get of published key w%d-%09d (newest published %d) returned %d value bytes", w, i, p, len(v.Value)))
						}
					}
					continue
				}
				it := s.NewIterator()
				n := int64(0)
				pre := []byte(fmt.Sprintf("w%d-", w))
				for it.Seek(y.KeyWithTs(pre, math.MaxUint64)); it.Valid() && bytes.HasPrefix(it.Key(), pre); it.Next() {
					n++
				}
				it.Close()
				scans.Add(1)
				if n < p {
					if shortScan.Add(1) == 1 {
						firstBad.Store(fmt.Sprintf("a scan of writer %d's keys saw %d keys although %d had been published before it started", w, n, p))
					}
				}
			}
		}(r)
	}
	time.Sleep(dur)
	stop.Store(true)
	wg.Wait()
	fb, _ := firstBad.Load().(string)
	c.Oracle(missing.Load() == 0 && shortScan.Load() == 0, "skl-conc-published-key-not-reachable",
		"a key whose Put had returned was not found by Get, or a scan that started afterwards ended before reaching it",
		c22J{"gets": gets.Load(), "scans": scans.Load(), "missing": missing.Load(), "short_scans": shortScan.Load(),
			"inserted": published[0].Load() + published[1].Load() + published[2].Load(), "first": fb})
	c.Extra["insert_race_gets"] = gets.Load()
	c.Count("insert-race-phase")
}

// c22HotKey: one writer overwrites ONE existing internal key (same key, same version) as fast as it
// can with values of very different encoded sizes, readers Get it and read it through iterators in
// tight loops. setValue publishes offset and size of the new value in one atomic word; a reader that
// combined one put's offset with another's size returns bytes that are no value ever written
// (checked by the CRC inside the value and by the meta byte tied to the length).
func c22HotKey(c *Ctx) {
	dur := 1500 * time.Millisecond
	if c.N >= 3000 {
		dur = 8 * time.Second
	}
	s := skl.NewSkiplist(256 << 20)
	key := y.KeyWithTs([]byte("hot"), 7)
	// neighbours so that iterators have something to walk over
	s.Put(y.KeyWithTs([]byte("a"), 1), y.ValueStruct{Value: c22Val(0, 0, 1)})
	s.Put(y.KeyWithTs([]byte("z"), 1), y.ValueStruct{Value: c22Val(0, 0, 2)})
	mk := func(seq uint64) y.ValueStruct {
		r := uint32(0) // short
		if seq%2 == 1 {
			r = 39 // long
		}
		if seq%7 == 3 {
			r = uint32(seq % 40)
		}
		v := c22Val(9, seq, r)
		return y.ValueStruct{Value: v, Meta: byte(len(v)), UserMeta: byte(seq)}
	}
	s.Put(key, mk(0))
	var stop atomic.Bool
	var torn, reads, puts atomic.Int64
	var firstBad atomic.Value
	check := func(v y.ValueStruct, how string) {
		reads.Add(1)
		w, seq, ok := c22ValOK(v.Value)
		if !ok || w != 9 || v.Meta != byte(len(v.Value)) || v.UserMeta != byte(seq) {
			if torn.Add(1) == 1 {
				n := len(v.Value)
				if n > 24 {
					n = 24
				}
				firstBad.Store(fmt.Sprintf("%s: len=%d meta=%d umeta=%d first bytes %x", how, len(v.Value), v.Meta, v.UserMeta, v.Value[:n]))
			}
		}
	}
	var wg sync.WaitGroup
	wg.Add(1)
	go func() {
		defer wg.Done()
		for seq := uint64(1); !stop.Load() && seq < 1200000; seq++ {
			s.Put(key, mk(seq))
			puts.Add(1)
		}
	}()
	for rd := 0; rd < 6; rd++ {
		wg.Add(1)
		go func(rd int) {
			defer wg.Done()
			it := s.NewIterator()
			defer it.Close()
			for !stop.Load() {
				switch rd % 3 {
				case 0:
					check(s.Get(key), "Get")
				case 1:
					it.Seek(key)
					if it.Valid() && y.SameKey(it.Key(), key) {
						check(it.Value(), "Iterator.Seek+Value")
					}
				default:
					it.SeekToFirst()
					it.Next()
					if it.Valid() && y.SameKey(it.Key(), key) {
						check(it.Value(), "Iterator.Next+Value")
					}
				}
			}
		}(rd)
	}
	time.Sleep(dur)
	stop.Store(true)
	wg.Wait()
	fb, _ := firstBad.Load().(string)
	c.Oracle(torn.Load() == 0, "skl-conc-torn-value-under-overwrite", "a reader of a key that is being overwritten saw bytes that no put ever stored (offset and size of different puts combined)",
		c22J{"torn": torn.Load(), "reads": reads.Load(), "overwrites": puts.Load(), "first": fb})
	c.Extra["hotkey_reads"] = reads.Load()
	c.Extra["hotkey_overwrites"] = puts.Load()
	c.Count("hot-key-phase")
}

// value payload for the stress: writer id, sequence number, filler, CRC — a torn value fails the CRC
func c22Val(w int, seq uint64, r uint32) []byte {
	n := 12 + int(r%40)
	b := make([]byte, n+4)
	binary.BigEndian.PutUint32(b[0:], uint32(w))
	binary.BigEndian.PutUint64(b[4:], seq)
	for i := 12; i < n; i++ {
		b[i] = byte(seq + uint64(i))
	}
	binary.BigEndian.PutUint32(b[n:], crc32.ChecksumIEEE(b[:n]))
	return b
}
func c22ValOK(b []byte) (w int, seq uint64, ok bool) {
	if len(b) < 16 {
		return 0, 0, false
	}
	n := len(b) - 4
	if crc32.ChecksumIEEE(b[:n]) != binary.BigEndian.Uint32(b[n:]) {
		return 0, 0, false
	}
	return int(binary.BigEndian.Uint32(b[0:])), binary.BigEndian.Uint64(b[4:]), true
}

// c22Stress: W writers put into a shared key space (own keys and keys shared by all writers),
// readers run Gets and full forward / backward iterations concurrently.
func c22Stress(c *Ctx) error {
	rounds := 1 + c.N/300
	for round := 0; round < rounds; round++ {
		const W, R = 6, 4
		per := 1500
		nOwn, nShared := 40, 12
		s := skl.NewSkiplist(64 << 20)
		ownKey := func(w, i int) []byte { return y.KeyWithTs([]byte(fmt.Sprintf("own-%d-%03d", w, i%17)), uint64(i/17+1)) }
		sharedKey := func(i int) []byte { return y.KeyWithTs([]byte(fmt.Sprintf("shared-%02d", i%5)), uint64(i/5+1)) }
		var published [W][]atomic.Uint64 // last completed seq per own key
		for w := range published {
			published[w] = make([]atomic.Uint64, nOwn)
		}
		var torn, unsorted, lost, backwards, stale atomic.Int64
		var stop atomic.Bool
		var wg, rg sync.WaitGroup
		seed := c.Rng.Int63()
		for w := 0; w < W; w++ {
			wg.Add(1)
			go func(w int) {
				defer wg.Done()
				x := uint32(seed) + uint32(w)*2654435761
				for k := 1; k <= per; k++ {
					x = x*1664525 + 1013904223
					if x%4 == 0 {
						s.Put(sharedKey(int(x>>8)%nShared), y.ValueStruct{Value: c22Val(w, uint64(k), x), Meta: byte(w)})
						continue
					}
					i := int(x>>8) % nOwn
					s.Put(ownKey(w, i), y.ValueStruct{Value: c22Val(w, uint64(k), x), Meta: byte(w), UserMeta: 7})
					published[w][i].Store(uint64(k))
					// read own write
					v := s.Get(ownKey(w, i))
					if _, seq, ok := c22ValOK(v.Value); !ok {
						torn.Add(1)
					} else if seq != uint64(k) {
						lost.Add(1)
					}
				}
			}(w)
		}
		for rd := 0; rd < R; rd++ {
			rg.Add(1)
			go func(rd int) {
				defer rg.Done()
				x := uint32(seed>>7) + uint32(rd)*40503
				for !stop.Load() {
					x = x*1664525 + 1013904223
					switch x % 3 {
					case 0:
						w, i := int(x>>8)%W, int(x>>16)%nOwn
						p := published[w][i].Load()
						v := s.Get(ownKey(w, i))
						if p > 0 {
							if ww, seq, ok := c22ValOK(v.Value); !ok || ww != w {
								torn.Add(1)
							} else if seq < p {
								stale.Add(1)
							}
						} else if len(v.Value) > 0 {
							if _, _, ok := c22ValOK(v.Value); !ok {
								torn.Add(1)
							}
						}
					case 1:
						it := s.NewIterator()
						var prev []byte
						cnt := 0
						for it.SeekToFirst(); it.Valid(); it.Next() {
							k := append([]byte{}, it.Key()...)
							if prev != nil && y.CompareKeys(prev, k) >= 0 {
								unsorted.Add(1)
							}
							if _, _, ok := c22ValOK(it.Value().Value); !ok {
								torn.Add(1)
							}
							prev = k
							cnt++
						}
						it.Close()
					default:
						it := s.NewIterator()
						var prev []byte
						for it.SeekToLast(); it.Valid(); it.Prev() {
							k := append([]byte{}, it.Key()...)
							if prev != nil && y.CompareKeys(prev, k) <= 0 {
								backwards.Add(1)
							}
							if _, _, ok := c22ValOK(it.Value().Value); !ok {
								torn.Add(1)
							}
							prev = k
						}
						it.Close()
					}
				}
			}(rd)
		}
		wg.Wait()
		stop.Store(true)
		rg.Wait()
		// final content: every own key holds its last completed put; shared keys hold a valid value
		final := int64(0)
		for w := 0; w < W; w++ {
			for i := 0; i < nOwn; i++ {
				p := published[w][i].Load()
				v := s.Get(ownKey(w, i))
				if p == 0 {
					if len(v.Value) != 0 {
						final++
					}
					continue
				}
				if ww, seq, ok := c22ValOK(v.Value); !ok || ww != w || seq != p {
					final++
				}
			}
		}
		// level structure after the run
		okLv := true
		for l := 0; l < s.VerifHeight(); l++ {
			ks := s.VerifLevelKeys(l)
			for i := 1; i < len(ks); i++ {
				if y.CompareKeys(ks[i-1], ks[i]) >= 0 {
					okLv = false
				}
			}
			if l > 0 {
				below := s.VerifLevelKeys(l - 1)
				j := 0
				for _, kk := range ks {
					for j < len(below) && !bytes.Equal(below[j], kk) {
						j++
					}
					if j == len(below) {
						okLv = false
					}
				}
			}
		}
		s.DecrRef()
		rep := c22J{"seed": seed, "round": round}
		c.Oracle(torn.Load() == 0, "skl-conc-torn-value", "a reader saw a value that fails its checksum or belongs to another key", rep)
		c.Oracle(unsorted.Load() == 0 && backwards.Load() == 0, "skl-conc-unsorted-iteration", "a concurrent iteration was not strictly sorted / had a duplicate", rep)
		c.Oracle(lost.Load() == 0 && stale.Load() == 0, "skl-conc-put-not-visible", "a Get that started after Put returned did not see that put (or a later one)", rep)
		c.Oracle(final == 0, "skl-conc-final-content", "final content differs from the last completed put per key", rep)
		c.Oracle(okLv, "skl-conc-levels", "after the run a level is unsorted or not a subsequence of the level below", rep)
		c.Count("stress-rounds")
	}
	return nil
}

// ---- concurrent inserts of the SAME, previously absent key ----
// K goroutines, released together, Put one fresh key with distinct (large) values: all of them
// search the splice before any of them has linked its node, all but one lose the base-level CAS
// and must fall back to overwriting the winner's value, WITHOUT linking their own node anywhere.
// After each round, single-threaded: every node linked on a level > 0 must be linked on level 0
// (node identities = arena offsets), levels strictly sorted, and after an overwrite Get and both
// iteration directions must agree on exactly one entry with the overwritten value.
// Runs in a child process: a loser that goes on linking its node can trip the
// "Equality can happen only on base level" assertion (log.Fatalf).

type c22SKRes struct {
	Rounds int    `json:"rounds"`
	Fail   string `json:"fail"`
	Round  int    `json:"round"`
	K      int    `json:"k"`
	Val    int    `json:"val"`
}

func c22SameKeyRun(seed int64, rounds int) c22SKRes {
	res := c22SKRes{}
	const arena = 96 << 20
	var s *skl.Skiplist
	x := uint64(seed)*6364136223846793005 + 1442695040888963407
	rnd := func(n int) int {
		x = x*6364136223846793005 + 1442695040888963407
		return int((x >> 33) % uint64(n))
	}
	fail := func(r, k, vs int, f string, a ...interface{}) c22SKRes {
		res.Fail, res.Round, res.K, res.Val = fmt.Sprintf(f, a...), r, k, vs
		return res
	}
	for r := 0; r < rounds; r++ {
		K := []int{2, 4, 8, 16, 32}[rnd(5)]
		vs := []int{64, 4 << 10, 64 << 10, 256 << 10, 1 << 20}[rnd(5)]
		if K*vs > 8<<20 {
			vs = (8 << 20) / K
		}
		need := int64(K*(vs+256) + 4096)
		if s == nil || s.MemSize()+need > arena*3/4 {
			if s != nil {
				s.DecrRef()
			}
			s = skl.NewSkiplist(arena)
			// neighbours on both sides, some with tall towers
			for i := 0; i < 40; i++ {
				s.Put(y.KeyWithTs([]byte(fmt.Sprintf("sk-%06d", i*1000003%999983)), 1), y.ValueStruct{Value: []byte{1}})
			}
		}
		key := y.KeyWithTs([]byte(fmt.Sprintf("sk-%06d-r%d", rnd(999983), r)), uint64(1+rnd(3)))
		vals := make([][]byte, K)
		for g := range vals {
			v := make([]byte, vs)
			v[0] = byte(g)
			v[len(v)-1] = byte(g)
			vals[g] = v
		}
		start := make(chan struct{})
		var wg sync.WaitGroup
		for g := 0; g < K; g++ {
			wg.Add(1)
			go func(g int) {
				defer wg.Done()
				<-start
				s.Put(key, y.ValueStruct{Value: vals[g], Meta: byte(g)})
			}(g)
		}
		close(start)
		wg.Wait()
		res.Rounds++
		// structure: node identities
		h := s.VerifHeight()
		base := map[uint32]bool{}
		for _, o := range s.VerifLevelOffsets(0) {
			if base[o] {
				return fail(r, K, vs, "node %d linked twice on level 0", o)
			}
			base[o] = true
		}
		for l := 0; l < h; l++ {
			ks := s.VerifLevelKeys(l)
			for i := 1; i < len(ks); i++ {
				if y.CompareKeys(ks[i-1], ks[i]) >= 0 {
					return fail(r, K, vs, "level %d not strictly sorted at %d", l, i)
				}
			}
			if l > 0 {
				for _, o := range s.VerifLevelOffsets(l) {
					if !base[o] {
						return fail(r, K, vs, "node %d is linked on level %d but not on level 0 (key %x)", o, l, key)
					}
				}
			}
		}
		// one of the K values is there
		v0 := s.Get(key)
		if len(v0.Value) != vs || v0.Value[0] != v0.Value[vs-1] || int(v0.Value[0]) >= K || v0.Meta != v0.Value[0] {
			return fail(r, K, vs, "Get after the round returns none of the values put")
		}
		// overwrite, then Get and both iteration directions must agree
		ov := []byte(fmt.Sprintf("overwrite-%d", r))
		s.Put(key, y.ValueStruct{Value: ov, Meta: 0xEE})
		if g := s.Get(key); !bytes.Equal(g.Value, ov) || g.Meta != 0xEE {
			return fail(r, K, vs, "Get after overwrite does not return the overwrite")
		}
		for dir := 0; dir < 2; dir++ {
			it := s.NewIterator()
			n := 0
			if dir == 0 {
				it.SeekToFirst()
			} else {
				it.SeekToLast()
			}
			for it.Valid() {
				if bytes.Equal(it.Key(), key) {
					n++
					if iv := it.Value(); !bytes.Equal(iv.Value, ov) || iv.Meta != 0xEE {
						it.Close()
						return fail(r, K, vs, "iteration (dir %d) sees a stale value for the key while Get sees the overwrite", dir)
					}
				}
				if dir == 0 {
					it.Next()
				} else {
					it.Prev()
				}
			}
			it.Close()
			if n != 1 {
				return fail(r, K, vs, "iteration (dir %d) yields the key %d times", dir, n)
			}
		}
		// Seek lands on the same node as iteration
		it := s.NewIterator()
		it.Seek(key)
		okSeek := it.Valid() && bytes.Equal(it.Key(), key) && bytes.Equal(it.Value().Value, ov)
		it.Close()
		if !okSeek {
			return fail(r, K, vs, "Seek(key) does not land on the entry with the overwrite")
		}
	}
	if s != nil {
		s.DecrRef()
	}
	return res
}

func c22SameKeyChild(arg string) {
	var seed int64
	var rounds int
	fmt.Sscanf(arg, "%d,%d", &seed, &rounds)
	js, _ := json.Marshal(c22SameKeyRun(seed, rounds))
	fmt.Println(string(js))
}

func c22SameKey(c *Ctx) error {
	rounds := 80 + c.N/2
	if rounds > 2000 {
		rounds = 2000
	}
	seed := c.Rng.Int63()
	cmd := exec.Command(os.Args[0])
	cmd.Env = append(os.Environ(), fmt.Sprintf("VERIF_C22_CHILD=%d,%d", seed, rounds))
	var stderr strings.Builder
	cmd.Stderr = &stderr
	out, err := cmd.Output()
	rep := c22J{"seed": seed, "rounds": rounds}
	const sig = "c22-concurrent-same-key-insert-ghost-node"
	if err != nil {
		if strings.Contains(stderr.String(), "Equality can happen only on base level") {
			c.Oracle(false, sig, "concurrent Puts of one fresh key: a Put that lost the base-level CAS went on linking its own node and hit the 'Equality can happen only on base level' assertion (process killed)", rep)
			return nil
		}
		return fmt.Errorf("C22 same-key child: %v: %s", err, stderr.String())
	}
	var res c22SKRes
	if e := json.Unmarshal(bytes.TrimSpace(out), &res); e != nil {
		return fmt.Errorf("C22 same-key child output %q", string(out))
	}
	rep["round"], rep["k"], rep["val"], rep["detail"] = res.Round, res.K, res.Val, res.Fail
	c.Oracle(res.Fail == "", sig, "concurrent Puts of one fresh key left a ghost node / disagreeing Get and iteration: "+res.Fail, rep)
	c.Extra["same_key_rounds"] = res.Rounds
	return nil
}
