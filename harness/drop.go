package main

// C29: DropPrefix / DropAll histories on top of the sequential system histories (sys.go),
// crash cuts of DropAll, concurrent writers during a drop.
//
// Labels of the drop histories are Drop.xop terms: the labels emitted by the shared hist
// methods are wrapped in `Base`, the drop labels are emitted with the marker "X:".

import (
	"bytes"
	"encoding/binary"
	"errors"
	"fmt"
	"math"
	"os"
	"path/filepath"
	"sort"
	"strings"
	"sync"
	"time"

	badger "github.com/dgraph-io/badger/v4"
)

const (
	sigF20 = "F20-dropprefix-matches-into-version-suffix"
	sigF24 = "F24-dropprefix-containsprefix-misses-table"
	sigF15 = "F15-dropall-crash-exposes-older-version"
	sigF29 = "F29-dropprefix-deadlocks-with-inflight-commit"
)

func (h *hist) xemit(term, desc string) { h.emit("X:"+term, desc) }

func (h *hist) c29Term() string {
	ops := make([]string, len(h.ops))
	for i, o := range h.ops {
		if strings.HasPrefix(o, "X:") {
			ops[i] = o[2:]
		} else {
			ops[i] = "(Base " + o + ")"
		}
	}
	return fmt.Sprintf("(XHist %s %s %d %d %d [\n  %s])", Bool(h.o.Managed), Bool(h.o.Detect), h.o.NKeep, h.o.MaxLevels, h.next0,
		strings.Join(ops, ";\n  "))
}

// the controller newHist installs (re-installed after a drop used its own)
func (h *hist) installController() {
	badger.VerifSetController(&badger.VerifController{
		Point: func(name string, args ...uint64) {
			if name == "subcompact.discardTs" {
				h.mu.Lock()
				h.cdisc = args[0]
				h.mu.Unlock()
			}
		},
		NewTables: func(info *badger.VerifCompactInfo) {
			h.mu.Lock()
			h.cinfo = info
			h.cgot = true
			h.mu.Unlock()
		},
	})
}

func internalKey(k []byte, ver uint64) []byte {
	out := make([]byte, len(k)+8)
	copy(out, k)
	binary.BigEndian.PutUint64(out[len(k):], math.MaxUint64-ver)
	return out
}

func hasAnyPrefix(k []byte, ps [][]byte) bool {
	for _, p := range ps {
		if bytes.HasPrefix(k, p) {
			return true
		}
	}
	return false
}

type compRec struct {
	info   *badger.VerifCompactInfo
	disc   uint64
	now    int64
	newIDs []uint64
	pre    [][]badger.VerifTable // the tree when this compaction started
	post   [][]badger.VerifTable // the tree when the next one started (or at the end)
}

func dumpIDs(lv []badger.VerifTable) []uint64 {
	ids := make([]uint64, len(lv))
	for i, t := range lv {
		ids[i] = t.ID
	}
	return ids
}

// obsTerm builds the (compaction, output) term of one compaction DropPrefix ran
func (h *hist) obsTerm(r *compRec) string {
	byID := map[uint64]badger.VerifTable{}
	for _, lv := range r.post {
		for _, t := range lv {
			byID[t.ID] = t
		}
	}
	type nt struct {
		id uint64
		es []badger.VerifEntry
	}
	var nts []nt
	for _, id := range r.newIDs {
		nts = append(nts, nt{id, byID[id].Entries})
	}
	sort.Slice(nts, func(i, j int) bool {
		a, b := nts[i].es[0], nts[j].es[0]
		if c := bytes.Compare(a.Key, b.Key); c != 0 {
			return c < 0
		}
		return a.Version > b.Version
	})
	var layout, out []string
	for _, t := range nts {
		layout = append(layout, fmt.Sprintf("(%d, %d)", t.id, len(t.es)))
		for _, e := range t.es {
			out = append(out, vEntTerm(e))
		}
	}
	order := dumpIDs(r.post[r.info.NextLevel])
	return fmt.Sprintf("(mkC %d %d %s %s %d %d %s %d %s %s, %s)", r.info.ThisLevel, r.info.NextLevel, idList(r.info.Top), idList(r.info.Bot),
		r.disc, h.o.NKeep, bytesList(r.info.DropPrefixes), r.now, ListOf(layout), idList(order), ListOf(out))
}

func (h *hist) viewTs() uint64 {
	if h.o.Managed {
		return math.MaxUint64
	}
	return h.db.VerifNextTs() - 1
}

func refKeys(ws []refWrite) [][]byte {
	m := map[string]bool{}
	for _, w := range ws {
		m[string(w.Key)] = true
	}
	var ks [][]byte
	for k := range m {
		ks = append(ks, []byte(k))
	}
	sort.Slice(ks, func(i, j int) bool { return bytes.Compare(ks[i], ks[j]) < 0 })
	return ks
}

func refVisibleAt(ws []refWrite, k []byte, ts, now uint64) *refWrite {
	w := refLatest(ws, k, ts)
	if w == nil || expired(w.Meta, w.Exp, now) {
		return nil
	}
	return w
}

func sameObs(got *obsItem, want *refWrite) bool {
	return (want == nil && got == nil) || (want != nil && got != nil && got.Ver == want.Ver && bytes.Equal(got.Val, want.Val) && got.UMeta == want.UMeta && got.Exp == want.Exp)
}

// xget: Txn.Get with the label of hist.get, returning the observation (the caller owns the oracle)
func (h *hist) xget(t int, k []byte) *obsItem {
	tx := h.txns[t]
	item, err := tx.Get(k)
	var term, d string
	var got *obsItem
	switch {
	case err == nil:
		oi, verr := readItem(item)
		if verr != nil {
			term = "(GErr 98)"
		} else {
			got = &oi
			term = "(GFound " + entTerm(oi.Key, oi.Ver, oi.Meta, oi.UMeta, oi.Exp, oi.Val) + ")"
		}
		d = fmt.Sprintf("found v=%d val=%x", oi.Ver, oi.Val)
	case errors.Is(err, badger.ErrKeyNotFound):
		term, d = "GNotFound", "notfound"
	default:
		term, d = fmt.Sprintf("(GErr %d)", errCode(err)), err.Error()
	}
	h.emit(fmt.Sprintf("(Get %d %s %s)", t, B(k), term), fmt.Sprintf("t%d get %x -> %s", t, k, d))
	return got
}

// dropPrefix runs the real DropPrefix, records every compaction it performs, emits the
// label and evaluates the property on all keys. Returns stop = true when the reference can
// no longer be kept in step with the implementation (a dropped key survived).
func (h *hist) dropPrefix(nextT *int, ps [][]byte, mreadTs uint64) (stop bool, err error) {
	pre := append([]refWrite{}, h.ref...)
	preDump := h.db.VerifDump()
	now := uint64(time.Now().Unix())
	vts := h.viewTs()
	var live [][]byte
	for _, p := range ps {
		for _, k := range refKeys(pre) {
			if bytes.HasPrefix(k, p) && refVisibleAt(pre, k, vts, now) != nil {
				live = append(live, p)
				break
			}
		}
	}
	var recs []*compRec
	var mu sync.Mutex
	// crash cuts: the directory is copied when each compaction of the drop starts (= after the
	// memtable flush / after the previous compaction's MANIFEST change set)
	crash := !h.o.InMemory && h.c.Rng.Intn(4) == 0
	croot := filepath.Join(filepath.Dir(h.dir), fmt.Sprintf("dpcrash%d", histSeq))
	var cuts []string
	if crash {
		defer os.RemoveAll(croot)
	}
	badger.VerifSetController(&badger.VerifController{
		CompactDef: func(info *badger.VerifCompactInfo) {
			d := h.db.VerifDump()
			if crash && len(cuts) < 4 {
				dst := filepath.Join(croot, fmt.Sprintf("cut%d", len(cuts)))
				if copyDir(h.dir, dst) == nil {
					cuts = append(cuts, dst)
				}
			}
			mu.Lock()
			recs = append(recs, &compRec{info: info, now: time.Now().Unix(), pre: d})
			mu.Unlock()
		},
		Point: func(name string, args ...uint64) {
			if name == "subcompact.discardTs" {
				mu.Lock()
				if n := len(recs); n > 0 {
					recs[n-1].disc = args[0]
				}
				mu.Unlock()
			}
		},
		NewTables: func(info *badger.VerifCompactInfo) {
			mu.Lock()
			if n := len(recs); n > 0 {
				recs[n-1].newIDs = info.New
			}
			mu.Unlock()
		},
	})
	var firstDump [][]badger.VerifTable
	h.db.VerifSettleWatermarks() // all of DropPrefix's compactions read the same discard timestamp
	derr := h.db.DropPrefix(ps...)
	final := h.db.VerifDump()
	h.installController()
	if len(recs) > 0 {
		// the dump taken when the first compaction started shows the flushed memtables in L0;
		// every record's post-state is the dump taken when the next one started
		firstDump = recs[0].pre
		for i := 0; i+1 < len(recs); i++ {
			recs[i].post = recs[i+1].pre
		}
		recs[len(recs)-1].post = final
	} else {
		firstDump = final
	}
	preL0 := map[uint64]bool{}
	for _, t := range preDump[0] {
		preL0[t.ID] = true
	}
	var l0ids []uint64
	for _, t := range firstDump[0] {
		if !preL0[t.ID] {
			l0ids = append(l0ids, t.ID)
		}
	}
	code := 0
	if derr != nil {
		code = 99
	}
	obs := make([]string, len(recs))
	for i, r := range recs {
		obs[i] = h.obsTerm(r)
		h.c.Count(fmt.Sprintf("dropcompact L%d->L%d", r.info.ThisLevel, r.info.NextLevel))
	}
	h.xemit(fmt.Sprintf("(DropPrefix %s %s %s %d)", bytesList(ps), idList(l0ids), ListOf(obs), code),
		fmt.Sprintf("DropPrefix %x -> %v (flushed %v, %d compactions)", ps, derr, l0ids, len(recs)))
	h.c.Oracle(derr == nil, "c29-dropprefix-error", "DropPrefix returned an error in a sequential history", J{"history": h.desc, "err": fmt.Sprint(derr)})
	if derr != nil {
		return true, nil
	}
	// ---- the property: keys with a (live) requested prefix are gone, every other key unchanged ----
	var want, coded []refWrite
	for _, w := range pre {
		if !hasAnyPrefix(w.Key, live) {
			want = append(want, w)
		}
		if !hasAnyPrefix(internalKey(w.Key, w.Ver), live) {
			coded = append(coded, w)
		}
	}
	// structural condition of F24: a table at level >= 1 whose smallest user key is a proper
	// prefix of a dropped prefix (and whose smallest internal key does not carry the prefix)
	f24shape := false
	for l := 1; l < len(firstDump); l++ {
		for _, t := range firstDump[l] {
			if len(t.Entries) == 0 {
				continue
			}
			s := t.Entries[0]
			for _, p := range live {
				if len(s.Key) < len(p) && bytes.HasPrefix(p, s.Key) && !bytes.HasPrefix(internalKey(s.Key, s.Version), p) {
					f24shape = true
				}
			}
		}
	}
	// structural condition of the table-level form of F20: a table whose smallest AND biggest
	// internal keys both carry a dropped prefix although the smallest USER key does not (the prefix
	// matched into its version suffix): compactBuildTables' keepTable discards the whole table,
	// with every key in between
	f20table := false
	for l := 0; l < len(firstDump); l++ {
		for _, t := range firstDump[l] {
			if len(t.Entries) == 0 {
				continue
			}
			s, b := t.Entries[0], t.Entries[len(t.Entries)-1]
			for _, p := range live {
				if !bytes.HasPrefix(s.Key, p) && bytes.HasPrefix(internalKey(s.Key, s.Version), p) && bytes.HasPrefix(internalKey(b.Key, b.Version), p) {
					f20table = true
				}
			}
		}
	}
	for _, dir := range cuts {
		h.checkCrashCopy(dir, pre, vts, f24shape, live)
	}
	t := *nextT
	*nextT = t + 1
	rts := uint64(0)
	if h.o.Managed {
		rts = mreadTs
	}
	h.begin(t, false, rts)
	readTs := h.txns[t].VerifReadTs()
	now = uint64(time.Now().Unix())
	survived := false
	for _, k := range refKeys(pre) {
		got := h.xget(t, k)
		w := refVisibleAt(want, k, readTs, now)
		ok := sameObs(got, w)
		sig := "c29-read-mismatch-after-dropprefix"
		what := "after DropPrefix a key outside the prefixes changed or a key inside is still visible"
		if !ok {
			switch {
			case sameObs(got, refVisibleAt(coded, k, readTs, now)):
				sig, what = sigF20, "DropPrefix dropped versions of a key that does not start with any given prefix (prefix matched into the version suffix of the internal key)"
			case hasAnyPrefix(k, live) && got != nil:
				survived = true
				if f24shape {
					sig, what = sigF24, "a key with a dropped prefix is still visible, with its newest or an older version (a table at a level >= 1 holding it was not picked by containsPrefix)"
				} else {
					sig = "c29-dropped-key-still-visible"
				}
			case f20table && got == nil && !hasAnyPrefix(k, live):
				sig, what = sigF20, "DropPrefix discarded a whole table whose end keys matched a prefix only through the version suffix of the smallest key; keys in between that do not start with any given prefix are gone"
			default:
				survived = true
			}
			h.failed = true
		}
		h.c.Oracle(ok, sig, what, J{"history": h.desc, "key": k, "prefixes": ps})
	}
	h.discard(t)
	h.ref = coded
	// after any mismatch the reference no longer describes the stored data (a table-level F20
	// drop removes more than `coded` says): the history ends here
	return survived || h.failed, nil
}

// checkCrashCopy re-opens a directory copied in the middle of a DropPrefix: every key must
// show its pre-drop value or nothing
func (h *hist) checkCrashCopy(dir string, pre []refWrite, vts uint64, f24shape bool, live [][]byte) {
	db2, err := openSysDB(dir, h.o)
	if err != nil {
		h.c.Oracle(false, "c29-crash-reopen-fails", "re-open after a crash inside DropPrefix fails", J{"err": err.Error(), "history": h.desc})
		return
	}
	defer db2.Close()
	var tx *badger.Txn
	if h.o.Managed {
		tx = db2.NewTransactionAt(math.MaxUint64, false)
	} else {
		tx = db2.NewTransaction(false)
	}
	defer tx.Discard()
	now := uint64(time.Now().Unix())
	for _, k := range refKeys(pre) {
		var got *obsItem
		if it, err := tx.Get(k); err == nil {
			oi, _ := readItem(it)
			got = &oi
		}
		ok := got == nil || sameObs(got, refVisibleAt(pre, k, vts, now))
		sig := "c29-dropprefix-crash-exposes-other-value"
		if !ok && f24shape && hasAnyPrefix(k, live) {
			// finding F24: a table holding an older version of the key was not picked, so once the
			// newer versions are dropped (levels are processed bottom-up) the older one shows
			sig = sigF24
		}
		h.c.Oracle(ok, sig, "after a crash inside DropPrefix a key shows a value that is neither its pre-drop value nor absent",
			J{"history": h.desc, "key": k})
	}
	h.c.Count("dropprefix crash cut")
}

func (h *hist) c29DropAll(nextT *int, mreadTs uint64) error {
	pre := append([]refWrite{}, h.ref...)
	err := h.db.DropAll()
	code := 0
	if err != nil {
		code = 99
	}
	h.xemit(fmt.Sprintf("(DropAll %d)", code), fmt.Sprintf("DropAll -> %v", err))
	h.c.Oracle(err == nil, "c29-dropall-error", "DropAll returned an error in a sequential history", J{"history": h.desc, "err": fmt.Sprint(err)})
	if err != nil {
		return err
	}
	h.ref = nil
	t := *nextT
	*nextT = t + 1
	rts := uint64(0)
	if h.o.Managed {
		rts = mreadTs
	}
	h.begin(t, false, rts)
	for _, k := range refKeys(pre) {
		got := h.xget(t, k)
		h.c.Oracle(got == nil, "c29-dropall-key-still-visible", "a key is visible after DropAll", J{"history": h.desc, "key": k})
	}
	d := h.db.VerifDump()
	n := 0
	for _, lv := range d {
		n += len(lv)
	}
	h.c.Oracle(n == 0, "c29-dropall-tables-remain", "tables remain after DropAll", J{"history": h.desc})
	h.discard(t)
	return nil
}

// reopen closes and re-opens the DB in place
func (h *hist) reopen() error {
	var ids []int
	for id := range h.txns {
		ids = append(ids, id)
	}
	sort.Ints(ids)
	for _, id := range ids {
		h.discard(id)
	}
	before := tableIDs(h.db.VerifDump())
	if err := h.db.Close(); err != nil {
		return err
	}
	db, err := openSysDB(h.dir, h.o)
	if err != nil {
		h.db = nil
		return err
	}
	h.db = db
	id := uint64(0)
	for _, t := range h.db.VerifDump()[0] {
		if _, ok := before[t.ID]; !ok {
			id = t.ID
		}
	}
	h.xemit(fmt.Sprintf("(Reopen %d %d)", id, h.db.VerifNextTs()), fmt.Sprintf("reopen (flushed table %d, next ts %d)", id, h.db.VerifNextTs()))
	return nil
}

// ---------------------------------------------------------------------------------------
// generator

var dropKeys = [][]byte{[]byte("a"), []byte("ab"), []byte("abc"), []byte("a\xffz"), []byte("b"), []byte("ba"), {'b', 0}, []byte("c"),
	[]byte("p/1"), []byte("p/2"), []byte("p/"), []byte("q"), {0xff}, {0xff, 0xff}, []byte("a\xff")}

func (c *Ctx) dropPrefixes(h *hist, keys [][]byte) [][]byte {
	n := 1 + c.Rng.Intn(3)
	if c.Rng.Intn(20) == 0 {
		n = 0 // DropPrefix() without prefixes: a no-op
	}
	var ps [][]byte
	for i := 0; i < n; i++ {
		k := keys[c.Rng.Intn(len(keys))]
		var p []byte
		switch c.Rng.Intn(10) {
		case 0, 1:
			p = append([]byte{}, k...) // a user key itself
		case 2, 3:
			p = append([]byte{}, k[:1+c.Rng.Intn(len(k))]...) // a prefix of a key
		case 4:
			p = append(append([]byte{}, k...), 0xff) // the F20 shape: key + first byte(s) of the version suffix
			if c.Rng.Intn(2) == 0 {
				p = append(p, 0xff)
			}
		case 5:
			// key + the complete suffix of one stored version: drops exactly that version
			var vers []uint64
			for _, w := range h.ref {
				if bytes.Equal(w.Key, k) {
					vers = append(vers, w.Ver)
				}
			}
			if len(vers) > 0 {
				p = internalKey(k, vers[c.Rng.Intn(len(vers))])
				if c.Rng.Intn(2) == 0 {
					p = p[:len(p)-1-c.Rng.Intn(3)]
				}
			} else {
				p = append(append([]byte{}, k...), 'z')
			}
		case 6:
			p = append(append([]byte{}, k...), byte('a'+c.Rng.Intn(3))) // extends a key (F24 shape when a table starts with k)
		case 7:
			p = []byte("zz") // nothing stored
		case 8:
			if c.Rng.Intn(4) == 0 {
				p = []byte{} // the empty prefix: everything
			} else {
				p = []byte("p/")
			}
		default:
			if len(ps) > 0 {
				q := ps[c.Rng.Intn(len(ps))] // a prefix of a prefix
				if len(q) > 1 {
					p = append([]byte{}, q[:len(q)-1]...)
				} else {
					p = append([]byte{}, q...)
				}
			} else {
				p = append([]byte{}, k...)
			}
		}
		ps = append(ps, p)
	}
	return ps
}

func runDropHistory(c *Ctx, i int) (*hist, error) {
	managed := i%5 == 4
	o := sysOpts{Managed: managed, Detect: c.Rng.Intn(2) == 0, NKeep: []int{1, 2, 100}[c.Rng.Intn(3)], MaxLevels: 4,
		VThreshold: 32, TableSize: int64(256) << uint(c.Rng.Intn(4)), BaseLevelSize: []int64{200, 600, 2 << 10, 8 << 10}[c.Rng.Intn(4)]}
	// wide: many keys over many small tables, so that a level holds tables without any of the
	// prefixes between tables that hold some (dropPrefixes builds one compaction per run of
	// adjacent tables)
	wide := i%4 == 3
	if wide {
		o.TableSize, o.BaseLevelSize = 256, 8<<10
	}
	h, err := newHist(c, o)
	if err != nil {
		return nil, err
	}
	defer h.close()
	keys := dropKeys[:4+c.Rng.Intn(len(dropKeys)-3)]
	if wide {
		keys = nil
		for a := byte('a'); a <= 'f'; a++ {
			for d := byte('0'); d <= '7'; d++ {
				keys = append(keys, []byte{a, d})
			}
		}
	}
	nextT := 0
	var mts uint64 = 1
	value := func() []byte {
		n := c.Rng.Intn(6)
		if c.Rng.Intn(4) == 0 || (wide && c.Rng.Intn(2) == 0) {
			n = 30 + c.Rng.Intn(20)
		}
		v := make([]byte, n)
		for j := range v {
			v[j] = byte('0' + c.Rng.Intn(10))
		}
		return v
	}
	write := func() {
		t := nextT
		nextT++
		h.begin(t, true, mts)
		nw := 1 + c.Rng.Intn(4)
		if wide {
			nw = 6 + c.Rng.Intn(10)
		}
		for j, n := 0, nw; j < n; j++ {
			k := keys[c.Rng.Intn(len(keys))]
			switch c.Rng.Intn(8) {
			case 0:
				h.modify(t, k, nil, mDelete, 0, 0)
			case 1:
				h.modify(t, k, value(), mDiscard, byte(c.Rng.Intn(3)), 0)
			default:
				h.modify(t, k, value(), 0, byte(c.Rng.Intn(3)), 0)
			}
		}
		if managed {
			mts += 1 + uint64(c.Rng.Intn(2))
		}
		h.commit(t, mts)
	}
	compactSome := func() error {
		d := h.db.VerifDump()
		var ne []int
		for l := range d {
			if len(d[l]) > 0 {
				ne = append(ne, l)
			}
		}
		if len(ne) == 0 {
			return nil
		}
		_, err := h.compact(ne[c.Rng.Intn(len(ne))], false, nil)
		return err
	}
	readAll := func() {
		t := nextT
		nextT++
		h.begin(t, false, mts+1)
		for _, k := range keys {
			h.get(t, k)
		}
		h.iterate(t, itOpts{}, nil)
		h.discard(t)
	}
	build := func(n int) error {
		for s := 0; s < n; s++ {
			switch r := c.Rng.Intn(10); {
			case r < 5:
				write()
			case r < 7:
				if err := h.flush(); err != nil {
					return err
				}
			case r < 9:
				if err := compactSome(); err != nil {
					return err
				}
			default:
				if len(h.txns) < 2 && !managed {
					// a reader that stays open across the drop (holds the read watermark)
					h.begin(nextT, false, 0)
					nextT++
				}
			}
		}
		return nil
	}
	nb := 6 + c.Rng.Intn(20)
	if wide {
		nb = 24 + c.Rng.Intn(24)
	}
	if err := build(nb); err != nil {
		return h, err
	}
	for round, rounds := 0, 1+c.Rng.Intn(3); round < rounds; round++ {
		switch r := c.Rng.Intn(10); {
		case r < 7:
			stop, err := h.dropPrefix(&nextT, c.dropPrefixes(h, keys), mts+1)
			if err != nil {
				return h, err
			}
			if stop {
				h.dump()
				return h, nil
			}
		default:
			if err := h.c29DropAll(&nextT, mts+1); err != nil {
				return h, err
			}
		}
		// the database keeps accepting writes
		nf := c.nFail
		write()
		readAll()
		if c.nFail > nf {
			h.dump()
			return h, nil
		}
		if c.Rng.Intn(3) == 0 {
			if err := h.reopen(); err != nil {
				return h, err
			}
			readAll()
		}
		if err := build(c.Rng.Intn(8)); err != nil {
			return h, err
		}
	}
	if c.Rng.Intn(2) == 0 {
		if err := h.reopen(); err != nil {
			return h, err
		}
	}
	readAll()
	h.dump()
	return h, nil
}

// ---------------------------------------------------------------------------------------
// deterministic witnesses

func (h *hist) set1(nextT *int, kv ...[]byte) {
	t := *nextT
	*nextT = t + 1
	h.commit1(t, kv...)
}

// F20: keys a, a\xffz; DropPrefix("a\xff") drops key "a" too
func scenarioF20(c *Ctx) (*hist, bool, error) {
	h, err := newHist(c, sysOpts{Detect: true, NKeep: 1, MaxLevels: 4, VThreshold: 32, TableSize: 1 << 20, BaseLevelSize: 8 << 10})
	if err != nil {
		return nil, false, err
	}
	defer h.close()
	nextT := 0
	h.set1(&nextT, []byte("a"), []byte("va"))
	h.set1(&nextT, []byte("a\xffz"), []byte("vz"))
	h.set1(&nextT, []byte("b"), []byte("vb"))
	nf := c.nFail
	if _, err := h.dropPrefix(&nextT, [][]byte{[]byte("a\xff")}, 0); err != nil {
		return h, false, err
	}
	h.dump()
	return h, c.nFail > nf, nil
}

// F24: one table [a, ab, b] at the last level; DropPrefix("ab") leaves "ab" in place
func scenarioF24(c *Ctx) (*hist, bool, error) {
	h, err := newHist(c, sysOpts{Detect: true, NKeep: 1, MaxLevels: 4, VThreshold: 32, TableSize: 1 << 20, BaseLevelSize: 8 << 10})
	if err != nil {
		return nil, false, err
	}
	defer h.close()
	nextT := 0
	h.set1(&nextT, []byte("a"), []byte("va"))
	h.set1(&nextT, []byte("ab"), []byte("vab"))
	h.set1(&nextT, []byte("b"), []byte("vb"))
	if err := h.flush(); err != nil {
		return h, false, err
	}
	if ok, err := h.compact(0, false, nil); err != nil || !ok {
		return h, false, fmt.Errorf("F24 scenario: L0 compaction did not run (%v)", err)
	}
	nf := c.nFail
	if _, err := h.dropPrefix(&nextT, [][]byte{[]byte("ab")}, 0); err != nil {
		return h, false, err
	}
	h.dump()
	return h, c.nFail > nf, nil
}

// non-adjacent: a level >= 1 with several tables; two prefixes select the first and the last
// table (each also holds keys that survive), the tables in between hold none of the prefixes:
// dropPrefixes must rewrite the two runs separately, the level must stay disjoint and every
// surviving key readable. Not tied to a finding.
func scenarioDropNonAdjacent(c *Ctx) (*hist, bool, error) {
	h, err := newHist(c, sysOpts{Detect: true, NKeep: 1, MaxLevels: 4, VThreshold: 1 << 10, TableSize: 256, BaseLevelSize: 8 << 10})
	if err != nil {
		return nil, false, err
	}
	defer h.close()
	nextT := 0
	var kv [][]byte
	for a := byte('b'); a <= 'g'; a++ {
		for d := byte('1'); d <= '4'; d++ {
			kv = append(kv, []byte{a, d}, []byte(fmt.Sprintf("value-of-%c%c-%s", a, d, strings.Repeat("y", 24))))
		}
	}
	h.set1(&nextT, kv...)
	if err := h.flush(); err != nil {
		return h, false, err
	}
	if ok, err := h.compact(0, false, nil); err != nil || !ok {
		return h, false, fmt.Errorf("non-adjacent scenario: L0 compaction did not run (%v)", err)
	}
	nf := c.nFail
	if _, err := h.dropPrefix(&nextT, [][]byte{[]byte("b1"), []byte("g3"), []byte("d")}, 0); err != nil {
		return h, false, err
	}
	t := nextT
	nextT++
	h.begin(t, false, 0)
	for i := 0; i < len(kv); i += 2 {
		h.get(t, kv[i])
	}
	h.iterate(t, itOpts{}, nil)
	h.discard(t)
	h.dump()
	return h, c.nFail > nf, nil
}

// ---------------------------------------------------------------------------------------
// crash cuts of DropAll

func srcTerm(es []badger.VerifEntry) string {
	s := make([]string, len(es))
	for i, e := range es {
		s[i] = vEntTerm(e)
	}
	return ListOf(s)
}

func dumpTerm(d [][]badger.VerifTable) string {
	lv := make([]string, len(d))
	for i, l := range d {
		ts := make([]string, len(l))
		for j, t := range l {
			ts[j] = fmt.Sprintf("(%d, %s)", t.ID, srcTerm(t.Entries))
		}
		lv[i] = ListOf(ts)
	}
	return ListOf(lv)
}

var crashStages = map[string]int{"prepared": 0, "mt-wal-removed": 1, "new-memtable": 2, "tree-dropped": 3, "vlog-dropped": 3}

// crashDropAll builds a small tree (random unless witness), runs DropAll step by step,
// copies the directory at every stage, re-opens every copy and reads every key
func crashDropAll(c *Ctx, witness bool) error {
	o := sysOpts{Detect: true, NKeep: 1 + c.Rng.Intn(2), MaxLevels: 4, VThreshold: 32, TableSize: 1 << 20, BaseLevelSize: 8 << 10}
	h, err := newHist(c, o)
	if err != nil {
		return err
	}
	defer h.close()
	nextT := 0
	keys := dropKeys[:5]
	var desc []string
	if witness {
		keys = [][]byte{[]byte("k")}
		h.set1(&nextT, []byte("k"), []byte("v1"))
		h.flush()
		h.set1(&nextT, []byte("k"), []byte("v2"))
	} else {
		for s, n := 0, 3+c.Rng.Intn(10); s < n; s++ {
			switch r := c.Rng.Intn(10); {
			case r < 6:
				k := keys[c.Rng.Intn(len(keys))]
				if c.Rng.Intn(6) == 0 {
					h.set1(&nextT, k, nil)
				} else {
					v := []byte(fmt.Sprintf("v%d", s))
					if c.Rng.Intn(2) == 0 {
						// a value-log value: tables keep a pointer, DropAll deletes the value-log
						// files: a crash between the two steps must not leave a dangling pointer
						v = append(v, bytes.Repeat([]byte{'.'}, 40)...)
					}
					h.set1(&nextT, k, v)
				}
			case r < 9:
				h.flush()
			default:
				h.compact(0, false, nil)
			}
		}
	}
	desc = append(desc, h.desc...)
	mt, imm := h.db.VerifMemEntries()
	dump := h.db.VerifDump()
	immT := make([]string, len(imm))
	for i, m := range imm {
		immT[i] = srcTerm(m)
	}
	// pre-drop reads
	pre := map[string]*obsItem{}
	rtx := h.db.NewTransaction(false)
	preTs := rtx.VerifReadTs()
	for _, k := range keys {
		if it, err := rtx.Get(k); err == nil {
			oi, _ := readItem(it)
			pre[string(k)] = &oi
		}
	}
	rtx.Discard()
	root := filepath.Join(filepath.Dir(h.dir), fmt.Sprintf("crash%d", histSeq))
	defer os.RemoveAll(root)
	var stages []string
	var cerr error
	snap := func(stage string) {
		stages = append(stages, stage)
		if e := copyDir(h.dir, filepath.Join(root, stage)); e != nil {
			cerr = e
		}
	}
	// the production DropAll; the directory is copied at its verifPoint("dropall.*") lines
	// (db.go dropAll), i.e. after each persistence effect
	snap("prepared")
	badger.VerifSetController(&badger.VerifController{
		Point: func(name string, args ...uint64) {
			if strings.HasPrefix(name, "dropall.") {
				snap(strings.TrimPrefix(name, "dropall."))
			}
		},
	})
	err = h.db.DropAll()
	h.installController()
	if err != nil {
		return err
	}
	if cerr != nil {
		return cerr
	}
	if len(stages) != 5 {
		return fmt.Errorf("DropAll hook points seen: %v (expected prepared + 4 dropall.* points)", stages)
	}
	for _, st := range stages {
		cut := crashStages[st]
		db2, err := openSysDB(filepath.Join(root, st), o)
		if err != nil {
			c.Oracle(false, "c29-crash-reopen-fails", "re-open after a crash inside DropAll fails", J{"stage": st, "err": err.Error(), "history": desc})
			continue
		}
		tx := db2.NewTransaction(false)
		ts := tx.VerifReadTs()
		if ts < preTs {
			// a re-opened oracle restarts at MaxVersion: read with the pre-drop timestamp
			// semantics (everything stored is visible)
		}
		now := uint64(time.Now().Unix())
		var reads []string
		for _, k := range keys {
			var got *obsItem
			term := "GNotFound"
			if it, err := tx.Get(k); err == nil {
				oi, _ := readItem(it)
				got = &oi
				term = "(GFound " + entTerm(oi.Key, oi.Ver, oi.Meta, oi.UMeta, oi.Exp, oi.Val) + ")"
			}
			reads = append(reads, fmt.Sprintf("(%s, %d, %s)", B(k), ts, term))
			p := pre[string(k)]
			ok := got == nil || (p != nil && p.Ver == got.Ver && bytes.Equal(p.Val, got.Val))
			c.Oracle(ok, sigF15, "after a crash inside DropAll a key shows a value that is neither its pre-drop value nor absent",
				J{"stage": st, "key": k, "history": desc, "got_version": func() uint64 {
					if got != nil {
						return got.Ver
					}
					return 0
				}()})
		}
		tx.Discard()
		db2.Close()
		kind := "crash-dropall"
		if witness {
			kind = "witness-F15"
		}
		c.Case(kind, fmt.Sprintf("(CrashDropAll %s %s %s %d %d %s)", srcTerm(mt), ListOf(immT), dumpTerm(dump), cut, now, ListOf(reads)),
			J{"stage": st, "digest": digest(desc), "history": len(desc)})
	}
	return nil
}

// ---------------------------------------------------------------------------------------
// concurrent writers during a drop (oracle only)

func concurrentDrop(c *Ctx, all bool) error {
	histSeq++
	dir := filepath.Join(os.Getenv("VERIF_SCRATCH_DIR"), fmt.Sprintf("cd%d", histSeq))
	if os.Getenv("VERIF_SCRATCH_DIR") == "" {
		dir = filepath.Join(os.TempDir(), fmt.Sprintf("verif_cd%d_%d", os.Getpid(), histSeq))
	}
	os.RemoveAll(dir)
	os.MkdirAll(dir, 0o755)
	defer os.RemoveAll(dir)
	o := sysOpts{Detect: c.Rng.Intn(2) == 0, NKeep: 1, MaxLevels: 4, VThreshold: 32, TableSize: 4 << 10, BaseLevelSize: 8 << 10}
	db, err := openSysDB(dir, o)
	if err != nil {
		return err
	}
	leakDB := false
	defer func() {
		if !leakDB {
			db.Close()
		}
	}()
	for i := 0; i < 20; i++ {
		k := []byte(fmt.Sprintf("p/%d", i))
		if err := db.Update(func(t *badger.Txn) error { return t.Set(k, []byte("x")) }); err != nil {
			return err
		}
		if i == 10 {
			db.VerifFlushMemtable()
		}
	}
	type batch struct {
		g, j int
		err  error
	}
	var mu sync.Mutex
	var batches []batch
	stop := make(chan struct{})
	var wg sync.WaitGroup
	nw := 2 + c.Rng.Intn(3)
	for g := 0; g < nw; g++ {
		wg.Add(1)
		go func(g int) {
			defer wg.Done()
			for j := 0; ; j++ {
				select {
				case <-stop:
					return
				default:
				}
				err := db.Update(func(t *badger.Txn) error {
					for i := 0; i < 3; i++ {
						if err := t.Set([]byte(fmt.Sprintf("w%d-%d-%d", g, j, i)), []byte("y")); err != nil {
							return err
						}
					}
					return nil
				})
				mu.Lock()
				batches = append(batches, batch{g, j, err})
				mu.Unlock()
				if j > 3000 {
					return
				}
			}
		}(g)
	}
	time.Sleep(time.Duration(c.Rng.Intn(3000)) * time.Microsecond)
	var derr error
	dropDone := make(chan struct{})
	go func() {
		if all {
			derr = db.DropAll()
		} else {
			derr = db.DropPrefix([]byte("p/"))
		}
		close(dropDone)
	}()
	select {
	case <-dropDone:
	case <-time.After(30 * time.Second):
		// the drop never returns (finding F29): the DB is wedged, its goroutines are abandoned
		close(stop)
		c.Oracle(false, sigF29, "a drop run with concurrent committers never returns: an in-flight commit sits in writeCh with no writer goroutine while the drop waits for its timestamp",
			J{"drop": map[bool]string{true: "DropAll", false: "DropPrefix"}[all]})
		c.Count("concurrent drop hung")
		leakDB = true
		return nil
	}
	time.Sleep(time.Duration(c.Rng.Intn(1000)) * time.Microsecond)
	close(stop)
	wg.Wait()
	name := map[bool]string{true: "DropAll", false: "DropPrefix"}[all]
	c.Oracle(derr == nil, "c29-concurrent-drop-error", name+" failed with concurrent writers", J{"err": fmt.Sprint(derr)})
	present := func(k string) bool {
		ok := false
		db.View(func(t *badger.Txn) error {
			_, err := t.Get([]byte(k))
			ok = err == nil
			return nil
		})
		return ok
	}
	nOK, nBlocked, nSplit, nLost, nGhost := 0, 0, 0, 0, 0
	for _, b := range batches {
		n := 0
		for i := 0; i < 3; i++ {
			if present(fmt.Sprintf("w%d-%d-%d", b.g, b.j, i)) {
				n++
			}
		}
		switch {
		case n != 0 && n != 3:
			nSplit++
		case b.err != nil && n != 0:
			nGhost++
		case b.err == nil && n == 0 && !all:
			nLost++
		}
		if b.err == nil {
			nOK++
		} else {
			nBlocked++
		}
	}
	c.Oracle(nSplit == 0, "c29-write-split-by-drop", "a write batch concurrent with a drop is partly present", J{"drop": name, "split": nSplit})
	c.Oracle(nGhost == 0, "c29-rejected-write-visible", "a commit that returned an error during a drop is visible", J{"drop": name, "n": nGhost})
	c.Oracle(nLost == 0, "c29-acked-write-lost-by-dropprefix", "an acknowledged write outside the prefix is missing after DropPrefix", J{"n": nLost})
	gone := true
	for i := 0; i < 20; i++ {
		if present(fmt.Sprintf("p/%d", i)) {
			gone = false
		}
	}
	c.Oracle(gone, "c29-concurrent-drop-key-remains", "a pre-existing key with the prefix survives a drop run with concurrent writers", J{"drop": name})
	err = db.Update(func(t *badger.Txn) error { return t.Set([]byte("after"), []byte("z")) })
	c.Oracle(err == nil && present("after"), "c29-no-writes-after-drop", "the database does not accept writes after the drop", J{"drop": name, "err": fmt.Sprint(err)})
	c.Count(fmt.Sprintf("concurrent %s", name))
	if nBlocked > 0 {
		c.Count("concurrent: some commits blocked")
	}
	if nOK > 0 {
		c.Count("concurrent: some commits acked")
	}
	return nil
}

// F29, deterministic: a committer is held at the hook point between the blockWrites check and
// the send to writeCh; DropPrefix blocks writes, stops doWrites and drains writeCh; then the
// committer is released.  Nobody serves its request, and filterPrefixesToDrop's View waits
// for its commit timestamp.
func scenarioF29(c *Ctx) (bool, error) {
	histSeq++
	dir := filepath.Join(os.Getenv("VERIF_SCRATCH_DIR"), fmt.Sprintf("f25_%d", histSeq))
	if os.Getenv("VERIF_SCRATCH_DIR") == "" {
		dir = filepath.Join(os.TempDir(), fmt.Sprintf("verif_f25_%d_%d", os.Getpid(), histSeq))
	}
	os.RemoveAll(dir)
	os.MkdirAll(dir, 0o755)
	defer os.RemoveAll(dir)
	db, err := openSysDB(dir, sysOpts{Detect: true, NKeep: 1, MaxLevels: 4, VThreshold: 32, TableSize: 1 << 20, BaseLevelSize: 8 << 10})
	if err != nil {
		return false, err
	}
	if err := db.Update(func(t *badger.Txn) error { return t.Set([]byte("p/1"), []byte("x")) }); err != nil {
		return false, err
	}
	arrived := make(chan struct{})
	gate := make(chan struct{})
	var once sync.Once
	badger.VerifSetController(&badger.VerifController{
		Point: func(name string, args ...uint64) {
			if name == "sendToWriteCh.beforeSend" {
				first := false
				once.Do(func() { first = true })
				if first {
					close(arrived)
					<-gate
				}
			}
		},
	})
	defer badger.VerifSetController(nil)
	commitDone := make(chan error, 1)
	go func() {
		commitDone <- db.Update(func(t *badger.Txn) error { return t.Set([]byte("w"), []byte("y")) })
	}()
	<-arrived
	dropDone := make(chan error, 1)
	go func() { dropDone <- db.DropPrefix([]byte("p/")) }()
	time.Sleep(500 * time.Millisecond) // prepareToDrop: writes blocked, doWrites stopped, writeCh drained
	close(gate)
	select {
	case derr := <-dropDone:
		// no deadlock on this run (the drain came after the send): the drop and the commit must both finish
		cerr := <-commitDone
		c.Oracle(derr == nil, "c29-concurrent-drop-error", "DropPrefix failed with a commit in flight", J{"err": fmt.Sprint(derr), "commit": fmt.Sprint(cerr)})
		db.Close()
		return false, nil
	case <-time.After(5 * time.Second):
		c.Oracle(false, sigF29, "DropPrefix with a commit in flight never returns: the commit's request sits in writeCh with no writer goroutine while filterPrefixesToDrop's View waits for its timestamp; every later transaction hangs too",
			J{"scenario": "commit held at sendToWriteCh.beforeSend, DropPrefix started, commit released after the drain"})
		return true, nil // the DB is wedged: abandoned, not closed
	}
}

func init() {
	register("C29", func(c *Ctx) error {
		c.Setup("Keys Spec Lsm Compact Iter Sys Drop CorrC29", "run_case")
		for _, s := range []struct {
			id  string
			run func(c *Ctx) (*hist, bool, error)
		}{{"F20", scenarioF20}, {"F24", scenarioF24}, {"non-adjacent", scenarioDropNonAdjacent}} {
			h, rep, err := s.run(c)
			if err != nil {
				return err
			}
			c.Case("witness-"+s.id, h.c29Term(), histInput(h))
			c.Extra["witness_"+s.id+"_reproduced"] = rep
		}
		if err := crashDropAll(c, true); err != nil {
			return err
		}
		rep29, err := scenarioF29(c)
		if err != nil {
			return err
		}
		c.Extra["witness_F29_reproduced"] = rep29
		nConc := 4 + c.N/50
		for i := 0; i < nConc; i++ {
			if err := concurrentDrop(c, i%2 == 0); err != nil {
				return err
			}
		}
		for i := 0; c.nCases < c.N; i++ {
			if i%6 == 5 {
				if err := crashDropAll(c, false); err != nil {
					return err
				}
				continue
			}
			h, err := runDropHistory(c, i)
			if err != nil {
				if h != nil {
					c.Oracle(false, "harness-error:drop", err.Error(), J{"history": h.desc})
				}
				return err
			}
			c.Case("drop-history", h.c29Term(), histInput(h))
			c.Count(fmt.Sprintf("compactions=%d", min(h.nCompact, 5)))
		}
		return nil
	})
}
