package main

// C25 (oracle-only phase): ChooseKey predicates that look at the ITEM (user meta, version, value
// size), on keys with several stored versions. A Stream run delivers a key iff the version a read
// snapshot shows for it is chosen, and then exactly that version — never an older version of a
// key whose snapshot version was rejected.

import (
	"bytes"
	"context"
	"fmt"
	"os"
	"path/filepath"
	"sort"
	"sync"
	"time"

	badger "github.com/dgraph-io/badger/v4"
	"github.com/dgraph-io/badger/v4/pb"
	"github.com/dgraph-io/ristretto/v2/z"
)

func runC25ChooseByContent(c *Ctx) error {
	rounds := 3
	if c.N >= 1000 {
		rounds = 20
	}
	for r := 0; r < rounds; r++ {
		done := make(chan error, 1)
		go func() { done <- c25ChooseRound(c, r) }()
		select {
		case err := <-done:
			if err != nil {
				return err
			}
		case <-time.After(90 * time.Second):
			c.Oracle(false, "c25-choose-call-did-not-return", "a Stream run with a content-based ChooseKey did not return within 90 s", J{"round": r})
			return nil
		}
	}
	return nil
}

func c25ChooseRound(c *Ctx, r int) error {
	dir := filepath.Join(os.Getenv("VERIF_SCRATCH_DIR"), fmt.Sprintf("c25ch_%d", r))
	os.RemoveAll(dir)
	defer os.RemoveAll(dir)
	// NumVersionsToKeep = 1: the default KeyToList then sends one version per key; older versions
	// stay stored (memtable / level 0: nothing compacts here)
	db, err := openSysDB(dir, sysOpts{NKeep: 1, MaxLevels: 4, VThreshold: 32, TableSize: 1 << 20, BaseLevelSize: 8 << 10})
	if err != nil {
		return err
	}
	defer db.Close()
	type ver struct {
		um  byte
		val []byte
	}
	newest := map[string]ver{}
	nkeys := 30 + c.Rng.Intn(40)
	for round := 0; round < 2+c.Rng.Intn(3); round++ {
		err := db.Update(func(tx *badger.Txn) error {
			for i := 0; i < nkeys; i++ {
				if round > 0 && c.Rng.Intn(3) == 0 {
					continue
				}
				k := fmt.Sprintf("c%03d", i)
				v := ver{um: byte(c.Rng.Intn(3)), val: []byte(fmt.Sprintf("%s-r%d-%s", k, round, bytes.Repeat([]byte{'x'}, c.Rng.Intn(50))))}
				if err := tx.SetEntry(badger.NewEntry([]byte(k), v.val).WithMeta(v.um)); err != nil {
					return err
				}
				newest[k] = v
			}
			return nil
		})
		if err != nil {
			return err
		}
		if c.Rng.Intn(2) == 0 {
			if err := db.VerifFlushMemtable(); err != nil {
				return err
			}
		}
	}
	preds := []struct {
		name string
		f    func(um byte, val []byte) bool
	}{
		{"user-meta==1", func(um byte, val []byte) bool { return um == 1 }},
		{"user-meta!=0", func(um byte, val []byte) bool { return um != 0 }},
		{"user-meta==2", func(um byte, val []byte) bool { return um == 2 }},
	}
	for _, p := range preds {
		for _, numGo := range []int{1, 4} {
			st := db.NewStream()
			st.NumGo = numGo
			st.LogPrefix = "verif-choose"
			st.ChooseKey = func(item *badger.Item) bool {
				return p.f(item.UserMeta(), nil)
			}
			var mu sync.Mutex
			got := map[string][]ver{}
			st.Send = func(buf *z.Buffer) error {
				list, err := badger.BufferToKVList(buf)
				if err != nil {
					return err
				}
				mu.Lock()
				defer mu.Unlock()
				for _, kv := range list.Kv {
					if kv.StreamDone {
						continue
					}
					um := byte(0)
					if len(kv.UserMeta) > 0 {
						um = kv.UserMeta[0]
					}
					got[string(kv.Key)] = append(got[string(kv.Key)], ver{um: um, val: append([]byte{}, kv.Value...)})
				}
				return nil
			}
			if err := st.Orchestrate(context.Background()); err != nil {
				return fmt.Errorf("c25choose: orchestrate: %v", err)
			}
			var bad []string
			for k, v := range newest {
				g := got[k]
				want := p.f(v.um, v.val)
				switch {
				case want && len(g) != 1:
					bad = append(bad, fmt.Sprintf("%s: chosen in the snapshot, delivered %d times", k, len(g)))
				case want && (g[0].um != v.um || !bytes.Equal(g[0].val, v.val)):
					bad = append(bad, fmt.Sprintf("%s: delivered with another version's content", k))
				case !want && len(g) > 0:
					bad = append(bad, fmt.Sprintf("%s: not chosen in the snapshot (user meta %d, %d bytes) but delivered as %q", k, v.um, len(v.val), g[0].val))
				}
			}
			for k := range got {
				if _, ok := newest[k]; !ok {
					bad = append(bad, fmt.Sprintf("%s: never written", k))
				}
			}
			sort.Strings(bad)
			if len(bad) > 6 {
				bad = bad[:6]
			}
			c.Oracle(len(bad) == 0, "c25-choosekey-judged-on-a-version-the-snapshot-does-not-show",
				"a Stream run with a content-based ChooseKey delivered a key that its snapshot version does not select (or missed / duplicated a selected one)",
				J{"round": r, "predicate": p.name, "num_go": numGo, "keys": nkeys, "mismatches": bad})
		}
	}
	c.Count("choosekey-by-content-round")
	_ = pb.KV{}
	return nil
}
