package main

// C18 — SSTables return exactly the entries they were built from.
// Correspondence: real table.Builder / Table / Iterator / ConcatIterator / blockIterator against
// coq/A/Block.v + coq/A/Table.v (CorrC18.run_case).  Property oracle: reference list cursor over
// the input slice (own comparison function), metadata, VerifyChecksum.

import (
	"bytes"
	"crypto/sha256"
	"encoding/binary"
	"encoding/hex"
	"encoding/json"
	"fmt"
	"hash/adler32"
	"math"
	"os"
	"os/exec"
	"path/filepath"
	"sort"
	"strings"

	"github.com/dgraph-io/badger/v4/fb"
	"github.com/dgraph-io/badger/v4/options"
	"github.com/dgraph-io/badger/v4/pb"
	"github.com/dgraph-io/badger/v4/table"
	"github.com/dgraph-io/badger/v4/y"
	"github.com/dgraph-io/ristretto/v2"
)

func init() { register("C18", runC18) }

type kvE struct {
	K []byte
	V y.ValueStruct
}

// reference order on internal keys (>= 8 bytes): user key ascending, then the 8 suffix bytes
func c18Cmp(a, b []byte) int {
	if c := bytes.Compare(a[:len(a)-8], b[:len(b)-8]); c != 0 {
		return c
	}
	return bytes.Compare(a[len(a)-8:], b[len(b)-8:])
}

func c18Key(user []byte, ts uint64) []byte {
	out := make([]byte, len(user)+8)
	copy(out, user)
	binary.BigEndian.PutUint64(out[len(user):], math.MaxUint64-ts)
	return out
}

func c18ParseTs(k []byte) uint64 {
	if len(k) <= 8 {
		return 0
	}
	return math.MaxUint64 - binary.BigEndian.Uint64(k[len(k)-8:])
}

type c18Opts struct {
	BlockSize int
	Comp      int // 0 none 1 snappy 2 zstd
	Enc       bool
	Bloom     bool
	Chk       int
	InMem     bool
	Cache     bool
}

func (o c18Opts) String() string {
	return fmt.Sprintf("bs=%d comp=%d enc=%v bloom=%v chk=%d mem=%v cache=%v", o.BlockSize, o.Comp, o.Enc, o.Bloom, o.Chk, o.InMem, o.Cache)
}

type c18Env struct {
	c        *Ctx
	dir      string
	nextID   uint64
	idxCache *ristretto.Cache[uint64, *fb.TableIndex]
	blkCache *ristretto.Cache[[]byte, *table.Block]
	dataKey  []byte
	nProbes  int
}

func (e *c18Env) tableOptions(o c18Opts) table.Options {
	opt := table.Options{
		BlockSize:            o.BlockSize,
		ChkMode:              options.ChecksumVerificationMode(o.Chk),
		Compression:          options.CompressionType(o.Comp),
		ZSTDCompressionLevel: 1,
		TableSize:            2 << 20,
	}
	if o.Bloom {
		opt.BloomFalsePositive = 0.01
	}
	if o.Enc {
		opt.DataKey = &pb.DataKey{KeyId: 7, Data: e.dataKey}
		opt.IndexCache = e.idxCache
	}
	if o.Cache {
		opt.BlockCache = e.blkCache
	}
	return opt
}

func (c *Ctx) c18RandOpts() c18Opts {
	sizes := []int{64, 64, 100, 128, 200, 256, 512, 1024, 4096}
	bs := sizes[c.Rng.Intn(len(sizes))]
	switch c.Rng.Intn(12) {
	case 0:
		bs = 1 + c.Rng.Intn(60) // nearly every entry its own block
	case 1:
		bs = 60 + c.Rng.Intn(3000)
	}
	return c18Opts{BlockSize: bs, Comp: c.Rng.Intn(3), Enc: c.Rng.Intn(3) == 0, Bloom: c.Rng.Intn(2) == 0,
		Chk: c.Rng.Intn(4), InMem: c.Rng.Intn(2) == 0, Cache: c.Rng.Intn(4) == 0}
}

// ---- entry generators ----

func (c *Ctx) c18Value(bs int) y.ValueStruct {
	var n int
	switch c.Rng.Intn(10) {
	case 0, 1, 2:
		n = 0
	case 3, 4, 5:
		n = 1 + c.Rng.Intn(10)
	case 6, 7:
		n = c.Rng.Intn(80)
	case 8:
		n = bs/2 + c.Rng.Intn(bs+1) // around the block size
	default:
		n = c.Rng.Intn(300)
	}
	if n > 3000 {
		n = 3000
	}
	v := make([]byte, n)
	for i := range v {
		v[i] = byte(c.Rng.Intn(256))
	}
	vs := y.ValueStruct{Value: v, Meta: byte(c.Rng.Intn(256)), UserMeta: byte(c.Rng.Intn(256))}
	if c.Rng.Intn(2) == 0 {
		vs.ExpiresAt = c.u64()
	}
	return vs
}

func (c *Ctx) c18Ts() uint64 {
	switch c.Rng.Intn(3) {
	case 0:
		return uint64(c.Rng.Intn(20))
	case 1:
		return c.u64()
	}
	return uint64(c.Rng.Intn(1000))
}

// user keys of one of several shapes
func (c *Ctx) c18UserKeys(shape, n int) [][]byte {
	var out [][]byte
	switch shape {
	case 0: // shared prefix + counter
		p := c.key(40)
		base := c.Rng.Intn(1000)
		for i := 0; i < n; i++ {
			out = append(out, append(append([]byte{}, p...), []byte(fmt.Sprintf("%04d", base+i*(1+c.Rng.Intn(3))))...))
		}
	case 1: // keys that are prefixes of one another
		p := c.key(5)
		cur := append([]byte{}, p...)
		for i := 0; i < n; i++ {
			out = append(out, append([]byte{}, cur...))
			if c.Rng.Intn(5) == 0 && len(cur) > len(p) {
				cur = cur[:len(p)+c.Rng.Intn(len(cur)-len(p))]
			}
			cur = append(cur, []byte{'a', 'b', 0x00, 0xff}[c.Rng.Intn(4)])
		}
	case 2: // tiny alphabet, short (includes the empty user key)
		for i := 0; i < n; i++ {
			out = append(out, c.key(6))
		}
	case 3: // random bytes
		for i := 0; i < n; i++ {
			k := make([]byte, c.Rng.Intn(20))
			c.Rng.Read(k)
			out = append(out, k)
		}
	case 4: // few user keys (many versions each)
		m := 1 + c.Rng.Intn(4)
		var ks [][]byte
		for i := 0; i < m; i++ {
			ks = append(ks, c.key(10))
		}
		for i := 0; i < n; i++ {
			out = append(out, ks[c.Rng.Intn(m)])
		}
	default: // long shared prefix (spans block boundaries for small blocks) + short tail
		p := make([]byte, 60+c.Rng.Intn(240))
		for i := range p {
			p[i] = byte('a' + c.Rng.Intn(3))
		}
		for i := 0; i < n; i++ {
			cut := len(p)
			if c.Rng.Intn(4) == 0 {
				cut = c.Rng.Intn(len(p) + 1)
			}
			out = append(out, append(append([]byte{}, p[:cut]...), c.key(4)...))
		}
	}
	return out
}

func c18SortDedupe(es []kvE) []kvE {
	sort.SliceStable(es, func(i, j int) bool { return c18Cmp(es[i].K, es[j].K) < 0 })
	var out []kvE
	for i, e := range es {
		if i > 0 && c18Cmp(es[i-1].K, e.K) == 0 {
			continue
		}
		out = append(out, e)
	}
	return out
}

// total key+value bytes of one generated table (keeps the Coq case files small)
var c18MaxBytes = 4500

func (c *Ctx) c18Entries(n, bs int) []kvE {
	shape := c.Rng.Intn(6)
	var es []kvE
	uks := c.c18UserKeys(shape, n)
	for _, uk := range uks {
		nv := 1
		if c.Rng.Intn(6) == 0 {
			nv = 1 + c.Rng.Intn(4)
		}
		for j := 0; j < nv; j++ {
			es = append(es, kvE{K: c18Key(uk, c.c18Ts()), V: c.c18Value(bs)})
		}
	}
	es = c18SortDedupe(es)
	// keep the case small enough for the model evaluation
	tot := 0
	for i, e := range es {
		tot += len(e.K) + len(e.V.Value) + 16
		if tot > c18MaxBytes && i > 0 {
			es = es[:i]
			break
		}
	}
	return es
}

var c18EdgeCtr = -1

// a few entries with very long keys: within the 65000-byte user key limit, and around the
// uint16 limits of the block header (builder assertion / iterator uint16 arithmetic)
func (c *Ctx) c18BigEntries(edge bool) []kvE {
	var es []kvE
	mk := func(n int, fill byte, tail []byte) []byte {
		k := bytes.Repeat([]byte{fill}, n)
		copy(k[n-len(tail):], tail)
		return k
	}
	n := 1 + c.Rng.Intn(3)
	if !edge {
		lens := []int{65000, 64999, 65000 - c.Rng.Intn(2000), 30000 + c.Rng.Intn(30000)}
		for i := 0; i < n; i++ {
			l := lens[c.Rng.Intn(len(lens))]
			fill := byte('a' + c.Rng.Intn(2))
			es = append(es, kvE{K: c18Key(mk(l, fill, []byte{byte(c.Rng.Intn(256)), byte(i)}), c.c18Ts()), V: c.c18Value(64)})
		}
	} else {
		// internal key lengths around 65531..65536 (first in block) and long keys with a long overlap
		c18EdgeCtr++
		tot := []int{65532, 65531, 65535, 65536, 65530}[c18EdgeCtr%5]
		fill := byte('a')
		es = append(es, kvE{K: c18Key(mk(tot-8, fill, []byte{1}), 5), V: c.c18Value(64)})
		switch (c18EdgeCtr / 5) % 3 {
		case 1: // same long prefix, longer key: overlap large, diff small (accepted, readable)
			es = append(es, kvE{K: c18Key(mk(tot-8+1+c.Rng.Intn(200), fill, []byte{2}), 5), V: c.c18Value(64)})
		case 2: // diff beyond uint16: builder assertion
			es = append(es, kvE{K: c18Key(mk(tot-8+65530+c.Rng.Intn(10), fill, []byte{2}), 5), V: c.c18Value(64)})
		}
		if c.Rng.Intn(2) == 0 {
			es = append(es, kvE{K: c18Key([]byte("0small"), 3), V: c.c18Value(64)})
		}
	}
	return c18SortDedupe(es)
}

// ---- Coq terms ----
func c18VsTerm(v y.ValueStruct) string {
	return fmt.Sprintf("(mkVS %d %d %d %s)", v.Meta, v.UserMeta, v.ExpiresAt, c18B(v.Value))
}

// byte string term: long runs of one byte as (rp n b), the rest as chunks of primitive-integer
// literals, 7 bytes each, little endian (ib n [..]): string literals cost ~100 us per character in
// coqc 8.16 and a very long one overflows its stack
func c18B(b []byte) string {
	var parts []string
	lit := func(x []byte) {
		for len(x) > 0 {
			n := len(x)
			if n > 1400 {
				n = 1400
			}
			var sb strings.Builder
			fmt.Fprintf(&sb, "ib %d [", n)
			for i := 0; i < n; i += 7 {
				var v uint64
				for j := 0; j < 7 && i+j < n; j++ {
					v |= uint64(x[i+j]) << (8 * uint(j))
				}
				if i > 0 {
					sb.WriteByte(';')
				}
				fmt.Fprintf(&sb, "%d", v)
			}
			sb.WriteString("]%uint63")
			parts = append(parts, sb.String())
			x = x[n:]
		}
	}
	start := 0
	for i := 0; i < len(b); {
		j := i
		for j < len(b) && b[j] == b[i] {
			j++
		}
		if j-i >= 48 {
			lit(b[start:i])
			parts = append(parts, fmt.Sprintf("rp %d %d", j-i, b[i]))
			start = j
		}
		i = j
	}
	lit(b[start:])
	switch len(parts) {
	case 0:
		return "[]"
	case 1:
		return "(" + parts[0] + ")"
	}
	return "(" + strings.Join(parts, " ++ ") + ")%list"
}

// references into the current case's entry list
type c18Index struct {
	es    []kvE
	byKey map[string]int
}

var c18Cur *c18Index

func c18SetIndex(es []kvE) {
	ix := &c18Index{es: es, byKey: map[string]int{}}
	for i, e := range es {
		ix.byKey[string(e.K)] = i
	}
	c18Cur = ix
}
func c18KRef(k []byte) string {
	if i, ok := c18Cur.byKey[string(k)]; ok {
		return fmt.Sprintf("(KE %d)", i)
	}
	return "(KB " + c18B(k) + ")"
}
func c18VRef(k []byte, v y.ValueStruct) string {
	if i, ok := c18Cur.byKey[string(k)]; ok && c18VsEq(v, c18Cur.es[i].V) {
		return fmt.Sprintf("(VE %d)", i)
	}
	return "(VB " + c18VsTerm(v) + ")"
}
func c18BRef(k, enc []byte) string {
	if i, ok := c18Cur.byKey[string(k)]; ok {
		buf := make([]byte, c18Cur.es[i].V.EncodedSize())
		c18Cur.es[i].V.Encode(buf)
		if bytes.Equal(buf, enc) {
			return fmt.Sprintf("(BE %d)", i)
		}
	}
	return "(BB " + c18B(enc) + ")"
}
func c18EsTerm(es []kvE) string {
	items := make([]string, len(es))
	for i, e := range es {
		items[i] = fmt.Sprintf("(%s, %s)", c18B(e.K), c18VsTerm(e.V))
	}
	return ListOf(items)
}
func c18SpecTerm(o c18Opts, es []kvE) string {
	return fmt.Sprintf("(%d, %s, %s)", o.BlockSize, Bool(o.Enc), c18EsTerm(es))
}

// ---- building real tables ----

// returns the table, or the stage at which the implementation panicked / failed ("add", "open")
func (e *c18Env) build(o c18Opts, es []kvE) (t *table.Table, stage string, msg string) {
	opt := e.tableOptions(o)
	b := table.NewTableBuilder(opt)
	defer b.Close()
	addPanicked := false
	func() {
		defer func() {
			if r := recover(); r != nil {
				addPanicked = true
				msg = fmt.Sprint(r)
			}
		}()
		for _, kv := range es {
			b.Add(kv.K, kv.V, 0)
		}
	}()
	if addPanicked {
		func() { // let the compression goroutines end
			defer func() { _ = recover() }()
			b.Done()
		}()
		return nil, "add", msg
	}
	e.nextID++
	id := e.nextID
	func() {
		defer func() {
			if r := recover(); r != nil {
				stage = "open"
				msg = fmt.Sprint(r)
				if len(msg) > 200 {
					msg = msg[:200]
				}
				t = nil
			}
		}()
		var err error
		if o.InMem {
			data := b.Finish()
			t, err = table.OpenInMemoryTable(data, id, &opt)
		} else {
			t, err = table.CreateTable(filepath.Join(e.dir, table.IDToFilename(id)), b)
		}
		if err != nil {
			stage, msg, t = "open", err.Error(), nil
		}
	}()
	return t, stage, msg
}

func c18CloseTable(t *table.Table) {
	if t != nil {
		_ = t.DecrRef()
	}
}

// ---- seek key generator ----
func (c *Ctx) c18SeekKey(es []kvE, bases [][]byte, malformed bool) []byte {
	if malformed && c.Rng.Intn(3) == 0 {
		return c.rawBytes(7)
	}
	pick := func() []byte {
		if len(bases) > 0 && c.Rng.Intn(3) == 0 {
			return bases[c.Rng.Intn(len(bases))]
		}
		return es[c.Rng.Intn(len(es))].K
	}
	k := append([]byte{}, pick()...)
	uk, ts := k[:len(k)-8], c18ParseTsRaw(k)
	switch c.Rng.Intn(12) {
	case 0, 1, 2, 3:
		return k
	case 4:
		return c18Key(uk, ts+1)
	case 5:
		return c18Key(uk, ts-1)
	case 6:
		return c18Key(append(append([]byte{}, uk...), byte(c.Rng.Intn(256))), c.c18Ts())
	case 7:
		if len(uk) > 0 {
			return c18Key(uk[:len(uk)-1], c.c18Ts())
		}
		return c18Key(nil, math.MaxUint64)
	case 8:
		return c18Key(nil, math.MaxUint64) // smallest possible key
	case 9:
		return c18Key(bytes.Repeat([]byte{0xff}, 3+c.Rng.Intn(30)), 0)
	case 10:
		return c18Key(uk, c.u64())
	}
	return c18Key(c.key(8), c.c18Ts())
}

func c18ParseTsRaw(k []byte) uint64 {
	return math.MaxUint64 - binary.BigEndian.Uint64(k[len(k)-8:])
}

// ---- reference list cursor (property oracle) ----
type c18Ref struct {
	es    []kvE
	pos   int
	known bool
}

func (r *c18Ref) lb(k []byte) int { // first index with key >= k
	return sort.Search(len(r.es), func(i int) bool { return c18Cmp(r.es[i].K, k) >= 0 })
}
func (r *c18Ref) ub(k []byte) int { // first index with key > k
	return sort.Search(len(r.es), func(i int) bool { return c18Cmp(r.es[i].K, k) > 0 })
}
func (r *c18Ref) valid() bool { return r.pos >= 0 && r.pos < len(r.es) }

// apply an op; kind: "rewind","seek","next" with direction rev; move ops need a known valid position
func (r *c18Ref) apply(kind string, rev bool, k []byte, absorbing bool) {
	switch kind {
	case "rewind":
		r.known = true
		if rev {
			r.pos = len(r.es) - 1
		} else {
			r.pos = 0
		}
	case "seek":
		if len(k) < 8 {
			r.known = false
			return
		}
		r.known = true
		if rev {
			r.pos = r.ub(k) - 1
		} else {
			r.pos = r.lb(k)
		}
	case "next":
		if !r.known {
			return
		}
		if !r.valid() { // y.Iterator interface (fixed direction): an exhausted iterator stays exhausted
			if !absorbing {
				r.known = false
			}
			return
		}
		if rev {
			r.pos--
		} else {
			r.pos++
		}
	}
}

func c18VsEq(a, b y.ValueStruct) bool {
	return a.Meta == b.Meta && a.UserMeta == b.UserMeta && a.ExpiresAt == b.ExpiresAt && bytes.Equal(a.Value, b.Value)
}

type c18J = map[string]interface{}

// entries beyond the documented 65000-byte user key limit are outside the property's domain:
// correspondence only, no property oracle
var c18SkipOracle bool

func (c *Ctx) c18Oracle(ok bool, sig, what string, replay interface{}) {
	if c18SkipOracle {
		return
	}
	c.Oracle(ok, sig, what, replay)
}

// ---- table scripts ----
type c18TOp struct {
	kind string // Rewind Seek Next nextI prevI firstI lastI seekI seekPrevI
	key  []byte
}

func (o c18TOp) term() string {
	switch o.kind {
	case "Rewind":
		return "TRewind"
	case "Seek":
		return "(TSeek " + c18B(o.key) + ")"
	case "Next":
		return "TNext"
	case "nextI":
		return "TnextI"
	case "prevI":
		return "TprevI"
	case "firstI":
		return "TfirstI"
	case "lastI":
		return "TlastI"
	case "seekI":
		return "(TseekI " + c18B(o.key) + ")"
	}
	return "(TseekPrevI " + c18B(o.key) + ")"
}

func c18TObs(it *table.Iterator) string {
	e, bpos, idx := it.VerifState()
	val := "VN"
	if e == 0 {
		val = c18VRef(it.Key(), it.Value())
	}
	return fmt.Sprintf("Some (%d, %s, %s, %s, %s)", e, c18KRef(it.Key()), val, Zz(int64(bpos)), Zz(int64(idx)))
}

// scripts over tables with very long keys are kept short (each model step costs O(key length))
var c18ShortScripts bool

func (c *Ctx) c18ScriptLen() int {
	if c18ShortScripts {
		return 3 + c.Rng.Intn(5)
	}
	return 8 + c.Rng.Intn(30)
}

func (c *Ctx) c18GenTScript(kind int, es []kvE, bases [][]byte) (rev bool, ops []c18TOp) {
	n := len(es)
	switch kind {
	case 0, 1: // full iteration
		rev = kind == 1
		ops = append(ops, c18TOp{kind: "Rewind"})
		for i := 0; i < n+2; i++ {
			ops = append(ops, c18TOp{kind: "Next"})
		}
	case 2, 3: // random public script
		rev = kind == 3
		l := c.c18ScriptLen()
		for i := 0; i < l; i++ {
			r := c.Rng.Intn(100)
			switch {
			case i == 0 && r < 90:
				if r < 60 {
					ops = append(ops, c18TOp{kind: "Seek", key: c.c18SeekKey(es, bases, false)})
				} else {
					ops = append(ops, c18TOp{kind: "Rewind"})
				}
			case r < 8:
				ops = append(ops, c18TOp{kind: "Rewind"})
			case r < 45:
				ops = append(ops, c18TOp{kind: "Seek", key: c.c18SeekKey(es, bases, i == l-1 && c.Rng.Intn(8) == 0)})
			default:
				ops = append(ops, c18TOp{kind: "Next"})
			}
		}
	default: // unexported methods in any order
		l := c.c18ScriptLen()
		for i := 0; i < l; i++ {
			r := c.Rng.Intn(100)
			switch {
			case r < 30:
				ops = append(ops, c18TOp{kind: "nextI"})
			case r < 60:
				ops = append(ops, c18TOp{kind: "prevI"})
			case r < 65:
				ops = append(ops, c18TOp{kind: "firstI"})
			case r < 70:
				ops = append(ops, c18TOp{kind: "lastI"})
			case r < 85:
				ops = append(ops, c18TOp{kind: "seekI", key: c.c18SeekKey(es, bases, false)})
			default:
				ops = append(ops, c18TOp{kind: "seekPrevI", key: c.c18SeekKey(es, bases, false)})
			}
		}
	}
	return
}

// runs a script on a fresh iterator; returns the Coq observation list; evaluates the oracle
func (c *Ctx) c18RunTScript(e *c18Env, t *table.Table, rev bool, ops []c18TOp, es []kvE, o c18Opts, tag string) string {
	opt := 0
	if rev {
		opt = table.REVERSED
	}
	it := t.NewIterator(opt)
	defer it.Close()
	ref := &c18Ref{es: es}
	var obs []string
	for i := range ops {
		if _, bpos, _ := it.VerifState(); ops[i].kind == "nextI" && bpos < 0 && c.Rng.Intn(4) != 0 {
			// mostly avoid the process exit below so that scripts go on
			ops[i] = c18TOp{kind: []string{"prevI", "firstI", "lastI"}[c.Rng.Intn(3)]}
		}
		op := ops[i]
		if op.kind == "nextI" {
			// Iterator.next with bpos < 0 reaches Table.block's y.AssertTruef(idx >= 0): process exit
			if _, bpos, _ := it.VerifState(); bpos < 0 {
				c.Count("t-fatal-predicted")
				if e.nProbes < 25 {
					lines, died, errTail := e.runProbe(c18ProbeOf(e, o, es, rev, ops[:i+1], false))
					want := append([]string{"BUILD-OK"}, obs...)
					okp := died && strings.Contains(errTail, "idx=-1") && len(lines) == len(want)
					for j := range want {
						okp = okp && lines[j] == want[j]
					}
					c.Count("t-fatal-confirmed-in-child")
					c.Oracle(okp, "harness-fatal-probe", "child replay of a predicted y.AssertTruef exit differs: "+errTail, c18J{"opts": o.String(), "n": len(es), "op": i})
				}
				obs = append(obs, "None")
				break
			}
		}
		panicked := recoverPanic(func() { c18ApplyTOp(it, op) })
		if panicked {
			obs = append(obs, "None")
			c.Count("t-panic")
			break
		}
		obs = append(obs, c18TObs(it))
		// reference cursor
		switch op.kind {
		case "Rewind":
			ref.apply("rewind", rev, nil, true)
		case "Seek":
			ref.apply("seek", rev, op.key, true)
		case "Next":
			ref.apply("next", rev, nil, true)
		case "nextI":
			ref.apply("next", false, nil, false)
		case "prevI":
			ref.apply("next", true, nil, false)
		case "firstI":
			ref.apply("rewind", false, nil, false)
		case "lastI":
			ref.apply("rewind", true, nil, false)
		case "seekI":
			ref.apply("seek", false, op.key, false)
		case "seekPrevI":
			ref.apply("seek", true, op.key, false)
		}
		if ref.known {
			ok := it.Valid() == ref.valid()
			if ok && ref.valid() {
				ok = bytes.Equal(it.Key(), es[ref.pos].K) && c18VsEq(it.Value(), es[ref.pos].V)
			}
			sig := "table-iter-" + tag
			switch op.kind {
			case "Seek", "seekI", "seekPrevI":
				sig = "table-seek-" + tag
			}
			c.c18Oracle(ok, sig, "table iterator position differs from the list cursor over the input",
				c18J{"opts": o.String(), "n": len(es), "op": i, "kind": op.kind, "key": hex.EncodeToString(op.key), "rev": rev, "want_pos": ref.pos})
			// a mixed-direction move from an invalid position is outside the cursor contract
			if !ref.valid() && (op.kind == "nextI" || op.kind == "prevI" || op.kind == "seekI" || op.kind == "seekPrevI" || op.kind == "firstI" || op.kind == "lastI") {
				ref.known = false
			}
		}
	}
	return ListOf(obs)
}

func c18Hash(s string) string {
	h := sha256.Sum256([]byte(s))
	return hex.EncodeToString(h[:8])
}

// ---- one table case ----
func (c *Ctx) c18TableCase(e *c18Env, o c18Opts, es []kvE, kind string, full bool) {
	within := true
	for _, kv := range es {
		if len(kv.K) > 65000+8 {
			within = false
		}
	}
	c18SkipOracle = !within
	c18SetIndex(es)
	defer func() { c18SkipOracle = false }()
	var t *table.Table
	var stage, msg string
	if !within {
		// a builder assertion (y.AssertTrue: process exit) is possible: try in a child first
		_, died, errTail := e.runProbe(c18ProbeOf(e, o, es, false, nil, true))
		if died {
			stage, msg = "add", errTail
			if !strings.Contains(errTail, "Assert failed") {
				c.Oracle(false, "harness-fatal-probe", "build probe died without an assertion: "+errTail, c18J{"opts": o.String()})
			}
		}
	}
	if stage == "" {
		t, stage, msg = e.build(o, es)
	}
	defer func() { c18CloseTable(t) }()
	spec := c18SpecTerm(o, es)
	if stage == "add" {
		c.Count("build-add-panic")
		c.c18Oracle(false, "table-build-panicked", "Builder.Add panicked on valid entries: "+msg, c18J{"opts": o.String(), "n": len(es)})
		term := fmt.Sprintf("(CTable %s None None [])", spec)
		c.Case(kind, term, c18J{"opts": o.String(), "n": len(es), "h": c18Hash(term), "stage": stage})
		return
	}
	if stage == "open" {
		c.Count("build-open-fail")
		term := fmt.Sprintf("(CTable %s (Some []) None [])", spec)
		c.Case(kind, term, c18J{"opts": o.String(), "n": len(es), "h": c18Hash(term), "stage": stage, "msg": msg})
		// oracle: every entry sequence within the documented limits must produce a readable table
		c.c18Oracle(false, "table-open-failed", "table built from valid entries cannot be opened: "+msg, c18J{"opts": o.String(), "n": len(es)})
		return
	}
	// blocks
	nbk := t.VerifNumBlocks()
	fullPayload := c.Rng.Intn(5) == 0 || len(es) <= 12
	var rbs []string
	var bases [][]byte
	for i := 0; i < nbk; i++ {
		base, payload, cs, _, _, err := t.VerifBlock(i)
		if err != nil {
			c.c18Oracle(false, "table-block-read", "Table.block failed: "+err.Error(), c18J{"opts": o.String(), "block": i})
			return
		}
		bases = append(bases, base)
		pref := fmt.Sprintf("(PSum %d %d)", len(payload), adler32.Checksum(payload))
		if fullPayload {
			pref = "(PFull " + c18B(payload) + ")"
		}
		rbs = append(rbs, fmt.Sprintf("(%s, %s, %s)", c18B(base), pref, c18B(cs)))
	}
	c.Count(fmt.Sprintf("blocks-%s", c18Bucket(nbk)))
	meta := fmt.Sprintf("(%s, %s, %d, %d)", c18B(t.Smallest()), c18B(t.Biggest()), t.MaxVersion(), t.KeyCount())

	// metadata oracle
	var maxv uint64
	for _, kv := range es {
		if v := c18ParseTs(kv.K); v > maxv {
			maxv = v
		}
	}
	c.c18Oracle(bytes.Equal(t.Smallest(), es[0].K), "table-smallest", "Smallest() != first input key", c18J{"opts": o.String(), "n": len(es)})
	c.c18Oracle(bytes.Equal(t.Biggest(), es[len(es)-1].K), "table-biggest", "Biggest() != last input key", c18J{"opts": o.String(), "n": len(es)})
	c.c18Oracle(t.MaxVersion() == maxv, "table-maxversion", "MaxVersion() != max version of the input", c18J{"opts": o.String(), "n": len(es), "got": t.MaxVersion(), "want": maxv})
	c.c18Oracle(int(t.KeyCount()) == len(es), "table-keycount", "KeyCount() != number of input entries", c18J{"opts": o.String(), "n": len(es), "got": t.KeyCount()})
	err := t.VerifyChecksum()
	c.c18Oracle(err == nil, "table-checksum", fmt.Sprintf("VerifyChecksum failed: %v", err), c18J{"opts": o.String(), "n": len(es)})

	// scripts
	var scripts []string
	kinds := []int{2, 3, 4}
	if full {
		kinds = []int{0, 1, 2, 3, 4}
	}
	if c.Rng.Intn(2) == 0 && !c18ShortScripts {
		kinds = append(kinds, 2+c.Rng.Intn(3))
	}
	for _, sk := range kinds {
		rev, ops := c.c18GenTScript(sk, es, bases)
		tag := "fwd"
		if rev {
			tag = "rev"
		}
		if sk == 4 {
			tag = "mixed"
		}
		obs := c.c18RunTScript(e, t, rev, ops, es, o, tag)
		var ot []string
		for _, op := range ops {
			ot = append(ot, op.term())
		}
		scripts = append(scripts, fmt.Sprintf("(%s, %s, %s)", Bool(rev), ListOf(ot), obs))
		c.Count(fmt.Sprintf("tscript-%d", sk))
	}
	if !full {
		// full iteration checked by the oracle only (too long for a script)
		c.c18FullIterOracle(t, es, o)
	}
	term := fmt.Sprintf("(CTable %s (Some %s) (Some %s) %s)", spec, ListOf(rbs), meta, ListOf(scripts))
	c.Case(kind, term, c18J{"opts": o.String(), "n": len(es), "blocks": nbk, "h": c18Hash(term)})
}

func c18Bucket(n int) string {
	switch {
	case n <= 1:
		return "1"
	case n <= 3:
		return "2-3"
	case n <= 10:
		return "4-10"
	case n <= 50:
		return "11-50"
	}
	return "51+"
}

func (c *Ctx) c18FullIterOracle(t *table.Table, es []kvE, o c18Opts) {
	for _, rev := range []bool{false, true} {
		opt := 0
		if rev {
			opt = table.REVERSED
		}
		it := t.NewIterator(opt)
		i := 0
		ok := true
		for it.Rewind(); it.Valid(); it.Next() {
			j := i
			if rev {
				j = len(es) - 1 - i
			}
			if j < 0 || j >= len(es) || !bytes.Equal(it.Key(), es[j].K) || !c18VsEq(it.Value(), es[j].V) {
				ok = false
				break
			}
			i++
		}
		it.Close()
		c.c18Oracle(ok && i == len(es), "table-full-iteration", "Rewind/Next does not return exactly the input", c18J{"opts": o.String(), "n": len(es), "rev": rev, "at": i})
	}
}

// ---- block case ----
type c18BOp struct {
	kind string
	i    int
	key  []byte
	cur  bool
}

func (o c18BOp) term() string {
	switch o.kind {
	case "set":
		return "(BSet " + Zz(int64(o.i)) + ")"
	case "seek":
		return "(BSeek " + c18B(o.key) + " " + Bool(o.cur) + ")"
	case "next":
		return "BNext"
	case "prev":
		return "BPrev"
	case "first":
		return "BFirst"
	}
	return "BLast"
}

func (c *Ctx) c18BlockCase(e *c18Env) {
	n := 1 + c.Rng.Intn(40)
	es := c.c18Entries(n, 64)
	c18SetIndex(es)
	o := c.c18RandOpts()
	o.BlockSize = 1 << 20
	t, stage, msg := e.build(o, es)
	if stage != "" {
		c.c18Oracle(false, "table-open-failed", "single-block table cannot be built/opened: "+msg, c18J{"opts": o.String(), "n": len(es)})
		return
	}
	defer c18CloseTable(t)
	if t.VerifNumBlocks() != 1 {
		c.c18Oracle(false, "harness-single-block", "expected one block", c18J{"opts": o.String()})
		return
	}
	var scripts []string
	ns := 2 + c.Rng.Intn(3)
	for s := 0; s < ns; s++ {
		bi, err := t.VerifNewBlockIter(0)
		if err != nil {
			c.c18Oracle(false, "table-block-read", "Table.block failed: "+err.Error(), c18J{"opts": o.String()})
			return
		}
		var ops []c18BOp
		l := 6 + c.Rng.Intn(30)
		for i := 0; i < l; i++ {
			r := c.Rng.Intn(100)
			switch {
			case r < 45:
				ops = append(ops, c18BOp{kind: "set", i: c.Rng.Intn(len(es)+3) - 1})
			case r < 65:
				ops = append(ops, c18BOp{kind: "seek", key: c.c18SeekKey(es, nil, i == l-1 && c.Rng.Intn(6) == 0), cur: c.Rng.Intn(3) == 0})
			case r < 78:
				ops = append(ops, c18BOp{kind: "next"})
			case r < 90:
				ops = append(ops, c18BOp{kind: "prev"})
			case r < 95:
				ops = append(ops, c18BOp{kind: "first"})
			default:
				ops = append(ops, c18BOp{kind: "last"})
			}
		}
		var obs, ot []string
		for _, op := range ops {
			ot = append(ot, op.term())
		}
		for _, op := range ops {
			want := -100
			idxBefore, _, _, _, _, _, _ := bi.State()
			p := recoverPanic(func() {
				switch op.kind {
				case "set":
					bi.SetIdx(op.i)
					want = op.i
				case "seek":
					bi.Seek(op.key, op.cur)
				case "next":
					bi.Next()
					want = idxBefore + 1
				case "prev":
					bi.Prev()
					want = idxBefore - 1
				case "first":
					bi.First()
					want = 0
				case "last":
					bi.Last()
					want = len(es) - 1
				}
			})
			if p {
				obs = append(obs, "None")
				c.Count("b-panic")
				break
			}
			idx, eof, key, val, base, prev, _ := bi.State()
			obs = append(obs, fmt.Sprintf("Some (%s, %s, %s, %s, %s, %d)", Zz(int64(idx)), Bool(eof), c18KRef(key), c18BRef(key, val), c18KRef(base), prev))
			// oracle (C18_setidx): after any sequence of setIdx calls the key/value are those of the index
			if op.kind == "seek" && len(op.key) >= 8 {
				start := 0
				if op.cur {
					start = idxBefore
				}
				want = sort.Search(len(es), func(i int) bool { return i >= start && c18Cmp(es[i].K, op.key) >= 0 })
			}
			if want != -100 {
				ok := idx == want
				if want >= 0 && want < len(es) {
					enc := make([]byte, es[want].V.EncodedSize())
					es[want].V.Encode(enc)
					ok = ok && !eof && bytes.Equal(key, es[want].K) && bytes.Equal(val, enc)
				} else {
					ok = ok && eof
				}
				c.c18Oracle(ok, "block-setidx", "blockIterator key/value differ from the entry at the index", c18J{"opts": o.String(), "n": len(es), "op": op.kind, "idx": idx, "want": want})
			}
		}
		bi.Close()
		scripts = append(scripts, fmt.Sprintf("(%s, %s)", ListOf(ot), ListOf(obs)))
	}
	term := fmt.Sprintf("(CBlock %s %s)", c18EsTerm(es), ListOf(scripts))
	c.Case("Block", term, c18J{"opts": o.String(), "n": len(es), "h": c18Hash(term)})
}

// ---- concat case ----
type c18COp struct {
	kind string
	key  []byte
}

func (o c18COp) term() string {
	switch o.kind {
	case "Rewind":
		return "CRewind"
	case "Seek":
		return "(CSeek " + c18B(o.key) + ")"
	}
	return "CNext"
}

func (c *Ctx) c18ConcatCase(e *c18Env) {
	nt := 2 + c.Rng.Intn(3)
	if c.Rng.Intn(10) == 0 {
		nt = 1
	}
	all := c.c18Entries(nt*(2+c.Rng.Intn(25)), 128)
	if len(all) < nt {
		nt = len(all)
	}
	c18SetIndex(all)
	// split into nt consecutive non-empty runs
	cuts := map[int]bool{}
	for len(cuts) < nt-1 {
		cuts[1+c.Rng.Intn(len(all)-1)] = true
	}
	var idxs []int
	for k := range cuts {
		idxs = append(idxs, k)
	}
	sort.Ints(idxs)
	idxs = append(idxs, len(all))
	var tbls []*table.Table
	var specs []string
	var bases [][]byte
	var optsS []string
	prev := 0
	for _, cut := range idxs {
		es := all[prev:cut]
		prev = cut
		o := c.c18RandOpts()
		t, stage, msg := e.build(o, es)
		if stage != "" {
			c.c18Oracle(false, "table-open-failed", "table cannot be built/opened: "+msg, c18J{"opts": o.String(), "n": len(es)})
			for _, t := range tbls {
				c18CloseTable(t)
			}
			return
		}
		tbls = append(tbls, t)
		specs = append(specs, c18SpecTerm(o, es))
		optsS = append(optsS, o.String())
		bases = append(bases, es[0].K, es[len(es)-1].K)
	}
	defer func() {
		for _, t := range tbls {
			c18CloseTable(t)
		}
	}()
	var scripts []string
	for s := 0; s < 4; s++ {
		rev := s%2 == 1
		var ops []c18COp
		if s < 2 && len(all) <= 70 {
			ops = append(ops, c18COp{kind: "Rewind"})
			for i := 0; i < len(all)+1; i++ {
				ops = append(ops, c18COp{kind: "Next"})
			}
		} else {
			l := 8 + c.Rng.Intn(30)
			for i := 0; i < l; i++ {
				r := c.Rng.Intn(100)
				switch {
				case r < 8 || (i == 0 && r < 40):
					ops = append(ops, c18COp{kind: "Rewind"})
				case r < 45 || i == 0:
					ops = append(ops, c18COp{kind: "Seek", key: c.c18SeekKey(all, bases, i == l-1 && c.Rng.Intn(8) == 0)})
				default:
					ops = append(ops, c18COp{kind: "Next"})
				}
			}
			if c.Rng.Intn(15) == 0 {
				ops[0] = c18COp{kind: "Next"} // Next on a fresh concat iterator: nil receiver
			}
		}
		opt := 0
		if rev {
			opt = table.REVERSED
		}
		ci := table.NewConcatIterator(tbls, opt)
		ref := &c18Ref{es: all}
		var obs, ot []string
		for i := range ops {
			if ops[i].kind == "Next" && !ci.Valid() && c.Rng.Intn(5) != 0 {
				if c.Rng.Intn(3) == 0 {
					ops[i] = c18COp{kind: "Rewind"}
				} else {
					ops[i] = c18COp{kind: "Seek", key: c.c18SeekKey(all, bases, false)}
				}
			}
			op := ops[i]
			p := recoverPanic(func() {
				switch op.kind {
				case "Rewind":
					ci.Rewind()
				case "Seek":
					ci.Seek(op.key)
				default:
					ci.Next()
				}
			})
			if p {
				obs = append(obs, "None")
				c.Count("c-panic")
				break
			}
			if ci.Valid() {
				obs = append(obs, fmt.Sprintf("Some (true, %s, %s, %s)", c18KRef(ci.Key()), c18VRef(ci.Key(), ci.Value()), Zz(int64(ci.VerifIdx()))))
			} else {
				obs = append(obs, fmt.Sprintf("Some (false, (KB []), VN, %s)", Zz(int64(ci.VerifIdx()))))
			}
			switch op.kind {
			case "Rewind":
				ref.apply("rewind", rev, nil, true)
			case "Seek":
				ref.apply("seek", rev, op.key, true)
			default:
				ref.apply("next", rev, nil, true)
			}
			if ref.known {
				ok := ci.Valid() == ref.valid()
				if ok && ref.valid() {
					ok = bytes.Equal(ci.Key(), all[ref.pos].K) && c18VsEq(ci.Value(), all[ref.pos].V)
				}
				c.c18Oracle(ok, "concat-iter", "ConcatIterator position differs from the list cursor over the concatenated input",
					c18J{"opts": strings.Join(optsS, " | "), "n": len(all), "op": i, "kind": op.kind, "key": hex.EncodeToString(op.key), "rev": rev, "want_pos": ref.pos})
			}
		}
		_ = ci.Close()
		for _, op := range ops {
			ot = append(ot, op.term())
		}
		scripts = append(scripts, fmt.Sprintf("(%s, %s, %s)", Bool(rev), ListOf(ot), ListOf(obs)))
	}
	term := fmt.Sprintf("(CConcat %s %s)", ListOf(specs), ListOf(scripts))
	c.Case("Concat", term, c18J{"opts": optsS, "n": len(all), "tables": len(tbls), "h": c18Hash(term)})
}

// ---- child-process probes: y.AssertTrue / y.AssertTruef end the process (log.Fatalf), so any
// scenario predicted to hit one is replayed in a child and its exit observed ----
type c18PE struct {
	K, V string
	M, U byte
	Ex   uint64
}
type c18PO struct{ Kind, Key string }
type c18ProbeIn struct {
	Opts      c18Opts
	DataKey   string
	Es        []c18PE
	Rev       bool
	Ops       []c18PO
	BuildOnly bool
}

func c18ProbeOf(e *c18Env, o c18Opts, es []kvE, rev bool, ops []c18TOp, buildOnly bool) c18ProbeIn {
	p := c18ProbeIn{Opts: o, DataKey: hex.EncodeToString(e.dataKey), Rev: rev, BuildOnly: buildOnly}
	for _, kv := range es {
		p.Es = append(p.Es, c18PE{K: hex.EncodeToString(kv.K), V: hex.EncodeToString(kv.V.Value), M: kv.V.Meta, U: kv.V.UserMeta, Ex: kv.V.ExpiresAt})
	}
	for _, op := range ops {
		p.Ops = append(p.Ops, c18PO{Kind: op.kind, Key: hex.EncodeToString(op.key)})
	}
	return p
}

// parent side: returns the child's stdout lines, whether it died, and the tail of its stderr
func (e *c18Env) runProbe(p c18ProbeIn) (lines []string, died bool, errTail string) {
	e.nProbes++
	js, _ := json.Marshal(p)
	f := filepath.Join(e.dir, fmt.Sprintf("probe_%d.json", e.nProbes))
	if err := os.WriteFile(f, js, 0o644); err != nil {
		return nil, false, err.Error()
	}
	defer os.Remove(f)
	od := filepath.Join(e.dir, fmt.Sprintf("probe_%d_out", e.nProbes))
	defer os.RemoveAll(od)
	cmd := exec.Command(os.Args[0], "C18", "-mode", "probe", "-replay", f, "-out", od, "-n", "0")
	var so, se bytes.Buffer
	cmd.Stdout, cmd.Stderr = &so, &se
	err := cmd.Run()
	for _, l := range strings.Split(so.String(), "\n") {
		if l != "" {
			lines = append(lines, l)
		}
	}
	errTail = se.String()
	if len(errTail) > 300 {
		errTail = errTail[:300]
	}
	return lines, err != nil, errTail
}

// child side
func c18ProbeChild(c *Ctx) error {
	js, err := os.ReadFile(c.Replay)
	if err != nil {
		return err
	}
	var p c18ProbeIn
	if err := json.Unmarshal(js, &p); err != nil {
		return err
	}
	dir, err := os.MkdirTemp(os.Getenv("VERIF_SCRATCH_DIR"), "c18probe")
	if err != nil {
		return err
	}
	defer os.RemoveAll(dir)
	idxCache, _ := ristretto.NewCache[uint64, *fb.TableIndex](&ristretto.Config[uint64, *fb.TableIndex]{
		NumCounters: 1000, MaxCost: 1 << 22, BufferItems: 64})
	dk, _ := hex.DecodeString(p.DataKey)
	e := &c18Env{c: c, dir: dir, idxCache: idxCache, dataKey: dk}
	p.Opts.Cache = false
	var es []kvE
	for _, x := range p.Es {
		k, _ := hex.DecodeString(x.K)
		v, _ := hex.DecodeString(x.V)
		es = append(es, kvE{K: k, V: y.ValueStruct{Value: v, Meta: x.M, UserMeta: x.U, ExpiresAt: x.Ex}})
	}
	c18SetIndex(es)
	t, stage, msg := e.build(p.Opts, es)
	if stage != "" {
		fmt.Printf("OPEN-FAIL %s %s\n", stage, strings.ReplaceAll(msg, "\n", " "))
		return nil
	}
	fmt.Println("BUILD-OK")
	if p.BuildOnly {
		return nil
	}
	opt := 0
	if p.Rev {
		opt = table.REVERSED
	}
	it := t.NewIterator(opt)
	for _, po := range p.Ops {
		k, _ := hex.DecodeString(po.Key)
		if recoverPanic(func() { c18ApplyTOp(it, c18TOp{kind: po.Kind, key: k}) }) {
			fmt.Println("None")
			return nil
		}
		fmt.Println(c18TObs(it))
	}
	return nil
}

func c18ApplyTOp(it *table.Iterator, op c18TOp) {
	switch op.kind {
	case "Rewind":
		it.Rewind()
	case "Seek":
		it.Seek(op.key)
	case "Next":
		it.Next()
	case "nextI":
		it.VerifNext()
	case "prevI":
		it.VerifPrev()
	case "firstI":
		it.VerifSeekToFirst()
	case "lastI":
		it.VerifSeekToLast()
	case "seekI":
		it.VerifSeek(op.key)
	case "seekPrevI":
		it.VerifSeekForPrev(op.key)
	}
}

func runC18(c *Ctx) error {
	if c.Mode == "probe" {
		return c18ProbeChild(c)
	}
	c.Setup("Uvarint Keys Codec Block Table CorrC18", "run_case")
	dir := os.Getenv("VERIF_SCRATCH_DIR")
	if dir == "" {
		var err error
		dir, err = os.MkdirTemp("", "c18")
		if err != nil {
			return err
		}
		defer os.RemoveAll(dir)
	}
	idxCache, err := ristretto.NewCache[uint64, *fb.TableIndex](&ristretto.Config[uint64, *fb.TableIndex]{
		NumCounters: 1000, MaxCost: 1 << 22, BufferItems: 64})
	if err != nil {
		return err
	}
	blkCache, err := ristretto.NewCache[[]byte, *table.Block](&ristretto.Config[[]byte, *table.Block]{
		NumCounters: 10000, MaxCost: 1 << 24, BufferItems: 64, OnExit: table.BlockEvictHandler})
	if err != nil {
		return err
	}
	dk := make([]byte, []int{16, 24, 32}[c.Rng.Intn(3)])
	c.Rng.Read(dk)
	e := &c18Env{c: c, dir: dir, idxCache: idxCache, blkCache: blkCache, dataKey: dk}
	for i := 0; c.nCases < c.N; i++ {
		switch {
		case i%40 == 7: // long keys within the 65000-byte limit
			o := c.c18RandOpts()
			c18ShortScripts = true
			c.c18TableCase(e, o, c.c18BigEntries(false), "TableBigKey", true)
			c18ShortScripts = false
		case i%60 == 13: // around the uint16 limits of the block header
			o := c.c18RandOpts()
			c18ShortScripts = true
			c.c18TableCase(e, o, c.c18BigEntries(true), "TableEdgeKey", true)
			c18ShortScripts = false
		case i%7 == 3:
			c.c18BlockCase(e)
		case i%7 == 5:
			c.c18ConcatCase(e)
		default:
			o := c.c18RandOpts()
			n := 1 + c.Rng.Intn(60)
			full := true
			if c.Rng.Intn(20) == 0 {
				n = 100 + c.Rng.Intn(300)
				full = false
			}
			es := c.c18Entries(n, o.BlockSize)
			c.c18TableCase(e, o, es, "Table", full && len(es) <= 70)
		}
	}
	return nil
}
