package main

// C06 oracle-only phases that sequential histories cannot reach:
//  (a) concurrent committers whose requests are batched by doWrites while the value log rolls
//      over (tiny ValueLogMaxEntries): every value-log pointer must name the file the value
//      was written to;
//  (b) a dynamic value threshold (VLogPercentile > 0) that moves between Txn.Set and Commit:
//      every consultation of one entry must use the threshold cached at Set time.

import (
	"bytes"
	"fmt"
	"os"
	"path/filepath"
	"runtime"
	"sync"
	"time"

	badger "github.com/dgraph-io/badger/v4"
)

func c06Val(key string, seq, n int) []byte {
	b := []byte(fmt.Sprintf("%s#%d#", key, seq))
	for len(b) < n {
		b = append(b, byte('a'+len(b)%26))
	}
	return b[:n]
}

func c06ReadBack(c *Ctx, db *badger.DB, want map[string][]byte, sig, what string, extra J) {
	bad := []string{}
	db.View(func(txn *badger.Txn) error {
		for k, v := range want {
			it, err := txn.Get([]byte(k))
			if err != nil {
				bad = append(bad, fmt.Sprintf("%s: Get error %v", k, err))
				continue
			}
			got, err := it.ValueCopy(nil)
			if err != nil || !bytes.Equal(got, v) {
				bad = append(bad, fmt.Sprintf("%s: got %d bytes %q.. want %d bytes %q.. (err %v)", k, len(got), tail(string(got), 24), len(v), tail(string(v), 24), err))
			}
		}
		itr := txn.NewIterator(badger.DefaultIteratorOptions)
		defer itr.Close()
		n := 0
		for itr.Rewind(); itr.Valid(); itr.Next() {
			k := string(itr.Item().KeyCopy(nil))
			got, err := itr.Item().ValueCopy(nil)
			if w, ok := want[k]; ok && (err != nil || !bytes.Equal(got, w)) {
				bad = append(bad, fmt.Sprintf("iterator %s: got %d bytes, want %d (err %v)", k, len(got), len(w), err))
			}
			n++
		}
		if n != len(want) {
			bad = append(bad, fmt.Sprintf("iterator yielded %d keys, want %d", n, len(want)))
		}
		return nil
	})
	if len(bad) > 6 {
		bad = bad[:6]
	}
	extra["mismatches"] = bad
	c.Oracle(len(bad) == 0, sig, what, extra)
}

// runC06Concurrent runs the two phases under a watchdog: a public call that does not return
// within the deadline is reported with a goroutine dump (the scratch DB is abandoned).
func runC06Concurrent(c *Ctx) error {
	done := make(chan error, 1)
	go func() { done <- runC06ConcurrentInner(c) }()
	select {
	case err := <-done:
		return err
	case <-time.After(240 * time.Second):
		buf := make([]byte, 1<<20)
		n := runtime.Stack(buf, true)
		g := string(buf[:n])
		if len(g) > 8000 {
			g = g[:8000]
		}
		c.Oracle(false, "c06-call-did-not-return", "a commit, read or Close in the concurrent-commit / dynamic-threshold phases did not return within 240 s",
			J{"goroutines": g})
		return nil
	}
}

func runC06ConcurrentInner(c *Ctx) error {
	rounds := 3
	if c.N >= 1000 {
		rounds = 12
	}
	for r := 0; r < rounds; r++ {
		// ---- (a) batched concurrent commits across value-log rollovers ----
		dir := filepath.Join(os.Getenv("VERIF_SCRATCH_DIR"), fmt.Sprintf("c06a_%d", r))
		os.RemoveAll(dir)
		opt := badger.DefaultOptions(dir).WithLoggingLevel(badger.ERROR).WithValueThreshold(32).
			WithValueLogMaxEntries(uint32(3 + c.Rng.Intn(6))).WithMemTableSize(1 << 20).WithValueLogFileSize(1 << 20).
			WithNumVersionsToKeep(1)
		db, err := badger.Open(opt)
		if err != nil {
			return err
		}
		var mu sync.Mutex
		want := map[string][]byte{}
		var wg sync.WaitGroup
		workers := 6 + c.Rng.Intn(6)
		seeds := make([]int64, workers)
		for i := range seeds {
			seeds[i] = c.Rng.Int63()
		}
		for w := 0; w < workers; w++ {
			wg.Add(1)
			go func(w int) {
				defer wg.Done()
				for i := 0; i < 40; i++ {
					k := fmt.Sprintf("w%02d-k%d", w, i%5)
					v := c06Val(k, i, 40+int((seeds[w]+int64(i)*7)%160))
					err := db.Update(func(txn *badger.Txn) error { return txn.Set([]byte(k), v) })
					if err == nil {
						mu.Lock()
						want[k] = v
						mu.Unlock()
					}
				}
			}(w)
		}
		wg.Wait()
		c06ReadBack(c, db, want, "c06-value-differs-after-concurrent-commits",
			"a value written by one of several concurrent committers (value-log values, frequent value-log rollover) reads back differently", J{"phase": "open", "workers": workers})
		db.Close()
		db, err = badger.Open(opt)
		if err != nil {
			c.Oracle(false, "c06-reopen-failed-after-concurrent-commits", err.Error(), J{})
		} else {
			c06ReadBack(c, db, want, "c06-value-differs-after-concurrent-commits",
				"a value written by one of several concurrent committers reads back differently after re-open", J{"phase": "reopened", "workers": workers})
			db.Close()
		}
		os.RemoveAll(dir)
		c.Count("c06-concurrent-rollover-round")

		// ---- (b) threshold moving between Set and Commit ----
		dir = filepath.Join(os.Getenv("VERIF_SCRATCH_DIR"), fmt.Sprintf("c06b_%d", r))
		os.RemoveAll(dir)
		opt = badger.DefaultOptions(dir).WithLoggingLevel(badger.ERROR).WithValueThreshold(32).
			WithVLogPercentile(0.5 + 0.1*float64(c.Rng.Intn(5))).WithMemTableSize(4 << 20).WithValueLogFileSize(4 << 20)
		db, err = badger.Open(opt)
		if err != nil {
			return err
		}
		want = map[string][]byte{}
		type held struct {
			txn  *badger.Txn
			keys map[string][]byte
		}
		var open []held
		for step := 0; step < 60; step++ {
			switch c.Rng.Intn(3) {
			case 0: // a transaction that sets now and commits later
				t := db.NewTransaction(true)
				h := held{txn: t, keys: map[string][]byte{}}
				for j := 0; j < 1+c.Rng.Intn(3); j++ {
					k := fmt.Sprintf("held-%d-%d", step, j)
					v := c06Val(k, step, 33+c.Rng.Intn(400))
					if t.Set([]byte(k), v) == nil {
						h.keys[k] = v
					}
				}
				open = append(open, h)
			case 1: // traffic that moves the percentile
				sz := []int{40, 200, 1000, 5000, 20000}[c.Rng.Intn(5)]
				for j := 0; j < 8; j++ {
					k := fmt.Sprintf("traffic-%d-%d", step, j)
					v := c06Val(k, step, sz+c.Rng.Intn(sz))
					if db.Update(func(txn *badger.Txn) error { return txn.Set([]byte(k), v) }) == nil {
						want[k] = v
					}
				}
			default:
				if len(open) > 0 {
					i := c.Rng.Intn(len(open))
					if open[i].txn.Commit() == nil {
						for k, v := range open[i].keys {
							want[k] = v
						}
					}
					open = append(open[:i], open[i+1:]...)
				}
			}
		}
		for _, h := range open {
			if h.txn.Commit() == nil {
				for k, v := range h.keys {
					want[k] = v
				}
			}
		}
		c06ReadBack(c, db, want, "c06-value-differs-with-dynamic-threshold",
			"a value set while the dynamic value threshold (VLogPercentile) had another value than at Commit reads back differently", J{"phase": "open"})
		db.Close()
		os.RemoveAll(dir)
		c.Count("c06-dynamic-threshold-round")

		// ---- (c) threshold moving while ONE request is between valueLog.write and writeToLSM ----
		// a few big values raise the percentile; then one transaction carries medium values
		// (below the raised threshold) and thousands of small ones: valueLog.write hands their
		// sizes to the threshold listener, which lowers the threshold below the medium size
		// while the request's entries are still being put into the memtable
		dir = filepath.Join(os.Getenv("VERIF_SCRATCH_DIR"), fmt.Sprintf("c06c_%d", r))
		os.RemoveAll(dir)
		opt = badger.DefaultOptions(dir).WithLoggingLevel(badger.ERROR).WithValueThreshold(32).
			WithVLogPercentile([]float64{0.99, 0.95, 0.9}[r%3]).WithMemTableSize(16 << 20).WithValueLogFileSize(64 << 20)
		db, err = badger.Open(opt)
		if err != nil {
			return err
		}
		want = map[string][]byte{}
		for i := 0; i < 20; i++ {
			k := fmt.Sprintf("big-%03d", i)
			v := c06Val(k, i, 8000)
			if db.Update(func(txn *badger.Txn) error { return txn.Set([]byte(k), v) }) == nil {
				want[k] = v
			}
		}
		risen := false
		for t0 := time.Now(); time.Since(t0) < 5*time.Second; time.Sleep(time.Millisecond) {
			if db.VerifValueThreshold() > 4000 {
				risen = true
				break
			}
		}
		if risen {
			for rep := 0; rep < 3; rep++ {
				txn := db.NewTransaction(true)
				keys := map[string][]byte{}
				ok := true
				for i := 0; i < 20 && ok; i++ {
					k := fmt.Sprintf("mid-%d-%03d", rep, i)
					v := c06Val(k, i, 1500+c.Rng.Intn(1500))
					ok = txn.SetEntry(badger.NewEntry([]byte(k), v).WithMeta(byte(i+1))) == nil
					keys[k] = v
				}
				for i := 0; i < 6000 && ok; i++ {
					k := fmt.Sprintf("small-%d-%05d", rep, i)
					v := c06Val(k, i, 33+c.Rng.Intn(20))
					ok = txn.Set([]byte(k), v) == nil
					keys[k] = v
				}
				if ok && txn.Commit() == nil {
					for k, v := range keys {
						want[k] = v
					}
				} else {
					txn.Discard()
				}
				// raise it again for the next repetition
				for i := 0; i < 12; i++ {
					k := fmt.Sprintf("big-%d-%03d", rep, i)
					v := c06Val(k, i, 9000)
					if db.Update(func(txn *badger.Txn) error { return txn.Set([]byte(k), v) }) == nil {
						want[k] = v
					}
				}
				for t0 := time.Now(); time.Since(t0) < 2*time.Second && db.VerifValueThreshold() <= 4000; time.Sleep(time.Millisecond) {
				}
			}
			c06ReadBack(c, db, want, "c06-value-differs-when-threshold-moves-inside-a-write-request",
				"a value of a request whose entries were between valueLog.write and writeToLSM when the dynamic threshold moved reads back differently", J{"phase": "open"})
			c.Count("c06-threshold-inside-request-round")
		} else {
			c.Count("c06-threshold-inside-request-skipped(threshold did not rise)")
		}
		db.Close()
		os.RemoveAll(dir)
	}
	return nil
}
