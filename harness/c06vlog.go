package main

// C06, value-log half: histories of writer calls (batches of requests with exactly known
// entries, sent through DB.sendToWriteCh) on a managed-mode DB with small rotation limits.
// Observed: the value pointer stored in the memtable for every entry and the value read back
// through Txn.Get + Item.ValueCopy and through a prefetching iterator. The Coq model
// (coq/B/VlogWrite.v, theorems in props/C06.v) recomputes pointers and read-back values.
// Multi-request writer calls are forced deterministically: a gate request is held inside
// valueLog.write (hook persist.vlog.written) while the following requests queue up in writeCh,
// so doWrites hands them to one valueLog.write call.

import (
	"bytes"
	"fmt"
	"math"
	"os"
	"path/filepath"
	"strings"
	"sync"
	"sync/atomic"
	"time"

	badger "github.com/dgraph-io/badger/v4"
)

type vlEntry struct {
	PatA, PatB int // Val is the pattern byte i = PatA + i*PatB (large values)
	Pat        bool
	Key        []byte
	Ver        uint64
	Val        []byte
	Meta       byte
	UMeta      byte
	Exp        uint64
}

func (e vlEntry) term() string {
	// LogRecord.entry: key (internal: user key + 8-byte inverted version), value, meta, umeta, expires
	ik := append(append([]byte{}, e.Key...), 0, 0, 0, 0, 0, 0, 0, 0)
	v := math.MaxUint64 - e.Ver
	for i := 0; i < 8; i++ {
		ik[len(e.Key)+i] = byte(v >> (56 - 8*uint(i)))
	}
	return fmt.Sprintf("(mkEntry %s %s %d %d %d)", B(ik), e.valTerm(e.Val), e.Meta, e.UMeta, e.Exp)
}

// valTerm: the Coq term for value bytes v (the pattern term when v is this entry's pattern)
func (e vlEntry) valTerm(v []byte) string {
	if e.Pat && bytes.Equal(v, e.Val) {
		return fmt.Sprintf("(pat %d %d %d)", e.PatA, e.PatB, len(e.Val))
	}
	return B(v)
}

func runC06Vlog(c *Ctx) error {
	nh := 24
	if c.N >= 1000 {
		nh = 24 * (c.N / 120)
		if nh > 1500 {
			nh = 1500
		}
	}
	return runVlogPhase(c, nh, false)
}

// vlogForceEnc: every history of the phase runs on an encrypted DB (the C16 instance: records of
// one request are encrypted with the IV of their own offset, and read back through that offset)
var vlogForceEnc bool

func runVlogPhase(c *Ctx, nh int, forceEnc bool) error {
	vlogForceEnc = forceEnc
	c.Setup("Uvarint Keys Codec Crc32c LogRecord Consts VlogWrite CorrVlog", "run_case")
	defer c.closeShard()
	for i := 0; i < nh; i++ {
		done := make(chan error, 1)
		go func() { done <- c06VlogHist(c, i) }()
		select {
		case err := <-done:
			if err != nil {
				return err
			}
		case <-time.After(120 * time.Second):
			c.Oracle(false, "c06-vlog-call-did-not-return", "a write request, read or Close in the value-log history did not return within 120 s", J{"history": i})
			return nil
		}
	}
	return nil
}

func c06VlogHist(c *Ctx, idx int) error {
	dir := filepath.Join(os.Getenv("VERIF_SCRATCH_DIR"), fmt.Sprintf("c06v_%d", idx))
	if os.Getenv("VERIF_SCRATCH_DIR") == "" {
		dir = filepath.Join(os.TempDir(), fmt.Sprintf("verif_c06v_%d_%d", os.Getpid(), idx))
	}
	os.RemoveAll(dir)
	defer os.RemoveAll(dir)
	const threshold = 32
	fileSize := int64(1 << 20)
	maxEntries := uint32(2 + c.Rng.Intn(7))
	big := idx%24 == 11 && !vlogForceEnc // rotation by size: values of tens of kilobytes
	if big {
		maxEntries = 1000
	}
	opt := badger.DefaultOptions(dir).WithLoggingLevel(badger.ERROR).WithValueThreshold(threshold).
		WithValueLogMaxEntries(maxEntries).WithValueLogFileSize(fileSize).WithMemTableSize(8 << 20).
		WithNumCompactors(0).WithNumVersionsToKeep(1000).WithMetricsEnabled(false).WithCompactL0OnClose(false)
	encrypted := idx%4 == 2 || vlogForceEnc
	if encrypted {
		// the record cipher uses an IV derived from the record's own offset: pointers and
		// read-back values must be those of the plain model (the cipher is an involution)
		key := make([]byte, 32)
		for j := range key {
			key[j] = byte(c.Rng.Intn(256))
		}
		opt = opt.WithEncryptionKey(key).WithIndexCacheSize(1 << 20)
		c.Count("VlogEncrypted")
	}
	db, err := badger.OpenManaged(opt)
	if err != nil {
		return err
	}
	closed := false
	defer func() {
		if !closed {
			db.Close()
		}
	}()

	// gate: hold the writer inside valueLog.write
	var armed atomic.Bool
	gate := make(chan struct{})
	inGate := make(chan struct{}, 1)
	badger.VerifSetController(&badger.VerifController{Point: func(name string, args ...uint64) {
		if name == "persist.vlog.written" && armed.CompareAndSwap(true, false) {
			inGate <- struct{}{}
			<-gate
		}
	}})
	defer badger.VerifSetController(nil)

	sizes := []int{0, 1, 5, 31, 32, 33, 40, 64, 200, 700}
	ver := uint64(0)
	seq := 0
	bigBytes := 0
	mkEntry := func() vlEntry {
		seq++
		ver += uint64(c.Rng.Intn(3))
		if ver == 0 {
			ver = 1
		}
		n := sizes[c.Rng.Intn(len(sizes))]
		if big && bigBytes < 1150000 && c.Rng.Intn(10) < 7 {
			n = 50000 + c.Rng.Intn(20000)
			bigBytes += n
		}
		val := make([]byte, n)
		pa, pb, isPat := 0, 0, false
		if n > 2000 {
			pa, pb, isPat = c.Rng.Intn(256), 1+c.Rng.Intn(255), true
			for j := range val {
				val[j] = byte(pa + j*pb)
			}
		} else {
			for j := range val {
				val[j] = byte(c.Rng.Intn(256))
			}
		}
		key := []byte(fmt.Sprintf("%s%03d", []string{"a", "ab", "k\x00", "z\xff"}[c.Rng.Intn(4)], seq))
		metas := []byte{0, 0, 0, 4, 64, 64 | 4}
		e := vlEntry{PatA: pa, PatB: pb, Pat: isPat, Key: key, Ver: ver, Val: val, Meta: metas[c.Rng.Intn(len(metas))], UMeta: byte(c.Rng.Intn(4))}
		if c.Rng.Intn(6) == 0 {
			e.Exp = uint64(time.Now().Unix()) + 100000 + uint64(c.Rng.Intn(1000))
		}
		return e
	}
	mkReq := func() []vlEntry {
		n := 1 + c.Rng.Intn(5)
		if big {
			n = 1 + c.Rng.Intn(2)
		}
		var r []vlEntry
		for j := 0; j < n; j++ {
			r = append(r, mkEntry())
		}
		return r
	}
	send := func(r []vlEntry) (func() error, error) {
		var es []*badger.Entry
		for _, e := range r {
			es = append(es, badger.VerifRawEntry(e.Key, e.Ver, e.Val, e.Meta, e.UMeta, e.Exp))
		}
		return db.VerifSendEntries(es)
	}

	var calls [][][]vlEntry
	ncalls := 3 + c.Rng.Intn(6)
	if big {
		ncalls = 9
	}
	var desc []string
	for ci := 0; ci < ncalls; ci++ {
		k := 1
		if c.Rng.Intn(2) == 0 {
			k = 2 + c.Rng.Intn(3)
		}
		if k == 1 {
			r := mkReq()
			w, err := send(r)
			if err != nil {
				return fmt.Errorf("c06vlog: send: %v", err)
			}
			if err := w(); err != nil {
				return fmt.Errorf("c06vlog: request failed: %v", err)
			}
			calls = append(calls, [][]vlEntry{r})
			desc = append(desc, fmt.Sprintf("call[%d]", len(r)))
			continue
		}
		// gate request, then k requests that pile up behind it
		g := mkReq()
		armed.Store(true)
		wg0, err := send(g)
		if err != nil {
			return fmt.Errorf("c06vlog: send: %v", err)
		}
		gated := true
		select {
		case <-inGate:
		case <-time.After(20 * time.Second):
			// the gate request had nothing for the value log?  persist.vlog.written is reached
			// for every request, so this is a hang
			gated = false
		}
		if !gated {
			armed.Store(false)
			c.Oracle(false, "c06-vlog-writer-never-reached-value-log", "the writer did not reach valueLog.write for a request within 20 s", J{"history": idx})
			return nil
		}
		var batch [][]vlEntry
		var waits []func() error
		for j := 0; j < k; j++ {
			r := mkReq()
			w, err := send(r)
			if err != nil {
				close(gate)
				return fmt.Errorf("c06vlog: send: %v", err)
			}
			batch = append(batch, r)
			waits = append(waits, w)
		}
		// let doWrites drain writeCh into its pending batch
		for t := 0; t < 2000 && db.VerifWriteChLen() > 0; t++ {
			time.Sleep(time.Millisecond)
		}
		time.Sleep(2 * time.Millisecond)
		gate <- struct{}{}
		if err := wg0(); err != nil {
			return fmt.Errorf("c06vlog: gate request failed: %v", err)
		}
		for _, w := range waits {
			if err := w(); err != nil {
				return fmt.Errorf("c06vlog: request failed: %v", err)
			}
		}
		calls = append(calls, [][]vlEntry{g}, batch)
		desc = append(desc, fmt.Sprintf("call[%d] call%v", len(g), func() []int {
			var l []int
			for _, r := range batch {
				l = append(l, len(r))
			}
			return l
		}()))
	}

	// observed pointers
	type kv struct {
		k string
		v uint64
	}
	ptr := map[kv]badger.VerifVptrEntry{}
	for _, e := range db.VerifMemPointers() {
		ptr[kv{string(e.Key), e.Version}] = e
	}
	// read back: Get + ValueCopy, and a prefetching iterator over all versions
	iterVals := map[kv][]byte{}
	func() {
		tx := db.NewTransactionAt(math.MaxUint64, false)
		defer tx.Discard()
		o := badger.DefaultIteratorOptions
		o.AllVersions = true
		o.PrefetchValues = true
		o.PrefetchSize = 3
		it := tx.NewIterator(o)
		defer it.Close()
		for it.Rewind(); it.Valid(); it.Next() {
			item := it.Item()
			v, err := item.ValueCopy(nil)
			if err == nil {
				if v == nil {
					v = []byte{}
				}
				iterVals[kv{string(item.KeyCopy(nil)), item.Version()}] = v
			}
		}
	}()
	var callT, ptrT, valT []string
	var mism []string
	nEntries, nVlog := 0, 0
	for _, cl := range calls {
		var rT, rpT, rvT []string
		for _, r := range cl {
			var eT, pT, vT []string
			for _, e := range r {
				nEntries++
				eT = append(eT, e.term())
				p, ok := ptr[kv{string(e.Key), e.Ver}]
				if !ok {
					mism = append(mism, fmt.Sprintf("%x@%d not in the memtable", e.Key, e.Ver))
				}
				if p.InVlog {
					nVlog++
				}
				pT = append(pT, fmt.Sprintf("(mkVptr %d %d %d)", p.Fid, p.Len, p.Offset))
				// read through Get at exactly this version
				var got []byte
				var gerr error
				var gm, gu byte
				var gexp uint64
				func() {
					tx := db.NewTransactionAt(e.Ver, false)
					defer tx.Discard()
					item, err := tx.Get(e.Key)
					if err != nil {
						gerr = err
						return
					}
					if item.Version() != e.Ver {
						gerr = fmt.Errorf("version %d", item.Version())
						return
					}
					gu, gexp = item.UserMeta(), item.ExpiresAt()
					if item.DiscardEarlierVersions() {
						gm = 4
					}
					got, gerr = item.ValueCopy(nil)
				}()
				if gerr != nil {
					vT = append(vT, "None")
					mism = append(mism, fmt.Sprintf("%x@%d: %v", e.Key, e.Ver, gerr))
				} else {
					if got == nil {
						got = []byte{}
					}
					vT = append(vT, Some(e.valTerm(got)))
					if !bytes.Equal(got, e.Val) || gu != e.UMeta || gexp != e.Exp || gm != e.Meta&4 {
						mism = append(mism, fmt.Sprintf("%x@%d: Get returned %d value bytes (first differing content), umeta %d exp %d", e.Key, e.Ver, len(got), gu, gexp))
					}
					if iv, ok := iterVals[kv{string(e.Key), e.Ver}]; !ok || !bytes.Equal(iv, e.Val) {
						mism = append(mism, fmt.Sprintf("%x@%d: prefetching iterator returned a different value (present=%v)", e.Key, e.Ver, ok))
					}
				}
			}
			rT = append(rT, ListOf(eT))
			rpT = append(rpT, ListOf(pT))
			rvT = append(rvT, ListOf(vT))
		}
		callT = append(callT, ListOf(rT))
		ptrT = append(ptrT, ListOf(rpT))
		valT = append(valT, ListOf(rvT))
	}
	if len(mism) > 6 {
		mism = mism[:6]
	}
	c.Oracle(len(mism) == 0, "c06-vlog-value-or-metadata-differs-after-batched-writes",
		"a value, user meta, expiry or discard flag read back (Get / prefetching iterator) differs from what the write request stored",
		J{"history": idx, "calls": strings.Join(desc, " "), "max_entries": maxEntries, "mismatches": mism})
	maxFid, _, _ := db.VerifVlogHead()
	c.Count(fmt.Sprintf("VlogFiles=%d", minInt(int(maxFid), 9)))
	c.kinds["vlog_entries"] += nEntries
	c.kinds["vlog_entries_in_value_log"] += nVlog
	term := fmt.Sprintf("(VlogHist %d %d %d %s %s %s)", fileSize, maxEntries, threshold, ListOf(callT), ListOf(ptrT), ListOf(valT))
	c.Case("vlog-hist", term, J{"history": idx, "seed": c.Seed, "calls": strings.Join(desc, " "), "max_entries": maxEntries, "big": big})
	closed = true
	var once sync.Once
	cerr := make(chan error, 1)
	go func() { once.Do(func() { cerr <- db.Close() }) }()
	select {
	case err := <-cerr:
		if err != nil {
			return fmt.Errorf("c06vlog: close: %v", err)
		}
	case <-time.After(60 * time.Second):
		c.Oracle(false, "c06-vlog-close-did-not-return", "Close did not return within 60 s after the value-log history", J{"history": idx})
	}
	return nil
}

func minInt(a, b int) int {
	if a < b {
		return a
	}
	return b
}
