package main

// Property-specific history profiles over the shared system model.

func init() {
	register("C12", func(c *Ctx) error {
		return runSysProfile(c, func(i int) *profile {
			p := &profile{name: "compaction", wBegin: 5, wModify: 16, wGet: 6, wIter: 3, wCommit: 8, wDiscard: 1, wFlush: 8, wCompact: 9, wL0L0: 2, wDump: 1,
				nOps: 60 + c.Rng.Intn(60), keys: keySetA[:3+c.Rng.Intn(6)], allVersions: true, reverse: true, expiry: true, discardBit: true,
				nkeeps: []int{1, 1, 2, 3}, detect: false, bigValues: i%3 == 0}
			if i%4 == 1 { // L0->L0 heavy
				p.wFlush, p.wL0L0, p.wCompact, p.wModify, p.wCommit = 20, 8, 1, 20, 12
			}
			if i%4 == 3 {
				// the same key@version written again (managed write batches) with a flush in between:
				// two level-0 tables hold it, the newer table's copy is the one reads return, and the
				// compaction of both must keep that one (no L0->L0 here: that is finding F8)
				p.managed, p.monotone, p.dupVersions = true, true, true
				p.wBatch, p.wFlush, p.wCompact, p.wL0L0, p.wGet = 10, 12, 6, 0, 10
				p.keys = keySetA[:2+c.Rng.Intn(2)]
			}
			return p
		})
	})
}

func init() {
	// C04: read-your-writes: long single transactions over a committed snapshot
	register("C04", func(c *Ctx) error {
		return runSysProfile(c, func(i int) *profile {
			return &profile{name: "own-writes", wBegin: 2, wModify: 20, wGet: 14, wIter: 10, wCommit: 2, wDiscard: 1, wFlush: 2, wCompact: 1,
				nOps: 40 + c.Rng.Intn(40), keys: keySetA[:3+c.Rng.Intn(9)], reverse: true, prefix: true, since: true, expiry: true,
				nkeeps: []int{1}, detect: true}
		})
	})
	// C05: iterators over data spread across memtable / L0 / deeper levels, all options
	register("C05", func(c *Ctx) error {
		return runSysProfile(c, func(i int) *profile {
			p := &profile{name: "iterators", wBegin: 4, wModify: 14, wGet: 2, wIter: 16, wCommit: 7, wDiscard: 1, wFlush: 5, wCompact: 4, wL0L0: 1,
				nOps: 50 + c.Rng.Intn(50), keys: keySetA[:4+c.Rng.Intn(8)], allVersions: true, reverse: true, prefix: true, since: true, expiry: true, discardBit: true,
				nkeeps: []int{1, 3, 100}, detect: false}
			if i%3 == 2 {
				// table picking (IteratorOptions.pickTables: Prefix and SinceTs filters over levels
				// with many small tables), then plain reads of the same levels
				p.tableSize, p.valLen, p.prefixSince = 256, 12, true
				p.wFlush, p.wCompact, p.wGet, p.nOps = 8, 10, 8, 90+c.Rng.Intn(60)
				p.keys = keySetA[:8+c.Rng.Intn(4)]
			}
			return p
		})
	})
	// C06: values around the value threshold (32): inline and value-log placements
	register("C06", func(c *Ctx) error {
		if err := runC06Vlog(c); err != nil {
			return err
		}
		if err := runC06Concurrent(c); err != nil {
			return err
		}
		return runSysProfile(c, func(i int) *profile {
			return &profile{name: "values", wBegin: 4, wModify: 16, wGet: 12, wIter: 6, wCommit: 8, wDiscard: 1, wFlush: 4, wCompact: 3,
				nOps: 40 + c.Rng.Intn(40), keys: keySetA[:4+c.Rng.Intn(6)], allVersions: true, reverse: true, expiry: true, discardBit: true,
				nkeeps: []int{1, 2}, detect: false, bigValues: true}
		})
	})
	// C13: retention: many versions per key, NumVersionsToKeep, discard bit, TTL, deep compaction
	register("C13", func(c *Ctx) error {
		return runSysProfile(c, func(i int) *profile {
			p := &profile{name: "retention", wBegin: 5, wModify: 18, wGet: 3, wIter: 8, wCommit: 10, wDiscard: 1, wFlush: 7, wCompact: 9, wL0L0: 1, wDump: 2,
				nOps: 70 + c.Rng.Intn(60), keys: keySetA[:2+c.Rng.Intn(3)], allVersions: true, expiry: true, discardBit: true,
				nkeeps: []int{1, 2, 3, 1 << 30}, detect: false}
			if i%3 == 0 {
				p.managed, p.monotone, p.wSetDiscard = true, true, 4
			}
			if i%2 == 1 {
				// many keys with several versions each and tiny tables: compaction outputs split into
				// several tables, so that per-key state carried across a table break is exercised
				p.keys, p.valLen, p.tableSize, p.nkeeps = keySetA[:6+c.Rng.Intn(6)], 12, 256, []int{2, 3}
				p.wModify, p.wCommit, p.wBegin, p.wDiscard = 24, 12, 7, 3
				p.nOps, p.finalCompact, p.wGet, p.wIter = 160+c.Rng.Intn(80), true, 1, 2
			}
			return p
		})
	})
	// C27: write batches, tiny memtable so that batches split
	register("C27", func(c *Ctx) error {
		return runSysProfile(c, func(i int) *profile {
			p := &profile{name: "batch", wBegin: 2, wModify: 2, wGet: 6, wIter: 3, wCommit: 2, wDiscard: 1, wFlush: 2, wCompact: 1, wBatch: 10,
				nOps: 25 + c.Rng.Intn(25), keys: keySetA[:3+c.Rng.Intn(6)], allVersions: true,
				nkeeps: []int{1, 100}, detect: false, memSize: 1 << 20}
			if i%2 == 1 {
				p.managed, p.monotone, p.dupVersions = true, true, true
			}
			if i%4 >= 2 {
				// batches larger than one internal transaction (tiny memtable: about a dozen
				// entries per transaction): the batch commits and continues in a new transaction,
				// also when the call that does not fit re-writes a pending key at another version
				p.memSize, p.batchMax, p.wModify, p.wBatch, p.flushAfterBatch = 8<<10, 40, 0, 14, true
				p.keys = keySetA[:3+c.Rng.Intn(3)]
			}
			return p
		})
	})
	// C33: expiry
	register("C33", func(c *Ctx) error {
		return runSysProfile(c, func(i int) *profile {
			p := &profile{name: "expiry", wBegin: 5, wModify: 18, wGet: 8, wIter: 6, wCommit: 9, wDiscard: 1, wFlush: 8, wCompact: 9, wL0L0: 1,
				nOps: 60 + c.Rng.Intn(60), keys: keySetA[:3+c.Rng.Intn(4)], allVersions: true, reverse: true, expiry: true,
				nkeeps: []int{1, 2}, detect: false, bigValues: i%2 == 0}
			if i%3 == 1 {
				// expired newest versions compacted inside level 0 while older live versions sit
				// in deeper levels (the compaction overlaps lower levels: the expired entry must
				// be kept as a marker)
				p.wFlush, p.wL0L0, p.wCompact, p.wModify, p.wCommit, p.wGet = 20, 8, 2, 20, 12, 10
			}
			return p
		})
	})
	// C36: managed mode, caller-chosen timestamps
	register("C36", func(c *Ctx) error {
		if err := runC36ImmMemtables(c); err != nil {
			return err
		}
		return runSysProfile(c, func(i int) *profile {
			p := &profile{name: "managed", managed: true, monotone: true, wBegin: 6, wModify: 14, wGet: 10, wIter: 5, wCommit: 8, wDiscard: 1, wFlush: 4, wCompact: 5, wSetDiscard: 3, wBatch: 3,
				nOps: 50 + c.Rng.Intn(50), keys: keySetA[:3+c.Rng.Intn(6)], allVersions: true, reverse: true, discardBit: true,
				nkeeps: []int{1, 2, 100}, detect: i%2 == 0}
			if i%3 == 2 {
				// caller-chosen timestamps in any order (no discard timestamp, so nothing is ever
				// dropped and finding F10 cannot interfere): newer versions below older ones
				p.monotone, p.wSetDiscard, p.detect = false, 0, false
				p.wFlush, p.wCompact, p.wGet = 8, 8, 14
			}
			return p
		})
	})
}
