package main

// Property-specific history profiles over the shared system model.

func init() {
	register("C12", func(c *Ctx) error {
		return runSysProfile(c, func(i int) *profile {
			p := &profile{name: "compaction", wBegin: 5, wModify: 16, wGet: 6, wIter: 3, wCommit: 8, wDiscard: 1, wFlush: 8, wCompact: 9, wL0L0: 2, wDump: 1,
				nOps: 60 + c.Rng.Intn(60), keys: keySetA[:3+c.Rng.Intn(6)], allVersions: true, reverse: true, expiry: true, discardBit: true,
				nkeeps: []int{1, 1, 2, 3}, detect: false, bigValues: i%3 == 0}
			if i%4 == 1 { // L0->L0 heavy
				p.wFlush, p.wL0L0, p.wCompact, p.wModify, p.wCommit = 20, 8, 1, 20, 12
			}
			return p
		})
	})
}
