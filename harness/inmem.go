package main

// C37 — in-memory mode behaves like the on-disk database and touches no files.
//
// One generated call sequence is executed twice: on a real on-disk DB (value threshold 32, so
// that values are placed both inline and in the value log) and on a real in-memory DB (value
// threshold = the in-memory limit, 1024).  Each run yields its own label list (labels carry
// what that run observed); both lists are replayed by the Coq model of their mode
// (corr/CorrC37.v: two cases per history).  Oracles (Go, no model involved):
//   c37-inmemory-read-differs   a read / write / commit result differs between the two runs
//   c37-inmemory-touched-files  the in-memory run created, modified or kept open a file
// plus the reference-MVCC oracle of sys.go on both runs.
// Histories larger than one memtable (automatic rotations by ensureRoomForWrite, both runs in
// child processes): inmemvol.go.

import (
	"bytes"
	"errors"
	"fmt"
	"math"
	"os"
	"path/filepath"
	"sort"
	"strconv"
	"strings"
	"time"

	badger "github.com/dgraph-io/badger/v4"
)

const (
	c37ThrDisk  = 32   // on-disk value threshold: values >= 32 bytes go to the value log
	c37ThrInMem = 1024 // in-memory value threshold = the in-memory value limit
)

func openModeDB(dir string, o sysOpts, thr int64) (*badger.DB, error) {
	opt := badger.DefaultOptions(dir)
	if o.InMemory {
		opt = badger.DefaultOptions("").WithInMemory(true)
	}
	opt = opt.WithLoggingLevel(badger.ERROR).WithNumCompactors(0).WithNumLevelZeroTables(1000).
		WithNumLevelZeroTablesStall(2000).WithMemTableSize(memSize(o)).WithValueLogFileSize(1 << 20).
		WithNumVersionsToKeep(o.NKeep).WithDetectConflicts(o.Detect).WithMaxLevels(o.MaxLevels).
		WithBaseTableSize(o.TableSize).WithBaseLevelSize(o.BaseLevelSize).WithLevelSizeMultiplier(2).
		WithNumMemtables(8).WithBlockSize(64).WithMetricsEnabled(false).WithCompactL0OnClose(false).
		WithValueThreshold(thr)
	if len(o.EncKey) > 0 {
		opt = opt.WithEncryptionKey(o.EncKey).WithIndexCacheSize(1 << 20).WithBlockCacheSize(1 << 20)
	}
	if o.Managed {
		return badger.OpenManaged(opt)
	}
	return badger.Open(opt)
}

// newHistOn wraps an already opened DB in the history machinery of sys.go
func newHistOn(c *Ctx, o sysOpts, dir string, db *badger.DB) *hist {
	h := &hist{c: c, o: o, dir: dir, db: db, txns: map[int]*badger.Txn{}, tupd: map[int]bool{}, tpend: map[int][]refWrite{}}
	h.next0 = db.VerifNextTs()
	h.activate()
	h.emit(fmt.Sprintf("(SetNow %d)", time.Now().Unix()), "now")
	return h
}

// activate points the (process-global) verif controller at this history
func (h *hist) activate() {
	badger.VerifSetController(&badger.VerifController{
		Point: func(name string, args ...uint64) {
			if name == "subcompact.discardTs" {
				h.mu.Lock()
				h.cdisc = args[0]
				h.mu.Unlock()
			}
		},
		NewTables: func(info *badger.VerifCompactInfo) {
			h.mu.Lock()
			h.cinfo = info
			h.cgot = true
			h.mu.Unlock()
		},
	})
}

func scratchDir(name string) string {
	histSeq++
	base := os.Getenv("VERIF_SCRATCH_DIR")
	if base == "" {
		base = filepath.Join(os.TempDir(), fmt.Sprintf("verif_%d", os.Getpid()))
	}
	dir := filepath.Join(base, fmt.Sprintf("%s%d", name, histSeq))
	os.RemoveAll(dir)
	os.MkdirAll(dir, 0o755)
	return dir
}

// xterm: labels of this file's wrapper type carry the prefix "X:", everything else is a Sys.op
func xterms(ops []string) string {
	out := make([]string, len(ops))
	for i, o := range ops {
		if strings.HasPrefix(o, "X:") {
			out[i] = o[2:]
		} else {
			out[i] = "(Base " + o + ")"
		}
	}
	return strings.Join(out, ";\n  ")
}

func (h *hist) termM(thr int64) string {
	return fmt.Sprintf("(HistM %s %d %s %s %d %d %d [\n  %s])", Bool(h.o.InMemory), thr, Bool(h.o.Managed), Bool(h.o.Detect),
		h.o.NKeep, h.o.MaxLevels, h.next0, packHex(xterms(h.ops)))
}

// ---- labels of the wrapper ----
func (h *hist) dropAll() error {
	if err := h.db.DropAll(); err != nil {
		return err
	}
	h.ref = nil // the specification: nothing committed so far survives
	h.emit("X:DropAll", "dropall")
	return nil
}

func numList(xs []uint64) string {
	sort.Slice(xs, func(i, j int) bool { return xs[i] < xs[j] })
	return idList(xs)
}

// files: the directory listing of an on-disk DB as a label (not emitted in in-memory mode)
func (h *hist) files() {
	if h.o.InMemory {
		return
	}
	ents, err := os.ReadDir(h.dir)
	if err != nil {
		return
	}
	var sst, mem, vlog []uint64
	for _, e := range ents {
		n := e.Name()
		for _, x := range []struct {
			ext string
			dst *[]uint64
		}{{".sst", &sst}, {".mem", &mem}, {".vlog", &vlog}} {
			if strings.HasSuffix(n, x.ext) {
				if id, err := strconv.ParseUint(strings.TrimSuffix(n, x.ext), 10, 64); err == nil {
					*x.dst = append(*x.dst, id)
				}
			}
		}
	}
	h.emit(fmt.Sprintf("X:(Files %s %s %s)", numList(sst), numList(mem), numList(vlog)),
		fmt.Sprintf("files sst=%v mem=%v vlog=%v", sst, mem, vlog))
}

// modifyX: Txn.SetEntry with the exceedsSize error mapped to code 7
func (h *hist) modifyX(t int, k, v []byte, umeta byte) {
	tx := h.txns[t]
	err := tx.SetEntry(badger.NewEntry(k, v).WithMeta(umeta))
	code := errCode(err)
	if err != nil && strings.Contains(err.Error(), "exceeded") {
		code = 7
	}
	h.emit(fmt.Sprintf("(Modify %d %s %d)", t, entTerm(k, 0, 0, umeta, 0, v), code),
		fmt.Sprintf("t%d set %x=<%d bytes> umeta=%d -> %d", t, k, len(v), umeta, code))
	if err == nil {
		h.tpend[t] = append(h.tpend[t], refWrite{Key: append([]byte{}, k...), UMeta: umeta, Val: append([]byte{}, v...)})
	}
}

// ---- file-system snapshot for the touched-files oracle ----
type fsnap map[string]string

func snapTree(roots []string, skip string) fsnap {
	s := fsnap{}
	seen := map[string]bool{}
	for _, r := range roots {
		if r == "" || seen[r] {
			continue
		}
		seen[r] = true
		filepath.Walk(r, func(p string, fi os.FileInfo, err error) error {
			if err != nil {
				return nil
			}
			if skip != "" && strings.HasPrefix(p, skip) {
				if fi.IsDir() {
					return filepath.SkipDir
				}
				return nil
			}
			if fi.IsDir() {
				// a directory's mtime changes when an entry is created or removed in it
				s[p] = fmt.Sprintf("dir %v", fi.ModTime().UnixNano())
			} else {
				s[p] = fmt.Sprintf("%d %v %v", fi.Size(), fi.ModTime().UnixNano(), fi.Mode())
			}
			return nil
		})
	}
	return s
}

func snapDiff(a, b fsnap) []string {
	var d []string
	for p, v := range b {
		if w, ok := a[p]; !ok {
			d = append(d, "created "+p)
		} else if w != v {
			d = append(d, "modified "+p)
		}
	}
	for p := range a {
		if _, ok := b[p]; !ok {
			d = append(d, "removed "+p)
		}
	}
	sort.Strings(d)
	return d
}

// openFiles: regular files this process holds open (by /proc/self/fd)
func openFiles() map[string]bool {
	m := map[string]bool{}
	ents, err := os.ReadDir("/proc/self/fd")
	if err != nil {
		return m
	}
	for _, e := range ents {
		t, err := os.Readlink("/proc/self/fd/" + e.Name())
		if err != nil || !strings.HasPrefix(t, "/") || strings.HasPrefix(t, "/proc/") || strings.HasPrefix(t, "/dev/") {
			continue
		}
		m[t] = true
	}
	return m
}

// ---- the generator: a list of steps, each applicable to any history ----
type stepFn func(h *hist) error

type c37run struct {
	h     *hist
	marks []int               // len(h.ops) after each step
	after func(h *hist) error // optional: runs after every step
}

func (r *c37run) apply(f stepFn) error {
	err := f(r.h)
	r.marks = append(r.marks, len(r.h.ops))
	if err == nil && r.after != nil {
		err = r.after(r.h)
	}
	return err
}

func (r *c37run) labels(i int) []string {
	lo := 0
	if i > 0 {
		lo = r.marks[i-1]
	}
	return r.h.ops[lo:r.marks[i]]
}

func c37value(c *Ctx) []byte {
	var n int
	switch c.Rng.Intn(10) {
	case 0, 1, 2, 3:
		n = c.Rng.Intn(6)
	case 4, 5, 6:
		n = 28 + c.Rng.Intn(10) // around the on-disk threshold
	case 7, 8:
		n = 60 + c.Rng.Intn(300)
	default:
		n = c37ThrInMem - 1 - c.Rng.Intn(3) // just inside the in-memory limit
	}
	// a short random head and a run of one byte: case terms carry runs compressed (packHex)
	v := make([]byte, n)
	head, fill := c.Rng.Intn(5), byte('a'+c.Rng.Intn(26))
	for i := range v {
		if i < head {
			v[i] = byte('a' + c.Rng.Intn(26))
		} else {
			v[i] = fill
		}
	}
	return v
}

type c37profile struct {
	managed, detect bool
	nOps            int
	keys            [][]byte
	nkeep           int
	wDropAll        int
	value           func(c *Ctx) []byte // nil = c37value
}

func (p *c37profile) val(c *Ctx) []byte {
	if p.value != nil {
		return p.value(c)
	}
	return c37value(c)
}

// genSteps generates the call sequence while executing it on the on-disk history hD
func c37generate(c *Ctx, p *c37profile, rd *c37run) ([]stepFn, error) {
	hD := rd.h
	var steps []stepFn
	do := func(f stepFn) error {
		steps = append(steps, f)
		return rd.apply(f)
	}
	nextT := 0
	var mts uint64 = 1
	open := func() []int {
		var ids []int
		for id := range hD.txns {
			ids = append(ids, id)
		}
		sort.Ints(ids)
		return ids
	}
	pickKey := func() []byte { return p.keys[c.Rng.Intn(len(p.keys))] }
	for step := 0; step < p.nOps; step++ {
		ids := open()
		r := c.Rng.Intn(100)
		var err error
		switch {
		case r < 8 || len(ids) == 0:
			if len(ids) >= 3 {
				continue
			}
			t, upd, at := nextT, c.Rng.Intn(4) != 0, uint64(0)
			if p.managed {
				at = uint64(c.Rng.Intn(int(mts) + 3))
			}
			nextT++
			err = do(func(h *hist) error { h.begin(t, upd, at); return nil })
		case r < 30:
			t, k, v := ids[c.Rng.Intn(len(ids))], pickKey(), p.val(c)
			meta, umeta, exp := byte(0), byte(c.Rng.Intn(3)), uint64(0)
			switch c.Rng.Intn(8) {
			case 0, 1:
				meta = mDelete
			case 2:
				meta = mDiscard
			case 3:
				exp = []uint64{1, 1 << 40}[c.Rng.Intn(2)]
			}
			if c.Rng.Intn(40) == 0 {
				k = nil
			} else if c.Rng.Intn(40) == 0 {
				k = []byte("!badger!x")
			}
			err = do(func(h *hist) error { h.modify(t, k, v, meta, umeta, exp); return nil })
		case r < 45:
			t, k := ids[c.Rng.Intn(len(ids))], pickKey()
			err = do(func(h *hist) error { h.get(t, k); return nil })
		case r < 52:
			t := ids[c.Rng.Intn(len(ids))]
			o := itOpts{Prefetch: c.Rng.Intn(2) == 0, PrefetchSize: c.Rng.Intn(4), Reverse: c.Rng.Intn(3) == 0, All: c.Rng.Intn(4) == 0}
			var seek []byte
			if c.Rng.Intn(3) == 0 {
				o.Prefix = [][]byte{[]byte("a"), []byte("b"), []byte("ab")}[c.Rng.Intn(3)]
			} else if c.Rng.Intn(3) == 0 {
				seek = pickKey()
			}
			err = do(func(h *hist) error { h.iterate(t, o, seek); return nil })
		case r < 62:
			t, at := ids[c.Rng.Intn(len(ids))], uint64(0)
			if p.managed {
				mts += uint64(c.Rng.Intn(3))
				at = mts
			}
			err = do(func(h *hist) error { h.commit(t, at); return nil })
		case r < 64:
			t := ids[c.Rng.Intn(len(ids))]
			err = do(func(h *hist) error { h.discard(t); return nil })
		case r < 74:
			err = do(func(h *hist) error {
				if err := h.flush(); err != nil {
					return err
				}
				h.files()
				return nil
			})
		case r < 84:
			lvl, l0l0, salt := 0, c.Rng.Intn(5) == 0, c.Rng.Uint64()
			if !l0l0 && c.Rng.Intn(2) == 0 {
				d := hD.db.VerifDump()
				var ne []int
				for l := range d {
					if len(d[l]) > 0 {
						ne = append(ne, l)
					}
				}
				if len(ne) > 0 {
					lvl = ne[c.Rng.Intn(len(ne))]
				}
			}
			err = do(func(h *hist) error {
				h.backdate = func(id uint64) bool { return (id*2654435761+salt)%5 != 0 }
				if _, err := h.compact(lvl, l0l0, nil); err != nil {
					return fmt.Errorf("compact: %w", err)
				}
				h.files()
				return nil
			})
		case r < 90:
			n, kind, bts := 1+c.Rng.Intn(10), 0, uint64(0)
			if p.managed {
				kind = 1
				mts += 1 + uint64(c.Rng.Intn(2))
				bts = mts
			}
			var calls []batchCall
			for j := 0; j < n; j++ {
				calls = append(calls, batchCall{Key: pickKey(), Val: p.val(c), UMeta: byte(c.Rng.Intn(3)), Del: c.Rng.Intn(5) == 0})
			}
			tb := nextT
			var tn int
			err = do(func(h *hist) error {
				got := h.batch(tb, kind, bts, calls)
				if h == hD {
					tn = got
				} else if got != tn {
					return fmt.Errorf("write batch split differently in the two modes (%d vs %d)", got, tn)
				}
				return nil
			})
			nextT = tn
		case r < 90+p.wDropAll:
			err = do(func(h *hist) error {
				if err := h.dropAll(); err != nil {
					return err
				}
				h.files()
				return nil
			})
		case r < 96:
			err = do(func(h *hist) error { h.dump(); return nil })
		default:
			err = do(func(h *hist) error { h.maxVersion(); return nil })
		}
		if err != nil {
			return steps, err
		}
	}
	// final reads of every key by a fresh transaction
	t, at := nextT, uint64(0)
	if p.managed {
		at = mts + 1
	}
	err := do(func(h *hist) error {
		h.begin(t, false, at)
		for _, k := range p.keys {
			h.get(t, k)
		}
		h.iterate(t, itOpts{}, nil)
		h.iterate(t, itOpts{Reverse: true, All: true}, nil)
		h.discard(t)
		h.dump()
		h.files()
		return nil
	})
	return steps, err
}

// isReadLabel: labels whose observation must be equal in two runs of the same call sequence.
// AllVersions iterations are left out: which old versions a compaction has already dropped
// depends on the discard watermark, which the asynchronous watermark goroutine advances with
// run-to-run timing (each run's own observation is still replayed by the model).
func isReadLabel(l string) bool {
	if strings.HasPrefix(l, "(Iterate ") {
		if i := strings.Index(l, "(mkIO "); i >= 0 {
			f := strings.Fields(l[i+6:])
			if len(f) > 1 && f[1] == "true" {
				return false
			}
		}
	}
	for _, p := range []string{"(Begin ", "(Modify ", "(Get ", "(Iterate ", "(Commit ", "(MaxVersion ", "(Discard ", "X:DropAll"} {
		if strings.HasPrefix(l, p) {
			return true
		}
	}
	return false
}

// tail: DropPrefix (not part of the model) followed by reading everything back
func c37tail(h *hist, prefix []byte, keys [][]byte) ([]string, error) {
	if err := h.db.DropPrefix(prefix); err != nil {
		return nil, err
	}
	var out []string
	ts := uint64(math.MaxUint64)
	var tx *badger.Txn
	if h.o.Managed {
		tx = h.db.NewTransactionAt(ts, false)
	} else {
		tx = h.db.NewTransaction(false)
	}
	defer tx.Discard()
	now := uint64(time.Now().Unix())
	okRef := true
	for _, k := range keys {
		it, err := tx.Get(k)
		s := "notfound"
		if err == nil {
			oi, _ := readItem(it)
			s = fmt.Sprintf("v=%d um=%d val=%x", oi.Ver, oi.UMeta, oi.Val)
		} else if !errors.Is(err, badger.ErrKeyNotFound) {
			s = "err " + err.Error()
		}
		out = append(out, fmt.Sprintf("%x -> %s", k, s))
		w := refLatest(h.ref, k, ts)
		want := "notfound"
		if w != nil && !expired(w.Meta, w.Exp, now) && !bytes.HasPrefix(k, prefix) {
			want = fmt.Sprintf("v=%d um=%d val=%x", w.Ver, w.UMeta, w.Val)
		}
		if want != s {
			okRef = false
		}
	}
	itr := tx.NewIterator(badger.DefaultIteratorOptions)
	for itr.Rewind(); itr.Valid(); itr.Next() {
		oi, _ := readItem(itr.Item())
		out = append(out, fmt.Sprintf("it %x v=%d val=%x", oi.Key, oi.Ver, oi.Val))
	}
	itr.Close()
	h.c.Oracle(okRef, "dropprefix-read-mismatch", "after DropPrefix a read differs from the reference (prefix keys gone, others unchanged)",
		J{"history": h.desc, "prefix": prefix, "reads": out, "inmemory": h.o.InMemory})
	return out, nil
}

func runC37(c *Ctx) error {
	if c.Mode == "child" {
		return c37volChild(c) // one volume history on one DB (inmemvol.go)
	}
	c.Setup("Keys Spec Lsm Compact Iter Sys SysMode MemRoom CorrC37", "run_case")
	// every temporary file of this process goes below the scratch directory, which is hashed
	scratch := os.Getenv("VERIF_SCRATCH_DIR")
	if scratch != "" {
		tmp := filepath.Join(scratch, "tmp")
		os.MkdirAll(tmp, 0o755)
		os.Setenv("TMPDIR", tmp)
	}
	cwd, _ := os.Getwd()
	if err := runC37LoadBackup(c); err != nil {
		return err
	}
	for i := 0; c.nCases < c.N; i++ {
		if i%8 == 7 {
			if err := c37inmemOnly(c); err != nil {
				return err
			}
			continue
		}
		if i%8 == 1 || i%8 == 5 {
			// more data than one memtable: both runs in child processes (inmemvol.go)
			if err := c37volume(c, i/4); err != nil {
				return err
			}
			continue
		}
		p := &c37profile{managed: i%4 == 3, detect: i%2 == 0, nOps: 40 + c.Rng.Intn(50), keys: keySetA[:3+c.Rng.Intn(7)],
			nkeep: []int{1, 2, 100}[c.Rng.Intn(3)], wDropAll: 0}
		if i%3 == 1 {
			p.wDropAll = 2
		}
		o := sysOpts{Managed: p.managed, Detect: p.detect, NKeep: p.nkeep, MaxLevels: 4,
			TableSize: int64(256) << uint(c.Rng.Intn(5)), BaseLevelSize: []int64{200, 600, 2 << 10, 8 << 10}[c.Rng.Intn(4)]}
		// single-byte prefixes only: a prefix that properly extends a stored user key runs into the
		// recorded DropPrefix findings F24 (containsPrefix misses the table) / F20 (match into the
		// version suffix), which belong to C29
		prefix := [][]byte{[]byte("a"), []byte("b"), {0x00}, {0xff}}[c.Rng.Intn(4)]

		// ---- run 1: on disk ----
		dir := scratchDir("d")
		db, err := openModeDB(dir, o, c37ThrDisk)
		if err != nil {
			return err
		}
		rd := &c37run{h: newHistOn(c, o, dir, db)}
		rd.h.files()
		rd.marks = nil
		steps, err := c37generate(c, p, rd)
		if err != nil {
			c.Oracle(false, "harness-error:c37-disk", err.Error(), J{"history": rd.h.desc})
			rd.h.close()
			return err
		}
		tailD, err := c37tail(rd.h, prefix, p.keys)
		if err != nil {
			c.Oracle(false, "harness-error:c37-dropprefix", err.Error(), J{"history": rd.h.desc})
		}
		rd.h.close()

		// ---- run 2: in memory, alone, between two snapshots of the file system ----
		oi := o
		oi.InMemory = true
		roots := []string{cwd, scratch, os.TempDir()}
		before, fdBefore := snapTree(roots, ""), openFiles()
		dbi, err := openModeDB("", oi, c37ThrInMem)
		if err != nil {
			return err
		}
		ri := &c37run{h: newHistOn(c, oi, "", dbi)}
		var runErr error
		for _, f := range steps {
			if runErr = ri.apply(f); runErr != nil {
				break
			}
		}
		var tailI []string
		if runErr == nil {
			tailI, runErr = c37tail(ri.h, prefix, p.keys)
		}
		var held []string
		for f := range openFiles() {
			if !fdBefore[f] {
				held = append(held, "open "+f)
			}
		}
		mid := snapTree(roots, "")
		ri.h.close()
		after := snapTree(roots, "")
		touched := append(append(snapDiff(before, mid), snapDiff(mid, after)...), held...)
		c.Oracle(len(touched) == 0, "c37-inmemory-touched-files",
			"the in-memory database created, modified, removed or kept open files", J{"history": ri.h.desc, "files": touched})
		if runErr != nil {
			c.Oracle(false, "harness-error:c37-inmem", runErr.Error(), J{"history": ri.h.desc})
			return runErr
		}

		// ---- oracle: every read observation equal, label by label ----
		nCmp, nLayout := 0, 0
		for s := range steps {
			ld, li := rd.labels(s), ri.labels(s)
			var a, b []string
			for _, l := range ld {
				if isReadLabel(l) {
					a = append(a, l)
				}
			}
			for _, l := range li {
				if isReadLabel(l) {
					b = append(b, l)
				}
			}
			if len(a) == 0 && len(b) == 0 {
				continue
			}
			same := len(a) == len(b)
			for j := 0; same && j < len(a); j++ {
				same = a[j] == b[j]
			}
			nCmp++
			what := "a read, write or commit result differs between the on-disk and the in-memory run of the same call sequence"
			c.Oracle(same, "c37-inmemory-read-differs", what, J{"disk": rd.h.desc, "inmemory": ri.h.desc, "step": s, "disk_labels": a, "inmemory_labels": b})
		}
		c.Oracle(strings.Join(tailD, "\n") == strings.Join(tailI, "\n"), "c37-inmemory-read-differs/dropprefix",
			"reads after DropPrefix differ between the on-disk and the in-memory run", J{"disk": tailD, "inmemory": tailI, "history": rd.h.desc})
		if lastDump(rd.h.ops) != lastDump(ri.h.ops) {
			nLayout++
		}
		if nLayout > 0 {
			c.Count("table-layout-differs-between-modes")
		} else {
			c.Count("table-layout-equal-in-both-modes")
		}
		c.Case("pair-disk", rd.h.termM(c37ThrDisk), histInput(rd.h))
		c.Case("pair-inmem", ri.h.termM(c37ThrInMem), histInput(ri.h))
		c.Count(fmt.Sprintf("compactions=%d", min(rd.h.nCompact, 5)))
		c.Count(fmt.Sprintf("flushes=%d", min(rd.h.nFlush, 5)))
		_ = nCmp
	}
	return nil
}

func lastDump(ops []string) string {
	for i := len(ops) - 1; i >= 0; i-- {
		if strings.HasPrefix(ops[i], "(Dump ") {
			return ops[i]
		}
	}
	return ""
}

// c37inmemOnly: the rejection rule of in-memory mode (values above the limit), exercised on an
// in-memory DB alone (such histories are not valid on disk, where the value is accepted).
// len == limit is never generated: it is accepted and crashes the writer (finding F17).
func c37inmemOnly(c *Ctx) error {
	o := sysOpts{InMemory: true, Detect: true, NKeep: 1, MaxLevels: 4, TableSize: 1 << 12, BaseLevelSize: 8 << 10}
	db, err := openModeDB("", o, c37ThrInMem)
	if err != nil {
		return err
	}
	h := newHistOn(c, o, "", db)
	defer h.close()
	keys := keySetA[:4]
	for t := 0; t < 3; t++ {
		h.begin(t, t != 2, 0)
		for j := 0; j < 4; j++ {
			n := []int{c37ThrInMem - 1, c37ThrInMem + 1, c37ThrInMem + 1 + c.Rng.Intn(3000), c.Rng.Intn(40)}[c.Rng.Intn(4)]
			v := bytes.Repeat([]byte{byte('a' + c.Rng.Intn(26))}, n)
			k := keys[c.Rng.Intn(len(keys))]
			if c.Rng.Intn(12) == 0 {
				k = nil // the earlier cases of the switch in Txn.modify win over the size check
			}
			h.modifyX(t, k, v, byte(c.Rng.Intn(3)))
			h.get(t, keys[c.Rng.Intn(len(keys))])
		}
		h.commit(t, 0)
		if t == 0 {
			if err := h.flush(); err != nil {
				return err
			}
		}
	}
	h.begin(9, false, 0)
	for _, k := range keys {
		h.get(9, k)
	}
	h.iterate(9, itOpts{}, nil)
	h.discard(9)
	h.dump()
	c.Case("inmem-reject", h.termM(c37ThrInMem), histInput(h))
	return nil
}

func init() { register("C37", runC37) }
