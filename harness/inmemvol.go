package main

// C37, volume histories: more data than one memtable holds.
//
// One generated script (transactions with sets / deletes / overwrites, reads, iterations,
// explicit flushes, compactions) whose written bytes exceed 2-3 x Options.MemTableSize is
// executed on an on-disk DB and on an InMemory DB with the same small MemTableSize, each in a
// child process of its own: skl's "Arena too small" (and every other y.AssertTrue) is
// log.Fatalf, it ends the process.  The child streams one JSON line per step, so the parent
// keeps everything observed before a death.
//
// Oracles (Go, no model involved):
//   c37-inmemory-process-died-under-volume   the InMemory child did not finish the history
//   c37-disk-process-died-under-volume       same, on disk
//   c37-volume-read-differs                  a read / write / commit result differs between the runs
//   c37-volume-full-memtable-not-rotated     a write request found MemSize() >= MemTableSize (or,
//                                            on disk, wal.writeAt >= MemTableSize) and the
//                                            memtable was not handed to the flusher
//   c37-volume-memtable-rotated-when-not-full
//   c37-volume-no-table-after-more-than-one-memtable   the history put >= 2 x MemTableSize bytes
//                                            into memtables and no table was ever built
//   c37-volume-inmemory-touched-files        the InMemory child created / modified files
// plus the reference-MVCC oracle of sys.go inside each child (re-raised by the parent).
// Correspondence: each run is one `Vol` case; B/MemRoom.v recomputes MemSize() and
// wal.writeAt after every commit from the entries and the observed tower heights, and decides
// from its own counters where ensureRoomForWrite rotates.

import (
	"bufio"
	"encoding/hex"
	"encoding/json"
	"fmt"
	"math/rand"
	"os"
	"os/exec"
	"path/filepath"
	"sort"
	"strings"
	"syscall"
	"time"

	badger "github.com/dgraph-io/badger/v4"
)

type volStep struct {
	Op    string // begin set get iter commit discard flush compact dump maxv
	T     int    `json:",omitempty"`
	Upd   bool   `json:",omitempty"`
	At    uint64 `json:",omitempty"` // managed: read / commit timestamp
	Key   []byte `json:",omitempty"`
	Val   []byte `json:",omitempty"`
	Meta  byte   `json:",omitempty"`
	UMeta byte   `json:",omitempty"`
	Exp   uint64 `json:",omitempty"`
	It    itOpts `json:",omitempty"`
	Seek  []byte `json:",omitempty"`
	Level int    `json:",omitempty"`
	L0L0  bool   `json:",omitempty"`
	Salt  uint64 `json:",omitempty"`
}

type volSpec struct {
	O     sysOpts
	Thr   int64
	Steps []volStep
	Res   string // result file (JSON lines)
}

type volLine struct {
	Step    int
	Ops     []string // labels for the model
	Cmp     []string // labels compared between the two runs
	Desc    []string
	Commit  bool
	Wrote   bool                  // the commit sent a write request
	Pre     *badger.VerifRoomInfo `json:",omitempty"` // before / after a commit
	Post    *badger.VerifRoomInfo `json:",omitempty"`
	Head    bool                  // first line: Post = the room after Open
	Next0   uint64
	Done    bool // last line
	Touched []string
	Err     string
}

// ---- script generation (pure: no DB involved) ----

func volValue(r *rand.Rand, limit int) []byte {
	var n int
	switch r.Intn(10) {
	case 0, 1:
		n = r.Intn(6)
	case 2, 3:
		n = 28 + r.Intn(10) // around the on-disk threshold 32
	case 4, 5, 6:
		n = 100 + r.Intn(400)
	case 7, 8:
		n = 500 + r.Intn(400)
	default:
		n = limit - 1 - r.Intn(3) // just inside the in-memory limit
	}
	v := make([]byte, n)
	p := r.Intn(5)
	fill := byte('a' + r.Intn(26))
	for i := range v {
		if i < p {
			v[i] = byte('a' + r.Intn(26))
		} else {
			v[i] = fill
		}
	}
	return v
}

type volTxn struct {
	upd         bool
	count, size int64
	nset        int
	bytes       int64 // what the entries add to the skiplist, roughly
}

// single: most transactions write one entry (the WAL, which also takes one end-of-transaction
// record per commit, then fills before the skiplist does: the on-disk run rotates on writeAt)
func volScript(r *rand.Rand, mts int64, managed, single bool, limit int) []volStep {
	maxBatchSize := 15 * mts / 100
	maxBatchCount := maxBatchSize / 96
	var keys [][]byte
	keys = append(keys, keySetA[:6]...)
	nk := 20 + r.Intn(40)
	for i := 0; i < nk; i++ {
		keys = append(keys, []byte(fmt.Sprintf("k%0*d", 2+r.Intn(10), i)))
	}
	pick := func() []byte { return keys[r.Intn(len(keys))] }
	target := mts*2 + mts*int64(r.Intn(120))/100
	if single {
		target = mts*2 + mts*int64(r.Intn(30))/100 // small requests: keep the number of steps down
	}
	var steps []volStep
	open := map[int]*volTxn{}
	ids := func(upd bool) []int {
		var out []int
		for id, x := range open {
			if !upd || x.upd {
				out = append(out, id)
			}
		}
		sort.Ints(out)
		return out
	}
	nextT := 0
	var ts uint64 = 1 // managed: last commit timestamp
	var written int64
	// a rough simulation of the in-memory run's active skiplist, to make sure the script is
	// long enough for two rotations whatever the explicit flushes do
	var fill int64 = 107
	simRot := 0
	commit := func(t int) {
		if tx := open[t]; tx != nil && tx.nset > 0 {
			if fill >= mts {
				simRot++
				fill = 107
			}
			fill += tx.bytes
		}
		at := uint64(0)
		if managed {
			if r.Intn(4) != 0 {
				ts++
			}
			at = ts
		}
		steps = append(steps, volStep{Op: "commit", T: t, At: at})
		delete(open, t)
	}
	for guard := 0; (written < target || simRot < 2) && guard < 40000; guard++ {
		all, upd := ids(false), ids(true)
		x := r.Intn(100)
		switch {
		case len(upd) == 0 || (x < 6 && len(all) < 3):
			u := len(upd) == 0 || r.Intn(4) != 0
			at := uint64(0)
			if managed {
				at = ts + uint64(r.Intn(2))
			}
			steps = append(steps, volStep{Op: "begin", T: nextT, Upd: u, At: at})
			// txn.go newTransaction: count = 1, size = len(txnKey) + 8 + 20 + 2
			open[nextT] = &volTxn{upd: u, count: 1, size: 11 + 8 + 20 + 2}
			nextT++
		case x < 62:
			t := upd[r.Intn(len(upd))]
			tx := open[t]
			k, v := pick(), volValue(r, limit)
			if single && r.Intn(10) != 0 && len(v) > 40 {
				v = v[:40+r.Intn(min(len(v)-40, 120))] // many small requests per memtable
			}
			s := volStep{Op: "set", T: t, Key: k, Val: v, UMeta: byte(r.Intn(3))}
			switch r.Intn(12) {
			case 0, 1:
				s.Meta, s.Val, s.UMeta = mDelete, nil, 0
			case 2:
				s.Meta = mDiscard
			case 3:
				s.Exp = 1 << 40
			}
			// txn.go checkSize (with the in-memory estimate, the larger of the two modes)
			est := int64(len(k)+len(s.Val)+2) + 10
			if tx.count+1 >= maxBatchCount || tx.size+est >= maxBatchSize {
				if tx.nset > 0 {
					commit(t)
				} else {
					steps = append(steps, volStep{Op: "discard", T: t})
					delete(open, t)
				}
				continue
			}
			tx.count, tx.size, tx.nset = tx.count+1, tx.size+est, tx.nset+1
			tx.bytes += int64(30 + len(k) + 8 + len(s.Val))
			written += int64(len(s.Val))
			steps = append(steps, s)
			if single && r.Intn(5) != 0 {
				commit(t)
			}
		case x < 74:
			steps = append(steps, volStep{Op: "get", T: all[r.Intn(len(all))], Key: pick()})
		case x < 77:
			o := itOpts{Prefetch: r.Intn(2) == 0, PrefetchSize: r.Intn(4), Reverse: r.Intn(3) == 0, All: r.Intn(6) == 0}
			s := volStep{Op: "iter", T: all[r.Intn(len(all))], It: o}
			if r.Intn(2) == 0 {
				o.Prefix = [][]byte{[]byte("a"), []byte("k0"), []byte("k1"), []byte("b")}[r.Intn(4)]
				s.It = o
			} else if r.Intn(3) == 0 {
				s.Seek = pick()
			}
			steps = append(steps, s)
		case x < 91:
			t := upd[r.Intn(len(upd))]
			if open[t].nset == 0 && (single || r.Intn(3) != 0) {
				continue
			}
			commit(t)
		case x < 92:
			t := all[r.Intn(len(all))]
			steps = append(steps, volStep{Op: "discard", T: t})
			delete(open, t)
		case x < 93:
			if r.Intn(3) == 0 {
				steps = append(steps, volStep{Op: "flush"})
				fill = 107
			}
		case x < 95:
			if managed {
				continue // no compactions in managed volume histories (findings F8 / F10 belong to C31 / C36)
			}
			steps = append(steps, volStep{Op: "compact", Level: []int{0, 0, 0, 1, 2}[r.Intn(5)], L0L0: r.Intn(6) == 0, Salt: r.Uint64()})
		case x < 96:
			steps = append(steps, volStep{Op: "maxv"})
		default:
			if r.Intn(4) == 0 {
				steps = append(steps, volStep{Op: "dump"})
			}
		}
	}
	for _, t := range ids(false) {
		if open[t].upd && open[t].nset > 0 {
			commit(t)
		} else {
			steps = append(steps, volStep{Op: "discard", T: t})
			delete(open, t)
		}
	}
	// everything read back by a fresh transaction
	at := uint64(0)
	if managed {
		at = ts + 1
	}
	steps = append(steps, volStep{Op: "begin", T: nextT, At: at})
	for i := 0; i < 12; i++ {
		steps = append(steps, volStep{Op: "get", T: nextT, Key: pick()})
	}
	steps = append(steps, volStep{Op: "iter", T: nextT}, volStep{Op: "iter", T: nextT, It: itOpts{Reverse: true, Prefix: []byte("k")}},
		volStep{Op: "discard", T: nextT}, volStep{Op: "dump"})
	return steps
}

// ---- the child: runs one script on one DB ----

func tableIDSet(db *badger.DB) map[uint64]bool {
	m := map[uint64]bool{}
	for _, t := range db.Tables() {
		m[t.ID] = true
	}
	return m
}

// vcommit: Commit with the room observations around it
func (h *hist) vcommit(t int, at uint64, line *volLine) error {
	pre := h.db.VerifRoom()
	before := tableIDSet(h.db)
	var keys [][]byte
	seen := map[string]bool{}
	for _, w := range h.tpend[t] {
		if !seen[string(w.Key)] {
			seen[string(w.Key)] = true
			keys = append(keys, w.Key)
		}
	}
	n0 := len(h.ops)
	h.commit(t, at)
	if err := h.db.VerifWaitFlushed(30 * time.Second); err != nil {
		return err
	}
	post := h.db.VerifRoom()
	var tt, cts, code uint64
	if _, err := fmt.Sscanf(h.ops[n0], "(Commit %d %d %d)", &tt, &cts, &code); err != nil {
		return fmt.Errorf("commit label %q: %v", h.ops[n0], err)
	}
	line.Commit, line.Pre, line.Post = true, &pre, &post
	line.Wrote = code == 0 && len(keys) > 0
	rot := "None"
	if post.NextMemFid != pre.NextMemFid {
		id := uint64(0)
		for x := range tableIDSet(h.db) {
			if !before[x] {
				id = x
			}
		}
		rot = fmt.Sprintf("(Some %d)", id)
		h.nFlush++
		h.desc[len(h.desc)-1] += fmt.Sprintf(" [memtable rotated -> table %d]", id)
	}
	var hs []string
	if line.Wrote {
		for _, k := range keys {
			hs = append(hs, fmt.Sprintf("%d", h.db.VerifMemHeight(k, cts)))
		}
	}
	h.desc[len(h.desc)-1] += fmt.Sprintf(" [MemSize %d -> %d, wal %d -> %d]", pre.SlSize, post.SlSize, pre.WalAt, post.WalAt)
	line.Cmp = append(line.Cmp, h.ops[n0])
	h.ops[n0] = fmt.Sprintf("V:(VCommit %d %d %d %s %s %d %d)", tt, cts, code, rot, ListOf(hs), post.SlSize, post.WalAt)
	return nil
}

func c37volChild(c *Ctx) error {
	js, err := os.ReadFile(c.Replay)
	if err != nil {
		return err
	}
	var sp volSpec
	if err := json.Unmarshal(js, &sp); err != nil {
		return err
	}
	f, err := os.Create(sp.Res)
	if err != nil {
		return err
	}
	defer f.Close()
	w := bufio.NewWriter(f)
	put := func(l *volLine) {
		out, _ := json.Marshal(l)
		w.Write(out)
		w.WriteByte('\n')
		w.Flush()
	}
	scratch := os.Getenv("VERIF_SCRATCH_DIR")
	cwd, _ := os.Getwd()
	if scratch != "" {
		tmp := filepath.Join(scratch, "tmp")
		os.MkdirAll(tmp, 0o755)
		os.Setenv("TMPDIR", tmp)
	}
	roots := []string{cwd, scratch, os.TempDir()}
	own := func(p string) bool {
		return strings.HasPrefix(p, c.Out) || p == sp.Res || p == filepath.Dir(sp.Res) || p == filepath.Dir(c.Out)
	}
	var before fsnap
	var fdBefore map[string]bool
	dir := ""
	if sp.O.InMemory {
		before, fdBefore = snapTree(roots, ""), openFiles()
	} else {
		dir = scratchDir("vol")
	}
	db, err := openModeDB(dir, sp.O, sp.Thr)
	if err != nil {
		return err
	}
	h := newHistOn(c, sp.O, dir, db)
	room := db.VerifRoom()
	put(&volLine{Step: -1, Head: true, Post: &room, Next0: h.next0, Ops: h.ops, Desc: h.desc})
	for i, s := range sp.Steps {
		n0 := len(h.ops)
		line := &volLine{Step: i}
		var err error
		switch s.Op {
		case "begin":
			h.begin(s.T, s.Upd, s.At)
		case "set":
			h.modify(s.T, s.Key, s.Val, s.Meta, s.UMeta, s.Exp)
		case "get":
			h.get(s.T, s.Key)
		case "iter":
			h.iterate(s.T, s.It, s.Seek)
		case "commit":
			err = h.vcommit(s.T, s.At, line)
		case "discard":
			h.discard(s.T)
		case "flush":
			if err = h.flush(); err == nil {
				h.files()
			}
		case "compact":
			salt := s.Salt
			h.backdate = func(id uint64) bool { return (id*2654435761+salt)%5 != 0 }
			if _, err = h.compact(s.Level, s.L0L0, nil); err == nil {
				h.files()
			}
		case "dump":
			h.dump()
			h.files()
		case "maxv":
			h.maxVersion()
		default:
			err = fmt.Errorf("unknown step %q", s.Op)
		}
		line.Ops, line.Desc = h.ops[n0:], h.desc[n0:]
		for _, l := range line.Ops {
			if isReadLabel(l) {
				line.Cmp = append(line.Cmp, l)
			}
		}
		if err != nil {
			line.Err = err.Error()
			put(line)
			h.close()
			return fmt.Errorf("step %d (%s): %w", i, s.Op, err)
		}
		put(line)
	}
	room = db.VerifRoom()
	last := &volLine{Step: len(sp.Steps), Done: true, Post: &room}
	if sp.O.InMemory {
		for f := range openFiles() {
			if !fdBefore[f] && !own(f) {
				last.Touched = append(last.Touched, "open "+f)
			}
		}
		mid := snapTree(roots, "")
		h.close()
		after := snapTree(roots, "")
		for _, d := range append(snapDiff(before, mid), snapDiff(mid, after)...) {
			if f := strings.SplitN(d, " ", 2); len(f) == 2 && !own(f[1]) {
				last.Touched = append(last.Touched, d)
			}
		}
	} else {
		h.close()
	}
	put(last)
	return nil
}

// ---- the parent ----

type volRun struct {
	lines   []volLine
	died    bool
	exit    string
	stderr  string
	orc     []map[string]interface{}
	nOracle int
}

var volSeq int

func c37volRun(c *Ctx, sp *volSpec) (*volRun, error) {
	volSeq++
	scratch := os.Getenv("VERIF_SCRATCH_DIR")
	if scratch == "" {
		scratch = filepath.Join(os.TempDir(), fmt.Sprintf("verif_%d", os.Getpid()))
	}
	base := filepath.Join(scratch, fmt.Sprintf("volchild%d", volSeq))
	os.RemoveAll(base)
	os.MkdirAll(base, 0o755)
	if os.Getenv("VERIF_VOL_KEEP") == "" {
		defer os.RemoveAll(base)
	}
	sp.Res = filepath.Join(base, "res.jsonl")
	spf := filepath.Join(base, "spec.json")
	js, _ := json.Marshal(sp)
	if err := os.WriteFile(spf, js, 0o644); err != nil {
		return nil, err
	}
	od := filepath.Join(base, "out")
	cmd := exec.Command(os.Args[0], c.Prop, "-mode", "child", "-replay", spf, "-out", od, "-n", "0")
	var so strings.Builder
	cmd.Stdout, cmd.Stderr = &so, &so
	if err := cmd.Start(); err != nil {
		return nil, err
	}
	done := make(chan error, 1)
	go func() { done <- cmd.Wait() }()
	run := &volRun{}
	select {
	case err := <-done:
		if err != nil {
			run.exit = err.Error()
		}
	case <-time.After(120 * time.Second):
		cmd.Process.Signal(syscall.SIGKILL)
		<-done
		run.exit = "timeout (killed after 120 s)"
	}
	run.stderr = tail(strings.TrimSpace(so.String()), 600)
	if f, err := os.Open(sp.Res); err == nil {
		sc := bufio.NewScanner(f)
		sc.Buffer(make([]byte, 1<<20), 1<<28)
		for sc.Scan() {
			var l volLine
			if json.Unmarshal(sc.Bytes(), &l) == nil {
				run.lines = append(run.lines, l)
			}
		}
		f.Close()
	}
	run.died = len(run.lines) == 0 || !run.lines[len(run.lines)-1].Done
	for _, l := range readJSONL(filepath.Join(od, "oracle.jsonl")) {
		run.orc = append(run.orc, l)
	}
	if st, err := os.ReadFile(filepath.Join(od, "stats.json")); err == nil {
		var m map[string]interface{}
		if json.Unmarshal(st, &m) == nil {
			if x, ok := m["oracle_evaluations"].(float64); ok {
				run.nOracle = int(x)
			}
		}
	}
	return run, nil
}

func readJSONL(p string) []map[string]interface{} {
	f, err := os.Open(p)
	if err != nil {
		return nil
	}
	defer f.Close()
	var out []map[string]interface{}
	sc := bufio.NewScanner(f)
	sc.Buffer(make([]byte, 1<<20), 1<<28)
	for sc.Scan() {
		var m map[string]interface{}
		if json.Unmarshal(sc.Bytes(), &m) == nil {
			out = append(out, m)
		}
	}
	return out
}

// packHex rewrites every (hx "....") literal that ends in a long run of one byte as
// (hr "prefix" byte n): coqc parses string literals slowly
func packHex(l string) string {
	const open = `(hx "`
	if !strings.Contains(l, open) {
		return l
	}
	var b strings.Builder
	for {
		i := strings.Index(l, open)
		if i < 0 {
			b.WriteString(l)
			return b.String()
		}
		j := strings.Index(l[i+len(open):], `")`)
		if j < 0 {
			b.WriteString(l)
			return b.String()
		}
		hx := l[i+len(open) : i+len(open)+j]
		b.WriteString(l[:i])
		n := len(hx) / 2
		run := 0
		for run < n && hx[2*(n-1-run):2*(n-run)] == hx[2*(n-1):2*n] {
			run++
		}
		if run >= 16 {
			bt, _ := hex.DecodeString(hx[2*(n-1) : 2*n])
			fmt.Fprintf(&b, `(hr "%s" %d %d)`, hx[:2*(n-run)], bt[0], run)
		} else {
			b.WriteString(open + hx + `")`)
		}
		l = l[i+len(open)+j+2:]
	}
}

func vterms(ops []string) string {
	out := make([]string, len(ops))
	for i, o := range ops {
		o = packHex(o)
		switch {
		case strings.HasPrefix(o, "V:"):
			out[i] = o[2:]
		case strings.HasPrefix(o, "X:"):
			out[i] = "(VX " + o[2:] + ")"
		default:
			out[i] = "(VX (Base " + o + "))"
		}
	}
	return strings.Join(out, ";\n  ")
}

func descTail(run *volRun, n int) []string {
	var d []string
	for _, l := range run.lines {
		d = append(d, l.Desc...)
	}
	for i, s := range d {
		if len(s) > 160 {
			d[i] = s[:80] + "…" + s[len(s)-60:]
		}
	}
	if len(d) > n {
		d = d[len(d)-n:]
	}
	return d
}

func c37volume(c *Ctx, idx int) error {
	vseed := c.Rng.Int63()
	r := rand.New(rand.NewSource(vseed))
	mts := []int64{8192, 10000, 16384, 24576}[r.Intn(4)]
	managed := idx%3 == 2
	single := idx%2 == 1
	if single {
		mts = []int64{8192, 10000}[r.Intn(2)]
	}
	thrDisk := []int64{c37ThrDisk, c37ThrInMem}[r.Intn(2)]
	o := sysOpts{Managed: managed, Detect: !managed && r.Intn(2) == 0, NKeep: []int{1, 2, 100}[r.Intn(3)], MaxLevels: 4,
		TableSize: int64(1024) << uint(r.Intn(3)), BaseLevelSize: []int64{2 << 10, 8 << 10, 32 << 10}[r.Intn(3)], MemSize: mts}
	steps := volScript(r, mts, managed, single, c37ThrInMem)
	oi := o
	oi.InMemory = true
	runD, err := c37volRun(c, &volSpec{O: o, Thr: thrDisk, Steps: steps})
	if err != nil {
		return err
	}
	runI, err := c37volRun(c, &volSpec{O: oi, Thr: c37ThrInMem, Steps: steps})
	if err != nil {
		return err
	}
	info := J{"volume_seed": vseed, "mem_table_size": mts, "managed": managed, "single_entry_txns": single, "steps": len(steps), "disk_value_threshold": thrDisk}
	for _, x := range []struct {
		run   *volRun
		inmem bool
		thr   int64
		sig   string
	}{{runD, false, thrDisk, "c37-disk-process-died-under-volume"}, {runI, true, c37ThrInMem, "c37-inmemory-process-died-under-volume"}} {
		run := x.run
		c.nOracle += run.nOracle
		for _, f := range run.orc {
			sig, _ := f["sig"].(string)
			what, _ := f["what"].(string)
			c.Oracle(false, sig, what, J{"volume": info, "inmemory": x.inmem, "history_tail": descTail(run, 60)})
		}
		at := len(run.lines) - 1 // steps completed
		c.Oracle(!run.died, x.sig, "the process running a history larger than one memtable exited before the history ended",
			J{"volume": info, "inmemory": x.inmem, "exit": run.exit, "stderr_tail": run.stderr, "steps_completed": at, "history_tail": descTail(run, 40)})
		if len(run.lines) == 0 || !run.lines[0].Head {
			continue
		}
		// ---- structural oracle: rotations exactly where the sizes say the memtable is full ----
		var put int64
		rotations, maxTables := 0, 0
		for _, l := range run.lines {
			if l.Post != nil && l.Post.NumTables > maxTables {
				maxTables = l.Post.NumTables
			}
			if !l.Commit || l.Pre == nil || l.Post == nil {
				continue
			}
			full := l.Pre.SlSize >= mts || (!x.inmem && l.Pre.WalAt >= mts)
			rotated := l.Post.NextMemFid != l.Pre.NextMemFid
			if rotated {
				rotations++
			}
			d := J{"volume": info, "inmemory": x.inmem, "step": l.Step, "MemSize_before": l.Pre.SlSize, "wal_before": l.Pre.WalAt,
				"MemSize_after": l.Post.SlSize, "isFull_said": l.Pre.IsFull, "history_tail": descTail(run, 30)}
			c.Oracle(!(full && l.Wrote && !rotated), "c37-volume-full-memtable-not-rotated",
				"a write request found the active memtable at or above MemTableSize and ensureRoomForWrite did not hand it to the flusher", d)
			c.Oracle(!(rotated && !(full && l.Wrote)), "c37-volume-memtable-rotated-when-not-full",
				"the active memtable was rotated during a commit although it was below MemTableSize (or nothing was written)", d)
			c.Oracle(l.Post.SlSize <= l.Post.ArenaSize && l.Post.ArenaSize == mts+l.Post.MaxBatchSize+l.Post.MaxBatchCount*l.Post.MaxNodeSize,
				"c37-volume-memsize-above-arena", "Skiplist.MemSize() above arenaSize(opt)", d)
			if l.Wrote && !rotated {
				put += l.Post.SlSize - l.Pre.SlSize
			} else if l.Wrote {
				put += l.Post.SlSize - 107
			}
		}
		if !run.died {
			c.Oracle(!(put >= 2*mts && maxTables == 0 && rotations == 0), "c37-volume-no-table-after-more-than-one-memtable",
				"the history put more than two memtables of bytes into skiplists and no memtable was ever flushed to a table",
				J{"volume": info, "inmemory": x.inmem, "skiplist_bytes": put, "history_tail": descTail(run, 20)})
			last := run.lines[len(run.lines)-1]
			if x.inmem {
				c.Oracle(len(last.Touched) == 0, "c37-volume-inmemory-touched-files",
					"the in-memory database created, modified, removed or kept open files while flushing and compacting", J{"volume": info, "files": last.Touched})
			}
			c.Count(fmt.Sprintf("vol-rotations=%d", min(rotations, 6)))
		}
		// ---- the correspondence case ----
		var ops []string
		for _, l := range run.lines {
			ops = append(ops, l.Ops...)
		}
		head := run.lines[0]
		term := fmt.Sprintf("(Vol %s %d %d %s %s %d %d %d (%d, %d, %d, %d) %s [\n  %s])", Bool(x.inmem), x.thr, mts, Bool(managed), Bool(o.Detect),
			o.NKeep, o.MaxLevels, head.Next0, head.Post.MaxNodeSize, head.Post.MaxBatchSize, head.Post.MaxBatchCount, head.Post.ArenaSize,
			Bool(run.died), vterms(ops))
		kind := "vol-disk"
		if x.inmem {
			kind = "vol-inmem"
		}
		var desc []string
		for _, l := range run.lines {
			desc = append(desc, l.Desc...)
		}
		dd := stripRoom(descTail(run, 1<<30))
		if len(dd) > 25 {
			dd = dd[:25]
		}
		c.Case(kind, term, J{"volume_seed": vseed, "mem_table_size": mts, "n_labels": len(desc), "first_labels": dd, "digest": digest(stripRoom(desc))})
	}
	// ---- oracle: every read observation equal, step by step ----
	n := min(len(runD.lines), len(runI.lines))
	for i := 0; i < n; i++ {
		a, b := runD.lines[i].Cmp, runI.lines[i].Cmp
		if len(a) == 0 && len(b) == 0 {
			continue
		}
		same := len(a) == len(b)
		for j := 0; same && j < len(a); j++ {
			same = a[j] == b[j]
		}
		c.Oracle(same, "c37-volume-read-differs",
			"a read, write or commit result differs between the on-disk and the in-memory run of the same history (larger than one memtable)",
			J{"volume": info, "step": runD.lines[i].Step, "disk_labels": clip(a), "inmemory_labels": clip(b), "disk_tail": runD.lines[i].Desc, "inmemory_tail": runI.lines[i].Desc})
	}
	return nil
}

// stripRoom drops the byte counters from the op log (they depend on the random tower heights)
func stripRoom(d []string) []string {
	out := make([]string, len(d))
	for i, s := range d {
		if j := strings.Index(s, " [MemSize "); j >= 0 {
			s = s[:j]
		}
		out[i] = s
	}
	return out
}

func clip(ls []string) []string {
	out := make([]string, len(ls))
	for i, s := range ls {
		s = packHex(s)
		if len(s) > 400 {
			s = s[:300] + "…" + s[len(s)-80:]
		}
		out[i] = s
	}
	return out
}
