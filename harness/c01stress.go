package main

// C01 / C03 (oracle-only stress): readers against background flushes and compactions. N keys are
// written once and then only rewritten with growing counters, by several writers; the memtable and
// the tables are tiny and the compactors run, so memtables rotate, flush and get compacted all the
// time. Every Get must find its key, with a version at least as new as the one this reader saw
// before (its read timestamps only grow); every full iteration must yield all N keys, each with a
// counter at least as large as the one this reader last saw. A version that is momentarily in
// neither the level it leaves nor the level it enters, or a memtable that an iterator misses
// because it was flushed between two snapshots, shows as a missing key or a counter going back.

import (
	"encoding/binary"
	"fmt"
	"os"
	"path/filepath"
	"sync"
	"sync/atomic"
	"time"

	badger "github.com/dgraph-io/badger/v4"
)

func runReadersVsCompactions(c *Ctx) error {
	dur := 20 * time.Second // C03: a flush completing inside NewIterator is rarer still
	if c.Prop == "C01" {
		dur = 10 * time.Second // the window between a compaction's two level updates is a few microseconds wide
	}
	if c.N >= 1000 {
		dur = 60 * time.Second
	}
	if v := os.Getenv("VERIF_STRESS_SECONDS"); v != "" {
		var n int
		if _, err := fmt.Sscanf(v, "%d", &n); err == nil && n > 0 {
			dur = time.Duration(n) * time.Second
		}
	}
	dir := filepath.Join(os.Getenv("VERIF_SCRATCH_DIR"), "readers_vs_compactions")
	os.RemoveAll(dir)
	defer os.RemoveAll(dir)
	opt := badger.DefaultOptions(dir).WithLoggingLevel(badger.ERROR).WithMemTableSize(64 << 10).WithBaseTableSize(32 << 10).
		WithBaseLevelSize(128 << 10).WithLevelSizeMultiplier(2).WithNumLevelZeroTables(2).WithNumLevelZeroTablesStall(6).
		WithNumCompactors(3).WithValueThreshold(1 << 10).WithValueLogFileSize(8 << 20).WithNumMemtables(4).
		WithBlockCacheSize(1 << 20).WithMetricsEnabled(false).WithNumVersionsToKeep(1)
	db, err := badger.Open(opt)
	if err != nil {
		return err
	}
	const N = 120
	key := func(i int) []byte { return []byte(fmt.Sprintf("rc%04d", i)) }
	val := func(n uint64) []byte {
		b := make([]byte, 48)
		binary.BigEndian.PutUint64(b, n)
		return b
	}
	for i0 := 0; i0 < N; i0 += 10 {
		if err := db.Update(func(tx *badger.Txn) error {
			for i := i0; i < i0+10 && i < N; i++ {
				if err := tx.Set(key(i), val(1)); err != nil {
					return err
				}
			}
			return nil
		}); err != nil {
			return err
		}
	}
	var stop atomic.Bool
	var counter atomic.Uint64
	counter.Store(1)
	var wg sync.WaitGroup
	var missing, backwards, short, reads, iters, commits atomic.Int64
	var first atomic.Value
	note := func(s string) {
		if first.Load() == nil {
			first.Store(s)
		}
	}
	for w := 0; w < 3; w++ {
		wg.Add(1)
		go func(w int) {
			defer wg.Done()
			x := uint32(c.Seed)*2654435761 + uint32(w)*40503
			for !stop.Load() {
				err := db.Update(func(tx *badger.Txn) error {
					for j := 0; j < 6; j++ {
						x = x*1664525 + 1013904223
						if err := tx.Set(key(int(x>>8)%N), val(counter.Add(1))); err != nil {
							return err
						}
					}
					return nil
				})
				if err == nil {
					commits.Add(1)
				}
			}
		}(w)
	}
	for r := 0; r < 5; r++ {
		wg.Add(1)
		go func(r int) {
			defer wg.Done()
			last := make([]uint64, N)
			x := uint32(c.Seed)*97 + uint32(r)*7919
			for !stop.Load() {
				if r%2 == 0 {
					x = x*1664525 + 1013904223
					i := int(x>>8) % N
					db.View(func(tx *badger.Txn) error {
						it, err := tx.Get(key(i))
						reads.Add(1)
						if err != nil {
							missing.Add(1)
							note(fmt.Sprintf("Get %s: %v", key(i), err))
							return nil
						}
						if _, err := it.ValueCopy(nil); err != nil {
							missing.Add(1)
							note(fmt.Sprintf("Get %s: value: %v", key(i), err))
						}
						// the commit timestamp of the version read can only grow for one reader
						n := it.Version()
						if n < last[i] {
							backwards.Add(1)
							note(fmt.Sprintf("Get %s: version %d after version %d", key(i), n, last[i]))
						}
						last[i] = n
						return nil
					})
					continue
				}
				db.View(func(tx *badger.Txn) error {
					o := badger.DefaultIteratorOptions
					o.Prefix = []byte("rc")
					it := tx.NewIterator(o)
					defer it.Close()
					cnt := 0
					for it.Rewind(); it.Valid(); it.Next() {
						var i int
						fmt.Sscanf(string(it.Item().Key()), "rc%04d", &i)
						if i < N {
							n := it.Item().Version()
							if n < last[i] {
								backwards.Add(1)
								note(fmt.Sprintf("iterator %s: version %d after version %d", it.Item().Key(), n, last[i]))
							}
							last[i] = n
						}
						cnt++
					}
					iters.Add(1)
					if cnt != N {
						short.Add(1)
						note(fmt.Sprintf("iterator yielded %d of %d keys", cnt, N))
					}
					return nil
				})
			}
		}(r)
	}
	time.Sleep(dur)
	stop.Store(true)
	done := make(chan struct{})
	go func() { wg.Wait(); close(done) }()
	select {
	case <-done:
	case <-time.After(60 * time.Second):
		c.Oracle(false, "c01-readers-vs-compactions-did-not-stop", "readers / writers did not finish within 60 s", nil)
		return nil
	}
	nT := len(db.Tables())
	f, _ := first.Load().(string)
	c.Oracle(missing.Load() == 0 && backwards.Load() == 0 && short.Load() == 0, "c01-read-misses-committed-version-during-flush-or-compaction",
		"while memtables are flushed and tables compacted in the background a read missed a key or returned an older version than an earlier read of the same reader",
		J{"gets": reads.Load(), "iterations": iters.Load(), "commits": commits.Load(), "missing": missing.Load(), "went_backwards": backwards.Load(),
			"short_iterations": short.Load(), "tables_at_end": nT, "first": f})
	c.Extra["readers_vs_compactions"] = J{"gets": reads.Load(), "iterations": iters.Load(), "commits": commits.Load(), "tables_at_end": nT}
	closed := make(chan error, 1)
	go func() { closed <- db.Close() }()
	select {
	case <-closed:
	case <-time.After(60 * time.Second):
		c.Oracle(false, "c01-close-did-not-return-after-stress", "Close did not return within 60 s", nil)
	}
	return nil
}
