package main

// C16 — log records round-trip and replay in transaction units.
// Correspondence: hash/crc32 (Castagnoli), logFile.encodeEntry, safeRead.Entry, logFile.iterate,
// logFile.decodeEntry, strconv.ParseUint against coq/base/Crc32c.v, coq/A/LogRecord.v, coq/A/LogIter.v.
// Property oracles (independent of the model): round trip, whole-unit delivery, corruption detection.

import (
	"bytes"
	"encoding/binary"
	"fmt"
	"hash/crc32"
	"strconv"
	"strings"

	badger "github.com/dgraph-io/badger/v4"
	"github.com/dgraph-io/badger/v4/y"
)

func init() {
	register("C16", func(c *Ctx) error {
		// records as valueLog.write lays them out in an encrypted file (several records per
		// request, file rotations) and reads them back through their value pointers
		nh := 3
		if c.N >= 10000 {
			nh = 120
		}
		if err := runVlogPhase(c, nh, true); err != nil {
			return err
		}
		return runC16(c)
	})
}

const (
	lbitTxn    = 1 << 6
	lbitFinTxn = 1 << 7
)

type lrec struct {
	Key, Val []byte
	Meta     byte
	Umeta    byte
	Exp      uint64
}

// a unit as the writer produces it: one plain entry, or txn entries followed by the end marker;
// Bad != "" marks a deliberately malformed unit (iteration must stop before delivering any of it)
type lunit struct {
	Recs []lrec
	Bad  string
}

type lenc struct {
	aesKey, baseIV []byte
}

func logEntTerm(k, v []byte, m, u byte, ex uint64) string {
	return fmt.Sprintf("(mkEntry %s %s %d %d %d)", B(k), B(v), m, u, ex)
}
func delTerm(e badger.VerifLogEntry) string {
	return fmt.Sprintf("(mkDel %s %d %d)", logEntTerm(e.Key, e.Value, e.Meta, e.UserMeta, e.ExpiresAt), e.VpOffset, e.VpLen)
}
func delsTerm(out []badger.VerifLogEntry) string {
	items := make([]string, len(out))
	for i, e := range out {
		items[i] = delTerm(e)
	}
	return ListOf(items)
}

var lenEdges = []int{1, 2, 9, 127, 128, 129, 300}

func (c *Ctx) lkey(ts uint64) []byte {
	n := 1 + c.Rng.Intn(5)
	if c.Rng.Intn(6) == 0 {
		n = lenEdges[c.Rng.Intn(len(lenEdges))]
	}
	k := make([]byte, n)
	for i := range k {
		k[i] = "ab\x00\xff"[c.Rng.Intn(4)]
		if c.Rng.Intn(3) == 0 {
			k[i] = byte(c.Rng.Intn(256))
		}
	}
	return y.KeyWithTs(k, ts)
}
func (c *Ctx) lval() []byte {
	n := c.Rng.Intn(7)
	switch c.Rng.Intn(8) {
	case 0:
		n = 0
	case 1:
		n = lenEdges[c.Rng.Intn(len(lenEdges))]
	}
	v := make([]byte, n)
	for i := range v {
		v[i] = byte(c.Rng.Intn(256))
		if c.Rng.Intn(4) == 0 {
			v[i] = 0
		}
	}
	return v
}
func (c *Ctx) lexp() uint64 {
	if c.Rng.Intn(2) == 0 {
		return 0
	}
	return c.u64()
}
func (c *Ctx) plainRec(ts uint64) lrec {
	return lrec{Key: c.lkey(ts), Val: c.lval(), Meta: byte(c.Rng.Intn(64)), Umeta: byte(c.Rng.Intn(256)), Exp: c.lexp()}
}
func (c *Ctx) txnRec(ts uint64) lrec {
	r := c.plainRec(ts)
	r.Meta |= lbitTxn
	if c.Rng.Intn(8) == 0 {
		r.Meta |= lbitFinTxn // both bits: the txn arm wins
	}
	return r
}
func markerRec(ts uint64) lrec {
	return lrec{Key: y.KeyWithTs([]byte("!badger!txn"), ts), Val: []byte(strconv.FormatUint(ts, 10)), Meta: lbitFinTxn}
}
func (c *Ctx) ltxnTs() uint64 {
	switch c.Rng.Intn(5) {
	case 0:
		return 1
	case 1:
		return uint64(1 + c.Rng.Intn(300))
	case 2:
		return ^uint64(0) - uint64(c.Rng.Intn(2))
	}
	return c.Rng.Uint64()>>uint(c.Rng.Intn(64)) | 1
}

// goodUnit: a well-formed unit
func (c *Ctx) goodUnit() lunit {
	if c.Rng.Intn(2) == 0 {
		return lunit{Recs: []lrec{c.plainRec(c.u64())}}
	}
	ts := c.ltxnTs()
	n := 1 + c.Rng.Intn(3)
	var u lunit
	for i := 0; i < n; i++ {
		u.Recs = append(u.Recs, c.txnRec(ts))
	}
	m := markerRec(ts)
	if c.Rng.Intn(6) == 0 { // leading zeros still parse
		m.Val = append([]byte("00"), m.Val...)
	}
	u.Recs = append(u.Recs, m)
	return u
}

// badUnit: a malformed group; none of its entries may be delivered and iteration stops
func (c *Ctx) badUnit() lunit {
	ts := c.ltxnTs()
	if ts == ^uint64(0) {
		ts--
	}
	n := 1 + c.Rng.Intn(2)
	var u lunit
	for i := 0; i < n; i++ {
		u.Recs = append(u.Recs, c.txnRec(ts))
	}
	switch c.Rng.Intn(8) {
	case 0:
		u.Bad = "missing-marker-then-plain"
		u.Recs = append(u.Recs, c.plainRec(c.u64()))
	case 1:
		u.Bad = "marker-wrong-ts"
		u.Recs = append(u.Recs, markerRec(ts+1))
	case 2:
		u.Bad = "marker-not-decimal"
		m := markerRec(ts)
		m.Val = [][]byte{nil, []byte("+5"), []byte("12a"), []byte("18446744073709551616"), []byte(" 7"), []byte("1_0")}[c.Rng.Intn(6)]
		u.Recs = append(u.Recs, m)
	case 3:
		u.Bad = "txn-ts-changes"
		u.Recs = append(u.Recs, c.txnRec(ts+1), markerRec(ts+1))
	case 4:
		u.Bad = "marker-without-txn"
		u.Recs = []lrec{markerRec(ts)}
	case 5:
		u.Bad = "missing-marker-at-end"
	case 6:
		u.Bad = "zero-key-entry"
		u.Recs = []lrec{{Key: nil, Val: c.lval(), Meta: byte(c.Rng.Intn(64))}}
	case 7:
		u.Bad = "missing-marker-then-txn-other-ts"
		u.Recs = append(u.Recs, c.txnRec(ts+2))
	}
	return u
}

type builtLog struct {
	Data    []byte   // file image: 20-byte header + records
	RecOff  []uint32 // offset of every record
	RecLen  []uint32
	Recs    []lrec
	UnitOf  []int // unit index of every record
	Units   []lunit
	GoodEnd uint32 // end offset of the last unit before the first malformed one
	NGood   int    // number of leading well-formed units
}

func buildLog(c *Ctx, units []lunit, enc lenc) builtLog {
	var b builtLog
	hdr := make([]byte, 20)
	for i := 8; i < 20; i++ {
		hdr[i] = byte(c.Rng.Intn(256))
	}
	if enc.baseIV != nil {
		copy(hdr[8:], enc.baseIV)
	}
	b.Data = hdr
	b.Units = units
	b.GoodEnd = 20
	good := true
	for ui, u := range units {
		if u.Bad != "" {
			good = false
		}
		for _, r := range u.Recs {
			off := uint32(len(b.Data))
			e, n, err := badger.VerifLogEncodeEntry(r.Key, r.Val, r.Meta, r.Umeta, r.Exp, off, enc.aesKey, enc.baseIV)
			if err != nil || n != len(e) {
				panic(fmt.Sprintf("encodeEntry: %v %d %d", err, n, len(e)))
			}
			b.RecOff = append(b.RecOff, off)
			b.RecLen = append(b.RecLen, uint32(len(e)))
			b.Recs = append(b.Recs, r)
			b.UnitOf = append(b.UnitOf, ui)
			b.Data = append(b.Data, e...)
		}
		if good {
			b.GoodEnd = uint32(len(b.Data))
			b.NGood = ui + 1
		}
	}
	return b
}

// entries (with offsets) the iteration has to deliver for the first n units
func (b *builtLog) expect(n int) (recs []lrec, offs, lens []uint32) {
	for i, r := range b.Recs {
		if b.UnitOf[i] >= n {
			break
		}
		if r.Meta&lbitTxn == 0 && r.Meta&lbitFinTxn != 0 {
			continue // end marker: WAL only
		}
		recs = append(recs, r)
		offs = append(offs, b.RecOff[i])
		lens = append(lens, b.RecLen[i])
	}
	return
}

func sameDelivery(out []badger.VerifLogEntry, recs []lrec, offs, lens []uint32, fid uint32) bool {
	if len(out) != len(recs) {
		return false
	}
	for i, e := range out {
		r := recs[i]
		if !bytes.Equal(e.Key, r.Key) || !bytes.Equal(e.Value, r.Val) || e.Meta != r.Meta || e.UserMeta != r.Umeta ||
			e.ExpiresAt != r.Exp || e.Offset != offs[i] || e.VpOffset != offs[i] || e.VpLen != lens[i] || e.VpFid != fid {
			return false
		}
	}
	return true
}

// deliveries form whole units: out == expect(k) for some k
func wholeUnits(b *builtLog, out []badger.VerifLogEntry, fid uint32) (int, bool) {
	for k := 0; k <= len(b.Units); k++ {
		recs, offs, lens := b.expect(k)
		if len(recs) == len(out) {
			if sameDelivery(out, recs, offs, lens, fid) {
				return k, true
			}
		}
		if len(recs) > len(out) {
			break
		}
	}
	return 0, false
}

func (c *Ctx) iterCase(kind string, data []byte, offset uint32, in interface{}) ([]badger.VerifLogEntry, uint32, int) {
	out, vend, cls := badger.VerifLogIterate(data, 0, offset, nil, nil)
	if cls == badger.VerifRdPanic {
		vend = 0
	}
	c.Case(kind, fmt.Sprintf("(Iter %s %d %s %d %d)", B(data), offset, delsTerm(out), cls, vend), in)
	return out, vend, cls
}

func (c *Ctx) someUnits(nGood int, withBad bool, nAfter int) []lunit {
	var us []lunit
	for i := 0; i < nGood; i++ {
		us = append(us, c.goodUnit())
	}
	if withBad {
		bu := c.badUnit()
		us = append(us, bu)
		if bu.Bad == "missing-marker-at-end" {
			nAfter = 0
		}
		for i := 0; i < nAfter; i++ {
			us = append(us, c.goodUnit())
		}
	}
	return us
}

func (c *Ctx) encSetup() lenc {
	k := make([]byte, []int{16, 24, 32}[c.Rng.Intn(3)])
	for i := range k {
		k[i] = byte(c.Rng.Intn(256))
	}
	iv := make([]byte, 12)
	for i := range iv {
		iv[i] = byte(c.Rng.Intn(256))
	}
	return lenc{aesKey: k, baseIV: iv}
}

// hugeAlloc: the header at the start of rec makes safeRead.Entry allocate more than 64 MiB
// (make([]byte, 2*vlen) and make([]byte, klen+vlen) happen before any byte of the body is read)
func hugeAlloc(rec []byte) bool {
	if len(rec) < 2 {
		return false
	}
	kl, n1 := binary.Uvarint(rec[2:])
	if n1 <= 0 {
		return false
	}
	vl, n2 := binary.Uvarint(rec[2+n1:])
	if n2 <= 0 {
		return false
	}
	return uint32(kl) <= 1<<16 && uint32(vl) > 1<<26
}

func rawHeader(m, u byte, klen, vlen, exp uint64) []byte {
	b := []byte{m, u}
	var t [binary.MaxVarintLen64]byte
	for _, x := range []uint64{klen, vlen, exp} {
		n := binary.PutUvarint(t[:], x)
		b = append(b, t[:n]...)
	}
	return b
}

func runC16(c *Ctx) error {
	c.Setup("Uvarint Keys Codec Crc32c LogRecord LogIter CorrC16", "run_case")
	castagnoli := crc32.MakeTable(crc32.Castagnoli)
	for i := 0; c.nCases < c.N; i++ {
		switch i % 16 {
		case 0: // CRC-32C against hash/crc32
			d := c.rawBytes([]int{0, 1, 3, 4, 5, 9, 40, 300}[c.Rng.Intn(8)] + 3)
			c.Case("Crc", fmt.Sprintf("(Crc %s %d)", B(d), crc32.Checksum(d, castagnoli)), J{"d": d})
			c.Oracle(crc32.Checksum(d, castagnoli) == crc32.Checksum(d, y.CastagnoliCrcTable), "crc-table", "y.CastagnoliCrcTable is not the Castagnoli table", J{"d": d})

		case 1, 2: // encodeEntry + single-record round trip (plain and encrypted)
			r := c.plainRec(c.u64())
			r.Meta = byte(c.Rng.Intn(256))
			if c.Rng.Intn(5) == 0 {
				r.Key = nil
			}
			if c.Rng.Intn(12) == 0 {
				r.Key = make([]byte, []int{16383, 16384, 65535, 65536, 65537}[c.Rng.Intn(5)])
			}
			if c.Rng.Intn(12) == 0 {
				r.Val = make([]byte, []int{16383, 16384, 70000}[c.Rng.Intn(3)])
			}
			off := c.u32()
			enc, n, err := badger.VerifLogEncodeEntry(r.Key, r.Val, r.Meta, r.Umeta, r.Exp, off, nil, nil)
			in := J{"k": r.Key, "v": r.Val, "m": r.Meta, "u": r.Umeta, "x": r.Exp, "off": off}
			if len(r.Key)+len(r.Val) < 1500 {
				c.Case("Enc", fmt.Sprintf("(Enc %s %d %s %d)", logEntTerm(r.Key, r.Val, r.Meta, r.Umeta, r.Exp), off, B(enc), n), in)
			} else {
				c.Count("Enc-large-oracle-only")
			}
			// oracle: safeRead returns exactly what was encoded, for the plain and an encrypted file
			for pass := 0; pass < 2; pass++ {
				var le lenc
				if pass == 1 {
					le = c.encSetup()
					enc, n, err = badger.VerifLogEncodeEntry(r.Key, r.Val, r.Meta, r.Umeta, r.Exp, off, le.aesKey, le.baseIV)
				}
				tail := c.rawBytes(6)
				e, cls := badger.VerifLogSafeRead(append(append([]byte{}, enc...), tail...), off, le.aesKey, le.baseIV)
				if len(r.Key) > 1<<16 {
					c.Oracle(cls == badger.VerifRdTruncate, "record-klen-limit", "key longer than 1<<16 not rejected with errTruncate", in)
					continue
				}
				ok := err == nil && n == len(enc) && cls == badger.VerifRdOk && bytes.Equal(e.Key, r.Key) && bytes.Equal(e.Value, r.Val) &&
					e.Meta == r.Meta && e.UserMeta == r.Umeta && e.ExpiresAt == r.Exp && e.Offset == off &&
					e.Hlen+len(r.Key)+len(r.Val)+4 == len(enc)
				c.Oracle(ok, []string{"record-roundtrip", "record-roundtrip-encrypted"}[pass], "safeRead.Entry(encodeEntry(e)) != e", in)
				if pass == 1 && len(r.Key)+len(r.Val) > 0 {
					penc, _, _ := badger.VerifLogEncodeEntry(r.Key, r.Val, r.Meta, r.Umeta, r.Exp, off, nil, nil)
					c.Oracle(len(penc) == len(enc) && bytes.Equal(penc[:e.Hlen], enc[:e.Hlen]), "encrypted-header-plain", "encrypted record: header differs / length differs", in)
				}
				// decodeEntry (value-log read path) on the exact record
				d, dok := badger.VerifLogDecodeEntry(enc, off, le.aesKey, le.baseIV)
				c.Oracle(dok && bytes.Equal(d.Key, r.Key) && bytes.Equal(d.Value, r.Val) && d.Meta == r.Meta && d.UserMeta == r.Umeta && d.ExpiresAt == r.Exp,
					"decode-entry-roundtrip", "decodeEntry(encodeEntry(e)) != e", in)
			}

		case 3: // safeRead on crafted headers: limits, uint32 wrap, varint overflow, short input
			var buf []byte
			kind := c.Rng.Intn(9)
			if kind == 1 && c.kinds["wrap-alloc-rd"] >= 1 {
				kind = 5 // the uint32-wrap cases allocate 8 GiB of address space each: a few per run
			}
			switch kind {
			case 0: // klen limit
				kl := uint64([]int{65535, 65536, 65537, 1 << 20}[c.Rng.Intn(4)])
				buf = append(rawHeader(1, 2, kl, 3, 0), make([]byte, 40)...)
			case 1: // uint32 wrap of klen+vlen: panic in buf[:klen]
				c.Count("wrap-alloc-rd")
				kl := uint64(1 + c.Rng.Intn(200))
				buf = append(rawHeader(0, 0, kl, (1<<32)-uint64(1+c.Rng.Intn(int(kl))), c.lexp()), make([]byte, 250)...)
			case 2: // klen/vlen above 32 bits are truncated
				buf = append(rawHeader(0, 0, (1<<32)+uint64(c.Rng.Intn(4)), (1<<32)*uint64(1+c.Rng.Intn(5))+uint64(c.Rng.Intn(4)), 0), c.rawBytes(12)...)
			case 3: // varint overflow in one of the three fields
				buf = []byte{byte(c.Rng.Intn(256)), 0}
				for f, at := 0, c.Rng.Intn(3); f < 3; f++ {
					if f == at {
						if c.Rng.Intn(2) == 0 {
							buf = append(buf, bytes.Repeat([]byte{0x80}, 9)...)
							buf = append(buf, byte(2+c.Rng.Intn(100)))
						} else {
							buf = append(buf, bytes.Repeat([]byte{0xff}, 10)...)
						}
						break
					}
					buf = append(buf, byte(c.Rng.Intn(4)))
				}
				if c.Rng.Intn(2) == 0 {
					buf = append(buf, c.rawBytes(8)...)
				}
			case 4: // ten-byte varint with top byte 1 is fine
				buf = append([]byte{3, 4, 2}, 1)
				buf = append(buf, bytes.Repeat([]byte{0xff}, 9)...)
				buf = append(buf, 1, 'k', 'k', 'v')
				if c.Rng.Intn(3) > 0 { // with the right checksum the record is accepted (expiry 2^64-1)
					buf = binary.BigEndian.AppendUint32(buf, crc32.Checksum(buf, castagnoli))
				} else {
					buf = append(buf, 0, 0, 0, 0)
				}
			case 5: // valid record cut anywhere
				r := c.plainRec(c.u64())
				enc, _, _ := badger.VerifLogEncodeEntry(r.Key, r.Val, r.Meta, r.Umeta, r.Exp, 20, nil, nil)
				buf = enc[:c.Rng.Intn(len(enc)+1)]
				if c.Rng.Intn(3) == 0 {
					buf = append(append([]byte{}, enc...), c.rawBytes(5)...)
				}
			case 6: // zeros
				buf = make([]byte, c.Rng.Intn(12))
			case 7: // moderately large vlen, short input
				buf = append(rawHeader(0, 0, 2, uint64(1)<<uint(10+c.Rng.Intn(16)), 0), c.rawBytes(5)...)
			default:
				buf = c.rawBytes(30)
				if len(buf) > 3 {
					buf[2] &= 0x7f // keep klen small so that the read is cheap
					buf[3] &= 0x7f
				}
			}
			off := uint32(20 + c.Rng.Intn(100))
			e, cls := badger.VerifLogSafeRead(buf, off, nil, nil)
			c.Case("Rd", fmt.Sprintf("(Rd %s %d %d %s %d)", B(buf), off, cls, logEntTerm(e.Key, e.Value, e.Meta, e.UserMeta, e.ExpiresAt), e.Hlen), J{"buf": buf, "off": off})

		case 4, 5, 6: // iterate over well-formed logs: write order, offsets, value pointers
			us := c.someUnits(1+c.Rng.Intn(5), false, 0)
			b := buildLog(c, us, lenc{})
			data := b.Data
			tailKind := c.Rng.Intn(4)
			switch tailKind {
			case 1:
				data = append(append([]byte{}, data...), make([]byte, 1+c.Rng.Intn(30))...)
			case 2:
				data = append(append([]byte{}, data...), c.rawBytes(1)...)
			}
			offset := uint32(0)
			if c.Rng.Intn(3) == 0 {
				offset = 20
			}
			skipU := 0
			if c.Rng.Intn(4) == 0 && len(us) > 1 { // start at a later unit boundary (value-log replay from a pointer)
				skipU = 1 + c.Rng.Intn(len(us)-1)
				for ri := range b.Recs {
					if b.UnitOf[ri] == skipU {
						offset = b.RecOff[ri]
						break
					}
				}
			}
			out, vend, cls := c.iterCase("IterGood", data, offset, J{"data": data, "offset": offset})
			recs, offs, lens := b.expect(len(us))
			drop, _, _ := b.expect(skipU)
			recs, offs, lens = recs[len(drop):], offs[len(drop):], lens[len(drop):]
			if tailKind != 2 {
				c.Oracle(cls == 0 && sameDelivery(out, recs, offs, lens, 0) && vend == b.GoodEnd, "iterate-order",
					"iterate over a well-formed log: entries/offsets/value pointers/valid end differ from what was written",
					J{"data": data, "offset": offset})
			}
			// the same log in an encrypted file: oracle only
			if c.Rng.Intn(3) == 0 {
				le := c.encSetup()
				be := buildLog(c, us, le)
				oe, ve, ce := badger.VerifLogIterate(be.Data, 7, 0, le.aesKey, le.baseIV)
				r2, o2, l2 := be.expect(len(us))
				c.Oracle(ce == 0 && sameDelivery(oe, r2, o2, l2, 7) && ve == be.GoodEnd, "iterate-order-encrypted",
					"iterate over a well-formed encrypted log differs from what was written", J{"units": len(us)})
				c.Oracle(!bytes.Contains(be.Data[20:], us[0].Recs[0].Key) || len(us[0].Recs[0].Key) < 12, "encrypted-key-in-clear",
					"encrypted log contains a key in clear", J{"k": us[0].Recs[0].Key})
			}

		case 7, 8, 9: // malformed groups: nothing of the malformed unit or after it is delivered
			us := c.someUnits(c.Rng.Intn(3), true, c.Rng.Intn(2))
			b := buildLog(c, us, lenc{})
			out, vend, cls := c.iterCase("IterMalformed", b.Data, 0, J{"data": b.Data, "bad": us[b.NGood].Bad})
			recs, offs, lens := b.expect(b.NGood)
			c.Oracle(cls == 0 && sameDelivery(out, recs, offs, lens, 0) && vend == b.GoodEnd, "txn-units:"+us[b.NGood].Bad,
				"malformed group: delivered entries are not exactly the well-formed units before it", J{"data": b.Data, "bad": us[b.NGood].Bad})

		case 10: // quirk streams
			if c.kinds["IterHeaderFlipPanic"] == 0 {
				// one flipped bit in the value-length byte of an intact record with a 5-byte expiry whose
				// low 25 bits are ones (e.g. 0x65FFFFFF = March 2024): the varint runs on into the expiry,
				// uint32(vlen) = 2^32-128+50, klen+vlen wraps to 22 < klen and e.Key = buf[:klen] panics
				r := lrec{Key: y.KeyWithTs(bytes.Repeat([]byte("k"), 92), 7), Val: bytes.Repeat([]byte("v"), 50), Exp: 0x65FFFFFF}
				b := buildLog(c, []lunit{{Recs: []lrec{c.plainRec(3)}}, {Recs: []lrec{r}}}, lenc{})
				data := append([]byte{}, b.Data...)
				data[int(b.RecOff[1])+3] ^= 0x80
				_, _, cls := c.iterCase("IterHeaderFlipPanic", data, 0, J{"data": data})
				c.Extra["header_bitflip_panics"] = cls == badger.VerifRdPanic
				continue
			}
			// version-0 transactional entries (the writer asserts commitTs != 0)
			us := []lunit{{Recs: []lrec{c.txnRec(0)}}}
			switch c.Rng.Intn(3) {
			case 0:
				us[0].Recs = append(us[0].Recs, c.plainRec(5), markerRec(0))
			case 1:
				us[0].Recs = append(us[0].Recs, c.txnRec(7), markerRec(7))
			case 2:
				us[0].Recs = append(us[0].Recs, markerRec(0))
			}
			b := buildLog(c, us, lenc{})
			c.iterCase("IterZeroTs", b.Data, 0, J{"data": b.Data})

		case 11, 12: // every single-byte corruption of a small log
			us := c.someUnits(1+c.Rng.Intn(2), false, 0)
			us = append(us, c.goodUnit())
			b := buildLog(c, us, lenc{})
			le := c.encSetup()
			be := buildLog(c, us, le)
			for pos := 20; pos < len(b.Data) && c.nCases < c.N; pos++ {
				if !(i%64 == 11 && len(b.Data) <= 140) && c.Rng.Intn(len(b.Data)-20) >= 8 {
					continue // full sweep over every byte of a small log every 4th round, else a sample
				}
				x := byte(1 + c.Rng.Intn(255))
				if c.Rng.Intn(3) == 0 {
					x = 1 << uint(c.Rng.Intn(8))
				}
				data := append([]byte{}, b.Data...)
				data[pos] ^= x
				// which record, which region
				ri := 0
				for ri+1 < len(b.RecOff) && int(b.RecOff[ri+1]) <= pos {
					ri++
				}
				if hugeAlloc(data[b.RecOff[ri]:]) {
					c.Count("corrupt-skipped-huge-alloc") // safeRead would allocate gigabytes for the damaged vlen
					continue
				}
				out, _, cls := c.iterCase("IterCorrupt", data, 0, J{"data": data, "pos": pos})
				r := b.Recs[ri]
				hl := int(b.RecLen[ri]) - len(r.Key) - len(r.Val) - 4
				inKV := pos >= int(b.RecOff[ri])+hl && pos < int(b.RecOff[ri]+b.RecLen[ri])-4
				k, whole := wholeUnits(&b, out, 0)
				c.Oracle(cls != badger.VerifRdPanic && whole, "corrupt-byte-partial-or-altered-delivery",
					"single corrupted byte: delivered entries are not a sequence of whole written units", J{"data": data, "pos": pos})
				if inKV {
					c.Oracle(whole && k <= b.UnitOf[ri], "corrupt-kv-byte-delivered",
						"a record whose key/value byte was altered was delivered", J{"data": data, "pos": pos})
				}
				// encrypted image of the same log, same position
				de := append([]byte{}, be.Data...)
				de[pos] ^= x
				oe, _, ce := badger.VerifLogIterate(de, 0, 0, le.aesKey, le.baseIV)
				ke, wholeE := wholeUnits(&be, oe, 0)
				c.Oracle(ce != badger.VerifRdPanic && wholeE && (!inKV || ke <= be.UnitOf[ri]), "corrupt-byte-encrypted",
					"encrypted log, single corrupted byte: altered or partial delivery", J{"pos": pos, "units": len(us)})
			}

		case 13: // iterate on raw / damaged input: garbage tail after good units, mutated header bytes
			us := c.someUnits(1+c.Rng.Intn(2), false, 0)
			b := buildLog(c, us, lenc{})
			data := append([]byte{}, b.Data...)
			tk := c.Rng.Intn(4)
			if tk == 2 { // (the panic tail is exercised once per run by IterHeaderFlipPanic: 8 GiB of address space each)
				tk = 0
			}
			switch tk {
			case 0:
				g := c.rawBytes(40)
				if len(g) > 3 {
					g[2] &= 0x7f
					g[3] &= 0x7f
				}
				data = append(data, g...)
			case 1: // overflowing varint after the good units: iterate returns the error
				data = append(data, 0, 0)
				data = append(data, bytes.Repeat([]byte{0xff}, 10)...)
				data = append(data, 1, 2, 3)
			case 2: // wrap panic after the good units
				c.Count("wrap-alloc-iter")
				data = append(data, rawHeader(0, 0, 9, (1<<32)-4, 0)...)
				data = append(data, make([]byte, 30)...)
			case 3: // short file: fewer than 20 bytes
				data = data[:c.Rng.Intn(21)]
			}
			off := uint32(0)
			if c.Rng.Intn(5) == 0 {
				off = uint32(len(data) + c.Rng.Intn(3)) // start at / beyond the end
				if off == 0 {
					off = 1
				}
			}
			c.iterCase("IterRaw", data, off, J{"data": data, "offset": off})

		case 14: // decodeEntry on raw buffers (panics are None)
			var buf []byte
			if c.Rng.Intn(2) == 0 {
				r := c.plainRec(c.u64())
				enc, _, _ := badger.VerifLogEncodeEntry(r.Key, r.Val, r.Meta, r.Umeta, r.Exp, 20, nil, nil)
				buf = enc[:c.Rng.Intn(len(enc)+1)]
				if c.Rng.Intn(2) == 0 {
					buf = enc
				}
			} else {
				buf = c.rawBytes(24)
				if len(buf) > 3 {
					buf[2] &= 0x7f
					buf[3] &= 0x7f
				}
			}
			e, ok := badger.VerifLogDecodeEntry(buf, 20, nil, nil)
			rt := "None"
			if ok {
				rt = Some(logEntTerm(e.Key, e.Value, e.Meta, e.UserMeta, e.ExpiresAt))
			}
			c.Case("Dec", fmt.Sprintf("(Dec %s %d %s)", B(buf), 20, rt), J{"buf": buf})

		case 15: // strconv.ParseUint(s, 10, 64)
			var s string
			switch c.Rng.Intn(6) {
			case 0:
				s = strconv.FormatUint(c.u64(), 10)
			case 1:
				s = "1844674407370955161" + string(rune('0'+c.Rng.Intn(10)))
			case 2:
				s = strings.Repeat("0", c.Rng.Intn(25)) + strconv.FormatUint(c.u64(), 10)
			case 3:
				s = string(c.rawBytes(4))
			case 4:
				s = []string{"", "+1", "-1", "1_000", "0x10", " 1", "1 ", "99999999999999999999", "١"}[c.Rng.Intn(9)]
			case 5:
				s = strconv.FormatUint(c.u64(), 10) + string(rune(c.Rng.Intn(128)))
			}
			v, err := strconv.ParseUint(s, 10, 64)
			rt := "None"
			if err == nil {
				rt = Some(Nn(v))
			}
			c.Case("PUint", fmt.Sprintf("(PUint %s %s)", B([]byte(s)), rt), J{"s": []byte(s)})
		}
	}
	return nil
}
