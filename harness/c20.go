package main

import (
	"bytes"
	"encoding/binary"
	"fmt"
	"math"

	badger "github.com/dgraph-io/badger/v4"
	"github.com/dgraph-io/badger/v4/y"
)

func init() { register("C20", runC20) }

var u64Edges = []uint64{0, 1, 2, 127, 128, 129, 255, 256, 16383, 16384, 1<<21 - 1, 1 << 21, 1<<28 - 1, 1 << 28,
	1<<32 - 1, 1 << 32, 1<<35 - 1, 1 << 35, 1<<42 - 1, 1 << 42, 1<<49 - 1, 1 << 49, 1<<56 - 1, 1 << 56,
	1<<63 - 1, 1 << 63, math.MaxUint64 - 1, math.MaxUint64}

func (c *Ctx) u64() uint64 {
	switch c.Rng.Intn(4) {
	case 0:
		return u64Edges[c.Rng.Intn(len(u64Edges))]
	case 1:
		return uint64(c.Rng.Intn(300))
	case 2:
		return c.Rng.Uint64() >> uint(c.Rng.Intn(64))
	}
	return c.Rng.Uint64()
}
func (c *Ctx) u32() uint32 {
	switch c.Rng.Intn(4) {
	case 0:
		e := []uint32{0, 1, 127, 128, 16383, 16384, 1<<21 - 1, 1 << 21, 1<<28 - 1, 1 << 28, math.MaxUint32}
		return e[c.Rng.Intn(len(e))]
	case 1:
		return uint32(c.Rng.Intn(300))
	}
	return c.Rng.Uint32() >> uint(c.Rng.Intn(32))
}

// key bytes: small alphabets so that shared prefixes, 0x00 and 0xFF are frequent
func (c *Ctx) key(maxLen int) []byte {
	n := c.Rng.Intn(maxLen + 1)
	alpha := [][]byte{{0x00, 0xff, 'a'}, {'a', 'b'}, nil}[c.Rng.Intn(3)]
	b := make([]byte, n)
	for i := range b {
		if alpha == nil {
			b[i] = byte(c.Rng.Intn(256))
		} else {
			b[i] = alpha[c.Rng.Intn(len(alpha))]
		}
	}
	return b
}
func (c *Ctx) rawBytes(maxLen int) []byte {
	n := c.Rng.Intn(maxLen + 1)
	b := make([]byte, n)
	for i := range b {
		switch c.Rng.Intn(3) {
		case 0:
			b[i] = byte(c.Rng.Intn(256))
		case 1:
			b[i] = 0x80 | byte(c.Rng.Intn(128))
		default:
			b[i] = byte(c.Rng.Intn(3))
		}
	}
	return b
}

func recoverPanic(f func()) (panicked bool) {
	defer func() {
		if r := recover(); r != nil {
			panicked = true
		}
	}()
	f()
	return false
}

func hdrTerm(klen, vlen uint32, ex uint64, m, u byte) string {
	return fmt.Sprintf("(mkHeader %d %d %d %d %d)", klen, vlen, ex, m, u)
}
func vsTerm(m, u byte, ex uint64, v []byte) string {
	return fmt.Sprintf("(mkVS %d %d %d %s)", m, u, ex, B(v))
}
func vpTerm(f, l, o uint32) string { return fmt.Sprintf("(mkVptr %d %d %d)", f, l, o) }

func cmpSign(x int) int64 {
	if x < 0 {
		return -1
	}
	if x > 0 {
		return 1
	}
	return 0
}

func runC20(c *Ctx) error {
	c.Setup("Uvarint Keys Codec Crc32c LogRecord CorrC20", "run_case")
	type J = map[string]interface{}
	for i := 0; c.nCases < c.N; i++ {
		switch i % 13 {
		case 0: // key round trip
			k := c.key(12)
			ts := c.u64()
			enc := y.KeyWithTs(k, ts)
			pk := y.ParseKey(enc)
			pts := y.ParseTs(enc)
			c.Case("KeyRT", fmt.Sprintf("(KeyRT %s %d %s %s %d)", B(k), ts, B(enc), B(pk), pts), J{"k": k, "ts": ts})
			// property oracle: round trip (non-empty key)
			if len(k) > 0 {
				c.Oracle(bytes.Equal(pk, k) && pts == ts, "key-roundtrip", "ParseKey/ParseTs(KeyWithTs(k,ts)) != (k,ts)", J{"k": k, "ts": ts})
			}
		case 1: // parse on raw bytes
			ik := c.rawBytes(20)
			c.Case("ParseRaw", fmt.Sprintf("(ParseRaw %s %s %d)", B(ik), B(y.ParseKey(ik)), y.ParseTs(ik)), J{"ik": ik})
		case 2: // compare encoded keys (structured: close keys and versions)
			k1 := c.key(6)
			k2 := k1
			switch c.Rng.Intn(4) {
			case 0:
				k2 = c.key(6)
			case 1:
				k2 = append(append([]byte{}, k1...), c.key(2)...)
			case 2:
				if len(k1) > 0 {
					k2 = append([]byte{}, k1...)
					k2[c.Rng.Intn(len(k2))] ^= byte(1 << uint(c.Rng.Intn(8)))
				}
			}
			t1, t2 := c.u64(), c.u64()
			if c.Rng.Intn(3) == 0 {
				t2 = t1 + uint64(c.Rng.Intn(3)) - 1
			}
			a, b := y.KeyWithTs(k1, t1), y.KeyWithTs(k2, t2)
			r := cmpSign(y.CompareKeys(a, b))
			c.Case("Cmp", fmt.Sprintf("(Cmp %s %s %s)", B(a), B(b), Some(Zz(r))), J{"a": a, "b": b})
			// oracle: user key ascending then version descending
			want := cmpSign(bytes.Compare(k1, k2))
			if want == 0 {
				switch {
				case t1 > t2:
					want = -1
				case t1 < t2:
					want = 1
				}
			}
			c.Oracle(r == want, "compare-keys-order", "CompareKeys != (key asc, version desc)", J{"k1": k1, "t1": t1, "k2": k2, "t2": t2, "got": r})
		case 3: // compare raw (possibly short => panic)
			a, b := c.rawBytes(12), c.rawBytes(12)
			var r int
			p := recoverPanic(func() { r = y.CompareKeys(a, b) })
			rt := "None"
			if !p {
				rt = Some(Zz(cmpSign(r)))
			}
			c.Case("CmpRaw", fmt.Sprintf("(Cmp %s %s %s)", B(a), B(b), rt), J{"a": a, "b": b})
		case 4:
			a := c.rawBytes(12)
			b := c.rawBytes(12)
			if c.Rng.Intn(2) == 0 && len(a) >= 8 {
				b = append([]byte{}, a...)
				b[len(b)-1-c.Rng.Intn(8)] ^= 0x10
			}
			c.Case("Same", fmt.Sprintf("(Same %s %s %s)", B(a), B(b), Bool(y.SameKey(a, b))), J{"a": a, "b": b})
		case 5: // header encode + decode of the encoding with trailing bytes
			kl, vl, ex := c.u32(), c.u32(), c.u64()
			m, u := byte(c.Rng.Intn(256)), byte(c.Rng.Intn(256))
			enc := badger.VerifHeaderEncode(kl, vl, ex, m, u)
			c.Case("HdrEnc", fmt.Sprintf("(HdrEnc %s %s)", hdrTerm(kl, vl, ex, m, u), B(enc)), J{"klen": kl, "vlen": vl, "ex": ex, "m": m, "u": u})
			buf := append(append([]byte{}, enc...), c.rawBytes(4)...)
			k2, v2, e2, m2, u2, n := badger.VerifHeaderDecode(buf)
			c.Case("HdrDecRT", fmt.Sprintf("(HdrDec %s (Some (%s, %s)))", B(buf), hdrTerm(k2, v2, e2, m2, u2), Zz(int64(n))), J{"buf": buf})
			c.Oracle(k2 == kl && v2 == vl && e2 == ex && m2 == m && u2 == u && n == len(enc) && len(enc) <= 22,
				"header-roundtrip", "header.Decode(header.Encode(h)) != h", J{"klen": kl, "vlen": vl, "ex": ex, "m": m, "u": u})
			// the same bytes through header.DecodeFrom, the reader delivering 1, 2, 3 or all bytes per
			// Read (a bufio.Reader at a buffer boundary delivers what it has left)
			chunk := []int{1, 2, 3, 1000}[c.Rng.Intn(4)]
			fb := buf
			if c.Rng.Intn(6) == 0 {
				fb = buf[:c.Rng.Intn(len(enc)+1)] // cut inside the header: an error class
			}
			k3, v3, e3, m3, u3, n3, cls := badger.VerifHeaderDecodeFrom(fb, chunk)
			rt := "None"
			if cls == 0 {
				rt = fmt.Sprintf("(Some (%s, %s))", hdrTerm(k3, v3, e3, m3, u3), Zz(int64(n3)))
			}
			c.Case("HdrFrom", fmt.Sprintf("(HdrFrom %s %s %d)", B(fb), rt, cls), J{"buf": fb, "chunk": chunk})
			if len(fb) == len(buf) {
				c.Oracle(cls == 0 && k3 == kl && v3 == vl && e3 == ex && m3 == m && u3 == u && n3 == len(enc),
					"header-roundtrip-decodefrom-short-reads", "header.DecodeFrom over a reader with short reads does not return the encoded header",
					J{"klen": kl, "vlen": vl, "ex": ex, "m": m, "u": u, "chunk": chunk})
			}
		case 6: // header decode of arbitrary bytes
			buf := c.rawBytes(26)
			var k2, v2 uint32
			var e2 uint64
			var m2, u2 byte
			var n int
			p := recoverPanic(func() { k2, v2, e2, m2, u2, n = badger.VerifHeaderDecode(buf) })
			rt := "None"
			if !p {
				rt = fmt.Sprintf("(Some (%s, %s))", hdrTerm(k2, v2, e2, m2, u2), Zz(int64(n)))
			}
			c.Case("HdrDecRaw", fmt.Sprintf("(HdrDec %s %s)", B(buf), rt), J{"buf": buf})
		case 7: // value struct
			v := y.ValueStruct{Meta: byte(c.Rng.Intn(256)), UserMeta: byte(c.Rng.Intn(256)), ExpiresAt: c.u64(), Value: c.rawBytes(10)}
			buf := make([]byte, v.EncodedSize())
			v.Encode(buf)
			var bb bytes.Buffer
			v.EncodeTo(&bb)
			c.Case("VsEnc", fmt.Sprintf("(VsEnc %s %s %d)", vsTerm(v.Meta, v.UserMeta, v.ExpiresAt, v.Value), B(buf), v.EncodedSize()), J{"m": v.Meta, "u": v.UserMeta, "ex": v.ExpiresAt, "v": v.Value})
			var d y.ValueStruct
			d.Decode(buf)
			c.Oracle(d.Meta == v.Meta && d.UserMeta == v.UserMeta && d.ExpiresAt == v.ExpiresAt && bytes.Equal(d.Value, v.Value) && bytes.Equal(bb.Bytes(), buf),
				"valuestruct-roundtrip", "ValueStruct.Decode(Encode(v)) != v or EncodeTo differs", J{"m": v.Meta, "u": v.UserMeta, "ex": v.ExpiresAt, "v": v.Value})
		case 8:
			buf := c.rawBytes(16)
			var d y.ValueStruct
			p := recoverPanic(func() { d.Decode(buf) })
			rt := "None"
			if !p {
				rt = Some(vsTerm(d.Meta, d.UserMeta, d.ExpiresAt, d.Value))
			}
			c.Case("VsDec", fmt.Sprintf("(VsDec %s %s)", B(buf), rt), J{"buf": buf})
		case 9:
			f, l, o := c.u32(), c.u32(), c.u32()
			enc := badger.VerifVptrEncode(f, l, o)
			c.Case("VpEnc", fmt.Sprintf("(VpEnc %s %s)", vpTerm(f, l, o), B(enc)), J{"f": f, "l": l, "o": o})
			f2, l2, o2 := badger.VerifVptrDecode(enc)
			c.Oracle(f2 == f && l2 == l && o2 == o && len(enc) == 12, "vptr-roundtrip", "valuePointer.Decode(Encode(p)) != p", J{"f": f, "l": l, "o": o})
		case 10:
			b := c.rawBytes(16)
			var f2, l2, o2 uint32
			p := recoverPanic(func() { f2, l2, o2 = badger.VerifVptrDecode(b) })
			rt := "None"
			if !p {
				rt = Some(vpTerm(f2, l2, o2))
			}
			c.Case("VpDec", fmt.Sprintf("(VpDec %s %s)", B(b), rt), J{"b": b})
			f1, l1, o1 := uint32(c.Rng.Intn(3)), uint32(c.Rng.Intn(3)), uint32(c.Rng.Intn(3))
			g1, m1, p1 := uint32(c.Rng.Intn(3)), uint32(c.Rng.Intn(3)), uint32(c.Rng.Intn(3))
			c.Case("VpLess", fmt.Sprintf("(VpLess %s %s %s)", vpTerm(f1, l1, o1), vpTerm(g1, m1, p1), Bool(badger.VerifVptrLess(f1, l1, o1, g1, m1, p1))), J{"p": []uint32{f1, l1, o1}, "o": []uint32{g1, m1, p1}})
		case 11:
			x := c.u64()
			var buf [binary.MaxVarintLen64]byte
			n := binary.PutUvarint(buf[:], x)
			vs := y.ValueStruct{ExpiresAt: x}
			sz := uint64(vs.EncodedSize()) - 2
			c.Case("UvPut", fmt.Sprintf("(UvPut %d %s %d)", x, B(buf[:n]), sz), J{"x": x})
			v, m := binary.Uvarint(buf[:n])
			c.Oracle(v == x && m == n, "uvarint-roundtrip", "Uvarint(PutUvarint(x)) != x", J{"x": x})
		case 12:
			buf := c.rawBytes(13)
			v, n := binary.Uvarint(buf)
			c.Case("UvGet", fmt.Sprintf("(UvGet %s %d %s)", B(buf), v, Zz(int64(n))), J{"buf": buf})
		}
	}
	return nil
}
