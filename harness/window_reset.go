package main

// Readers in the windows of the FIRST and SECOND commit after every way the oracle's timestamps
// (nextTxnTs, txnMark, readMark) get (re)initialised on a normal-mode DB:
//   load         DB.Load of a backup into a fresh DB          (backup.go: txnMark.Done(nextTxnTs-1))
//   reopen       Close + Open                                  (db.go Open: txnMark/readMark.Done, then nextTxnTs++)
//   dropall      DB.DropAll
//   streamwriter StreamWriter Prepare/Write/Flush              (stream_writer.go Flush: new oracle)
// The oracle is conc.go's runWindow: a hook stops the real Commit after the i-th entry went into
// the memtable / before the acknowledgement / between timestamp allocation and queueing; an older
// reader must see none of it, Commit must not have returned, a transaction started in the window
// must not obtain a read timestamp at or above the commit's timestamp without waiting for it
// (sig c34-reader-started-during-unfinished-commit-after-<kind>) and must then see all of it.
// A marked-done timestamp that is one too high after a reset is exactly what this catches.
//
// When called from C03 (whose case files import CorrConc) every scenario is also emitted as a
// Coq case (labels on fresh keys only; the model starts from the DB's next timestamp).  Other
// checks (C34) get the oracle only.

import (
	"bytes"
	"fmt"
	"os"
	"path/filepath"

	badger "github.com/dgraph-io/badger/v4"
	"github.com/dgraph-io/badger/v4/pb"
	"github.com/dgraph-io/ristretto/v2/z"
)

var winResetSeq int

func winResetDir(tag string) string {
	winResetSeq++
	base := os.Getenv("VERIF_SCRATCH_DIR")
	if base == "" {
		base = filepath.Join(os.TempDir(), fmt.Sprintf("verif_wr_%d", os.Getpid()))
	}
	dir := filepath.Join(base, fmt.Sprintf("wr%d_%s", winResetSeq, tag))
	os.RemoveAll(dir)
	os.MkdirAll(dir, 0o755)
	return dir
}

func winResetOpts(dir string) badger.Options {
	return badger.DefaultOptions(dir).WithLoggingLevel(badger.ERROR).WithMetricsEnabled(false).
		WithMemTableSize(1 << 20).WithValueLogFileSize(1 << 22).WithValueThreshold(32).WithNumCompactors(2).
		WithBaseTableSize(1 << 20).WithBaseLevelSize(4 << 20)
}

// xhistOn wraps an already open normal-mode DB (conflict detection on) as a history whose model
// starts at the DB's next timestamp; only keys that do not exist yet may be touched.
func xhistOn(c *Ctx, db *badger.DB, dir string) *xhist {
	h := &hist{c: c, o: sysOpts{Detect: true, NKeep: 1, MaxLevels: 4}, dir: dir, db: db,
		txns: map[int]*badger.Txn{}, tupd: map[int]bool{}, tpend: map[int][]refWrite{}}
	h.next0 = db.VerifNextTs()
	h.emit("(SetNow 0)", "now")
	return &xhist{hist: h, tx: map[int]*ctxn{}}
}

func fillOld(db *badger.DB, n int) error {
	for i := 0; i < n; i++ {
		err := db.Update(func(t *badger.Txn) error {
			if err := t.Set([]byte(fmt.Sprintf("old%03d", i)), bytes.Repeat([]byte{byte('a' + i%26)}, 5+i%60)); err != nil {
				return err
			}
			return t.Set([]byte("oldshared"), []byte(fmt.Sprintf("%d", i)))
		})
		if err != nil {
			return err
		}
	}
	return nil
}

// resetDB produces an open DB right after a reset of the given kind (no commit since)
func resetDB(c *Ctx, kind string) (*badger.DB, string, error) {
	nOld := 3 + c.Rng.Intn(12)
	switch kind {
	case "load":
		sdir := winResetDir("src")
		defer os.RemoveAll(sdir)
		src, err := badger.Open(winResetOpts(sdir))
		if err != nil {
			return nil, "", err
		}
		if err := fillOld(src, nOld); err != nil {
			src.Close()
			return nil, "", err
		}
		var buf bytes.Buffer
		if _, err := src.Backup(&buf, 0); err != nil {
			src.Close()
			return nil, "", err
		}
		src.Close()
		dir := winResetDir("load")
		db, err := badger.Open(winResetOpts(dir))
		if err != nil {
			return nil, dir, err
		}
		if err := db.Load(&buf, 16); err != nil {
			db.Close()
			return nil, dir, err
		}
		return db, dir, nil
	case "reopen":
		dir := winResetDir("reopen")
		db, err := badger.Open(winResetOpts(dir))
		if err != nil {
			return nil, dir, err
		}
		if err := fillOld(db, nOld); err != nil {
			db.Close()
			return nil, dir, err
		}
		if err := db.Close(); err != nil {
			return nil, dir, err
		}
		db, err = badger.Open(winResetOpts(dir))
		return db, dir, err
	case "dropall":
		dir := winResetDir("dropall")
		db, err := badger.Open(winResetOpts(dir))
		if err != nil {
			return nil, dir, err
		}
		if err := fillOld(db, nOld); err != nil {
			db.Close()
			return nil, dir, err
		}
		if err := db.DropAll(); err != nil {
			db.Close()
			return nil, dir, err
		}
		return db, dir, nil
	case "streamwriter":
		dir := winResetDir("sw")
		db, err := badger.Open(winResetOpts(dir))
		if err != nil {
			return nil, dir, err
		}
		if c.Rng.Intn(2) == 0 {
			if err := fillOld(db, 3); err != nil { // Prepare drops it
				db.Close()
				return nil, dir, err
			}
		}
		sw := db.NewStreamWriter()
		if err := sw.Prepare(); err != nil {
			db.Close()
			return nil, dir, err
		}
		buf := z.NewBuffer(1<<16, "verif.window_reset")
		for i := 0; i < nOld; i++ {
			badger.KVToBuffer(&pb.KV{Key: []byte(fmt.Sprintf("old%03d", i)), Value: []byte(fmt.Sprintf("v%d", i)),
				Version: uint64(5 + i*3), StreamId: 1}, buf)
		}
		err = sw.Write(buf)
		buf.Release()
		if err == nil {
			err = sw.Flush()
		}
		if err != nil {
			db.Close()
			return nil, dir, err
		}
		return db, dir, nil
	}
	return nil, "", fmt.Errorf("unknown reset kind %s", kind)
}

var winResetKinds = []string{"load", "reopen", "dropall", "streamwriter"}

// windowAfterReset: reset of the given kind, then a reader in window w1 of the first commit and in
// window w2 of the second commit
func windowAfterReset(c *Ctx, kind string, w1, w2, nkeys int) (*xhist, error) {
	db, dir, err := resetDB(c, kind)
	if err != nil {
		if dir != "" {
			os.RemoveAll(dir)
		}
		return nil, fmt.Errorf("window after %s: %v", kind, err)
	}
	x := xhistOn(c, db, dir)
	defer x.close()
	sig := "c34-reader-started-during-unfinished-commit-after-" + kind
	if err := x.runWindow(winCfg{idBase: 0, keyPrefix: "w1k", win: w1, nkeys: nkeys, seed: false, earlySig: sig}); err != nil {
		return x, err
	}
	if err := x.runWindow(winCfg{idBase: 10, keyPrefix: "w2k", win: w2, nkeys: nkeys, seed: false, earlySig: sig}); err != nil {
		return x, err
	}
	x.serialCheck()
	return x, nil
}

// runWindowAfterReset: every reset kind, window positions rotating with the seed so that over a
// few runs every (kind, commit number, window) combination is visited; the first-commit window of
// each kind always includes "after the first entry went into the memtable" once per call.
func runWindowAfterReset(c *Ctx) error {
	emit := c.Prop == "C03"
	rounds := 2
	if c.N >= 1000 {
		rounds = 6
	}
	for r := 0; r < rounds; r++ {
		for ki, kind := range winResetKinds {
			nkeys := 2 + (r+ki)%3
			w1 := 0
			if r > 0 {
				w1 = c.Rng.Intn(nkeys + 2)
			}
			w2 := c.Rng.Intn(nkeys + 2)
			x, err := windowAfterReset(c, kind, w1, w2, nkeys)
			if err != nil {
				if x != nil {
					c.Oracle(false, "harness-error:window-reset", err.Error(), J{"kind": kind, "history": x.desc})
				}
				return err
			}
			c.Count("window-after-" + kind)
			if emit {
				c.Case("window-after-"+kind, x.xterm(), xInput(x))
			}
		}
	}
	return nil
}
