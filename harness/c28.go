package main

// C28 — Writes validate keys and sizes deterministically; accepted transactions fit.
// Correspondence: transaction scripts (Set / SetEntry / Delete / Get / Discard, Commit / CommitAt)
// on real DBs with tiny memtables, namespaces, in-memory mode; function-level cases for the
// batch limits, isBanned, estimateSizeAndSetThreshold.  Model: coq/A/TxnModify.v.
// Property oracle: validation class per call, rejected write leaves reads unchanged, accepted
// writes read back, Commit error != ErrTxnTooBig.

import (
	"bytes"
	"encoding/binary"
	"encoding/hex"
	"errors"
	"fmt"
	"math"
	"encoding/json"
	"os"
	"os/exec"
	"path/filepath"
	"regexp"
	"strconv"
	"strings"
	"time"

	badger "github.com/dgraph-io/badger/v4"
)

func init() { register("C28", runC28); register("C28child", runC28Child) }

type c28cfg struct {
	name     string
	mts      int64
	thr      int64
	inMem    bool
	nsOff    int
	managed  bool
	detect   bool
	vlogSize int64
	vlogPct  float64 // VLogPercentile (dynamic value threshold) when > 0
	banned   []uint64
	db       *badger.DB
	maxC     int64
	maxS     int64
}

func (g *c28cfg) open(scratch string) error {
	var o badger.Options
	if g.inMem {
		o = badger.DefaultOptions("").WithInMemory(true)
	} else {
		dir := filepath.Join(scratch, "c28_"+g.name)
		os.RemoveAll(dir)
		o = badger.DefaultOptions(dir)
	}
	o = o.WithMemTableSize(g.mts).WithValueThreshold(g.thr).WithLoggingLevel(badger.ERROR).
		WithNamespaceOffset(g.nsOff).WithDetectConflicts(g.detect).WithValueLogFileSize(g.vlogSize)
	if g.vlogPct > 0 {
		o = o.WithVLogPercentile(g.vlogPct)
	}
	var err error
	if g.managed {
		g.db, err = badger.OpenManaged(o)
	} else {
		g.db, err = badger.Open(o)
	}
	if err != nil {
		return fmt.Errorf("open %s: %v", g.name, err)
	}
	for _, b := range g.banned {
		if err := g.db.BanNamespace(b); err != nil {
			return fmt.Errorf("ban %s: %v", g.name, err)
		}
	}
	g.maxC, g.maxS, _ = badger.VerifDBLimits(g.db)
	return nil
}

func (g *c28cfg) dbTerm() string {
	bs := []string{}
	for _, b := range g.banned {
		bs = append(bs, Nn(b))
	}
	return fmt.Sprintf("(mkDb %s %s %s %s %s %s %s)", Zz(g.vlogSize), Bool(g.inMem), Zz(int64(g.nsOff)),
		ListOf(bs), Bool(g.detect), Zz(g.maxC), Zz(g.maxS))
}

var exceedRe = regexp.MustCompile(`^(Key|Value) with size \d+ exceeded (\d+) limit`)

func c28Classify(err error, g *c28cfg, thr int64) uint64 {
	switch {
	case err == nil:
		return 0
	case errors.Is(err, badger.ErrReadOnlyTxn):
		return 1
	case errors.Is(err, badger.ErrDiscardedTxn):
		return 2
	case errors.Is(err, badger.ErrEmptyKey):
		return 3
	case errors.Is(err, badger.ErrInvalidKey):
		return 4
	case errors.Is(err, badger.ErrBannedKey):
		return 8
	case errors.Is(err, badger.ErrTxnTooBig):
		return 9
	case errors.Is(err, badger.ErrBlockedWrites):
		return 10
	case errors.Is(err, badger.ErrKeyNotFound):
		return 20
	}
	s := err.Error()
	if m := exceedRe.FindStringSubmatch(s); m != nil {
		lim, _ := strconv.ParseInt(m[2], 10, 64)
		if m[1] == "Key" {
			return 5
		}
		if lim == g.vlogSize {
			return 6
		}
		if lim == thr {
			return 7
		}
		return 98
	}
	if strings.Contains(s, "Trying to commit a discarded txn") {
		return 13
	}
	if strings.Contains(s, "CommitTs cannot be zero") {
		return 14
	}
	if os.Getenv("VERIF_DEBUG") != "" {
		fmt.Fprintln(os.Stderr, "unclassified:", s)
	}
	return 99
}

// a byte string with a compact Coq term: prefix ++ n copies of fill
type c28bytes struct {
	b    []byte
	term string
}

// compact Coq term for an arbitrary byte string whose tail is a run of one byte
func c28term(b []byte) string {
	if len(b) <= 64 {
		return B(b)
	}
	i := len(b)
	for i > 0 && b[i-1] == b[len(b)-1] {
		i--
	}
	return fmt.Sprintf("(pad %s %d %d)", B(b[:i]), len(b)-i, b[len(b)-1])
}

func c28mk(prefix []byte, n int, fill byte, extraCap int) c28bytes {
	b := make([]byte, len(prefix)+n, len(prefix)+n+extraCap)
	copy(b, prefix)
	for i := len(prefix); i < len(b); i++ {
		b[i] = fill
	}
	return c28bytes{b, c28term(b)}
}

func (c *Ctx) c28Key(g *c28cfg, uniq []byte, used *[][]byte) c28bytes {
	r := c.Rng.Intn(100)
	if len(*used) > 0 && r < 25 { // re-use a key of this transaction (overwrite / read back)
		k := (*used)[c.Rng.Intn(len(*used))]
		return c28mk(k, 0, 0, c.Rng.Intn(2)*7)
	}
	r = c.Rng.Intn(100)
	if g.nsOff >= 0 && r < 45 {
		// namespace-structured keys: uniq is exactly nsOff (7) bytes long
		ns := uint64(c.Rng.Intn(6))
		if len(g.banned) > 0 && c.Rng.Intn(2) == 0 {
			ns = g.banned[c.Rng.Intn(len(g.banned))]
			if c.Rng.Intn(4) == 0 {
				ns ^= 1 << uint(c.Rng.Intn(64))
			}
		}
		var nb [8]byte
		binary.BigEndian.PutUint64(nb[:], ns)
		k := append(append([]byte{}, uniq...), nb[:]...)
		switch c.Rng.Intn(5) {
		case 0: // exactly off+8 bytes: not checked by isBanned
		case 1:
			k = k[:len(k)-1-c.Rng.Intn(3)] // shorter
		default:
			k = append(k, []byte("xyz")[:1+c.Rng.Intn(3)]...)
		}
		return c28mk(k, 0, 0, 0)
	}
	switch {
	case r < 50:
		n := 1 + c.Rng.Intn(3)
		k := append([]byte{}, uniq...)
		for i := 0; i < n; i++ {
			k = append(k, "ab"[c.Rng.Intn(2)])
		}
		return c28mk(k, 0, 0, c.Rng.Intn(2)*3)
	case r < 56:
		return c28mk(nil, 0, 0, 0)
	case r < 64:
		k := append([]byte("!badger!"), c.rawBytes(3)...)
		return c28mk(k, 0, 0, 0)
	case r < 70: // near misses of the reserved prefix (valid keys)
		k := [][]byte{[]byte("!badger"), []byte("!badgeR!"), []byte("!Badger!x"), []byte(" !badger!")}[c.Rng.Intn(4)]
		return c28mk(append(append([]byte{}, k...), uniq...), 0, 0, 0)
	case r < 80:
		n := []int{64999, 65000, 65001, 65002, 70000, 1023, 1024}[c.Rng.Intn(7)]
		if n < len(uniq)+1 {
			n = len(uniq) + 1
		}
		return c28mk(uniq, n-len(uniq), 'k', c.Rng.Intn(2))
	default:
		k := append(append([]byte{}, uniq...), c.key(6)...)
		if len(k) == 0 {
			k = []byte{'z'}
		}
		return c28mk(k, 0, 0, 0)
	}
}

func (c *Ctx) c28Val(g *c28cfg, thr int64, size int64, klen int) c28bytes {
	capx := []int{0, 0, 0, 5, 2000}[c.Rng.Intn(5)]
	pre := c.rawBytes(2)
	mk := func(n int64) c28bytes {
		if n < 0 {
			n = 0
		}
		if n > 3<<20 {
			n = 3 << 20
		}
		if int(n) <= len(pre) {
			return c28mk(pre[:n], 0, 0, capx)
		}
		return c28mk(pre, int(n)-len(pre), 'v', capx)
	}
	r := c.Rng.Intn(100)
	switch {
	case r < 35:
		return mk(int64(c.Rng.Intn(11)))
	case r < 65: // land Txn.size on / next to maxBatchSize
		rem := g.maxS - size - int64(klen) - 12
		return mk(rem - 1 + int64(c.Rng.Intn(5)) - 2)
	case r < 80:
		return mk(thr + int64(c.Rng.Intn(3)) - 1)
	case r < 84 && g.vlogSize <= 1<<20:
		return mk(g.vlogSize + int64(c.Rng.Intn(3)) - 1)
	default:
		return mk(int64(11 + c.Rng.Intn(290)))
	}
}

type c28read struct {
	code     uint64
	val      []byte
	umeta    byte
	expires  uint64
	panicked bool
}

func c28Get(txn *badger.Txn, g *c28cfg, thr int64, key []byte) c28read {
	var r c28read
	r.panicked = recoverPanic(func() {
		it, err := txn.Get(key)
		r.code = c28Classify(err, g, thr)
		if err == nil {
			r.val, _ = it.ValueCopy(nil)
			r.umeta = it.UserMeta()
			r.expires = it.ExpiresAt()
		}
	})
	if r.panicked {
		r.code = 11
	}
	return r
}

func (a c28read) eq(b c28read) bool {
	return a.code == b.code && bytes.Equal(a.val, b.val) && a.umeta == b.umeta && a.expires == b.expires
}

// replayable record of one operation (for the child process that observes writer crashes)
type c28op struct {
	Kind    string // "w", "r", "d"
	Key     []byte
	Val     []byte
	Vcap    int
	Mode    int // 0 Set, 1 Delete, 2 SetEntry
	Umeta   byte
	Expires uint64
	Discard bool
	Version uint64
}

type c28child struct {
	Mts, Thr, VlogSize int64
	Update             bool
	Ops                []c28op
	Cts                uint64
}

func c28Apply(txn *badger.Txn, o c28op) (err error, panicked bool) {
	panicked = recoverPanic(func() {
		switch o.Mode {
		case 1:
			err = txn.Delete(o.Key)
		case 0:
			err = txn.Set(o.Key, o.Val)
		default:
			e := badger.NewEntry(o.Key, o.Val).WithMeta(o.Umeta)
			e.ExpiresAt = o.Expires
			if o.Discard {
				e = e.WithDiscard()
			}
			if o.Version != 0 {
				e = badger.VerifEntryWithVersion(e, o.Version)
			}
			err = txn.SetEntry(e)
		}
	})
	return
}

// child process: replays a transaction on a fresh in-memory managed DB and commits it; a panic
// in the DB's writer goroutine kills this process (that is the observation).
func runC28Child(c *Ctx) error {
	raw, err := os.ReadFile(os.Getenv("VERIF_C28_CHILD"))
	if err != nil {
		return err
	}
	var ch c28child
	if err := json.Unmarshal(raw, &ch); err != nil {
		return err
	}
	o := badger.DefaultOptions("").WithInMemory(true).WithMemTableSize(ch.Mts).WithValueThreshold(ch.Thr).
		WithLoggingLevel(badger.ERROR).WithValueLogFileSize(ch.VlogSize)
	db, err := badger.OpenManaged(o)
	if err != nil {
		return err
	}
	txn := db.NewTransactionAt(math.MaxUint64, ch.Update)
	for _, op := range ch.Ops {
		switch op.Kind {
		case "w":
			v := make([]byte, len(op.Val), op.Vcap)
			copy(v, op.Val)
			op.Val = v
			c28Apply(txn, op)
		case "r":
			recoverPanic(func() { txn.Get(op.Key) })
		case "d":
			txn.Discard()
		}
	}
	cerr := txn.CommitAt(ch.Cts, nil)
	g := &c28cfg{vlogSize: ch.VlogSize}
	fmt.Printf("RESULT %d\n", c28Classify(cerr, g, ch.Thr))
	db.Close()
	return nil
}

func c28RunChild(ch c28child) (code uint64, out string) {
	dir := os.Getenv("VERIF_SCRATCH_DIR")
	if dir == "" {
		dir = os.TempDir()
	}
	f := filepath.Join(dir, "c28child.json")
	js, _ := json.Marshal(ch)
	os.WriteFile(f, js, 0o644)
	cmd := exec.Command(os.Args[0], "C28child", "-out", filepath.Join(dir, "c28child_out"))
	cmd.Env = append(os.Environ(), "VERIF_C28_CHILD="+f)
	b, err := cmd.CombinedOutput()
	out = string(b)
	if m := regexp.MustCompile(`RESULT (\d+)`).FindStringSubmatch(out); m != nil && err == nil {
		code, _ = strconv.ParseUint(m[1], 10, 64)
		return code, out
	}
	if strings.Contains(out, "index out of range") && strings.Contains(out, "writeToLSM") {
		return 30, out
	}
	return 97, out
}

type c28script struct {
	cfg     *c28cfg
	update  bool
	nOps    int
	cts     uint64
	blocked bool
	// fixed first op (witness replay): key/value lengths
	fixed *[2]int
	// between the calls and Commit, let other transactions move the dynamic value threshold
	moveThr bool
}

// runs one transaction script; returns false if the case had to be skipped
func (c *Ctx) c28Txn(g *c28cfg, sc c28script, caseNo int) error {
	type J = map[string]interface{}
	db := g.db
	_, _, thr := badger.VerifDBLimits(db)
	// every case uses its own key prefix, so reads that reach the LSM tree find nothing and
	// conflict detection never fires (managed transactions read at MaxUint64)
	uniq := []byte(fmt.Sprintf("c%05d-", caseNo%100000))
	var txn *badger.Txn
	if g.managed {
		txn = db.NewTransactionAt(math.MaxUint64, sc.update)
	} else {
		txn = db.NewTransaction(sc.update)
	}
	defer txn.Discard()
	now := uint64(time.Now().Unix())
	used := [][]byte{}
	ops := []string{}
	summary := []string{}
	allAccepted := true
	nWrites := 0
	rec := []c28op{}
	riskCrash := false
	for i := 0; i < sc.nOps; i++ {
		r := c.Rng.Intn(100)
		if sc.fixed != nil {
			r = 0
		}
		switch {
		case r < 70: // write
			var k, v c28bytes
			count0, size0, _, _ := badger.VerifTxnState(txn)
			_ = count0
			if sc.fixed != nil {
				k = c28mk(uniq, sc.fixed[0]-len(uniq), 'k', 0)
				v = c28mk(nil, sc.fixed[1], 'v', 0)
			} else {
				k = c.c28Key(g, uniq, &used)
				v = c.c28Val(g, thr, size0, len(k.b))
			}
			var e *badger.Entry
			meta, umeta, expires, version := uint64(0), byte(0), uint64(0), uint64(0)
			kind := c.Rng.Intn(10)
			if sc.fixed != nil {
				kind = 0
			}
			isDelete := false
			switch {
			case kind < 5:
			case kind < 7:
				isDelete = true
				meta = 1
				v = c28mk(nil, 0, 0, 0)
			default:
				umeta = byte(c.Rng.Intn(256))
				expires = []uint64{0, 1, now - 1000, now + 100000, math.MaxUint64}[c.Rng.Intn(5)]
				if c.Rng.Intn(4) == 0 {
					meta = 4
				}
				if g.managed && c.Rng.Intn(3) == 0 {
					version = uint64(1 + c.Rng.Intn(3))
				}
			}
			// reads before
			other := k.b
			if len(used) > 0 {
				other = used[c.Rng.Intn(len(used))]
			}
			rk0, ro0 := c28Get(txn, g, thr, k.b), c28Get(txn, g, thr, other)
			ro := c28op{Kind: "w", Key: k.b, Val: v.b, Vcap: cap(v.b), Umeta: umeta, Expires: expires, Discard: meta == 4, Version: version, Mode: 2}
			if isDelete {
				ro.Mode = 1
			} else if kind < 5 {
				ro.Mode = 0
			}
			_ = e
			err, panicked := c28Apply(txn, ro)
			rec = append(rec, ro)
			code := c28Classify(err, g, thr)
			if panicked {
				code = 11
			}
			nWrites++
			if code != 0 {
				allAccepted = false
			} else if g.inMem && int64(len(v.b)) >= thr {
				riskCrash = true
			}
			count1, size1, _, _ := badger.VerifTxnState(txn)
			ops = append(ops, fmt.Sprintf("(OSet (mkEntry %s %s %d %d %d %d 0%%Z) %d %d %d %s %s)", k.term, v.term,
				meta, umeta, expires, version, cap(k.b), cap(v.b), code, Zz(count1), Zz(size1)))
			summary = append(summary, fmt.Sprintf("w:%s:%d:%d:%d:%d:%d:%d", c28short(k.b), len(v.b), meta, umeta, expires, version, cap(v.b)))
			// ---- property oracle on this call ----
			vlen := int64(len(v.b))
			banned := false
			if g.nsOff >= 0 && len(k.b) > g.nsOff+8 {
				ns := binary.BigEndian.Uint64(k.b[g.nsOff:])
				for _, b := range g.banned {
					banned = banned || b == ns
				}
			}
			var want uint64
			switch {
			case !sc.update:
				want = 1
			case len(k.b) == 0:
				want = 3
			case bytes.HasPrefix(k.b, []byte("!badger!")):
				want = 4
			case len(k.b) > 65000:
				want = 5
			case vlen > g.vlogSize:
				want = 6
			case g.inMem && vlen > thr:
				want = 7
			case banned:
				want = 8
			}
			rep := J{"cfg": g.name, "key": c28short(k.b), "klen": len(k.b), "vlen": len(v.b), "vcap": cap(v.b), "code": code, "want": want}
			if code == 11 {
				c.Oracle(false, "F16-inmemory-oversize-value-panics-in-exceedsSize",
					"Set/SetEntry panicked instead of returning an error (exceedsSize slices x[:1024] beyond cap)", rep)
			} else if want != 0 {
				c.Oracle(code == want || (want != 1 && code == 2), "validation-class-mismatch", "invalid key/value not rejected with the documented error", rep)
			} else {
				c.Oracle(code == 0 || code == 9 || code == 2, "validation-class-mismatch", "valid key/value rejected", rep)
			}
			rk1, ro1 := c28Get(txn, g, thr, k.b), c28Get(txn, g, thr, other)
			if code != 0 {
				c.Oracle(rk1.eq(rk0) && ro1.eq(ro0) && count1 == count0 && size1 == size0, "rejected-write-changed-state",
					"a rejected write changed the transaction's reads or accounting", rep)
			} else {
				okRead := false
				if isDelete || (expires != 0 && expires <= now) {
					okRead = rk1.code == 20
				} else {
					okRead = rk1.code == 0 && bytes.Equal(rk1.val, v.b) && rk1.umeta == umeta && rk1.expires == expires
				}
				if banned { // cannot happen together with code == 0
					okRead = false
				}
				c.Oracle(okRead, "accepted-write-not-read-back", "an accepted write is not read back by the same transaction", rep)
				if !bytes.Equal(other, k.b) {
					c.Oracle(ro1.eq(ro0), "accepted-write-changed-other-key", "an accepted write changed the read of another key", rep)
				}
				used = append(used, append([]byte{}, k.b...))
			}
		case r < 92: // read
			var key []byte
			if len(used) > 0 && c.Rng.Intn(3) > 0 {
				key = used[c.Rng.Intn(len(used))]
			} else {
				key = c.c28Key(g, uniq, &used).b
			}
			now2 := uint64(time.Now().Unix())
			rd := c28Get(txn, g, thr, key)
			if uint64(time.Now().Unix()) != now2 {
				rd = c28Get(txn, g, thr, key)
				now2 = uint64(time.Now().Unix())
			}
			ops = append(ops, fmt.Sprintf("(OGet %s %d %d %s %d %d)", c28term(key), now2, rd.code, c28term(rd.val), rd.umeta, rd.expires))
			rec = append(rec, c28op{Kind: "r", Key: key})
			summary = append(summary, "r:"+c28short(key))
			// banned namespaces are inaccessible to reads
			if g.nsOff >= 0 && len(key) > g.nsOff+8 {
				ns := binary.BigEndian.Uint64(key[g.nsOff:])
				for _, b := range g.banned {
					if b == ns {
						c.Oracle(rd.code == 8 || rd.code == 2, "banned-key-readable", "Get on a key of a banned namespace did not return ErrBannedKey",
							J{"cfg": g.name, "key": hex.EncodeToString(key), "code": rd.code})
					}
				}
			}
		default:
			txn.Discard()
			ops = append(ops, "ODiscard")
			rec = append(rec, c28op{Kind: "d"})
			summary = append(summary, "d")
		}
	}
	// the value threshold must not have moved during the calls (one threshold per case)
	if _, _, thr2 := badger.VerifDBLimits(db); thr2 != thr {
		c.Count("skipped-threshold-moved")
		return nil
	}
	thrC := thr
	if sc.moveThr {
		// dynamic thresholding: other transactions' value sizes raise the threshold
		for i := 0; i < 5; i++ {
			err := db.Update(func(t2 *badger.Txn) error { return t2.Set([]byte(fmt.Sprintf("mv%05d-%d", caseNo, i)), make([]byte, 120)) })
			if err != nil {
				return fmt.Errorf("C28 threshold mover: %v", err)
			}
		}
		for i := 0; i < 400; i++ {
			if _, _, thrC = badger.VerifDBLimits(db); thrC != thr {
				break
			}
			time.Sleep(5 * time.Millisecond)
		}
	}
	// commit
	cts := sc.cts
	if !g.managed {
		cts = badger.VerifNextTxnTs(db)
	}
	if sc.blocked {
		badger.VerifBlockWrites(db, true)
	}
	if g.inMem && int64(len(strconv.FormatUint(cts, 10))) >= thrC {
		riskCrash = true
	}
	var ccode uint64
	if riskCrash && g.managed && !sc.blocked {
		// committing could kill this process (finding F17): observe it in a child process
		txn.Discard()
		var out string
		ccode, out = c28RunChild(c28child{Mts: g.mts, Thr: thr, VlogSize: g.vlogSize, Update: sc.update, Ops: rec, Cts: cts})
		c.Count("committed-in-child-process")
		if ccode == 97 {
			return fmt.Errorf("C28 child process failed: %s", out)
		}
	} else {
		var cerr error
		cp := recoverPanic(func() {
			if g.managed {
				cerr = txn.CommitAt(cts, nil)
			} else {
				cerr = txn.Commit()
			}
		})
		ccode = c28Classify(cerr, g, thr)
		if cp {
			ccode = 11
		}
	}
	if sc.blocked {
		badger.VerifBlockWrites(db, false)
	}
	if _, _, thr3 := badger.VerifDBLimits(db); thr3 != thrC {
		c.Count("skipped-threshold-moved")
		return nil
	}
	kind := "Txn-" + g.name
	if sc.fixed != nil {
		kind = "TxnWitness-" + g.name
	}
	c.Case(kind, fmt.Sprintf("(TxnCase %s %s %s %s %s %d %s %s %d)", Bool(c28MarkerFixed()), g.dbTerm(), Zz(thr), Bool(sc.update), ListOf(ops), cts, Bool(sc.blocked), Zz(thrC), ccode),
		J{"cfg": g.name, "upd": sc.update, "ops": summary, "cts": cts, "blocked": sc.blocked})
	rep := J{"cfg": g.name, "memtable": g.mts, "threshold": thr, "threshold_at_commit": thrC, "ops": summary, "commit_ts": cts, "commit_code": ccode, "all_writes_accepted": allAccepted}
	if nWrites > 0 {
		what := "Commit failed with ErrTxnTooBig although every write of the transaction was accepted (end marker under-reserved)"
		if !allAccepted {
			what = "Commit failed with ErrTxnTooBig for the accepted writes of a transaction (end marker under-reserved)"
		}
		if thr == 0 && thrC != 0 {
			// root cause: entries cached threshold 0 and were re-estimated at Commit
			c.Oracle(ccode != 9, "F18-commit-errtxntoobig-zero-threshold-reestimated",
				"Commit failed with ErrTxnTooBig for accepted writes: with ValueThreshold 0 an entry's cached threshold (0) counts as unset, so sendToWriteCh re-estimates it with the dynamically raised threshold", rep)
		} else {
			c.Oracle(ccode != 9, "F4-commit-errtxntoobig-after-all-writes-accepted", what, rep)
		}
	}
	c.Oracle(ccode != 30, "F17-inmemory-value-at-threshold-accepted-then-writer-panics",
		"an accepted write (InMemory, len(value) >= threshold, or marker digits >= threshold) makes the writer goroutine panic in writeToLSM at Commit: the process dies", rep)
	c.Oracle(ccode != 11 && ccode != 99 && ccode != 98, "commit-unexpected-error", "Commit panicked or returned an unclassified error", rep)
	return nil
}

func c28short(k []byte) string {
	if len(k) <= 24 {
		return hex.EncodeToString(k)
	}
	return fmt.Sprintf("%s..(%d)", hex.EncodeToString(k[:12]), len(k))
}

func runC28(c *Ctx) error {
	c.Setup("Keys TxnModify CorrC28", "run_case")
	if os.Getenv("VERIF_C28_CHILD") == "" {
		if err := runC28BannedNamespaces(c); err != nil {
			return err
		}
	}
	type J = map[string]interface{}
	scratch := os.Getenv("VERIF_SCRATCH_DIR")
	if scratch == "" {
		scratch = os.TempDir()
	}
	cfgs := []*c28cfg{
		{name: "tinyManaged", mts: 1920, thr: 288, nsOff: -1, managed: true, detect: true, vlogSize: 1 << 21},
		{name: "tinyNormalThr1", mts: 1920, thr: 1, nsOff: -1, managed: false, detect: true, vlogSize: 1 << 21},
		{name: "smallManaged", mts: 6400, thr: 100, nsOff: -1, managed: true, detect: false, vlogSize: 1 << 21},
		{name: "smallNormal", mts: 9600, thr: 1440, nsOff: -1, managed: false, detect: true, vlogSize: 1 << 21},
		{name: "inMemManaged", mts: 1 << 16, thr: 100, inMem: true, nsOff: -1, managed: true, detect: true, vlogSize: 1 << 21},
		{name: "inMemBigThr", mts: 1 << 20, thr: 2000, inMem: true, nsOff: -1, managed: true, detect: true, vlogSize: 1 << 21},
		{name: "namespaces", mts: 1 << 16, thr: 100, nsOff: 7, managed: true, detect: true, vlogSize: 1 << 21,
			banned: []uint64{7, 0, math.MaxUint64, 0x6162636465666768}},
		{name: "bigVlog1M", mts: 64 << 20, thr: 1 << 10, nsOff: -1, managed: true, detect: true, vlogSize: 1 << 20},
		{name: "thr0", mts: 6400, thr: 0, nsOff: -1, managed: true, detect: true, vlogSize: 1 << 21},
		// used by the F18 witness only (the threshold moves): ValueThreshold 0 + dynamic thresholding
		{name: "dynThr0", mts: 1920, thr: 0, nsOff: -1, managed: false, detect: true, vlogSize: 1 << 21, vlogPct: 0.9},
	}
	nPool := len(cfgs) - 1
	for _, g := range cfgs {
		if err := g.open(scratch); err != nil {
			return err
		}
		defer g.db.Close()
	}
	c.Extra["maxNodeSize"] = badger.VerifMaxNodeSize()
	caseNo := 0
	// ---- replayed refutation witnesses (findings F4 twice, F16) ----
	// F4: MemTableSize 1920 => limits 3 / 288; one Set(8-byte key, 246-byte value) is accepted
	// (21+256+10 = 287); CommitAt(100): 264 + 24 = 288 >= 288 => ErrTxnTooBig.
	if err := c.c28Txn(cfgs[0], c28script{cfg: cfgs[0], update: true, nOps: 1, cts: 100, fixed: &[2]int{8, 246}}, caseNo); err != nil {
		return err
	}
	caseNo++
	// same transaction at commit ts 99 fits (two digits are covered by the 2 spare bytes)
	if err := c.c28Txn(cfgs[0], c28script{cfg: cfgs[0], update: true, nOps: 1, cts: 99, fixed: &[2]int{8, 246}}, caseNo); err != nil {
		return err
	}
	caseNo++
	// F4 with ValueThreshold 1: the marker is estimated as a value pointer (33 bytes) even at commit ts 1
	if err := c.c28Txn(cfgs[1], c28script{cfg: cfgs[1], update: true, nOps: 1, fixed: &[2]int{254, 0}}, caseNo); err != nil {
		return err
	}
	caseNo++
	// F16: in-memory, ValueThreshold 100, 101-byte value with cap 101
	if err := c.c28Txn(cfgs[4], c28script{cfg: cfgs[4], update: true, nOps: 1, cts: 5, fixed: &[2]int{8, 101}}, caseNo); err != nil {
		return err
	}
	caseNo++

	// F17: in-memory, ValueThreshold 100, value of exactly 100 bytes is accepted; Commit kills the writer
	if err := c.c28Txn(cfgs[4], c28script{cfg: cfgs[4], update: true, nOps: 1, cts: 5, fixed: &[2]int{8, 100}}, caseNo); err != nil {
		return err
	}
	caseNo++

	// F18: ValueThreshold 0 with dynamic thresholding: Set(190-byte key, 80-byte value) is accepted at
	// threshold 0 (21+204+10 = 235); other commits raise the threshold to ~120; Commit re-estimates the
	// entry as 190+8+80+2 = 280, plus 22 for the marker: 302 >= 288
	if err := c.c28Txn(cfgs[9], c28script{cfg: cfgs[9], update: true, nOps: 1, fixed: &[2]int{190, 80}, moveThr: true}, caseNo); err != nil {
		return err
	}
	caseNo++

	ctsEdges := []uint64{1, 2, 9, 10, 99, 100, 101, 999, 1000, 99999, 1e9, 1e18, 9999999999999999999, 1e19, math.MaxUint64, 0}
	for i := 0; c.nCases < c.N; i++ {
		switch i % 10 {
		case 0, 1, 2, 3, 4, 5:
			g := cfgs[c.Rng.Intn(nPool)]
			if g.name == "bigVlog1M" && c.Rng.Intn(3) != 0 {
				g = cfgs[c.Rng.Intn(4)]
			}
			sc := c28script{cfg: g, update: c.Rng.Intn(12) != 0, nOps: 1 + c.Rng.Intn(6), cts: ctsEdges[c.Rng.Intn(len(ctsEdges))],
				blocked: c.Rng.Intn(25) == 0}
			if c.Rng.Intn(3) == 0 {
				sc.cts = uint64(c.Rng.Intn(2000))
			}
			if err := c.c28Txn(g, sc, caseNo); err != nil {
				return err
			}
			caseNo++
		case 6: // batch limits from MemTableSize (checkAndSetOptions on an Options copy)
			var mts int64
			switch c.Rng.Intn(5) {
			case 0:
				mts = int64(c.Rng.Intn(5000))
			case 1:
				mts = int64(c.u64() >> 1)
			case 2:
				mts = -int64(c.Rng.Intn(100000))
			case 3:
				mts = []int64{0, 1, 6, 7, 639, 640, 641, 1919, 1920, 64 << 20, math.MaxInt64, math.MaxInt64/15 + 1, math.MaxInt64 / 15, math.MinInt64}[c.Rng.Intn(14)]
			default:
				mts = int64(c.Rng.Intn(1 << 30))
			}
			o := badger.DefaultOptions("x").WithMemTableSize(mts).WithValueThreshold(0)
			mc, ms, _ := badger.VerifBatchLimits(o)
			c.Case("Limits", fmt.Sprintf("(Limits %s %s %s)", Zz(mts), Zz(mc), Zz(ms)), J{"mts": mts})
		case 7, 8: // isBanned
			off := []int{-1, 0, 1, 2, 5, 8}[c.Rng.Intn(6)]
			if c.Rng.Intn(15) == 0 {
				off = []int{math.MaxInt64, math.MaxInt64 - 7, math.MaxInt64 - 8, math.MinInt64, 1 << 40}[c.Rng.Intn(5)]
			}
			nb := c.Rng.Intn(4)
			banned := []uint64{}
			for j := 0; j < nb; j++ {
				banned = append(banned, []uint64{0, 1, 7, 0x6161616161616161, math.MaxUint64, c.u64()}[c.Rng.Intn(6)])
			}
			key := c.key(14)
			if len(banned) > 0 && off >= 0 && off < 20 && c.Rng.Intn(2) == 0 {
				var nbuf [8]byte
				binary.BigEndian.PutUint64(nbuf[:], banned[c.Rng.Intn(len(banned))])
				key = append(append(c.key(8)[:0:0], bytes.Repeat([]byte{'p'}, off)...), nbuf[:]...)
				switch c.Rng.Intn(4) {
				case 0:
				case 1:
					key = key[:len(key)-1]
				default:
					key = append(key, c.key(3)...)
				}
			}
			var err error
			p := recoverPanic(func() { err = badger.VerifIsBanned(off, banned, key) })
			code := uint64(0)
			if p {
				code = 11
			} else if err != nil {
				code = 8
			}
			bs := []string{}
			for _, b := range banned {
				bs = append(bs, Nn(b))
			}
			c.Case("Banned", fmt.Sprintf("(Banned %s %s %s %d)", Zz(int64(off)), ListOf(bs), B(key), code), J{"off": off, "banned": banned, "key": key})
			// oracle: banned iff offset >= 0, the key is longer than offset+8 and its 8 namespace bytes are in the set
			if off >= 0 && off < 1<<30 {
				want := false
				if len(key) > off+8 {
					ns := binary.BigEndian.Uint64(key[off:])
					for _, b := range banned {
						want = want || b == ns
					}
				}
				c.Oracle((code == 8) == want && code != 11, "isbanned-mismatch", "isBanned disagrees with the namespace definition", J{"off": off, "banned": banned, "key": key, "code": code})
			}
		case 9: // estimateSizeAndSetThreshold
			klen, vlen := c.Rng.Intn(40), c.Rng.Intn(40)
			thr := int64(c.Rng.Intn(45)) - 2
			cached := int64(0)
			if c.Rng.Intn(2) == 0 {
				cached = int64(c.Rng.Intn(45)) - 2
			}
			if c.Rng.Intn(3) == 0 {
				thr = int64(vlen) + int64(c.Rng.Intn(3)) - 1
			}
			sz, nt := badger.VerifEstimate(bytes.Repeat([]byte{'k'}, klen), bytes.Repeat([]byte{'v'}, vlen), cached, thr)
			c.Case("Estimate", fmt.Sprintf("(Estimate %d %d %s %s %s %s)", klen, vlen, Zz(cached), Zz(thr), Zz(sz), Zz(nt)),
				J{"klen": klen, "vlen": vlen, "cached": cached, "thr": thr})
		}
	}
	return nil
}

// c28MarkerFixed reports the end-marker reservation of the current tree (finding F4): a fresh
// update transaction starts with size len(txnKey)+10 on the pinned tree and len(txnKey)+30 once
// the marker's real maximum is reserved.
var c28MarkerFlag *bool

func c28MarkerFixed() bool {
	if c28MarkerFlag != nil {
		return *c28MarkerFlag
	}
	res := false
	db, err := badger.Open(badger.DefaultOptions("").WithInMemory(true).WithLoggingLevel(badger.ERROR))
	if err == nil {
		txn := db.NewTransaction(true)
		_, size, _, _ := badger.VerifTxnState(txn)
		res = size >= int64(len("!badger!txn")+30)
		txn.Discard()
		db.Close()
	}
	c28MarkerFlag = &res
	return res
}
