package main

// C30, concurrent histories on ONE Sequence object (seq.lock must span the whole call):
//
//	(a) c30DetRelease — deterministic interleavings through the build-tagged hook
//	    "sendToWriteCh.beforeSend": a Release is parked inside its commit; while it is parked another
//	    goroutine calls Next on the same object (bounded wait) and, in some runs, on a second object
//	    of the key; then the Release is let go, and numbers are drawn from the same object, from a
//	    second object and after close/re-open (or a crash copy).  Every call is emitted as the
//	    Sequence.v label(s) it is, with what was observed, and replayed by the model (CorrC30.Conc).
//	(b) c30StressRelease — goroutines calling Next on a shared object (no serialisation by the
//	    harness) and on their own objects while another goroutine calls Release, plus re-open.
//
// Oracle in both (the property, nothing else): every number handed out for the key, by anyone, is
// handed out once; the numbers one goroutine gets from one object strictly increase.  Whether a
// Next returns while a Release of its object is in flight is NOT asserted by the oracle (it is
// part of the model comparison only).  Every blocking call runs under a watchdog.

import (
	"fmt"
	"os"
	"path/filepath"
	"sort"
	"strings"
	"sync"
	"sync/atomic"
	"time"

	badger "github.com/dgraph-io/badger/v4"
)

const (
	c30SigDupAfterConcRelease   = "c30-number-handed-out-twice-after-concurrent-release"
	c30SigOrderAfterConcRelease = "c30-not-increasing-after-concurrent-release"
	c30SigStressDup             = "c30-number-handed-out-twice-under-concurrent-next-and-release"
	c30SigStressOrder           = "c30-not-increasing-per-goroutine-under-concurrent-next-and-release"
	c30SigHang                  = "c30-sequence-call-never-returns"

	c30Window   = 150 * time.Millisecond // bounded wait for a call made while a Release is parked
	c30Watchdog = 20 * time.Second
)

type c30Res struct {
	n   uint64
	err error
}

// c30Go runs f in a goroutine; the result arrives on the returned channel.
func c30Go(f func() (uint64, error)) chan c30Res {
	ch := make(chan c30Res, 1)
	go func() {
		n, err := f()
		ch <- c30Res{n, err}
	}()
	return ch
}

func c30Await(ch chan c30Res, d time.Duration) (c30Res, bool) {
	select {
	case r := <-ch:
		return r, true
	case <-time.After(d):
		return c30Res{}, false
	}
}

// c30Hook parks the first commit that reaches "sendToWriteCh.beforeSend" after arm(), and counts
// all of them (a call that went through the hook ran an update transaction with a write).
type c30Hook struct {
	mu      sync.Mutex
	armed   bool
	arrived chan struct{}
	gate    chan struct{}
	fired   atomic.Int64
}

func (h *c30Hook) install() {
	badger.VerifSetController(&badger.VerifController{Point: func(name string, args ...uint64) {
		if name != "sendToWriteCh.beforeSend" {
			return
		}
		h.fired.Add(1)
		h.mu.Lock()
		park := h.armed
		h.armed = false
		arrived, gate := h.arrived, h.gate
		h.mu.Unlock()
		if park {
			close(arrived)
			<-gate
		}
	}})
}

func (h *c30Hook) arm() (arrived chan struct{}, release func()) {
	h.mu.Lock()
	h.armed = true
	h.arrived, h.gate = make(chan struct{}), make(chan struct{})
	arrived, gate := h.arrived, h.gate
	h.mu.Unlock()
	var once sync.Once
	return arrived, func() {
		once.Do(func() {
			h.mu.Lock()
			h.armed = false
			h.mu.Unlock()
			close(gate)
		})
	}
}

type c30DetEnv struct {
	c      *Ctx
	hook   *c30Hook
	orc    *c30Oracle
	terms  []string
	desc   []string
	nums   []string // every number handed out, in order: "o<obj>:<n>"
	hung   bool
	caseNo int
	key    string
	inWin  int // numbers returned by a Next on the releasing object while the Release was parked
}

func (e *c30DetEnv) emit(label, res, d string) {
	e.terms = append(e.terms, fmt.Sprintf("(%s, %s)", label, res))
	e.desc = append(e.desc, d+" -> "+res)
}

func (e *c30DetEnv) replay() J {
	return J{"phase": "deterministic-release-window", "case": e.caseNo, "key": e.key,
		"numbers": append([]string{}, e.nums...), "desc": append([]string{}, e.desc...)}
}

func (e *c30DetEnv) number(obj int, n uint64) {
	e.nums = append(e.nums, fmt.Sprintf("o%d:%d", obj, n))
	sig, what := e.orc.number(e.key, obj, n)
	switch sig {
	case c30SigDup:
		sig = c30SigDupAfterConcRelease
	case c30SigOrder:
		sig = c30SigOrderAfterConcRelease
	}
	e.c.Oracle(sig == "", sig, what, e.replay())
}

func (e *c30DetEnv) hang(op string) {
	e.hung = true
	e.desc = append(e.desc, op+" -> no return within the watchdog")
	e.c.Oracle(false, c30SigHang, op+" did not return within "+c30Watchdog.String(), e.replay())
}

func c30ResTerm(r c30Res) string {
	if r.err == nil {
		return fmt.Sprintf("(RNum %d)", r.n)
	}
	return c30ErrClass(r.err)
}

// next: one sequential Next under the watchdog, emitted as NextCall (served from memory) or
// NextCall; Ret (went through a commit).
func (e *c30DetEnv) next(o *c30Obj) bool {
	before := e.hook.fired.Load()
	r, ok := c30Await(c30Go(o.seq.Next), c30Watchdog)
	if !ok {
		e.hang(fmt.Sprintf("o%d.Next", o.id))
		return false
	}
	e.emitNext(o, r, e.hook.fired.Load() != before)
	return r.err == nil
}

func (e *c30DetEnv) emitNext(o *c30Obj, r c30Res, committed bool) {
	if committed {
		e.emit(fmt.Sprintf("NextCall %d", o.id), "RPending", fmt.Sprintf("o%d.Next (lease update)", o.id))
		e.emit(fmt.Sprintf("Ret %d false", o.id), c30ResTerm(r), fmt.Sprintf("o%d.Next returns", o.id))
	} else {
		e.emit(fmt.Sprintf("NextCall %d", o.id), c30ResTerm(r), fmt.Sprintf("o%d.Next", o.id))
	}
	if r.err == nil {
		e.number(o.id, r.n)
	} else {
		o.failed = true
	}
}

func (e *c30DetEnv) release(o *c30Obj) bool {
	r, ok := c30Await(c30Go(func() (uint64, error) { return 0, o.seq.Release() }), c30Watchdog)
	if !ok {
		e.hang(fmt.Sprintf("o%d.Release", o.id))
		return false
	}
	e.emit(fmt.Sprintf("RelCall %d", o.id), "RPending", fmt.Sprintf("o%d.Release", o.id))
	e.emit(fmt.Sprintf("Ret %d false", o.id), c30ErrClass(r.err), fmt.Sprintf("o%d.Release returns", o.id))
	return r.err == nil
}

func (e *c30DetEnv) get(db *badger.DB, id int, bw uint64) (*c30Obj, bool) {
	var seq *badger.Sequence
	r, ok := c30Await(c30Go(func() (uint64, error) {
		s, err := db.GetSequence([]byte(e.key), bw)
		seq = s
		return 0, err
	}), c30Watchdog)
	if !ok {
		e.hang(fmt.Sprintf("GetSequence(%q, %d)", e.key, bw))
		return nil, false
	}
	e.emit(fmt.Sprintf("GetCall 1 %d", bw), "RPending", fmt.Sprintf("o%d := GetSequence(%q, %d)", id, e.key, bw))
	e.emit(fmt.Sprintf("Ret %d false", id), c30ErrClass(r.err), fmt.Sprintf("o%d: GetSequence returns", id))
	if r.err != nil {
		return nil, false
	}
	return &c30Obj{id: id, key: e.key, kid: 1, seq: seq}, true
}

// window: o.Release() is parked inside its commit; meanwhile Next is called on o (bounded wait)
// and, if other != nil, on a second object of the key that still has numbers in memory.
func (e *c30DetEnv) window(o, other *c30Obj) bool {
	arrived, letGo := e.hook.arm()
	defer letGo()
	relCh := c30Go(func() (uint64, error) { return 0, o.seq.Release() })
	select {
	case <-arrived:
	case r := <-relCh: // the release transaction had nothing to write: no window
		e.emit(fmt.Sprintf("RelCall %d", o.id), "RPending", fmt.Sprintf("o%d.Release (nothing to commit)", o.id))
		e.emit(fmt.Sprintf("Ret %d false", o.id), c30ErrClass(r.err), fmt.Sprintf("o%d.Release returns", o.id))
		e.c.Count("det-window-missing")
		return r.err == nil
	case <-time.After(c30Watchdog):
		e.hang(fmt.Sprintf("o%d.Release (never reached its commit)", o.id))
		return false
	}
	e.emit(fmt.Sprintf("RelCall %d", o.id), "RPending", fmt.Sprintf("o%d.Release parked in its commit", o.id))
	if other != nil { // another object's lock is its own: served from memory at once
		r, ok := c30Await(c30Go(other.seq.Next), c30Watchdog)
		if !ok {
			letGo()
			e.hang(fmt.Sprintf("o%d.Next (from memory, o%d.Release in flight)", other.id, o.id))
			return false
		}
		e.emit(fmt.Sprintf("NextCall %d", other.id), c30ResTerm(r), fmt.Sprintf("o%d.Next while o%d.Release is parked", other.id, o.id))
		if r.err == nil {
			e.number(other.id, r.n)
		}
	}
	before := e.hook.fired.Load()
	nextCh := c30Go(o.seq.Next)
	r, inWindow := c30Await(nextCh, c30Window)
	if inWindow {
		// not what the pinned code does (the model says the call is not enabled); the property
		// oracle only records the number
		e.emit(fmt.Sprintf("NextCall %d", o.id), c30ResTerm(r), fmt.Sprintf("o%d.Next while o%d.Release is parked", o.id, o.id))
		if r.err == nil {
			e.inWin++
			e.number(o.id, r.n)
		}
	} else {
		e.emit(fmt.Sprintf("NextCall %d", o.id), "RInvalid", fmt.Sprintf("o%d.Next while o%d.Release is parked: no return within %v (waits)", o.id, o.id, c30Window))
	}
	letGo()
	rr, ok := c30Await(relCh, c30Watchdog)
	if !ok {
		e.hang(fmt.Sprintf("o%d.Release (after its commit was let go)", o.id))
		return false
	}
	e.emit(fmt.Sprintf("Ret %d false", o.id), c30ErrClass(rr.err), fmt.Sprintf("o%d.Release returns", o.id))
	if !inWindow {
		r, ok := c30Await(nextCh, c30Watchdog)
		if !ok {
			e.hang(fmt.Sprintf("o%d.Next (started while o%d.Release was in flight)", o.id, o.id))
			return false
		}
		e.emitNext(o, r, e.hook.fired.Load() != before)
		if r.err != nil {
			return false
		}
	}
	return rr.err == nil
}

func c30DetRelease(c *Ctx, base string, caseNo int, hook *c30Hook) error {
	dir := filepath.Join(base, fmt.Sprintf("det%d", caseNo))
	cleanup := []string{dir}
	e := &c30DetEnv{c: c, hook: hook, orc: newC30Oracle(), caseNo: caseNo, key: fmt.Sprintf("seq/det%d", caseNo)}
	db, err := c30OpenDB(dir)
	if err != nil {
		return err
	}
	defer func() {
		if e.hung { // a call is stuck inside the DB: Close could hang as well; leave it
			return
		}
		if db != nil {
			db.Close()
		}
		for _, d := range cleanup {
			os.RemoveAll(d)
		}
	}()
	nObj := 0
	newObj := func(bw uint64) (*c30Obj, bool) {
		o, ok := e.get(db, nObj, bw)
		if ok {
			nObj++
		}
		return o, ok
	}
	finish := func() error {
		for _, t := range e.terms {
			if strings.Contains(t, "ROther:") {
				return fmt.Errorf("C30: unclassified error in %s", t)
			}
		}
		if e.inWin > 0 {
			c.Count("det-next-returned-inside-release-window")
		}
		c.Case("ConcRun", "(Conc "+ListOf(e.terms)+")", e.desc)
		return nil
	}
	variant := caseNo % 3
	var a, b *c30Obj
	var ok bool
	if variant == 2 { // a second object exists already and has a number in memory when the window opens
		if b, ok = newObj(uint64(2 + c.Rng.Intn(3))); !ok {
			return finish()
		}
		if !e.next(b) {
			return finish()
		}
	}
	bwA := uint64(2 + c.Rng.Intn(6))
	if a, ok = newObj(bwA); !ok { // a's lease is the latest one: its Release has something to write
		return finish()
	}
	// numbers taken before the Release: 0 .. bwA (bwA: the lease is used up, the concurrent Next
	// needs a lease update whichever way Release locks); mostly strictly inside the lease
	k := c.Rng.Intn(int(bwA))
	if c.Rng.Intn(6) == 0 {
		k = int(bwA)
	}
	for i := 0; i < k; i++ {
		if !e.next(a) {
			return finish()
		}
	}
	if !e.window(a, b) {
		return finish()
	}
	// lease again: the same object, a second object, and after close/re-open or a crash
	for i, m := 0, 1+c.Rng.Intn(int(bwA)+2); i < m; i++ {
		if !e.next(a) {
			return finish()
		}
	}
	if b == nil {
		if b, ok = newObj(uint64(1 + c.Rng.Intn(4))); !ok {
			return finish()
		}
	}
	for i, m := 0, 2+c.Rng.Intn(4); i < m; i++ {
		o := b
		if c.Rng.Intn(3) == 0 {
			o = a
		}
		if !e.next(o) {
			return finish()
		}
	}
	if variant == 1 { // a second window, on the other object, then more numbers from both
		for before := hook.fired.Load(); hook.fired.Load() == before; { // make b's lease the latest one
			if !e.next(b) {
				return finish()
			}
		}
		if !e.window(b, nil) {
			return finish()
		}
		for i := 0; i < 3; i++ {
			if !e.next([]*c30Obj{a, b, b}[i]) {
				return finish()
			}
		}
	}
	how := c.Rng.Intn(3)
	switch how {
	case 0: // orderly: release, close, re-open
		if !e.release(a) || !e.release(b) {
			return finish()
		}
		fallthrough
	case 1: // close without Release
		if err := db.Close(); err != nil {
			db = nil
			return err
		}
	case 2: // crash: continue on a copy taken while the DB is open
		ndir := dir + "_crash"
		cleanup = append(cleanup, ndir)
		if err := c30CopyDir(dir, ndir); err != nil {
			return err
		}
		db.Close()
		dir = ndir
	}
	db, err = c30OpenDB(dir)
	if err != nil {
		return err
	}
	e.emit("Restart", "ROk", []string{"Release all, close, re-open", "close, re-open", "crash copy, re-open"}[how])
	cObj, ok := newObj(uint64(1 + c.Rng.Intn(4)))
	if !ok {
		return finish()
	}
	for i, m := 0, 2+c.Rng.Intn(4); i < m; i++ {
		if !e.next(cObj) {
			return finish()
		}
	}
	c.Count("det-release-window")
	return finish()
}

// ---- (b) stress: Next on a shared object and on private objects of one key, Release concurrently ----

type c30Ev struct {
	g, obj     int
	op         byte // 'n' Next, 'r' Release
	n          uint64
	err        error
	start, end int64
}

// c30StressRelease: rounds of concurrent calls on one key.  Within a round the shared object is
// called by several goroutines and released by another one with no serialisation by the harness;
// every other round there are also goroutines with a private object each (their lease updates can
// lose against each other with ErrConflict: the owner then drops the object — the recorded defect
// F30 is about going on with it).  If a call on the shared object fails, the calls on it that may
// have run after the failure cannot be told apart: such a round and everything after it on this
// key counts as "an object was used after a failed lease update" (signature of F30), and the
// stress goes on with a new key.
func c30StressRelease(c *Ctx, base string, inst int) error {
	dir := filepath.Join(base, fmt.Sprintf("cr%d", inst))
	hung := false
	db, err := c30OpenDB(dir)
	if err != nil {
		return err
	}
	defer func() {
		if hung {
			return
		}
		if db != nil {
			db.Close()
		}
		os.RemoveAll(dir)
	}()
	nRounds := 4 + c.Rng.Intn(3)
	keyNo := 0
	key := fmt.Sprintf("seq/cr%d.%d", inst, keyNo)
	nextID := 0
	type held struct{ who, obj int } // goroutine, object
	seen := map[uint64]held{} // numbers handed out for the current key
	tainted := false
	var stamp atomic.Int64
	for round := 0; round < nRounds; round++ {
		if round > 0 && c.Rng.Intn(2) == 0 { // re-open between rounds: the objects are gone
			if err := db.Close(); err != nil {
				db = nil
				return err
			}
			if db, err = c30OpenDB(dir); err != nil {
				return err
			}
			c.Count("stress-release-reopen")
		}
		nShared := 2 + c.Rng.Intn(3)
		nPriv := 0
		if round%2 == 1 {
			nPriv = 1 + c.Rng.Intn(2)
		}
		perG := 25 + c.Rng.Intn(30)
		bw := uint64(2 + c.Rng.Intn(5))
		shared, err := db.GetSequence([]byte(key), bw)
		if err != nil {
			return err
		}
		sharedID := nextID
		nextID++
		stop := make(chan struct{})
		var stopped atomic.Bool
		logs := make([][]c30Ev, nShared+nPriv+1)
		seeds := make([]uint64, nShared+nPriv+1)
		for i := range seeds {
			seeds[i] = uint64(c.Rng.Int63()) | 1
		}
		privIDs := make([]int, nPriv)
		for i := range privIDs {
			privIDs[i] = nextID
			nextID++
		}
		var wg, wgNext sync.WaitGroup
		call := func(g, obj int, op byte, f func() (uint64, error)) c30Ev {
			ev := c30Ev{g: g, obj: obj, op: op, start: stamp.Add(1)}
			ev.n, ev.err = f()
			ev.end = stamp.Add(1)
			logs[g] = append(logs[g], ev)
			return ev
		}
		for g := 0; g < nShared; g++ {
			wg.Add(1)
			wgNext.Add(1)
			go func(g int) {
				defer wg.Done()
				defer wgNext.Done()
				x := seeds[g]
				for it := 0; it < perG && !stopped.Load(); it++ {
					if ev := call(g, sharedID, 'n', shared.Next); ev.err != nil {
						stopped.Store(true) // nobody starts another call on the shared object
						return
					}
					x ^= x << 13
					x ^= x >> 7
					x ^= x << 17
					if x%4 == 0 {
						time.Sleep(time.Duration(x%200) * time.Microsecond)
					}
				}
			}(g)
		}
		for p := 0; p < nPriv; p++ {
			wg.Add(1)
			wgNext.Add(1)
			go func(g, id int) {
				defer wg.Done()
				defer wgNext.Done()
				var seq *badger.Sequence
				pbw := uint64(1 + seeds[g]%3)
				for it := 0; it < perG/2; it++ {
					if seq == nil { // GetSequence leases as well: it may lose with ErrConflict
						s, err := db.GetSequence([]byte(key), pbw)
						if err != nil {
							continue
						}
						seq = s
					}
					if ev := call(g, id, 'n', seq.Next); ev.err != nil {
						return // the owner drops the object after a failed lease update
					}
					if it%7 == 6 {
						if ev := call(g, id, 'r', func() (uint64, error) { return 0, seq.Release() }); ev.err != nil {
							return
						}
					}
				}
			}(nShared+p, privIDs[p])
		}
		wg.Add(1)
		go func(g int) { // the releaser
			defer wg.Done()
			x := seeds[g]
			for !stopped.Load() {
				select {
				case <-stop:
					return
				default:
				}
				call(g, sharedID, 'r', func() (uint64, error) { return 0, shared.Release() })
				x ^= x << 13
				x ^= x >> 7
				x ^= x << 17
				time.Sleep(time.Duration(x%300) * time.Microsecond)
			}
		}(nShared + nPriv)
		done := make(chan struct{})
		go func() { wgNext.Wait(); close(stop); wg.Wait(); close(done) }()
		select {
		case <-done:
		case <-time.After(c30Watchdog):
			hung = true
			c.Oracle(false, c30SigHang, "concurrent Next / Release calls on one key did not all return within "+c30Watchdog.String(),
				J{"phase": "stress-next-release", "instance": inst, "round": round, "shared_callers": nShared, "private_objects": nPriv, "bandwidth": bw})
			return nil
		}
		// ---- evaluate the round ----
		var evs []c30Ev
		for _, l := range logs {
			evs = append(evs, l...)
		}
		sort.Slice(evs, func(i, j int) bool { return evs[i].end < evs[j].end })
		failAt := int64(-1) // start of the first failed call on the shared object
		nNum, nErr := 0, 0
		for _, ev := range evs {
			if ev.err != nil {
				nErr++
				// a failed Release leaves the object as it was; a failed Next leaves an unstored lease
				if ev.obj == sharedID && ev.op == 'n' && (failAt < 0 || ev.start < failAt) {
					failAt = ev.start
				}
			}
		}
		if failAt >= 0 {
			for _, ev := range evs {
				if ev.obj == sharedID && ev.err == nil && ev.end > failAt {
					tainted = true // a call on the shared object may have run after the failed one
				}
			}
		}
		rp := func() J {
			var tr []string
			for _, ev := range evs {
				s := fmt.Sprintf("[%d,%d] g%d o%d.", ev.start, ev.end, ev.g, ev.obj)
				switch {
				case ev.op == 'r':
					s += "Release -> " + c30ErrClass(ev.err)
				case ev.err != nil:
					s += "Next -> " + c30ErrClass(ev.err)
				default:
					s += fmt.Sprintf("Next -> %d", ev.n)
				}
				tr = append(tr, s)
			}
			if len(tr) > 400 {
				tr = tr[len(tr)-400:]
			}
			return J{"phase": "stress-next-release", "instance": inst, "round": round, "key": key, "shared_object": sharedID,
				"shared_callers": nShared, "private_objects": nPriv, "bandwidth": bw, "calls_by_return_order": tr}
		}
		lastOf := map[[2]int]uint64{}
		hasLast := map[[2]int]bool{}
		dupSig, ordSig := c30SigStressDup, c30SigStressOrder
		if tainted {
			dupSig, ordSig = c30SigDefect, c30SigDefect
		}
		reported := map[string]bool{}
		for _, ev := range evs {
			if ev.op != 'n' || ev.err != nil {
				continue
			}
			nNum++
			sig, what := "", ""
			if prev, dup := seen[ev.n]; dup {
				sig, what = dupSig, fmt.Sprintf("number %d handed out twice for key %q: to goroutine %d by object %d, and to goroutine %d by object %d", ev.n, key, prev.who, prev.obj, ev.g, ev.obj)
			}
			seen[ev.n] = held{ev.g, ev.obj}
			gk := [2]int{ev.g, ev.obj}
			if sig == "" && hasLast[gk] && ev.n <= lastOf[gk] {
				sig, what = ordSig, fmt.Sprintf("goroutine %d got %d from object %d after %d", ev.g, ev.n, ev.obj, lastOf[gk])
			}
			lastOf[gk], hasLast[gk] = ev.n, true
			if sig == "" {
				c.Oracle(true, "", "", nil)
			} else if !reported[sig] { // one report per class and round
				reported[sig] = true
				c.Oracle(false, sig, what, rp())
			}
		}
		c.Count("stress-release-round")
		if nPriv > 0 {
			c.Count("stress-release-round-with-private-objects")
		}
		c.Extra["stress_release_numbers"] = nNum + toInt(c.Extra["stress_release_numbers"])
		c.Extra["stress_release_errors"] = nErr + toInt(c.Extra["stress_release_errors"])
		if tainted { // go on with a new key
			c.Count("stress-release-round-after-failed-lease-update")
			keyNo++
			key = fmt.Sprintf("seq/cr%d.%d", inst, keyNo)
			seen = map[uint64]held{}
			tainted = false
		}
	}
	return nil
}
