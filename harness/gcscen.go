package main

// Deterministic GC histories: witnesses of the recorded findings (F2, F23, F8 through GC), the
// #2286 regression (delete committed after the rewrite started), deferred file deletion.

import (
	"bytes"
	"fmt"
	"time"
)

func gcOpts(managed bool) sysOpts {
	return sysOpts{Managed: managed, Detect: false, NKeep: 1, MaxLevels: 4, VThreshold: 32, TableSize: 1 << 20, BaseLevelSize: 8 << 10}
}

func gcBig(c byte) []byte { return bytes.Repeat([]byte{c}, 40) }

// let the read watermark pass everything committed so far (normal mode)
func (g *gcHist) bumpWatermark() {
	for i := 0; i < 2; i++ {
		t := g.beginAt(false)
		g.discardT(t)
	}
	// the watermark is advanced by a goroutine: wait until it has caught up (no label: the
	// discard timestamp is observed at each compaction)
	want := g.db.VerifNextTs() - 1
	for i := 0; i < 2000 && !g.o.Managed && g.db.VerifDiscardTs() < want; i++ {
		time.Sleep(time.Millisecond)
	}
}

// readCheck: the current value of k must be `want` (nil = not found); failure carries `sig`
func (g *gcHist) readCheck(k, want []byte, sig, what string) bool {
	ts := g.db.VerifNextTs()
	if g.o.Managed {
		ts = g.mts + 1
	}
	tx := g.db.VerifGcReadTxnAt(ts)
	defer tx.Discard()
	it, err := tx.Get(k)
	var got []byte
	found := err == nil
	if found {
		got, _ = it.ValueCopy(nil)
	}
	ok := (want == nil && !found) || (want != nil && found && bytes.Equal(got, want))
	g.c.Oracle(ok, sig, what, J{"history": g.desc, "key": k, "got": got, "found": found})
	return ok
}

// F2: an item obtained by Txn.Get holds a pointer into a file that GC deletes (only iterators
// are counted); Item.ValueCopy then returns an empty value and a nil error.
func gcScenarioF2(c *Ctx) (*gcHist, bool, error) {
	g, err := newGcHist(c, gcOpts(false), 1)
	if err != nil {
		return nil, false, err
	}
	defer g.closeAll()
	g.keys = [][]byte{[]byte("k"), []byte("p")}
	k := []byte("k")
	g.write(k, gcBig('v'))
	g.write([]byte("p"), gcBig('p')) // second value-log entry: file 1 is sealed
	t := g.beginAt(false)
	g.holdGet(0, t, k)
	g.holdGet(1, t, []byte("p"))
	g.itemValue(1) // read before the file goes: fine (the _partial statement)
	g.pdump()
	if err := g.gcRun(1, 0, nil, nil, nil); err != nil {
		return g, false, err
	}
	g.pdump()
	nf := c.nFail
	g.itemValue(0)
	rep := c.nFail > nf
	g.stop = false
	g.discardT(t)
	g.finish()
	return g, rep, nil
}

// F23: k is deleted BEFORE the rewrite starts; the scan still keeps the shadowed old version
// (exact-version lookup); a last-level compaction between scan and write-back drops the
// tombstone (at or below gcDiscardTs, so the #2286 clamp does not protect it) together with
// the old version; the write-back brings the key back.
func gcScenarioF23(c *Ctx) (*gcHist, bool, error) {
	g, err := newGcHist(c, gcOpts(false), 1)
	if err != nil {
		return nil, false, err
	}
	defer g.closeAll()
	g.keys = [][]byte{[]byte("k"), []byte("p")}
	k := []byte("k")
	g.write(k, gcBig('v'))
	g.write([]byte("p"), gcBig('p'))
	g.write(k, nil) // the delete, committed before GC
	g.bumpWatermark()
	nf := c.nFail
	err = g.gcRun(1, 0, nil, func() {
		g.flush()
		if ran, err := g.compact(0, false, nil); err == nil && ran {
			g.compactInGC = true
		}
		g.dump()
	}, nil)
	if err != nil {
		return g, false, err
	}
	rep := c.nFail > nf
	g.finish()
	return g, rep, nil
}

// #2286 regression: the delete is committed AFTER the rewrite started (in the scan ->
// write-back window) and compacted to the last level there; the clamp keeps the tombstone.
func gcScenario2286(c *Ctx) (*gcHist, bool, error) {
	g, err := newGcHist(c, gcOpts(false), 1)
	if err != nil {
		return nil, false, err
	}
	defer g.closeAll()
	g.keys = [][]byte{[]byte("k"), []byte("p")}
	k := []byte("k")
	g.write(k, gcBig('v'))
	g.write([]byte("p"), gcBig('p'))
	g.flush()
	nf := c.nFail
	err = g.gcRun(1, 0, nil, func() {
		g.write(k, nil)
		g.bumpWatermark()
		g.flush()
		if ran, err := g.compact(0, false, nil); err == nil && ran {
			g.compactInGC = true
		}
		g.dump()
	}, nil)
	if err != nil {
		return g, false, err
	}
	g.readCheck(k, nil, sigResurrect, "a key deleted during the rewrite is visible again after the write-back (#2286)")
	g.finish()
	return g, c.nFail > nf, nil
}

// the #2286 interleaving with the compaction going into a level ABOVE the last one: the last
// level already holds more than BaseLevelSize of other keys, so the base level is the one above
// it; the deleted key's range is absent from the last level (no overlap below the output), so
// only the clamp of the discard timestamp keeps the tombstone while the rewrite is active.
func gcScenario2286Deep(c *Ctx) (*gcHist, bool, error) {
	o := gcOpts(false)
	o.BaseLevelSize = 200
	g, err := newGcHist(c, o, 1)
	if err != nil {
		return nil, false, err
	}
	defer g.closeAll()
	g.keys = [][]byte{[]byte("k"), []byte("p")}
	// filler in the last level: keys above "p", > 200 bytes
	var fill [][]byte
	for i := 0; i < 8; i++ {
		fill = append(fill, []byte(fmt.Sprintf("x%d", i)), gcBig(byte('a'+i)))
	}
	g.write(fill...)
	g.flush()
	if ran, err := g.compact(0, false, nil); err != nil || !ran {
		return g, false, fmt.Errorf("2286-deep: filler compaction did not run (%v)", err)
	}
	base := g.db.VerifBaseLevel()
	c.Extra["scenario_2286_deep_base_level"] = base
	k := []byte("k")
	g.write(k, gcBig('v'))
	g.write([]byte("p"), gcBig('p'))
	g.flush()
	fs := g.sealedFiles()
	if len(fs) == 0 {
		return g, false, fmt.Errorf("2286-deep: no sealed value-log file")
	}
	nf := c.nFail
	err = g.gcRun(fs[len(fs)-1], 0, nil, func() {
		g.write(k, nil)
		g.bumpWatermark()
		g.flush()
		if ran, err := g.compact(0, false, nil); err == nil && ran {
			g.compactInGC = true
		}
		g.dump()
	}, nil)
	if err != nil {
		return g, false, err
	}
	g.readCheck(k, nil, sigResurrect, "a key deleted during the rewrite is visible again after the write-back (#2286, compaction into a level above the last one)")
	g.finish()
	return g, c.nFail > nf, nil
}

// F26: the delete is committed during the rewrite (clamp-protected while gcActive) and flushed;
// the write-back puts the old version into the memtable, ABOVE the tombstone; after the
// rewrite has ended a last-level compaction of the L0 tables drops the tombstone and the old
// copy below it, and the write-back copy becomes visible.
func gcScenarioF26(c *Ctx) (*gcHist, bool, error) {
	g, err := newGcHist(c, gcOpts(false), 1)
	if err != nil {
		return nil, false, err
	}
	defer g.closeAll()
	g.keys = [][]byte{[]byte("k"), []byte("p")}
	k := []byte("k")
	g.write(k, gcBig('v'))
	g.write([]byte("p"), gcBig('p'))
	g.flush()
	nf := c.nFail
	err = g.gcRun(1, 0, nil, func() {
		g.write(k, nil)
		g.flush()
	}, nil)
	if err != nil {
		return g, false, err
	}
	g.refCheck("rewrite") // still deleted here
	g.bumpWatermark()
	if _, err := g.compact(0, false, nil); err != nil {
		return g, false, err
	}
	g.dump()
	g.refCheck("compaction after the rewrite ended")
	rep := c.nFail > nf
	g.finish()
	return g, rep, nil
}

// F27 (managed mode): the caller re-writes b at the SAME timestamp between scan and write-back;
// the write-back is a blind Put of key@version and puts the old value back on top.
func gcScenarioF27(c *Ctx) (*gcHist, bool, error) {
	g, err := newGcHist(c, gcOpts(true), 1)
	if err != nil {
		return nil, false, err
	}
	defer g.closeAll()
	g.keys = [][]byte{[]byte("b"), []byte("p")}
	b := []byte("b")
	g.mts = 1
	g.write(b, gcBig('1'))           // b@2
	g.write([]byte("p"), gcBig('p')) // p@3: file 1 sealed
	nf := c.nFail
	err = g.gcRun(1, 0, nil, func() {
		g.mts = 1
		g.write(b, gcBig('2')) // b@2 again, other value
		g.mts = 3
	}, nil)
	if err != nil {
		return g, false, err
	}
	rep := c.nFail > nf
	g.finish()
	return g, rep, nil
}

// deferred deletion: an iterator is open when the rewrite finishes; the file stays until the
// iterator is closed and the iterator still reads the old pointers.
func gcScenarioDeferred(c *Ctx) (*gcHist, bool, error) {
	g, err := newGcHist(c, gcOpts(false), 2)
	if err != nil {
		return nil, false, err
	}
	defer g.closeAll()
	g.keys = [][]byte{[]byte("a"), []byte("b"), []byte("c"), []byte("d")}
	g.write([]byte("a"), gcBig('a'), []byte("b"), gcBig('b'))
	g.write([]byte("c"), gcBig('c')) // 3 > 2: file 1 sealed
	g.write([]byte("a"), gcBig('A')) // a@1 is stale now
	g.write([]byte("d"), []byte("x"))
	g.flush()
	t := g.beginAt(false)
	g.itOpen(0, t, itOpts{})
	g.itOpen(1, t, itOpts{All: true})
	nf := c.nFail
	if err := g.gcRun(1, 0, nil, nil, nil); err != nil {
		return g, false, err
	}
	g.pdump()
	g.holdGet(2, t, []byte("b"))
	g.itRun(0)
	g.itClose(0)
	g.pdump()
	g.itRun(1)
	g.itemValue(2)
	g.itClose(1) // last iterator: file 1 is deleted now
	g.pdump()
	g.itemValue(2) // b was read through the NEW pointer: still fine
	g.discardT(t)
	// a second rewrite is refused while its file is pending: mark again
	t2 := g.beginAt(false)
	g.itOpen(3, t2, itOpts{})
	g.write([]byte("c"), gcBig('C'))
	g.write([]byte("e"), gcBig('e'))
	if fs := g.sealedFiles(); len(fs) > 0 {
		if err := g.gcRun(fs[0], 0, nil, nil, nil); err != nil {
			return g, false, err
		}
		if err := g.gcRun(fs[0], 0, nil, nil, nil); err != nil { // "already marked for deletion"
			return g, false, err
		}
	}
	g.itRun(3)
	g.itClose(3)
	g.finish()
	return g, c.nFail > nf, nil
}

// F8 through GC (one deterministic attempt): the OLD copy of a re-written key@version (its
// pointer goes into the deleted file) sits in an old L0 table; an L0->L0 compaction of the
// old tables produces a table whose smallest key is larger than that of the newer table
// holding the NEW copy; replaceTables sorts L0 by smallest key, the merged table becomes the
// "newest" one, the stale copy wins the lookup and its value is silently empty.
func gcScenarioF8(c *Ctx) (*gcHist, bool, error) {
	g, err := newGcHist(c, gcOpts(false), 1)
	if err != nil {
		return nil, false, err
	}
	defer g.closeAll()
	g.keys = [][]byte{[]byte("a"), []byte("c"), []byte("m"), []byte("p"), []byte("x"), []byte("y"), []byte("z")}
	m := []byte("m")
	mv := gcBig('m')
	g.write([]byte("c"), []byte("1"), m, mv)
	g.write([]byte("p"), gcBig('p')) // file 1 sealed: records m, p
	g.flush()
	old := g.l0IDs()
	for _, k := range []string{"x", "y", "z"} {
		g.write([]byte(k), []byte("s"))
		g.flush()
	}
	oldTables := map[uint64]bool{}
	for _, id := range g.l0IDs() {
		oldTables[id] = true
	}
	_ = old
	if err := g.gcRun(1, 0, nil, nil, nil); err != nil { // m, p re-written; file 1 deleted
		return g, false, err
	}
	g.write([]byte("a"), []byte("s")) // makes the newer table's smallest key smaller
	g.flush()
	g.pdump()
	g.bumpWatermark()
	g.backdate = func(id uint64) bool { return oldTables[id] }
	ran, err := g.compact(0, true, nil)
	if err != nil || !ran {
		return g, false, fmt.Errorf("F8 scenario: L0->L0 compaction did not run (%v)", err)
	}
	g.pdump()
	g.dump()
	ok := g.readCheck(m, mv, sigF8, "after an L0->L0 compaction the stale copy of a key@version re-written by GC wins the lookup: its pointer goes into the deleted value-log file and the value is silently empty")
	g.stop = true // the shared read oracle would report the same thing under a generic signature
	g.finish()
	return g, !ok, nil
}

type gcScenario struct {
	id  string
	run func(c *Ctx) (*gcHist, bool, error)
}

var gcScenarios = []gcScenario{
	{"F2", gcScenarioF2},
	{"F23", gcScenarioF23},
	{"F26", gcScenarioF26},
	{"F27", gcScenarioF27},
	{"2286-regression", gcScenario2286},
	{"2286-regression-deep", gcScenario2286Deep},
	{"deferred-deletion", gcScenarioDeferred},
	{"F8", gcScenarioF8},
}

func runGcScenarios(c *Ctx) error {
	for _, s := range gcScenarios {
		g, reproduced, err := s.run(c)
		if err != nil {
			if g != nil {
				c.Oracle(false, "harness-error:gc-scenario-"+s.id, err.Error(), J{"history": g.desc})
			}
			return fmt.Errorf("scenario %s: %w", s.id, err)
		}
		c.Case("witness-"+s.id, g.term(), gcInput(g))
		c.Extra["witness_"+s.id+"_reproduced"] = reproduced
	}
	return nil
}

var _ = time.Now
