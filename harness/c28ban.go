package main

// C28 (oracle-only phase): banned namespaces. Once BanNamespace(ns) has returned, every operation
// of every transaction on a key of that namespace — Set, Delete, Get (also of the transaction's
// own pending write) — is rejected with ErrBannedKey, a rejected write leaves the transaction's
// size accounting and its other writes untouched, and keys of other namespaces are unaffected.

import (
	"encoding/binary"
	"errors"
	"fmt"
	"os"
	"path/filepath"

	badger "github.com/dgraph-io/badger/v4"
)

func runC28BannedNamespaces(c *Ctx) error {
	dir := filepath.Join(os.Getenv("VERIF_SCRATCH_DIR"), "c28ban")
	os.RemoveAll(dir)
	defer os.RemoveAll(dir)
	opt := badger.DefaultOptions(dir).WithLoggingLevel(badger.ERROR).WithNamespaceOffset(1).WithMemTableSize(1 << 20).WithValueThreshold(1 << 10).
		WithValueLogFileSize(1 << 20).WithNumCompactors(0).WithBlockCacheSize(1 << 20).WithMetricsEnabled(false)
	db, err := badger.Open(opt)
	if err != nil {
		return err
	}
	defer db.Close()
	key := func(ns uint64, s string) []byte {
		k := make([]byte, 9+len(s))
		k[0] = 'n'
		binary.BigEndian.PutUint64(k[1:], ns)
		copy(k[9:], s)
		return k
	}
	var bad []string
	expect := func(what string, err, want error) {
		if !errors.Is(err, want) && !(want == nil && err == nil) {
			bad = append(bad, fmt.Sprintf("%s: %v (want %v)", what, err, want))
		}
	}
	if err := db.Update(func(tx *badger.Txn) error {
		if err := tx.Set(key(7, "old"), []byte("v7")); err != nil {
			return err
		}
		return tx.Set(key(8, "old"), []byte("v8"))
	}); err != nil {
		return err
	}
	// a transaction with a pending write in namespace 7, opened BEFORE the ban
	tx := db.NewTransaction(true)
	defer tx.Discard()
	expect("Set before the ban", tx.Set(key(7, "pending"), []byte("p")), nil)
	expect("Set other namespace", tx.Set(key(8, "pending"), []byte("q")), nil)
	expect("BanNamespace", db.BanNamespace(7), nil)
	_, gerr := tx.Get(key(7, "pending"))
	expect("Get of the transaction's own pending write in the banned namespace", gerr, badger.ErrBannedKey)
	_, gerr = tx.Get(key(7, "old"))
	expect("Get of a committed key in the banned namespace", gerr, badger.ErrBannedKey)
	expect("Set in the banned namespace", tx.Set(key(7, "x"), []byte("x")), badger.ErrBannedKey)
	expect("Delete in the banned namespace", tx.Delete(key(7, "old")), badger.ErrBannedKey)
	it, gerr := tx.Get(key(8, "pending"))
	expect("Get of a pending write in another namespace", gerr, nil)
	if gerr == nil {
		if v, _ := it.ValueCopy(nil); string(v) != "q" {
			bad = append(bad, "pending write of another namespace reads "+string(v))
		}
	}
	_, gerr = tx.Get(key(8, "old"))
	expect("Get of a committed key in another namespace", gerr, nil)
	// many rejected writes must not consume the transaction's budget
	big := make([]byte, 900)
	for i := 0; i < 400; i++ {
		if err := tx.Set(key(7, fmt.Sprintf("r%03d", i)), big); !errors.Is(err, badger.ErrBannedKey) {
			bad = append(bad, fmt.Sprintf("rejected write %d: %v (want ErrBannedKey)", i, err))
			break
		}
	}
	expect("Set after many rejected writes", tx.Set(key(8, "after"), []byte("ok")), nil)
	// a fresh read-only transaction
	db.View(func(rt *badger.Txn) error {
		_, err := rt.Get(key(7, "old"))
		expect("Get in a new transaction", err, badger.ErrBannedKey)
		_, err = rt.Get(key(8, "old"))
		expect("Get other namespace in a new transaction", err, nil)
		return nil
	})
	if len(bad) > 6 {
		bad = bad[:6]
	}
	c.Oracle(len(bad) == 0, "c28-banned-namespace-not-enforced-uniformly",
		"after BanNamespace an operation on a key of the banned namespace was not rejected with ErrBannedKey, or a rejected write affected the transaction",
		J{"mismatches": bad})
	c.Count("banned-namespace-scenario")
	return nil
}
