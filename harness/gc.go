package main

// C15 — value-log GC never changes, loses or resurrects data.
//
// Sequential histories on a real DB whose values mostly live in the value log
// (ValueThreshold 32, ValueLogMaxEntries 1-3 so that files rotate after a few commits).
// On top of the shared `hist` labels this file adds: held Get items (GetHold / ItemValue),
// iterators kept open (ItOpen / ItRun / ItClose), the production rewrite driven per file or
// through RunValueLogGC with its phases exposed as labels (GcStart / GcScan / GcWriteBack /
// GcDelete / GcEnd; other operations run INSIDE the rewrite at the three verifPoint hooks of
// value.go), and a physical dump (PDump: placement flags, pointers as (fid, record index),
// value-log files, files pending deletion, iterator count).  The model (coq/B/Gc.v) replays
// every label.  Property oracle: all reads (Get on every key + one iterator, at every
// timestamp at or above the discard timestamp) are taken immediately before and after each
// rewrite phase and must be identical; held items must still give the value that was written.

import (
	"bytes"
	"errors"
	"fmt"
	"os"
	"path/filepath"
	"sort"
	"strings"
	"time"

	badger "github.com/dgraph-io/badger/v4"
)

const (
	sigF2        = "F2-get-item-value-lost-after-gc-deletes-vlog-file"
	sigF8        = "F8-same-key-version-precedence-flips-after-l0-sort"
	sigF23       = "F23-gc-writeback-resurrects-key-deleted-before-rewrite"
	sigF26       = "F26-gc-writeback-above-newer-tombstone-resurrects-after-rewrite-ends"
	sigF27       = "F27-gc-writeback-overwrites-same-version-rewrite"
	sigDangling  = "c15-read-returns-dangling-pointer"
	sigRef       = "c15-read-differs-from-committed-history"
	sigChanged   = "c15-read-changed-by-gc"
	sigResurrect = "c15-deleted-key-resurrected"
	sigIterItem  = "c15-iterator-item-unreadable"
	sigHeldItem  = "c15-held-item-value-changed"
	mPtr         = 2
)

type heldItem struct {
	t      int
	item   *badger.Item
	key    []byte
	want   []byte
	inVlog bool
	fid    uint32
}

type heldIter struct {
	t   int
	it  *badger.Iterator
	o   itOpts
	ran bool
}

type gcHist struct {
	*hist
	maxEnt  int
	items   map[int]*heldItem
	iters   map[int]*heldIter
	stop    bool // one of this file's oracles failed: end the history here
	nGC     int
	pt      func(name string, args ...uint64)
	offIdx  map[uint32]map[uint32]int // fid -> record offset -> record index (never forgotten)
	mts     uint64                    // managed: last commit timestamp
	mdiscard uint64                   // managed: last SetDiscardTs
	nextT   int
	nextH   int
	keys    [][]byte
	clamp   uint64 // gcDiscardTs of the rewrite in flight
	inGC    bool
	compactInGC bool
	sameTs      bool // managed: commits may reuse the previous commit timestamp
	wroteBack   map[string]uint64 // key@version written back by a rewrite -> that rewrite's gcDiscardTs
}

func openGcDB(dir string, o sysOpts, maxEnt int) (*badger.DB, error) {
	opt := badger.DefaultOptions(dir).WithLoggingLevel(badger.ERROR + 1).WithNumCompactors(0).WithNumLevelZeroTables(1000).
		WithNumLevelZeroTablesStall(2000).WithMemTableSize(1 << 20).WithValueLogFileSize(1 << 20).
		WithNumVersionsToKeep(o.NKeep).WithDetectConflicts(o.Detect).WithMaxLevels(o.MaxLevels).
		WithBaseTableSize(o.TableSize).WithBaseLevelSize(o.BaseLevelSize).WithLevelSizeMultiplier(2).
		WithNumMemtables(8).WithBlockSize(64).WithMetricsEnabled(false).WithCompactL0OnClose(false).
		WithValueThreshold(o.VThreshold).WithValueLogMaxEntries(uint32(maxEnt))
	if o.Managed {
		return badger.OpenManaged(opt)
	}
	return badger.Open(opt)
}

func newGcHist(c *Ctx, o sysOpts, maxEnt int) (*gcHist, error) {
	histSeq++
	dir := filepath.Join(os.Getenv("VERIF_SCRATCH_DIR"), fmt.Sprintf("g%d", histSeq))
	if os.Getenv("VERIF_SCRATCH_DIR") == "" {
		dir = filepath.Join(os.TempDir(), fmt.Sprintf("verif_g%d_%d", os.Getpid(), histSeq))
	}
	os.RemoveAll(dir)
	os.MkdirAll(dir, 0o755)
	db, err := openGcDB(dir, o, maxEnt)
	if err != nil {
		return nil, err
	}
	h := &hist{c: c, o: o, dir: dir, db: db, txns: map[int]*badger.Txn{}, tupd: map[int]bool{}, tpend: map[int][]refWrite{}}
	h.next0 = db.VerifNextTs()
	g := &gcHist{hist: h, maxEnt: maxEnt, items: map[int]*heldItem{}, iters: map[int]*heldIter{}, offIdx: map[uint32]map[uint32]int{}, mts: 1, wroteBack: map[string]uint64{}}
	badger.VerifSetController(&badger.VerifController{
		Point: func(name string, args ...uint64) {
			if name == "subcompact.discardTs" {
				h.mu.Lock()
				h.cdisc = args[0]
				h.mu.Unlock()
				return
			}
			if g.pt != nil {
				g.pt(name, args...)
			}
		},
		NewTables: func(info *badger.VerifCompactInfo) {
			h.mu.Lock()
			h.cinfo = info
			h.cgot = true
			h.mu.Unlock()
		},
	})
	h.emit(fmt.Sprintf("(SetNow %d)", time.Now().Unix()), "now")
	return g, nil
}

func (g *gcHist) closeAll() {
	for _, it := range g.iters {
		it.it.Close()
	}
	g.iters = map[int]*heldIter{}
	g.hist.close()
}

var gcOwnLabels = []string{"(CommitV ", "(GetHold ", "(ItemValue ", "(ItOpen ", "(ItRun ", "(ItClose ", "(GcStart ", "(GcScan ", "GcWriteBack", "(GcDelete ", "GcEnd", "(PDump "}

func (g *gcHist) term() string {
	ops := make([]string, len(g.ops))
	for i, o := range g.ops {
		own := false
		for _, p := range gcOwnLabels {
			if strings.HasPrefix(o, p) {
				own = true
			}
		}
		if own {
			ops[i] = o
		} else {
			ops[i] = "(Base " + o + ")"
		}
	}
	return fmt.Sprintf("(GHist %s %s %d %d %d %d %d [\n  %s])", Bool(g.o.Managed), Bool(g.o.Detect), g.o.NKeep, g.o.MaxLevels, g.next0,
		g.o.VThreshold, g.maxEnt, strings.Join(ops, ";\n  "))
}

// ---- physical view ----
func (g *gcHist) refreshIdx() {
	st := g.db.VerifGcState()
	for _, fid := range st.Fids {
		recs, err := g.db.VerifGcRecords(fid)
		if err != nil {
			continue
		}
		m := g.offIdx[fid]
		if m == nil {
			m = map[uint32]int{}
			g.offIdx[fid] = m
		}
		for i, r := range recs {
			m[r.Offset] = i
		}
	}
}

func (g *gcHist) idxOf(fid, off uint32) int {
	if m := g.offIdx[fid]; m != nil {
		if i, ok := m[off]; ok {
			return i
		}
	}
	return 999999
}

func (g *gcHist) physTerm(e badger.VerifPhysEntry) string {
	if e.InVlog {
		return fmt.Sprintf("(mkE %s %d %d %d %d [%d; %d])", B(e.Key), e.Version, (e.Meta&mMask)|mPtr, e.UserMeta, e.ExpiresAt, e.Fid, g.idxOf(e.Fid, e.Offset))
	}
	return entTerm(e.Key, e.Version, e.Meta, e.UserMeta, e.ExpiresAt, e.Value)
}

func (g *gcHist) physList(es []badger.VerifPhysEntry) string {
	s := make([]string, len(es))
	for i, e := range es {
		s[i] = g.physTerm(e)
	}
	return ListOf(s)
}

func (g *gcHist) pdump() {
	g.refreshIdx()
	mt, imm, levels := g.db.VerifGcPhys()
	st := g.db.VerifGcState()
	ims := make([]string, len(imm))
	for i, m := range imm {
		ims[i] = g.physList(m)
	}
	lvs := make([]string, len(levels))
	for i, l := range levels {
		ts := make([]string, len(l))
		for j, t := range l {
			ts[j] = fmt.Sprintf("(%d, %s)", t.ID, g.physList(t.Entries))
		}
		lvs[i] = ListOf(ts)
	}
	fs := make([]string, 0, len(st.Fids))
	for _, fid := range st.Fids {
		recs, _ := g.db.VerifGcRecords(fid)
		rs := make([]string, len(recs))
		for i, r := range recs {
			rs[i] = entTerm(r.Key, r.Version, r.Meta, r.UserMeta, r.ExpiresAt, r.Value)
		}
		fs = append(fs, fmt.Sprintf("(%d, %s)", fid, ListOf(rs)))
	}
	td := make([]uint64, len(st.ToBeDeleted))
	for i, f := range st.ToBeDeleted {
		td[i] = uint64(f)
	}
	g.emit(fmt.Sprintf("(PDump %s %s %s %s %s %d %d)", g.physList(mt), ListOf(ims), ListOf(lvs), ListOf(fs), idList(td), st.NumIters, st.MaxFid),
		fmt.Sprintf("pdump files=%v todel=%v iters=%d", st.Fids, st.ToBeDeleted, st.NumIters))
}

// ---- held Get items ----
func (g *gcHist) holdGet(hid, t int, k []byte) {
	tx := g.txns[t]
	item, err := tx.Get(k)
	now := uint64(time.Now().Unix())
	switch {
	case err == nil:
		inV, fid, _ := badger.VerifItemPtr(item)
		want := g.refVisible(t, k, now)
		hi := &heldItem{t: t, item: item, key: append([]byte{}, k...), inVlog: inV, fid: fid}
		ok := want != nil && want.Ver == item.Version()
		if want != nil {
			hi.want = want.Val
		}
		g.items[hid] = hi
		g.emit(fmt.Sprintf("(GetHold %d %d %s (GFound %s))", hid, t, B(k), entTerm(item.KeyCopy(nil), item.Version(), badger.VerifItemMeta(item), item.UserMeta(), item.ExpiresAt(), nil)),
			fmt.Sprintf("t%d get-hold h%d %x -> v=%d invlog=%v fid=%d", t, hid, k, item.Version(), inV, fid))
		g.c.Oracle(ok, g.sigFor(k), "Get does not return the newest committed write at or below the read timestamp", J{"history": g.desc, "key": k})
	case errors.Is(err, badger.ErrKeyNotFound):
		g.emit(fmt.Sprintf("(GetHold %d %d %s GNotFound)", hid, t, B(k)), fmt.Sprintf("t%d get-hold h%d %x -> notfound", t, hid, k))
		g.c.Oracle(g.refVisible(t, k, now) == nil, g.sigFor(k), "Get does not return the newest committed write at or below the read timestamp", J{"history": g.desc, "key": k})
	default:
		g.emit(fmt.Sprintf("(GetHold %d %d %s (GErr %d))", hid, t, B(k), errCode(err)), "get-hold error "+err.Error())
	}
}

func contains32(l []uint32, x uint32) bool {
	for _, y := range l {
		if y == x {
			return true
		}
	}
	return false
}

func (g *gcHist) itemValue(hid int) {
	hi := g.items[hid]
	if hi == nil {
		return
	}
	v, err := hi.item.ValueCopy(nil)
	g.emit(fmt.Sprintf("(ItemValue %d %s)", hid, B(v)), fmt.Sprintf("item-value h%d -> %x err=%v", hid, v, err))
	ok := err == nil && bytes.Equal(v, hi.want)
	sig := sigHeldItem
	if !ok && hi.inVlog && !contains32(g.db.VerifGcState().Fids, hi.fid) {
		sig = sigF2
	}
	if !ok {
		g.stop = true
	}
	g.c.Oracle(ok, sig, "the value of an item held by an open transaction is no longer readable (empty value, nil error) after GC removed its value-log file",
		J{"history": g.desc, "key": hi.key, "got": v, "want": hi.want})
}

// ---- iterators kept open ----
func (g *gcHist) itOpen(i, t int, o itOpts) {
	tx := g.txns[t]
	io := badger.IteratorOptions{Reverse: o.Reverse, AllVersions: o.All, PrefetchValues: false}
	g.iters[i] = &heldIter{t: t, it: tx.NewIterator(io), o: o}
	g.emit(fmt.Sprintf("(ItOpen %d %d (mkIO %s %s %s false 0 false))", i, t, Bool(o.Reverse), Bool(o.All), B(nil)),
		fmt.Sprintf("t%d it-open i%d rev=%v all=%v", t, i, o.Reverse, o.All))
}

func (g *gcHist) itRun(i int) {
	hi := g.iters[i]
	if hi == nil {
		return
	}
	hi.ran = true
	var items []obsItem
	bad := false
	for hi.it.Rewind(); hi.it.Valid(); hi.it.Next() {
		oi, err := readItem(hi.it.Item())
		if err != nil {
			bad = true
		}
		items = append(items, oi)
		if len(items) > 10000 {
			break
		}
	}
	ts := make([]string, len(items))
	for j, x := range items {
		ts[j] = entTerm(x.Key, x.Ver, x.Meta, x.UMeta, x.Exp, x.Val)
	}
	g.emit(fmt.Sprintf("(ItRun %d %s %s)", i, B(nil), ListOf(ts)), fmt.Sprintf("it-run i%d -> %d items", i, len(items)))
	ok := !bad
	for _, x := range items {
		w := refLatestExact(g.allWritesFor(hi.t), x.Key, x.Ver)
		if w != nil && expired(w.Meta, w.Exp, uint64(time.Now().Unix())) && w.UMeta == x.UMeta {
			// AllVersions also shows deleted / expired versions; GC does not move their values
			// (rewrite skips expired records), so the value of a dead version is not data
			continue
		}
		if w != nil && g.superseded(x.Key, x.Ver) {
			// a version that no legal snapshot read (ts >= discardTs) can return: retention does
			// not promise it, and when the compaction filter drops its re-written copy a stale
			// copy underneath (pointer into a deleted file) may resurface in AllVersions mode
			continue
		}
		if w == nil || !bytes.Equal(w.Val, x.Val) || w.UMeta != x.UMeta {
			ok = false
			if os.Getenv("GCDEBUG") != "" {
				fmt.Fprintf(os.Stderr, "itRun mismatch: key=%x ver=%d val=%x w=%+v\n", x.Key, x.Ver, x.Val, w)
			}
		}
	}
	if ok && !hi.o.All {
		now := uint64(time.Now().Unix())
		n := 0
		for _, k := range g.keyUniverse(hi.t) {
			if g.refVisible(hi.t, k, now) != nil {
				n++
			}
		}
		ok = n == len(items)
		if !ok && os.Getenv("GCDEBUG") != "" {
			fmt.Fprintf(os.Stderr, "itRun count mismatch: visible=%d items=%d rts=%d\n", n, len(items), g.txns[hi.t].VerifReadTs())
			for _, x := range items {
				fmt.Fprintf(os.Stderr, "   item %x@%d\n", x.Key, x.Ver)
			}
		}
	}
	if !ok {
		g.stop = true
	}
	g.c.Oracle(ok, sigIterItem, "an item of an iterator that was open across a GC is not readable / not the written value", J{"history": g.desc})
}

// superseded: another committed version of k lies in (ver, discardTs]
func (g *gcHist) superseded(k []byte, ver uint64) bool {
	d := g.db.VerifDiscardTs()
	for _, w := range g.ref {
		if bytes.Equal(w.Key, k) && w.Ver > ver && w.Ver <= d {
			return true
		}
	}
	return false
}

func (g *gcHist) itClose(i int) {
	hi := g.iters[i]
	if hi == nil {
		return
	}
	hi.it.Close()
	delete(g.iters, i)
	g.emit(fmt.Sprintf("(ItClose %d)", i), fmt.Sprintf("it-close i%d", i))
}

// release everything a transaction holds before it is committed / discarded
func (g *gcHist) releaseTxn(t int) {
	var ids []int
	for i, hi := range g.iters {
		if hi.t == t {
			ids = append(ids, i)
		}
	}
	sort.Ints(ids)
	for _, i := range ids {
		g.itClose(i)
	}
	for h, hi := range g.items {
		if hi.t == t {
			delete(g.items, h)
		}
	}
}

// ---- read snapshots (the property oracle) ----
type readSnap map[string]string

func (g *gcHist) snapTimestamps() []uint64 {
	lo := g.db.VerifDiscardTs()
	seen := map[uint64]bool{}
	var all []uint64
	for _, w := range g.ref {
		if w.Ver >= lo && !seen[w.Ver] {
			seen[w.Ver] = true
			all = append(all, w.Ver)
		}
	}
	sort.Slice(all, func(i, j int) bool { return all[i] < all[j] })
	if len(all) > 10 {
		all = all[len(all)-10:]
	}
	top := g.db.VerifNextTs()
	if g.o.Managed {
		top = g.mts + 1
	}
	if top < lo {
		top = lo
	}
	if !seen[top] {
		all = append(all, top)
	}
	return all
}

func (g *gcHist) snapReads() readSnap {
	s := readSnap{}
	ks := g.keyUniverse(-1)
	for _, ts := range g.snapTimestamps() {
		tx := g.db.VerifGcReadTxnAt(ts)
		for _, k := range ks {
			it, err := tx.Get(k)
			key := fmt.Sprintf("%d|get|%x", ts, k)
			switch {
			case err == nil:
				v, verr := it.ValueCopy(nil)
				s[key] = fmt.Sprintf("v%d u%d %x e=%v", it.Version(), it.UserMeta(), v, verr)
			case errors.Is(err, badger.ErrKeyNotFound):
				s[key] = "-"
			default:
				s[key] = "err " + err.Error()
			}
		}
		it := tx.NewIterator(badger.DefaultIteratorOptions)
		var sb strings.Builder
		for it.Rewind(); it.Valid(); it.Next() {
			x := it.Item()
			v, verr := x.ValueCopy(nil)
			fmt.Fprintf(&sb, "%x@%d=%x e=%v;", x.Key(), x.Version(), v, verr)
		}
		it.Close()
		s[fmt.Sprintf("%d|iter", ts)] = sb.String()
		tx.Discard()
	}
	return s
}

func (g *gcHist) checkSnap(before, after readSnap, phase string) {
	var keys []string
	for k := range before {
		keys = append(keys, k)
	}
	sort.Strings(keys)
	ok, sig, first := true, sigChanged, ""
	for _, k := range keys {
		a, present := after[k]
		if !present || a == before[k] {
			continue
		}
		if ok {
			first = fmt.Sprintf("%s: %q -> %q", k, before[k], a)
		}
		ok = false
		if strings.HasPrefix(before[k], "v") && strings.HasPrefix(a, "v") && phase == "write-back" {
			// same version, other value: was this key@version written twice (managed mode)?
			var ts, v1, v2 uint64
			var kx string
			fmt.Sscanf(k, "%d|get|%s", &ts, &kx)
			fmt.Sscanf(before[k], "v%d", &v1)
			fmt.Sscanf(a, "v%d", &v2)
			n := 0
			for _, w := range g.ref {
				if fmt.Sprintf("%x", w.Key) == kx && w.Ver == v1 {
					n++
				}
			}
			if _, wb := g.wroteBack[fmt.Sprintf("%s@%d", kx, v1)]; v1 == v2 && n >= 2 && wb {
				sig = sigF27
			}
			if v1 != v2 {
				// another (older, written-back) version of a key whose newest version is a delete or
				// has expired became visible: the resurrection findings, seen from a state in which
				// an even older version was already showing
				for _, key := range g.keyUniverse(-1) {
					if fmt.Sprintf("%x", key) == kx {
						if c := g.classify(key, ts, true, v2, false, 0); c == sigF23 || c == sigF26 {
							sig = c
						}
					}
				}
			}
			break
		}
		if before[k] == "-" && strings.HasPrefix(a, "v") {
			// a key that was not visible became visible: classify by the newest reference write
			var ts uint64
			var kx string
			fmt.Sscanf(k, "%d|get|%s", &ts, &kx)
			sig = sigResurrect
			var gv uint64
			fmt.Sscanf(a, "v%d", &gv)
			for _, key := range g.keyUniverse(-1) {
				if fmt.Sprintf("%x", key) == kx {
					sig = g.classify(key, ts, true, gv, false, 0)
				}
			}
			break
		}
	}
	if !ok {
		g.stop = true
	}
	g.c.Oracle(ok, sig, "a read returned something else immediately after the GC phase `"+phase+"` than immediately before it", J{"history": g.desc, "first": first, "phase": phase})
}

// classify a read that differs from the committed history by root cause
func (g *gcHist) classify(k []byte, ts uint64, found bool, gotVer uint64, inV bool, fid uint32) string {
	now := uint64(time.Now().Unix())
	want := refLatest(g.ref, k, ts)
	if found && want != nil && gotVer < want.Ver && expired(want.Meta, want.Exp, now) {
		// a deleted key is visible again through an older version
		if cl, ok := g.wroteBack[fmt.Sprintf("%x@%d", k, gotVer)]; ok {
			if want.Ver <= cl {
				// the tombstone was committed before the rewrite started (at or below
				// gcDiscardTs): the #2286 clamp never protected it
				return sigF23
			}
			// the tombstone is newer than the rewrite's start: protected only while gcActive
			return sigF26
		}
		return sigResurrect
	}
	if found && inV && !contains32(g.db.VerifGcState().Fids, fid) {
		return sigDangling
	}
	return sigRef
}

// refCheck: every key, at every timestamp at or above the discard timestamp, reads what the
// committed history says (run after compactions / flushes, where a GC write-back that sits
// above a newer tombstone takes effect)
func (g *gcHist) refCheck(where string) {
	if g.stop {
		return
	}
	now := uint64(time.Now().Unix())
	for _, ts := range g.snapTimestamps() {
		tx := g.db.VerifGcReadTxnAt(ts)
		for _, k := range g.keyUniverse(-1) {
			it, err := tx.Get(k)
			w := refLatest(g.ref, k, ts)
			if w != nil && expired(w.Meta, w.Exp, now) {
				w = nil
			}
			ok := true
			sig := sigRef
			switch {
			case err == nil:
				v, _ := it.ValueCopy(nil)
				ok = w != nil && w.Ver == it.Version() && bytes.Equal(w.Val, v)
				if !ok {
					inV, fid, _ := badger.VerifItemPtr(it)
					sig = g.classify(k, ts, true, it.Version(), inV, fid)
				}
			case errors.Is(err, badger.ErrKeyNotFound):
				ok = w == nil
			default:
				ok = false
			}
			if !ok {
				g.stop = true
				tx.Discard()
				g.c.Oracle(false, sig, "after `"+where+"` a read differs from the committed history (GC write-back copy involved: see signature)", J{"history": g.desc, "key": k, "ts": ts})
				return
			}
		}
		tx.Discard()
	}
	g.c.Oracle(true, "", "", nil)
}

// ---- the rewrite, phase by phase ----
type ptrKey struct{ fid, off uint32 }

func (g *gcHist) memPtrs() map[ptrKey]badger.VerifPhysEntry {
	mt, _, _ := g.db.VerifGcPhys()
	m := map[ptrKey]badger.VerifPhysEntry{}
	for _, e := range mt {
		if e.InVlog {
			m[ptrKey{e.Fid, e.Offset}] = e
		}
	}
	return m
}

// gcRun runs the production rewrite on `fid` (or RunValueLogGC(ratio) when ratio > 0), emits
// the phase labels, runs winA / winB / winC inside the rewrite (after the clamp is set, after
// the scan, after the write-back) and evaluates the read oracle around each phase.
func (g *gcHist) gcRun(fid uint32, ratio float64, winA, winB, winC func()) error {
	var started bool
	var scanAt = -1
	var nwb int
	var s1 map[ptrKey]badger.VerifPhysEntry
	var snap readSnap
	var herr error
	g.compactInGC = false
	g.pt = func(name string, args ...uint64) {
		switch name {
		case "vlog.rewrite.started":
			started = true
			g.inGC = true
			fid = uint32(args[0])
			g.clamp = args[1]
			g.refreshIdx()
			g.emit(fmt.Sprintf("(MaxVersion %d)", g.clamp), fmt.Sprintf("gc: clamp=%d", g.clamp))
			g.emit(fmt.Sprintf("(GcStart %d 0)", fid), fmt.Sprintf("gc-start fid=%d", fid))
			if winA != nil {
				winA()
			}
			snap = g.snapReads()
		case "vlog.rewrite.scanned":
			g.checkSnap(snap, g.snapReads(), "scan")
			scanAt = len(g.ops)
			nwb = int(args[1])
			g.emit("(GcScan [])", "gc-scan")
			if winB != nil {
				winB()
			}
			s1 = g.memPtrs()
			snap = g.snapReads()
		case "vlog.rewrite.written":
			g.refreshIdx()
			var kept []badger.VerifPhysEntry
			for p, e := range g.memPtrs() {
				if _, old := s1[p]; !old {
					kept = append(kept, e)
				}
			}
			sort.Slice(kept, func(i, j int) bool {
				if kept[i].Fid != kept[j].Fid {
					return kept[i].Fid < kept[j].Fid
				}
				return kept[i].Offset < kept[j].Offset
			})
			if len(kept) != nwb {
				herr = fmt.Errorf("gc: %d entries written back according to the hook, %d new pointers in the memtable", nwb, len(kept))
			}
			ks := make([]string, len(kept))
			for i, e := range kept {
				ks[i] = fmt.Sprintf("(%s, %d)", B(e.Key), e.Version)
				g.wroteBack[fmt.Sprintf("%x@%d", e.Key, e.Version)] = g.clamp
			}
			g.ops[scanAt] = "(GcScan " + ListOf(ks) + ")"
			g.desc[scanAt] = fmt.Sprintf("gc-scan kept=%d", len(kept))
			g.emit("GcWriteBack", "gc-write-back")
			g.checkSnap(snap, g.snapReads(), "write-back")
			if winC != nil {
				winC()
			}
			snap = g.snapReads()
		}
	}
	var err error
	if ratio > 0 {
		err = g.db.RunValueLogGC(ratio)
	} else {
		err = g.db.VerifGcRewrite(fid)
	}
	g.pt = nil
	g.inGC = false
	if herr != nil {
		return herr
	}
	if !started {
		if ratio > 0 && errors.Is(err, badger.ErrNoRewrite) {
			g.c.Count("RunValueLogGC: ErrNoRewrite")
			return nil
		}
		if err != nil && strings.Contains(err.Error(), "already marked for deletion") {
			if ratio > 0 {
				// RunValueLogGC picked the file itself: its id is in the error text
				var picked uint32
				if i := strings.LastIndex(err.Error(), "fid: "); i >= 0 {
					fmt.Sscanf(err.Error()[i+5:], "%d", &picked)
				}
				fid = picked
			}
			g.emit(fmt.Sprintf("(GcStart %d 1)", fid), fmt.Sprintf("gc-start fid=%d: already marked for deletion", fid))
			return nil
		}
		return fmt.Errorf("gc: rewrite did not start: %v", err)
	}
	if err != nil {
		return fmt.Errorf("gc: rewrite failed: %v", err)
	}
	st := g.db.VerifGcState()
	deferred := contains32(st.ToBeDeleted, fid)
	if !deferred && contains32(st.Fids, fid) {
		return errors.New("gc: file neither deleted nor marked")
	}
	g.emit(fmt.Sprintf("(GcDelete %s)", Bool(deferred)), fmt.Sprintf("gc-delete fid=%d deferred=%v", fid, deferred))
	g.checkSnap(snap, g.snapReads(), "delete")
	g.emit("GcEnd", "gc-end")
	g.nGC++
	if ratio > 0 {
		g.c.Count("RunValueLogGC: rewrote a file")
	}
	return nil
}

// ---- small composite operations ----
func (g *gcHist) bigVal() []byte {
	n := 32 + g.c.Rng.Intn(16)
	v := make([]byte, n)
	for i := range v {
		v[i] = byte('a' + g.c.Rng.Intn(26))
	}
	return v
}

func (g *gcHist) smallVal() []byte {
	n := g.c.Rng.Intn(6)
	v := make([]byte, n)
	for i := range v {
		v[i] = byte('0' + g.c.Rng.Intn(10))
	}
	return v
}

func (g *gcHist) beginAt(upd bool) int {
	t := g.nextT
	g.nextT++
	at := uint64(0)
	if g.o.Managed {
		at = g.mts
		if !upd && g.c.Rng.Intn(3) == 0 && g.mts > g.mdiscard {
			at = g.mdiscard + uint64(g.c.Rng.Intn(int(g.mts-g.mdiscard)+1))
		}
	}
	g.begin(t, upd, at)
	return t
}

func (g *gcHist) commitT(t int) {
	g.releaseTxn(t)
	at := uint64(0)
	if g.o.Managed {
		// managed mode: now and then the SAME timestamp again (a key@version written twice:
		// the scan's 'newer file' / 'larger offset' / 'value now inline' branches)
		// (not inside a rewrite: a re-write between scan and write-back is finding F27,
		// exercised by its witness only)
		// (and not while another transaction is open: it may read at this timestamp, and
		// committing at or below an open reader's timestamp is outside the managed-mode contract)
		if !(g.sameTs && !g.inGC && len(g.txns) == 1 && g.c.Rng.Intn(4) == 0) {
			g.mts++
		}
		at = g.mts
	}
	// the records of one transaction go to one value-log file, in the (random) order in which
	// commitAndSend ranges over the pendingWrites map: observe it
	active := g.db.VerifGcState().MaxFid
	before, _ := g.db.VerifGcRecords(active)
	g.commit(t, at)
	after, _ := g.db.VerifGcRecords(active)
	var ord []string
	for i := len(before); i < len(after); i++ {
		ord = append(ord, fmt.Sprintf("(%s, %d)", B(after[i].Key), after[i].Version))
	}
	last := g.ops[len(g.ops)-1]
	if strings.HasPrefix(last, "(Commit ") {
		g.ops[len(g.ops)-1] = "(CommitV " + strings.TrimSuffix(strings.TrimPrefix(last, "(Commit "), ")") + " " + ListOf(ord) + ")"
	}
}

func (g *gcHist) discardT(t int) {
	g.releaseTxn(t)
	g.discard(t)
}

// one update transaction: kv pairs, nil value = delete
func (g *gcHist) write(kv ...[]byte) {
	t := g.beginAt(true)
	for i := 0; i+1 < len(kv); i += 2 {
		if kv[i+1] == nil {
			g.modify(t, kv[i], nil, mDelete, 0, 0)
		} else {
			g.modify(t, kv[i], kv[i+1], 0, 0, 0)
		}
	}
	g.commitT(t)
}

func (g *gcHist) randWrite() {
	t := g.beginAt(true)
	n := 1 + g.c.Rng.Intn(3)
	for j := 0; j < n; j++ {
		k := g.keys[g.c.Rng.Intn(len(g.keys))]
		switch r := g.c.Rng.Intn(10); {
		case r < 2:
			g.modify(t, k, nil, mDelete, 0, 0)
		case r < 3:
			g.modify(t, k, g.smallVal(), 0, byte(g.c.Rng.Intn(3)), 0)
		case r < 4:
			exp := uint64(1)
			if g.c.Rng.Intn(2) == 0 {
				exp = 1 << 40
			}
			g.modify(t, k, g.bigVal(), 0, 0, exp)
		case r < 5 && g.c.Rng.Intn(2) == 0: // a value-log value carrying the discard-earlier-versions bit
			g.modify(t, k, g.bigVal(), mDiscard, byte(g.c.Rng.Intn(3)), 0)
		case r < 5: // exactly at / one below the value threshold
			v := g.bigVal()[:31+g.c.Rng.Intn(2)]
			g.modify(t, k, v, 0, byte(g.c.Rng.Intn(3)), 0)
		default:
			g.modify(t, k, g.bigVal(), 0, byte(g.c.Rng.Intn(3)), 0)
		}
	}
	g.commitT(t)
}

func (g *gcHist) randRead() {
	t := g.beginAt(false)
	if g.c.Rng.Intn(3) == 0 {
		// (AllVersions is exercised by the held iterators, whose oracle ignores the values of
		// dead versions)
		g.iterate(t, itOpts{Prefetch: g.c.Rng.Intn(2) == 0, Reverse: g.c.Rng.Intn(4) == 0}, nil)
	} else {
		g.get(t, g.keys[g.c.Rng.Intn(len(g.keys))])
	}
	g.discardT(t)
}

func (g *gcHist) randCompact() error {
	lvl := 0
	if g.c.Rng.Intn(2) == 0 {
		d := g.db.VerifDump()
		var ne []int
		for l := range d {
			if len(d[l]) > 0 {
				ne = append(ne, l)
			}
		}
		if len(ne) > 0 {
			lvl = ne[g.c.Rng.Intn(len(ne))]
		}
	}
	ran, err := g.compact(lvl, false, nil)
	if ran && g.inGC {
		g.compactInGC = true
	}
	if ran && err == nil {
		g.refCheck("compaction")
	}
	return err
}

func (g *gcHist) openTxns() []int {
	var ids []int
	for id := range g.txns {
		ids = append(ids, id)
	}
	sort.Ints(ids)
	return ids
}

func (g *gcHist) sealedFiles() []uint32 {
	st := g.db.VerifGcState()
	var out []uint32
	for _, f := range st.Fids {
		if f < st.MaxFid && !contains32(st.ToBeDeleted, f) {
			out = append(out, f)
		}
	}
	return out
}

func (g *gcHist) sortedIters() []int {
	var ids []int
	for i := range g.iters {
		ids = append(ids, i)
	}
	sort.Ints(ids)
	return ids
}
func (g *gcHist) sortedItems() []int {
	var ids []int
	for i := range g.items {
		ids = append(ids, i)
	}
	sort.Ints(ids)
	return ids
}

// one random operation that may run anywhere, also inside a rewrite
func (g *gcHist) randOp(allowDiscard bool) error {
	if g.stop {
		return nil
	}
	r := g.c.Rng.Intn(100)
	ids := g.openTxns()
	switch {
	case r < 28:
		g.randWrite()
	case r < 36:
		g.randRead()
	case r < 46:
		return g.flush()
	case r < 58:
		return g.randCompact()
	case r < 68: // hold a Get item in a long-lived read transaction
		var t int
		if len(ids) == 0 || (len(ids) < 2 && g.c.Rng.Intn(3) == 0) {
			t = g.beginAt(false)
		} else {
			t = ids[g.c.Rng.Intn(len(ids))]
		}
		g.holdGet(g.nextH, t, g.keys[g.c.Rng.Intn(len(g.keys))])
		g.nextH++
	case r < 74:
		if hs := g.sortedItems(); len(hs) > 0 {
			g.itemValue(hs[g.c.Rng.Intn(len(hs))])
		}
	case r < 82:
		if len(g.iters) < 2 {
			var t int
			if len(ids) == 0 {
				t = g.beginAt(false)
			} else {
				t = ids[g.c.Rng.Intn(len(ids))]
			}
			g.itOpen(g.nextH, t, itOpts{Reverse: g.c.Rng.Intn(4) == 0, All: g.c.Rng.Intn(3) == 0})
			g.nextH++
		}
	case r < 88:
		if is := g.sortedIters(); len(is) > 0 {
			i := is[g.c.Rng.Intn(len(is))]
			if !g.iters[i].ran {
				g.itRun(i)
			} else {
				g.itClose(i)
			}
		}
	case r < 92:
		if is := g.sortedIters(); len(is) > 0 {
			g.itClose(is[g.c.Rng.Intn(len(is))])
		}
	case r < 96:
		if allowDiscard && len(ids) > 0 {
			t := ids[g.c.Rng.Intn(len(ids))]
			for _, h := range g.sortedItems() {
				if g.items[h].t == t && g.c.Rng.Intn(2) == 0 {
					g.itemValue(h)
				}
			}
			g.discardT(t)
		}
	default:
		if g.o.Managed {
			lim := g.mts
			for _, id := range ids {
				if rt := g.txns[id].VerifReadTs(); rt < lim {
					lim = rt
				}
			}
			if lim > g.mdiscard {
				g.mdiscard += uint64(g.c.Rng.Intn(int(lim-g.mdiscard) + 1))
				g.setDiscard(g.mdiscard)
			}
		} else {
			g.pdump()
		}
	}
	return nil
}

func (g *gcHist) window(p int) func() {
	if g.c.Rng.Intn(100) >= p {
		return nil
	}
	n := 1 + g.c.Rng.Intn(3)
	return func() {
		for i := 0; i < n && !g.stop; i++ {
			if err := g.randOp(true); err != nil {
				g.stop = true
			}
		}
	}
}

func (g *gcHist) finish() {
	for _, h := range g.sortedItems() {
		if !g.stop {
			g.itemValue(h)
		}
	}
	for _, i := range g.sortedIters() {
		if !g.stop && !g.iters[i].ran {
			g.itRun(i)
		}
		g.itClose(i)
	}
	for _, t := range g.openTxns() {
		g.discardT(t)
	}
	if !g.stop {
		t := g.beginAt(false)
		for _, k := range g.keys {
			g.get(t, k)
		}
		g.iterate(t, itOpts{}, nil)
		g.discardT(t)
	}
	g.pdump()
	g.dump()
}

func runGcHistory(c *Ctx, i int) (*gcHist, error) {
	o := sysOpts{Managed: i%4 == 3, Detect: false, NKeep: []int{1, 1, 2, 3}[c.Rng.Intn(4)], MaxLevels: 4, VThreshold: 32,
		TableSize: int64(256) << uint(c.Rng.Intn(5)), BaseLevelSize: []int64{200, 600, 2 << 10, 8 << 10}[c.Rng.Intn(4)]}
	deep := i%3 == 1
	if deep {
		// the last level outgrows BaseLevelSize early, so compactions (also those that run inside a
		// rewrite) go into a level ABOVE the last one
		o.BaseLevelSize, o.TableSize = 200, 256
	}
	g, err := newGcHist(c, o, 1+c.Rng.Intn(3))
	if err != nil {
		return nil, err
	}
	defer g.closeAll()
	g.keys = keySetA[:3+c.Rng.Intn(4)]
	g.sameTs = o.Managed && i%8 == 7
	nOps := 25 + c.Rng.Intn(35)
	if deep {
		g.keys = keySetA[:6+c.Rng.Intn(4)]
		nOps = 50 + c.Rng.Intn(40)
	}
	for step := 0; step < nOps && !g.stop; step++ {
		if c.Rng.Intn(100) < 14 {
			if fs := g.sealedFiles(); len(fs) > 0 {
				var err error
				if c.Rng.Intn(4) == 0 {
					err = g.gcRun(0, []float64{0.01, 0.3, 0.7}[c.Rng.Intn(3)], g.window(25), g.window(50), g.window(30))
				} else {
					err = g.gcRun(fs[c.Rng.Intn(len(fs))], 0, g.window(25), g.window(50), g.window(30))
				}
				if err != nil {
					return g, err
				}
				if c.Rng.Intn(3) == 0 {
					g.pdump()
				}
				continue
			}
		}
		if err := g.randOp(true); err != nil {
			return g, err
		}
	}
	g.finish()
	return g, nil
}

func gcInput(g *gcHist) J {
	d := g.desc
	if len(d) > 30 {
		d = d[:30]
	}
	return J{"n_labels": len(g.desc), "first_labels": d, "digest": digest(g.desc)}
}

func init() {
	register("C15", func(c *Ctx) error {
		c.Setup("Keys Spec Lsm Compact Iter Sys Gc CorrC15", "run_case")
		if err := runGcScenarios(c); err != nil {
			return err
		}
		for i := 0; c.nCases < c.N; i++ {
			g, err := runGcHistory(c, i)
			if err != nil {
				if g != nil {
					c.Oracle(false, "harness-error:gc", err.Error(), J{"history": g.desc})
				}
				return err
			}
			c.Case("gc-history", g.term(), gcInput(g))
			c.Count(fmt.Sprintf("rewrites=%d", min(g.nGC, 4)))
			c.Count(fmt.Sprintf("compactions=%d", min(g.nCompact, 5)))
		}
		return nil
	})
}
