package main

// C11, part 2: re-open after a CRASH, with memtable WALs whose entries are not in ascending
// version order.  (Part 1, reopen.go: clean close / re-open cycles and DropAll.)
//
// A history writes through a live DB (normal or managed mode), "crashes" it and re-opens the
// crashed directory, one to three times:
//   * writers whose WAL order is not the version order: managed-mode Txn.CommitAt with caller
//     chosen (non-monotone) timestamps, managed WriteBatch.SetEntryAt with a version per entry,
//     DB.Load of a backup (ordered by key, not by version; hand-built KVLists and real DB.Backup
//     output of an in-memory source DB), value-log GC rewrites (old versions appended again),
//     DB.BanNamespace (writes at version 1), next to ordinary normal-mode commits;
//   * explicit memtable flushes, so that the crashed directory holds tables AND WALs;
//   * the crash: the directory of the still-open DB is copied (all files but LOCK) while no
//     write, flush or compaction is running.  Memtable WALs and value logs are MAP_SHARED
//     mappings and the tables / MANIFEST are written with write(2): both go through the page
//     cache, so the copy holds exactly what a process kill (no Close, OS stays up) leaves.
//     Power loss (un-synced pages lost) is the subject of C08-C10, not of this check;
//   * Open of the copy replays the WALs into immutable memtables, hands them to the flusher and
//     computes nextTxnTs = MaxVersion().  The flusher runs concurrently with that; the hook
//     persist.flush.begin holds it back until the observations are done in 3 of 4 re-opens
//     (both schedules are explored), and one re-open in three of those crashes AGAIN while
//     the recovered memtable is still un-flushed (two WALs in the crashed directory).
//
// Correspondence cases (coq/corr/CorrC11Wal.v):
//   WalReplay  one .mem file: the entries in the order logFile.iterate delivered them to
//              memTable.replayFunction (VerifReplayMemWAL runs both on the file image), the
//              resulting memTable.maxVersion and skiplist
//   CrashOpen  all WALs (file-id order) + the tables of the crashed directory; Open's
//              nextTxnTs and the all-versions scan of the re-opened DB
//
// Property oracles (signatures):
//   c11-wal-replay-max-version-below-replayed-entry   memTable.maxVersion after the replay of a
//                                     WAL is below the version of an entry it replayed
//   c11-wal-replay-max-version-not-a-replayed-version  ... is neither 0 (empty WAL) nor the
//                                     version of a replayed entry
//   c11-open-next-ts-not-above-recovered-version      after Open of a crashed directory
//                                     nextTxnTs <= the version of a recovered entry
//   c11-open-next-ts-differs-from-max-version-plus-one nextTxnTs != largest recovered version + 1
//   c11-max-version-differs-from-largest-recovered-version  DB.MaxVersion() after Open
//   c11-crash-recovery-content-differs-from-acknowledged-writes  the all-versions scan after
//                                     recovery is not exactly what was written and acknowledged
//   c11-read-after-reopen-misses-newest-version       a Get by a new transaction does not return
//                                     the newest stored version of a key
//   c11-commit-ts-not-above-stored-version            normal mode: a commit after the re-open
//                                     got a timestamp not above every stored version
//   c11-new-commit-not-visible-after-reopen           ... and a Get does not return its write
//   c11-reopen-after-crash-error                      Open of the crashed directory failed

import (
	"bytes"
	"encoding/binary"
	"errors"
	"fmt"
	"math"
	"os"
	"path/filepath"
	"sort"
	"strconv"
	"strings"
	"sync"
	"time"

	badger "github.com/dgraph-io/badger/v4"
	"github.com/dgraph-io/badger/v4/options"
	"github.com/dgraph-io/badger/v4/pb"
	"google.golang.org/protobuf/proto"
)

// ---- the flusher gate (hook persist.flush.begin: no lock is held there) ----
var walGate struct {
	mu     sync.Mutex
	ch     chan struct{}
	bypass bool // a helper DB (the backup source) is running: its flushes pass
}

func walBypass(on bool) {
	walGate.mu.Lock()
	walGate.bypass = on
	walGate.mu.Unlock()
}

func walHoldFlush() {
	walGate.mu.Lock()
	walGate.ch = make(chan struct{})
	walGate.mu.Unlock()
}

func walReleaseFlush() {
	walGate.mu.Lock()
	if walGate.ch != nil {
		close(walGate.ch)
		walGate.ch = nil
	}
	walGate.mu.Unlock()
}

func walController() *badger.VerifController {
	return &badger.VerifController{Point: func(name string, args ...uint64) {
		if name != "persist.flush.begin" {
			return
		}
		walGate.mu.Lock()
		ch := walGate.ch
		if walGate.bypass {
			ch = nil
		}
		walGate.mu.Unlock()
		if ch != nil {
			<-ch
		}
	}}
}

type wref struct {
	Key   []byte
	Ver   uint64
	Meta  byte // mDelete or 0
	UMeta byte
	Val   []byte
}

type walHist struct {
	c       *Ctx
	base    string
	gen     int
	dir     string
	db      *badger.DB
	managed bool
	held    bool // the flusher of w.db is held at persist.flush.begin
	nsOff   int
	vthr    int64
	vlogMax uint32
	keys    [][]byte
	ref     map[string]map[uint64]wref // acknowledged writes: key -> version -> the last write
	usedTs  map[uint64]bool            // managed commit timestamps used so far
	maxTs   uint64                     // managed: largest timestamp handed out
	desc    []string
	causes  map[string]bool
	nCrash  int
}

var walTime = map[string]time.Duration{}

func walTimed(name string) func() {
	t0 := time.Now()
	return func() { walTime[name] += time.Since(t0) }
}

// waitFlushed: the flusher runs on its own; every later step (above all the next crash copy)
// starts from a state without a flush in progress, so that a history is reproducible
func (w *walHist) waitFlushed() error {
	deadline := time.Now().Add(60 * time.Second)
	for {
		if _, imm := w.db.VerifMemEntries(); len(imm) == 0 {
			return nil
		}
		if time.Now().After(deadline) {
			return errors.New("the recovered memtables were not flushed within 60 s")
		}
		time.Sleep(200 * time.Microsecond)
	}
}

func (w *walHist) log(f string, a ...interface{}) { w.desc = append(w.desc, fmt.Sprintf(f, a...)) }

func (w *walHist) open(dir string, managed bool) (*badger.DB, error) {
	defer walTimed("open")()
	opt := badger.DefaultOptions(dir).WithLogger(nil).WithNumCompactors(0).WithNumLevelZeroTables(1000).
		WithNumLevelZeroTablesStall(2000).WithMemTableSize(1 << 20).WithValueLogFileSize(1 << 20).WithNumMemtables(8).
		WithBlockSize(64).WithMetricsEnabled(false).WithCompactL0OnClose(false).WithValueThreshold(w.vthr).
		WithDetectConflicts(false).WithNamespaceOffset(w.nsOff).WithValueLogMaxEntries(w.vlogMax).
		WithCompression(options.None).WithBlockCacheSize(0).WithIndexCacheSize(0).WithNumVersionsToKeep(math.MaxInt32)
	if managed {
		return badger.OpenManaged(opt)
	}
	return badger.Open(opt)
}

func (w *walHist) put(k []byte, ver uint64, meta, umeta byte, val []byte) {
	m := w.ref[string(k)]
	if m == nil {
		m = map[uint64]wref{}
		w.ref[string(k)] = m
	}
	if meta&mDelete != 0 {
		val = nil
	}
	m[ver] = wref{Key: append([]byte{}, k...), Ver: ver, Meta: meta & mDelete, UMeta: umeta, Val: append([]byte{}, val...)}
}

func (w *walHist) key() []byte { return w.keys[w.c.Rng.Intn(len(w.keys))] }

func (w *walHist) val() []byte {
	n := w.c.Rng.Intn(8)
	if w.c.Rng.Intn(3) == 0 {
		n = int(w.vthr) + 4 + w.c.Rng.Intn(24) // value log
	}
	v := make([]byte, n)
	for i := range v {
		v[i] = byte('a' + w.c.Rng.Intn(26))
	}
	return v
}

type wwrite struct {
	k, v  []byte
	del   bool
	umeta byte
}

func (w *walHist) writes(max int) []wwrite {
	n := 1 + w.c.Rng.Intn(max)
	var out []wwrite
	seen := map[string]bool{}
	for i := 0; i < n; i++ {
		k := w.key()
		if seen[string(k)] {
			continue
		}
		seen[string(k)] = true
		out = append(out, wwrite{k: k, v: w.val(), del: w.c.Rng.Intn(6) == 0, umeta: byte(w.c.Rng.Intn(3))})
	}
	return out
}

func applyWrites(txn *badger.Txn, ws []wwrite) error {
	for _, x := range ws {
		var err error
		if x.del {
			err = txn.Delete(x.k)
		} else {
			err = txn.SetEntry(badger.NewEntry(x.k, x.v).WithMeta(x.umeta))
		}
		if err != nil {
			return err
		}
	}
	return nil
}

func (w *walHist) record(ws []wwrite, ts uint64) string {
	var s []string
	for _, x := range ws {
		meta, um := byte(0), x.umeta
		if x.del {
			meta, um = mDelete, 0
		}
		w.put(x.k, ts, meta, um, x.v)
		if x.del {
			s = append(s, fmt.Sprintf("del %x", x.k))
		} else {
			s = append(s, fmt.Sprintf("set %x=%x", x.k, x.v))
		}
	}
	return strings.Join(s, ", ")
}

// normal mode: one read-write transaction
func (w *walHist) opUpdate() (uint64, []wwrite, error) {
	ws := w.writes(3)
	txn := w.db.NewTransaction(true)
	defer txn.Discard()
	if err := applyWrites(txn, ws); err != nil {
		return 0, nil, err
	}
	if err := txn.Commit(); err != nil {
		return 0, nil, err
	}
	ts := badger.VerifNextTxnTs(w.db) - 1
	w.log("update @%d: %s", ts, w.record(ws, ts))
	return ts, ws, nil
}

// a commit timestamp of the caller's choice: anywhere in 1..maxTs+6, not used before
func (w *walHist) freshTs() uint64 {
	for {
		ts := 1 + uint64(w.c.Rng.Intn(int(w.maxTs)+6))
		if !w.usedTs[ts] {
			w.usedTs[ts] = true
			if ts > w.maxTs {
				w.maxTs = ts
			}
			return ts
		}
	}
}

// managed mode: Txn.CommitAt
func (w *walHist) opCommitAt() error {
	ws := w.writes(3)
	ts := w.freshTs()
	txn := w.db.NewTransactionAt(math.MaxUint64, true)
	defer txn.Discard()
	if err := applyWrites(txn, ws); err != nil {
		return err
	}
	if err := txn.CommitAt(ts, nil); err != nil {
		return err
	}
	w.causes["managed-commit-at"] = true
	w.log("commitAt %d: %s", ts, w.record(ws, ts))
	return nil
}

// managed mode: one WriteBatch whose entries carry their own versions
func (w *walHist) opBatchAt() error {
	wb := w.db.NewManagedWriteBatch()
	defer wb.Cancel()
	n := 2 + w.c.Rng.Intn(4)
	var s []string
	type kv struct {
		k   string
		ver uint64
	}
	seen := map[kv]bool{}
	var recs []func()
	for i := 0; i < n; i++ {
		k, v, ts := w.key(), w.val(), 1+uint64(w.c.Rng.Intn(int(w.maxTs)+6))
		if seen[kv{string(k), ts}] {
			continue
		}
		seen[kv{string(k), ts}] = true
		if ts > w.maxTs {
			w.maxTs = ts
		}
		um := byte(w.c.Rng.Intn(3))
		if w.c.Rng.Intn(6) == 0 {
			if err := wb.DeleteAt(k, ts); err != nil {
				return err
			}
			recs = append(recs, func() { w.put(k, ts, mDelete, 0, nil) })
			s = append(s, fmt.Sprintf("del %x@%d", k, ts))
		} else {
			if err := wb.SetEntryAt(badger.NewEntry(k, v).WithMeta(um), ts); err != nil {
				return err
			}
			recs = append(recs, func() { w.put(k, ts, 0, um, v) })
			s = append(s, fmt.Sprintf("set %x@%d=%x", k, ts, v))
		}
	}
	if err := wb.Flush(); err != nil {
		return err
	}
	for _, f := range recs {
		f()
	}
	w.causes["managed-batch-at"] = true
	w.log("writeBatch: %s", strings.Join(s, ", "))
	return nil
}

// DB.Load of a backup: ordered by key (versions of a key newest first), not by version
func (w *walHist) opLoad() error {
	type ent struct {
		k        []byte
		ver      uint64
		v        []byte
		del      bool
		um       byte
		internal bool
	}
	n := 2 + w.c.Rng.Intn(6)
	hi := w.maxTs
	if !w.managed {
		hi = badger.VerifNextTxnTs(w.db)
	}
	var es []ent
	seen := map[string]bool{}
	for i := 0; i < n; i++ {
		k := w.key()
		if w.c.Rng.Intn(4) == 0 {
			k = append(append([]byte{}, k...), 'L') // a key only backups write
		}
		ver := 1 + uint64(w.c.Rng.Intn(int(hi)+8))
		id := fmt.Sprintf("%x@%d", k, ver)
		if seen[id] {
			continue
		}
		seen[id] = true
		es = append(es, ent{k: k, ver: ver, v: w.val(), del: w.c.Rng.Intn(7) == 0, um: byte(w.c.Rng.Intn(3))})
	}
	var buf bytes.Buffer
	kind := "hand-built"
	if w.c.Rng.Intn(3) == 0 {
		// the real thing: DB.Backup of an in-memory managed DB holding these entries
		kind = "DB.Backup"
		sopt := badger.DefaultOptions("").WithInMemory(true).WithLoggingLevel(badger.ERROR).WithMemTableSize(1 << 20).
			WithNumCompactors(0).WithMetricsEnabled(false).WithBlockCacheSize(0).WithIndexCacheSize(0).
			WithCompression(options.None).WithNumVersionsToKeep(math.MaxInt32).WithDetectConflicts(false).WithValueThreshold(1024)
		walBypass(true)
		defer walBypass(false)
		src, err := badger.OpenManaged(sopt)
		if err != nil {
			return err
		}
		for _, e := range es {
			txn := src.NewTransactionAt(math.MaxUint64, true)
			if e.del {
				err = txn.Delete(e.k)
			} else {
				err = txn.SetEntry(badger.NewEntry(e.k, e.v).WithMeta(e.um))
			}
			if err == nil {
				err = txn.CommitAt(e.ver, nil)
			}
			txn.Discard()
			if err != nil {
				src.Close()
				return err
			}
		}
		st := src.NewStreamAt(math.MaxUint64) // DB.Backup is this with NewStream
		st.NumGo = 1                          // key ranges one after the other: a reproducible list order
		_, err = st.Backup(&buf, 0)
		src.Close()
		if err != nil {
			return err
		}
	} else {
		sort.Slice(es, func(i, j int) bool {
			if c := bytes.Compare(es[i].k, es[j].k); c != 0 {
				return c < 0
			}
			return es[i].ver > es[j].ver
		})
		nl := 1 + w.c.Rng.Intn(2)
		for l := 0; l < nl; l++ {
			list := &pb.KVList{}
			for i, e := range es {
				if i*nl/len(es) != l {
					continue
				}
				kv := &pb.KV{Key: e.k, Value: e.v, Version: e.ver, Meta: []byte{0}, UserMeta: []byte{e.um}}
				if e.del {
					kv.Value, kv.Meta, kv.UserMeta = nil, []byte{mDelete}, []byte{0}
				}
				list.Kv = append(list.Kv, kv)
			}
			b, err := proto.Marshal(list)
			if err != nil {
				return err
			}
			binary.Write(&buf, binary.LittleEndian, uint64(len(b)))
			buf.Write(b)
		}
	}
	// what the backup holds (decoded independently of how it was made)
	var s []string
	type rec struct {
		k       []byte
		ver     uint64
		meta, u byte
		v       []byte
	}
	var recs []rec
	for rd := bytes.NewReader(buf.Bytes()); rd.Len() > 0; {
		var sz uint64
		if err := binary.Read(rd, binary.LittleEndian, &sz); err != nil {
			return err
		}
		b := make([]byte, sz)
		if _, err := rd.Read(b); err != nil {
			return err
		}
		list := &pb.KVList{}
		if err := proto.Unmarshal(b, list); err != nil {
			return err
		}
		for _, kv := range list.Kv {
			var meta, um byte
			if len(kv.Meta) > 0 {
				meta = kv.Meta[0]
			}
			if len(kv.UserMeta) > 0 {
				um = kv.UserMeta[0]
			}
			recs = append(recs, rec{kv.Key, kv.Version, meta, um, kv.Value})
			s = append(s, fmt.Sprintf("%x@%d", kv.Key, kv.Version))
		}
	}
	if err := w.db.Load(bytes.NewReader(buf.Bytes()), 16); err != nil {
		return err
	}
	for _, r := range recs {
		w.put(r.k, r.ver, r.meta, r.u, r.v)
		if r.ver > w.maxTs {
			w.maxTs = r.ver
		}
	}
	w.causes["load"] = true
	w.log("load (%s backup): %s", kind, strings.Join(s, " "))
	return nil
}

var bannedNsPrefix = []byte("!badger!banned")

func (w *walHist) opBan() error {
	ns := uint64(0x7000000000000000) + uint64(w.c.Rng.Intn(4)) // no key of the history lives there
	if err := w.db.BanNamespace(ns); err != nil {
		return err
	}
	var b [8]byte
	binary.BigEndian.PutUint64(b[:], ns)
	w.put(append(append([]byte{}, bannedNsPrefix...), b[:]...), 1, 0, 0, nil)
	w.causes["ban-namespace"] = true
	w.log("banNamespace %x", ns)
	return nil
}

func vlogFids(dir string) []uint32 {
	var out []uint32
	ents, _ := os.ReadDir(dir)
	for _, e := range ents {
		if strings.HasSuffix(e.Name(), ".vlog") {
			if id, err := strconv.ParseUint(strings.TrimSuffix(e.Name(), ".vlog"), 10, 32); err == nil {
				out = append(out, uint32(id))
			}
		}
	}
	sort.Slice(out, func(i, j int) bool { return out[i] < out[j] })
	return out
}

// value-log GC: rewrite one sealed file (the entries still live are written again, with their
// old versions, after whatever the WAL already holds)
func (w *walHist) opGC() error {
	fids := vlogFids(w.dir)
	if len(fids) < 2 {
		return nil
	}
	fid := fids[w.c.Rng.Intn(len(fids)-1)]
	err := w.db.VerifGcRewrite(fid)
	if err != nil {
		w.log("gc rewrite of value log %d -> %v", fid, err)
		return nil
	}
	w.causes["vlog-gc-rewrite"] = true
	w.log("gc rewrite of value log %d", fid)
	return nil
}

func (w *walHist) opFlush() error {
	if err := w.db.VerifFlushMemtable(); err != nil {
		return err
	}
	w.log("flush memtable")
	return nil
}

// one session's writes
func (w *walHist) session(nOps int) error {
	defer walTimed("session")()
	for i := 0; i < nOps; i++ {
		r := w.c.Rng.Intn(20)
		var err error
		switch {
		case r < 9:
			if w.managed {
				err = w.opCommitAt()
			} else {
				_, _, err = w.opUpdate()
			}
		case r < 12:
			if w.managed {
				err = w.opBatchAt()
			} else {
				_, _, err = w.opUpdate()
			}
		case r < 15:
			err = w.opLoad()
		case r < 16:
			if w.nsOff >= 0 {
				err = w.opBan()
			}
		case r < 18:
			if !w.held {
				err = w.opGC()
			}
		default:
			if !w.held {
				err = w.opFlush()
			}
		}
		if err != nil {
			return err
		}
	}
	return nil
}

// ---- observation of a DB ----
func (w *walHist) readTxn(db *badger.DB, managed bool, ts uint64) *badger.Txn {
	if managed {
		return db.NewTransactionAt(ts, false)
	}
	return db.VerifReadTxnAt(ts)
}

// every stored version of every key (internal keys too), in iteration order
func (w *walHist) scan(db *badger.DB, managed bool) ([]obsItem, error) {
	tx := w.readTxn(db, managed, math.MaxUint64)
	defer tx.Discard()
	it := tx.NewIterator(badger.IteratorOptions{AllVersions: true, InternalAccess: true, PrefetchValues: false})
	defer it.Close()
	var out []obsItem
	for it.Rewind(); it.Valid(); it.Next() {
		oi, err := readItem(it.Item())
		if err != nil {
			return out, err
		}
		if oi.Meta&mDelete != 0 {
			oi.Val = nil
		}
		out = append(out, oi)
	}
	return out, nil
}

func (w *walHist) expected() []obsItem {
	var out []obsItem
	for _, m := range w.ref {
		for _, r := range m {
			out = append(out, obsItem{Key: r.Key, Ver: r.Ver, Meta: r.Meta, UMeta: r.UMeta, Val: r.Val})
		}
	}
	sort.Slice(out, func(i, j int) bool {
		if c := bytes.Compare(out[i].Key, out[j].Key); c != 0 {
			return c < 0
		}
		return out[i].Ver > out[j].Ver
	})
	return out
}

func obsLines(l []obsItem) []string {
	out := make([]string, len(l))
	for i, o := range l {
		out[i] = itemLine(o)
	}
	return out
}

func vEntList(es []badger.VerifEntry) string {
	s := make([]string, len(es))
	for i, e := range es {
		s[i] = vEntTerm(e)
	}
	return ListOf(s)
}

func verList(es []badger.VerifEntry) []uint64 {
	out := make([]uint64, len(es))
	for i, e := range es {
		out[i] = e.Version
	}
	return out
}

func nonMonotone(vs []uint64) bool {
	for i := 1; i < len(vs); i++ {
		if vs[i] < vs[i-1] {
			return true
		}
	}
	return false
}

func memFids(dir string) []int {
	var out []int
	ents, _ := os.ReadDir(dir)
	for _, e := range ents {
		if strings.HasSuffix(e.Name(), ".mem") {
			if id, err := strconv.Atoi(strings.TrimSuffix(e.Name(), ".mem")); err == nil {
				out = append(out, id)
			}
		}
	}
	sort.Ints(out)
	return out
}

// crash + recovery: copy the live directory, replay its WALs with the production replay
// function, re-open the copy, check the oracles, emit the cases.
func (w *walHist) crashAndReopen(toManaged bool) error {
	c := w.c
	w.nCrash++
	newDir := filepath.Join(w.base, fmt.Sprintf("g%d", w.gen+1))
	t0 := time.Now()
	if err := copyDir(w.dir, newDir); err != nil {
		return err
	}
	walTime["copy"] += time.Since(t0)
	levels := w.db.VerifDump()
	w.log("CRASH (directory copied while the DB is open; flusher held: %v)", w.held)
	rp := func(extra J) J {
		j := J{"history": append([]string{}, w.desc...), "crash": w.nCrash}
		for k, v := range extra {
			j[k] = v
		}
		return j
	}
	// the WALs of the crashed directory, replayed by the production code
	var wals []badger.VerifWalReplay
	var walTerms []string
	recMax := uint64(0) // largest version in the crashed directory: WALs and tables
	t0 = time.Now()
	for _, fid := range memFids(newDir) {
		data, err := os.ReadFile(filepath.Join(newDir, fmt.Sprintf("%05d.mem", fid)))
		if err != nil {
			return err
		}
		res, err := w.db.VerifReplayMemWAL(data, uint32(fid))
		if err != nil {
			return fmt.Errorf("replay of %05d.mem: %w", fid, err)
		}
		vs := verList(res.Order)
		var mx uint64
		found := len(vs) == 0 && res.MaxVersion == 0
		for _, v := range vs {
			if v > mx {
				mx = v
			}
			if v == res.MaxVersion {
				found = true
			}
		}
		if mx > recMax {
			recMax = mx
		}
		nm := nonMonotone(vs)
		c.Count(fmt.Sprintf("wal nonmonotone=%v", nm))
		if nm && len(vs) > 0 && vs[len(vs)-1] != mx {
			c.Count("wal last-entry-is-not-the-newest")
		}
		w.log("replay %05d.mem: versions in WAL order %v -> maxVersion %d", fid, vs, res.MaxVersion)
		c.Oracle(res.MaxVersion >= mx, "c11-wal-replay-max-version-below-replayed-entry",
			fmt.Sprintf("memTable.maxVersion after replaying %05d.mem is %d, below the replayed version %d (WAL order %v)", fid, res.MaxVersion, mx, vs),
			rp(J{"wal": vs, "maxVersion": res.MaxVersion}))
		c.Oracle(found, "c11-wal-replay-max-version-not-a-replayed-version",
			fmt.Sprintf("memTable.maxVersion after replaying %05d.mem is %d, which no replayed entry carries (WAL order %v)", fid, res.MaxVersion, vs),
			rp(J{"wal": vs, "maxVersion": res.MaxVersion}))
		wals = append(wals, res)
		walTerms = append(walTerms, vEntList(res.Order))
		c.Case("wal-replay", fmt.Sprintf("(WalReplay %s %d %s)", vEntList(res.Order), res.MaxVersion, vEntList(res.Skiplist)),
			J{"wal": obsOfV(res.Order), "max": res.MaxVersion})
	}
	walTime["replay"] += time.Since(t0)
	c.Count(fmt.Sprintf("crash wals=%d", len(wals)))
	nt := 0
	lv := make([]string, len(levels))
	for i, l := range levels {
		ts := make([]string, len(l))
		for j, t := range l {
			nt++
			ts[j] = fmt.Sprintf("(%d, %s)", t.ID, vEntList(t.Entries))
			for _, e := range t.Entries {
				if e.Version > recMax {
					recMax = e.Version
				}
			}
		}
		lv[i] = ListOf(ts)
	}
	c.Count(fmt.Sprintf("crash tables=%d", min(nt, 3)))
	// the old process is gone
	if w.held {
		walReleaseFlush()
		w.held = false
	}
	t0 = time.Now()
	w.db.Close()
	walTime["close"] += time.Since(t0)
	w.db = nil
	os.RemoveAll(w.dir)
	w.dir, w.gen = newDir, w.gen+1

	// recovery
	hold := c.Rng.Intn(4) != 0
	if hold {
		walHoldFlush()
	}
	db, err := w.open(newDir, toManaged)
	c.Oracle(err == nil, "c11-reopen-after-crash-error", fmt.Sprintf("Open of the crashed directory failed: %v", err), rp(nil))
	if err != nil {
		walReleaseFlush()
		return err
	}
	w.db, w.managed, w.held = db, toManaged, hold
	next := badger.VerifNextTxnTs(db)
	mv := db.MaxVersion()
	w.log("OPEN managed=%v flusher-held=%v -> nextTxnTs=%d MaxVersion()=%d", toManaged, hold, next, mv)
	c.Count(fmt.Sprintf("reopen managed=%v held=%v", toManaged, hold))
	got, err := w.scan(db, toManaged)
	if err != nil {
		return fmt.Errorf("scan after re-open: %w", err)
	}
	var scanMax uint64
	var worst obsItem
	for _, o := range got {
		if o.Ver > scanMax {
			scanMax, worst = o.Ver, o
		}
	}
	if recMax > scanMax {
		scanMax = recMax
	}
	c.Oracle(next > scanMax, "c11-open-next-ts-not-above-recovered-version",
		fmt.Sprintf("after re-opening the crashed directory nextTxnTs is %d but %x@%d is stored", next, worst.Key, scanMax), rp(J{"next": next, "stored_max": scanMax}))
	c.Oracle(next == scanMax+1, "c11-open-next-ts-differs-from-max-version-plus-one",
		fmt.Sprintf("after re-opening the crashed directory nextTxnTs is %d, the largest recovered version is %d", next, scanMax), rp(J{"next": next, "stored_max": scanMax}))
	c.Oracle(mv == scanMax, "c11-max-version-differs-from-largest-recovered-version",
		fmt.Sprintf("DB.MaxVersion() is %d after re-opening the crashed directory, the largest recovered version is %d", mv, scanMax), rp(J{"max_version": mv, "stored_max": scanMax}))
	same, d := sameLines(obsLines(w.expected()), obsLines(got))
	c.Oracle(same, "c11-crash-recovery-content-differs-from-acknowledged-writes",
		"the versions stored after recovery differ from the acknowledged writes (before = written, after = recovered): "+d, rp(nil))
	// a new transaction reads the newest stored version of every key
	var rtx *badger.Txn
	if toManaged {
		rtx = db.NewTransactionAt(next-1, false)
	} else {
		rtx = db.NewTransaction(false)
	}
	ks := make([]string, 0, len(w.ref))
	for k := range w.ref {
		ks = append(ks, k)
	}
	sort.Strings(ks)
	for _, k := range ks {
		if bytes.HasPrefix([]byte(k), []byte("!badger!")) {
			continue
		}
		var newest wref
		for _, r := range w.ref[k] {
			if r.Ver >= newest.Ver {
				newest = r
			}
		}
		item, err := rtx.Get([]byte(k))
		ok, what := false, ""
		switch {
		case newest.Meta&mDelete != 0:
			ok = errors.Is(err, badger.ErrKeyNotFound)
			if !ok && err == nil {
				what = fmt.Sprintf("found version %d", item.Version())
			}
		case err == nil:
			v, verr := item.ValueCopy(nil)
			ok = verr == nil && item.Version() == newest.Ver && bytes.Equal(v, newest.Val)
			what = fmt.Sprintf("found version %d value %x (%v)", item.Version(), v, verr)
		}
		if err != nil && !ok {
			what = err.Error()
		}
		c.Oracle(ok, "c11-read-after-reopen-misses-newest-version",
			fmt.Sprintf("a transaction begun after the re-open (read ts %d) reads key %x: %s; the newest stored version is %d (meta %d, value %x)",
				rtx.VerifReadTs(), k, what, newest.Ver, newest.Meta, newest.Val), rp(J{"key": fmt.Sprintf("%x", k)}))
	}
	rtx.Discard()
	scanT := make([]string, len(got))
	for i, o := range got {
		scanT[i] = entTerm(o.Key, o.Ver, o.Meta, o.UMeta, o.Exp, o.Val)
	}
	c.Case("crash-open", fmt.Sprintf("(CrashOpen %s %s %d %s)", ListOf(walTerms), ListOf(lv), next, ListOf(scanT)),
		J{"history": w.desc, "crash": w.nCrash})
	if !hold {
		if err := w.waitFlushed(); err != nil {
			return err
		}
	}
	if toManaged {
		w.usedTs = map[uint64]bool{}
		for _, m := range w.ref {
			for v := range m {
				w.usedTs[v] = true
				if v > w.maxTs {
					w.maxTs = v
				}
			}
		}
		return nil
	}
	// normal mode: new commits get timestamps above everything stored, and are what reads see
	stored := scanMax
	for i, n := 0, 1+c.Rng.Intn(3); i < n; i++ {
		ts, ws, err := w.opUpdate()
		if err != nil {
			return err
		}
		what := "commit timestamp not above every stored version"
		if i == 0 {
			what = "first commit after the re-open of a crashed directory: " + what
			c.Count("c11-first-commit-after-crash-reopen")
		}
		c.Oracle(ts > stored, "c11-commit-ts-not-above-stored-version", fmt.Sprintf("%s (ts %d, stored max %d)", what, ts, stored), rp(nil))
		tx := db.NewTransaction(false)
		for _, x := range ws {
			item, err := tx.Get(x.k)
			ok, seen := false, ""
			if x.del {
				ok = errors.Is(err, badger.ErrKeyNotFound)
			} else if err == nil {
				v, verr := item.ValueCopy(nil)
				ok = verr == nil && bytes.Equal(v, x.v) && item.Version() == ts
				seen = fmt.Sprintf("version %d value %x", item.Version(), v)
			}
			if !ok && seen == "" {
				seen = fmt.Sprint(err)
				if err == nil {
					seen = fmt.Sprintf("version %d", item.Version())
				}
			}
			c.Oracle(ok, "c11-new-commit-not-visible-after-reopen",
				fmt.Sprintf("key %x was written (delete=%v value %x) by the commit at ts %d after the re-open, a later transaction reads: %s", x.k, x.del, x.v, ts, seen), rp(nil))
		}
		tx.Discard()
		if ts > stored {
			stored = ts
		}
	}
	return nil
}

func obsOfV(es []badger.VerifEntry) []string {
	out := make([]string, len(es))
	for i, e := range es {
		out[i] = fmt.Sprintf("%x@%d m=%d u=%d v=%x", e.Key, e.Version, e.Meta&mMask, e.UserMeta, e.Value)
	}
	return out
}

var walSeq int

func runWalHistory(c *Ctx, idx int) (w *walHist, err error) {
	walSeq++
	base := filepath.Join(os.Getenv("VERIF_SCRATCH_DIR"), fmt.Sprintf("w%d", walSeq))
	if os.Getenv("VERIF_SCRATCH_DIR") == "" {
		base = filepath.Join(os.TempDir(), fmt.Sprintf("verif_w%d_%d", os.Getpid(), walSeq))
	}
	os.RemoveAll(base)
	w = &walHist{c: c, base: base, dir: filepath.Join(base, "g0"), managed: idx%2 == 1, nsOff: -1, vthr: 32, vlogMax: 3 + uint32(c.Rng.Intn(3)),
		keys: keySetA[:2+c.Rng.Intn(5)], ref: map[string]map[uint64]wref{}, usedTs: map[uint64]bool{}, causes: map[string]bool{}}
	if c.Rng.Intn(3) == 0 {
		w.nsOff = 0
	}
	if err := os.MkdirAll(w.dir, 0o755); err != nil {
		return w, err
	}
	defer func() {
		walReleaseFlush()
		w.held = false
		if w.db != nil {
			t0 := time.Now()
			w.db.Close()
			walTime["close"] += time.Since(t0)
			w.db = nil
		}
		os.RemoveAll(base)
	}()
	w.log("open fresh directory managed=%v namespaceOffset=%d valueThreshold=%d valueLogMaxEntries=%d", w.managed, w.nsOff, w.vthr, w.vlogMax)
	if w.db, err = w.open(w.dir, w.managed); err != nil {
		return w, err
	}
	cycles := 1 + c.Rng.Intn(2)
	if idx%5 == 4 {
		cycles = 3
	}
	for cy := 0; cy < cycles; cy++ {
		n := 4 + c.Rng.Intn(10)
		if w.held {
			// crash again while the recovered memtable is still un-flushed (held): a few writes only
			if c.Rng.Intn(3) != 0 {
				walReleaseFlush()
				w.held = false
				if err = w.waitFlushed(); err != nil {
					return w, err
				}
			} else {
				n = c.Rng.Intn(4)
				c.Count("second crash before the recovered memtable is flushed")
			}
		}
		if err = w.session(n); err != nil {
			return w, err
		}
		to := w.managed
		switch {
		case w.managed && c.Rng.Intn(2) == 0:
			to = false
		case !w.managed && c.Rng.Intn(5) == 0:
			to = true
		}
		if err = w.crashAndReopen(to); err != nil {
			return w, err
		}
	}
	for k := range w.causes {
		c.Count("history with " + k)
	}
	return w, nil
}

// runC11Wal emits about n correspondence cases (two or three per crash).
func runC11Wal(c *Ctx, n int) error {
	c.Setup("Keys Spec Lsm Sys SysReopen WalOpen CorrC11Wal", "run_case")
	badger.VerifSetController(walController())
	defer badger.VerifSetController(nil)
	t0 := time.Now()
	defer func() {
		walTime["total"] = time.Since(t0)
		for k, v := range walTime {
			c.Extra["wal_seconds_"+k] = math.Round(v.Seconds()*10) / 10
		}
	}()
	start := c.nCases
	for i := 0; c.nCases-start < n; i++ {
		w, err := runWalHistory(c, i)
		if err != nil {
			var d []string
			if w != nil {
				d = w.desc
			}
			c.Oracle(false, "harness-error:c11-wal", err.Error(), J{"history": d})
			return err
		}
		c.Count("wal-histories")
	}
	return nil
}
