package main

// C31 — merge operator.  Histories on a real DB with db.GetMergeOperator(key, append, 1h) (the
// background loop never ticks; merge compactions are driven through VerifCompact, which calls
// the operator's compact() and waits for its asynchronous write-back), Add, Get, explicit flushes
// and LSM compactions (production picker + doCompact through the hist helpers), re-opens, plain
// writes of other keys.  Every label carries what the implementation returned; the Coq side
// (corr/CorrC31.v) replays it on Sys and on the per-key abstraction C31_fold is proved on.
// Property oracle (no model involved): Get == concatenation of all added values in Add order,
// ErrKeyNotFound before the first Add.

import (
	"bytes"
	"errors"
	"fmt"
	"strings"
	"time"

	badger "github.com/dgraph-io/badger/v4"
)

func init() { register("C31", runC31) }

const c31SigF8 = "F8-same-key-version-precedence-flips-after-l0-sort"

type mergeHist struct {
	h       *hist
	ops     map[string]*badger.MergeOperator
	want    map[string][]byte // the specification: concatenation of the added values
	added   map[string]int
	wrote   bool // some merge compaction wrote back (same key@version now exists twice)
	strict  bool
	sig     string
	nGet    int
	lastAdd map[string]uint64
}

func c31Append(existing, val []byte) []byte {
	return append(append([]byte{}, existing...), val...)
}

func newMergeHist(c *Ctx, o sysOpts) (*mergeHist, error) {
	h, err := newHist(c, o)
	if err != nil {
		return nil, err
	}
	return &mergeHist{h: h, ops: map[string]*badger.MergeOperator{}, want: map[string][]byte{}, added: map[string]int{},
		strict: true, sig: "C31-get-not-fold-of-adds", lastAdd: map[string]uint64{}}, nil
}

func (m *mergeHist) op(key []byte) *badger.MergeOperator {
	if o, ok := m.ops[string(key)]; ok {
		return o
	}
	o := m.h.db.GetMergeOperator(key, c31Append, time.Hour)
	m.ops[string(key)] = o
	return o
}

func (m *mergeHist) add(key, v []byte) error {
	if err := m.op(key).Add(v); err != nil {
		return err
	}
	m.want[string(key)] = append(m.want[string(key)], v...)
	m.added[string(key)]++
	m.h.emit(fmt.Sprintf("(MAdd %s %s)", B(key), B(v)), fmt.Sprintf("add %q %q", key, v))
	return nil
}

func (m *mergeHist) get(key []byte) error {
	v, err := m.op(key).Get()
	term := "None"
	switch {
	case err == nil:
		term = Some(B(v))
	case errors.Is(err, badger.ErrKeyNotFound):
	default:
		return err
	}
	m.h.emit(fmt.Sprintf("(MGet %s %s)", B(key), term), fmt.Sprintf("get %q -> %q %v", key, v, err))
	m.nGet++
	ok := false
	if m.added[string(key)] == 0 {
		ok = errors.Is(err, badger.ErrKeyNotFound)
	} else {
		ok = err == nil && bytes.Equal(v, m.want[string(key)])
	}
	m.h.c.Oracle(ok, m.sig, fmt.Sprintf("MergeOperator.Get = %q (%v), the fold of all added values is %q", v, err, m.want[string(key)]),
		J{"history": m.h.desc, "key": key})
	return nil
}

func (m *mergeHist) compactMerge(key []byte) error {
	if err := m.op(key).VerifCompact(); err != nil {
		return err
	}
	if m.added[string(key)] >= 2 {
		m.wrote = true
	}
	m.h.emit(fmt.Sprintf("(MCompact %s)", B(key)), fmt.Sprintf("merge-compact %q", key))
	return nil
}

// reopen: Stop every operator (Stop runs one last merge compaction), Close, Open
func (m *mergeHist) reopen() error {
	h := m.h
	for k, o := range m.ops {
		if err := o.VerifStop(); err != nil {
			return err
		}
		if m.added[k] >= 2 {
			m.wrote = true
		}
		h.emit(fmt.Sprintf("(MCompact %s)", B([]byte(k))), fmt.Sprintf("stop operator %q (last merge-compact)", k))
	}
	m.ops = map[string]*badger.MergeOperator{}
	before := tableIDs(h.db.VerifDump())
	if err := h.db.Close(); err != nil {
		return err
	}
	db, err := openSysDB(h.dir, h.o)
	if err != nil {
		return err
	}
	h.db = db
	id := uint64(0)
	for _, t := range db.VerifDump()[0] {
		if _, ok := before[t.ID]; !ok {
			id = t.ID
		}
	}
	h.emit(fmt.Sprintf("(Reopen %d %d)", id, db.VerifNextTs()), fmt.Sprintf("reopen -> flushed table %d, next ts %d", id, db.VerifNextTs()))
	return nil
}

func (m *mergeHist) close() {
	for _, o := range m.ops {
		o.Stop()
	}
	m.h.close()
}

func (m *mergeHist) term() string {
	h := m.h
	ops := make([]string, len(h.ops))
	for i, t := range h.ops {
		if strings.HasPrefix(t, "(MAdd ") || strings.HasPrefix(t, "(MGet ") || strings.HasPrefix(t, "(MCompact ") || strings.HasPrefix(t, "(Reopen ") {
			ops[i] = t
		} else {
			ops[i] = "(Base " + t + ")"
		}
	}
	return fmt.Sprintf("(MHist %s %d %d %d %s [\n  %s])", Bool(h.o.Detect), h.o.NKeep, h.o.MaxLevels, h.next0, Bool(m.strict),
		strings.Join(ops, ";\n  "))
}

// plain write of a filler key (never a merge key)
func (m *mergeHist) filler(t int, k, v []byte) { m.h.commit1(t, k, v) }

// let the read watermark (the compactions' discard timestamp) catch up
func (m *mergeHist) advanceWatermark(t int) {
	m.h.begin(t, false, 0)
	m.h.discard(t)
	m.h.begin(t+1, false, 0)
	m.h.discard(t + 1)
}

var c31Keys = [][]byte{[]byte("m"), []byte("k/merge"), {'m', 0}}
var c31Fillers = [][]byte{[]byte("a"), []byte("b"), []byte("k"), []byte("l"), []byte("m0"), []byte("n"), []byte("z"), {0xff}}

func c31Random(c *Ctx) error {
	o := sysOpts{Detect: true, NKeep: []int{1, 1, 2, 3}[c.Rng.Intn(4)], MaxLevels: 4, VThreshold: 32,
		TableSize: int64(256) << uint(c.Rng.Intn(4)), BaseLevelSize: []int64{200, 600, 2 << 10, 8 << 10}[c.Rng.Intn(4)]}
	m, err := newMergeHist(c, o)
	if err != nil {
		return err
	}
	defer m.close()
	h := m.h
	nKeys := 1 + c.Rng.Intn(2)
	keys := c31Keys[:nKeys]
	if c.Rng.Intn(3) == 0 {
		keys = c31Keys[1 : 1+nKeys]
	}
	nOps := 40 + c.Rng.Intn(70)
	profile := c.Rng.Intn(4) // 0: compaction heavy, 1: merge-compaction heavy, 2: L0->L0 (no merge compactions), 3: mixed
	tid := 0
	val := func() []byte {
		n := 1 + c.Rng.Intn(4)
		if c.Rng.Intn(8) == 0 {
			n = 12 + c.Rng.Intn(14) // merged values cross the value threshold (32): value log
		}
		if c.Rng.Intn(9) == 0 {
			n = 32 + c.Rng.Intn(8) // the operand itself goes to the value log: its LSM entry (a value pointer) must keep the merge bit
		}
		if c.Rng.Intn(25) == 0 {
			n = 0
		}
		v := make([]byte, n)
		for i := range v {
			v[i] = byte('a' + c.Rng.Intn(26))
		}
		return v
	}
	for step := 0; step < nOps; step++ {
		k := keys[c.Rng.Intn(len(keys))]
		x := c.Rng.Intn(100)
		wMC := 8
		if profile == 1 {
			wMC = 18
		} else if profile == 2 {
			wMC = 0
		}
		switch {
		case x < 32:
			if err := m.add(k, val()); err != nil {
				return err
			}
		case x < 50:
			if err := m.get(k); err != nil {
				return err
			}
		case x < 50+wMC:
			if err := m.compactMerge(k); err != nil {
				return err
			}
		case x < 74:
			tid += 2
			m.filler(tid, c31Fillers[c.Rng.Intn(len(c31Fillers))], val())
		case x < 84:
			if err := h.flush(); err != nil {
				return err
			}
		case x < 93:
			if c.Rng.Intn(3) == 0 {
				tid += 2
				m.advanceWatermark(tid)
			}
			lvl := 0
			if c.Rng.Intn(2) == 0 {
				d := h.db.VerifDump()
				var ne []int
				for l := range d {
					if len(d[l]) > 0 {
						ne = append(ne, l)
					}
				}
				if len(ne) > 0 {
					lvl = ne[c.Rng.Intn(len(ne))]
				}
			}
			if profile == 2 && !m.wrote && c.Rng.Intn(2) == 0 {
				// L0->L0 sorts level 0 by smallest key (F8); harmless while no key@version exists twice
				if _, err := h.compact(0, true, nil); err != nil {
					return fmt.Errorf("compact l0l0: %w", err)
				}
			} else if _, err := h.compact(lvl, false, nil); err != nil {
				return fmt.Errorf("compact: %w", err)
			}
			if c.Rng.Intn(3) == 0 {
				h.dump()
			}
		case x < 96:
			h.dump()
		default:
			if err := m.reopen(); err != nil {
				return fmt.Errorf("reopen: %w", err)
			}
		}
	}
	for _, k := range keys {
		if err := m.get(k); err != nil {
			return err
		}
	}
	h.dump()
	c.Case("MergeHist", m.term(), h.desc)
	return nil
}

// F8 through the merge operator: the operand of version 3 (table X) and its rewrite (table A)
// are both in level 0; an L0->L0 compaction takes A and the older operands but not X; its output
// holds smaller keys, so sorting level 0 by smallest key puts it BEFORE X and X's stale operand
// takes precedence over the rewrite, while the operands the rewrite subsumed are gone.
func c31WitnessF8(c *Ctx) error {
	o := sysOpts{Detect: true, NKeep: 1, MaxLevels: 4, VThreshold: 32, TableSize: 1 << 20, BaseLevelSize: 8 << 10}
	m, err := newMergeHist(c, o)
	if err != nil {
		return err
	}
	defer m.close()
	m.strict = false
	m.sig = c31SigF8
	h := m.h
	k := []byte("m")
	if err := m.add(k, []byte("v1")); err != nil {
		return err
	}
	if err := m.add(k, []byte("v2")); err != nil {
		return err
	}
	if err := h.flush(); err != nil { // B1: operands 1, 2
		return err
	}
	if err := m.add(k, []byte("v3")); err != nil {
		return err
	}
	if err := h.flush(); err != nil { // X: operand 3
		return err
	}
	ids := h.l0IDs()
	xid := ids[len(ids)-1]
	if err := m.compactMerge(k); err != nil { // rewrite m@3 = v1v2v3 (discard-earlier bit)
		return err
	}
	if err := h.flush(); err != nil { // A
		return err
	}
	m.filler(10, []byte("a"), []byte("x"))
	if err := h.flush(); err != nil {
		return err
	}
	m.filler(12, []byte("b"), []byte("y"))
	if err := h.flush(); err != nil {
		return err
	}
	m.advanceWatermark(20)
	if err := m.get(k); err != nil {
		return err
	}
	h.backdate = func(id uint64) bool { return id != xid }
	ok, err := h.compact(0, true, nil)
	if err != nil || !ok {
		return fmt.Errorf("F8 witness: L0->L0 compaction did not run (%v)", err)
	}
	h.dump()
	nf := c.nFail
	if err := m.get(k); err != nil {
		return err
	}
	if c.nFail > nf {
		c.Count("witness-F8-reproduced")
	} else {
		c.Count("witness-F8-not-reproduced")
	}
	c.Case("WitnessF8", m.term(), h.desc)
	return nil
}

func runC31(c *Ctx) error {
	c.Setup("Keys Consts Spec Lsm Compact Iter Sys MergeOp CorrC31", "run_case")
	if c.Mode != "search" {
		if err := c31WitnessF8(c); err != nil {
			return err
		}
	}
	for c.nCases < c.N {
		if err := c31Random(c); err != nil {
			return err
		}
	}
	return nil
}
