package main

import (
	"fmt"

	badger "github.com/dgraph-io/badger/v4"
)

type batchCall struct {
	Key   []byte
	Val   []byte
	Del   bool
	UMeta byte
	Ver   uint64 // explicit version (managed write batch), 0 = none
}

// batch runs one WriteBatch; kind: 0 NewWriteBatch, 1 NewWriteBatchAt(ts), 2 NewManagedWriteBatch.
// The internal transactions are made visible to the model as ordinary Begin/Modify/Commit
// labels (a split is observed through the batch's internal txn pointer).
func (h *hist) batch(tbase int, kind int, ts uint64, calls []batchCall) int {
	var wb *badger.WriteBatch
	switch kind {
	case 0:
		wb = h.db.NewWriteBatch()
	case 1:
		wb = h.db.NewWriteBatchAt(ts)
	default:
		wb = h.db.NewManagedWriteBatch()
	}
	t := tbase
	cur := badger.VerifWBTxn(wb)
	var pend []refWrite
	h.emit(fmt.Sprintf("(Begin %d true %d)", t, cur.VerifReadTs()), fmt.Sprintf("batch kind=%d ts=%d: begin t%d", kind, ts, t))
	commitLabel := func() {
		cts := ts
		if kind == 0 {
			cts = h.db.VerifNextTs() - 1
		}
		if kind == 2 {
			cts = 0
		}
		if len(pend) == 0 {
			cts = 0
		}
		for _, w := range pend {
			if w.Ver == 0 {
				w.Ver = cts
			}
			h.ref = append(h.ref, w)
		}
		pend = nil
		h.emit(fmt.Sprintf("(Commit %d %d 0)", t, cts), fmt.Sprintf("batch: commit t%d ts=%d", t, cts))
	}
	for _, cl := range calls {
		var err error
		meta := byte(0)
		switch {
		case cl.Del && cl.Ver != 0:
			err = wb.DeleteAt(cl.Key, cl.Ver)
			meta = mDelete
		case cl.Del:
			err = wb.Delete(cl.Key)
			meta = mDelete
		case cl.Ver != 0:
			err = wb.SetEntryAt(badger.NewEntry(cl.Key, cl.Val).WithMeta(cl.UMeta), cl.Ver)
		default:
			err = wb.SetEntry(badger.NewEntry(cl.Key, cl.Val).WithMeta(cl.UMeta))
		}
		if nt := badger.VerifWBTxn(wb); nt != cur {
			// the batch committed its internal transaction before applying this call
			commitLabel()
			t++
			cur = nt
			h.emit(fmt.Sprintf("(Begin %d true %d)", t, cur.VerifReadTs()), fmt.Sprintf("batch: split, begin t%d", t))
			h.c.Count("batch-split")
		}
		v, um := cl.Val, cl.UMeta
		if cl.Del {
			v, um = nil, 0
		}
		h.emit(fmt.Sprintf("(Modify %d %s %d)", t, entTerm(cl.Key, cl.Ver, meta, um, 0, v), errCode(err)),
			fmt.Sprintf("batch t%d set %x@%d=%x del=%v -> %d", t, cl.Key, cl.Ver, v, cl.Del, errCode(err)))
		if err == nil {
			pend = append(pend, refWrite{Key: append([]byte{}, cl.Key...), Ver: cl.Ver, Meta: meta, UMeta: um, Val: append([]byte{}, v...)})
		}
	}
	err := wb.Flush()
	if err != nil {
		h.c.Oracle(false, "batch-flush-error", "WriteBatch.Flush failed: "+err.Error(), J{"history": h.desc})
		h.emit(fmt.Sprintf("(Commit %d 0 99)", t), "batch flush error")
		return t + 1
	}
	commitLabel()
	return t + 1
}
