package main

// C36 (oracle-only phase): reads while immutable memtables exist. The sequential histories flush
// synchronously, so DB.get's loop over [active memtable, immutable memtables newest first] only
// ever saw one memtable. Here the flusher is held at its first hook (persist.flush.begin) while
// the memtable is rotated, so that versions written with caller-chosen timestamps in ANY order sit
// in several memtables at once: a read at timestamp T must return the newest version <= T over
// all of them (and over the levels), by Get and by iteration alike.

import (
	"bytes"
	"fmt"
	"math"
	"os"
	"path/filepath"
	"sort"
	"sync/atomic"
	"time"

	badger "github.com/dgraph-io/badger/v4"
)

func runC36ImmMemtables(c *Ctx) error {
	rounds := 6
	if c.N >= 1000 {
		rounds = 60
	}
	for r := 0; r < rounds; r++ {
		done := make(chan error, 1)
		go func() { done <- c36ImmRound(c, r) }()
		select {
		case err := <-done:
			if err != nil {
				return err
			}
		case <-time.After(90 * time.Second):
			c.Oracle(false, "c36-imm-call-did-not-return", "a commit, read or Close with held immutable memtables did not return within 90 s", J{"round": r})
			return nil
		}
	}
	return nil
}

func c36ImmRound(c *Ctx, r int) error {
	dir := filepath.Join(os.Getenv("VERIF_SCRATCH_DIR"), fmt.Sprintf("c36imm_%d", r))
	os.RemoveAll(dir)
	defer os.RemoveAll(dir)
	db, err := openSysDB(dir, sysOpts{Managed: true, NKeep: 100, MaxLevels: 4, VThreshold: 32, TableSize: 1 << 20, BaseLevelSize: 8 << 10})
	if err != nil {
		return err
	}
	var hold atomic.Bool
	gate := make(chan struct{})
	badger.VerifSetController(&badger.VerifController{Point: func(name string, args ...uint64) {
		if name == "persist.flush.begin" && hold.Load() {
			<-gate
		}
	}})
	released := false
	release := func() {
		if !released {
			released = true
			hold.Store(false)
			close(gate)
		}
	}
	defer func() {
		release()
		badger.VerifSetController(nil)
		db.Close()
	}()

	type ver struct {
		ts  uint64
		val []byte
		del bool
	}
	ref := map[string][]ver{}
	keys := []string{"k", "ka", "m", "m\x00"}
	commit := func(ts uint64) error {
		tx := db.NewTransactionAt(math.MaxUint64, true)
		defer tx.Discard()
		n := 1 + c.Rng.Intn(3)
		type w struct {
			k string
			v ver
		}
		var ws []w
		seen := map[string]bool{}
		for i := 0; i < n; i++ {
			k := keys[c.Rng.Intn(len(keys))]
			if seen[k] {
				continue
			}
			dup := false
			for _, o := range ref[k] {
				if o.ts == ts {
					dup = true // never the same key@version twice (finding F8 territory)
				}
			}
			if dup {
				continue
			}
			seen[k] = true
			v := ver{ts: ts, val: []byte(fmt.Sprintf("%s@%d#%d", k, ts, c.Rng.Intn(1000)))}
			if c.Rng.Intn(6) == 0 {
				v.del, v.val = true, nil
				if err := tx.Delete([]byte(k)); err != nil {
					return err
				}
			} else if err := tx.Set([]byte(k), v.val); err != nil {
				return err
			}
			ws = append(ws, w{k, v})
		}
		if len(ws) == 0 {
			return nil
		}
		if err := tx.CommitAt(ts, nil); err != nil {
			return err
		}
		for _, x := range ws {
			ref[x.k] = append(ref[x.k], x.v)
		}
		return nil
	}
	newest := func(k string, ts uint64) *ver {
		var best *ver
		for i := range ref[k] {
			v := &ref[k][i]
			if v.ts <= ts && (best == nil || v.ts > best.ts) {
				best = v
			}
		}
		return best
	}
	var desc []string
	readAll := func(where string) {
		var bad []string
		tss := []uint64{1, 3, 5, 8, 12, 20, 40, 1000}
		for _, ts := range tss {
			tx := db.NewTransactionAt(ts, false)
			for _, k := range keys {
				want := newest(k, ts)
				it, err := tx.Get([]byte(k))
				switch {
				case err == badger.ErrKeyNotFound:
					if want != nil && !want.del {
						bad = append(bad, fmt.Sprintf("Get %q at %d: not found, want version %d", k, ts, want.ts))
					}
				case err != nil:
					bad = append(bad, fmt.Sprintf("Get %q at %d: %v", k, ts, err))
				default:
					v, _ := it.ValueCopy(nil)
					if want == nil || want.del || it.Version() != want.ts || !bytes.Equal(v, want.val) {
						w := "nothing"
						if want != nil {
							w = fmt.Sprintf("version %d (deleted=%v)", want.ts, want.del)
						}
						bad = append(bad, fmt.Sprintf("Get %q at %d: version %d, want %s", k, ts, it.Version(), w))
					}
				}
			}
			// the iterator must agree with the reference too
			itr := tx.NewIterator(badger.DefaultIteratorOptions)
			got := map[string]uint64{}
			for itr.Rewind(); itr.Valid(); itr.Next() {
				got[string(itr.Item().KeyCopy(nil))] = itr.Item().Version()
			}
			itr.Close()
			for _, k := range keys {
				want := newest(k, ts)
				gv, ok := got[k]
				if (want == nil || want.del) != !ok || (ok && gv != want.ts) {
					bad = append(bad, fmt.Sprintf("iterator at %d: key %q version %d present=%v", ts, k, gv, ok))
				}
			}
			tx.Discard()
		}
		sort.Strings(bad)
		if len(bad) > 6 {
			bad = bad[:6]
		}
		c.Oracle(len(bad) == 0, "c36-read-over-immutable-memtables-not-newest-version",
			"with versions of a key spread over the active and the immutable memtables (caller-chosen timestamps in any order) a read does not return the newest version at or below its timestamp",
			J{"round": r, "where": where, "immutable_memtables": db.VerifImmCount(), "history": desc, "mismatches": bad})
	}

	// a first layer that is flushed normally (tables below the memtables)
	for i := 0; i < 3; i++ {
		ts := uint64(1 + c.Rng.Intn(30))
		if err := commit(ts); err != nil {
			return err
		}
		desc = append(desc, fmt.Sprintf("commit@%d", ts))
	}
	if err := db.VerifFlushMemtable(); err != nil {
		return err
	}
	desc = append(desc, "flush")
	hold.Store(true)
	nImm := 1 + c.Rng.Intn(3)
	for m := 0; m <= nImm; m++ {
		for i, n := 0, 1+c.Rng.Intn(4); i < n; i++ {
			ts := uint64(1 + c.Rng.Intn(30))
			if err := commit(ts); err != nil {
				return err
			}
			desc = append(desc, fmt.Sprintf("commit@%d", ts))
		}
		if m < nImm {
			ok, err := db.VerifRotateMemtable()
			if err != nil {
				return fmt.Errorf("c36imm: rotate: %v", err)
			}
			if ok {
				desc = append(desc, "rotate (flush held)")
			}
		}
		readAll(fmt.Sprintf("after memtable %d", m))
	}
	c.Count(fmt.Sprintf("imm-memtables-held=%d", db.VerifImmCount()))
	release()
	for i := 0; i < 5000 && db.VerifImmCount() > 0; i++ {
		time.Sleep(time.Millisecond)
	}
	desc = append(desc, "flusher released")
	readAll("after the flushes")
	return nil
}
