package main

// Deterministic witnesses for the Stream / Backup findings, run on every check of C25 / C24.
// The schedule is controlled through the two hook points in stream.go produceKVs
// ("stream.producer.start" before the producer's transaction is created,
// "stream.producer.txn" right after, carrying its readTs) and a blocking ChooseKey.

import (
	"bytes"
	"errors"
	"fmt"
	"sync"
	"time"

	badger "github.com/dgraph-io/badger/v4"
)

type prodCtl struct {
	mu      sync.Mutex
	gates   map[uint64]chan struct{}
	arrived chan uint64
	txns    chan [2]uint64
}

func (p *prodCtl) gate(tid uint64) chan struct{} {
	p.mu.Lock()
	defer p.mu.Unlock()
	g, ok := p.gates[tid]
	if !ok {
		g = make(chan struct{})
		p.gates[tid] = g
	}
	return g
}

// installProducerControl replaces the history's hook controller by one that also handles the
// stream points (the compaction part is the same as in newHist).
func (h *hist) installProducerControl() *prodCtl {
	p := &prodCtl{gates: map[uint64]chan struct{}{}, arrived: make(chan uint64, 64), txns: make(chan [2]uint64, 64)}
	badger.VerifSetController(&badger.VerifController{
		Point: func(name string, args ...uint64) {
			switch name {
			case "subcompact.discardTs":
				h.mu.Lock()
				h.cdisc = args[0]
				h.mu.Unlock()
			case "stream.producer.start":
				p.arrived <- args[0]
				<-p.gate(args[0])
			case "stream.producer.txn":
				p.txns <- [2]uint64{args[0], args[1]}
			}
		},
		NewTables: func(info *badger.VerifCompactInfo) {
			h.mu.Lock()
			h.cinfo = info
			h.cgot = true
			h.mu.Unlock()
		},
	})
	return p
}

func waitU64(ch chan uint64) (uint64, error) {
	select {
	case v := <-ch:
		return v, nil
	case <-time.After(30 * time.Second):
		return 0, errors.New("witness: timed out waiting for a producer (hook lines missing in stream.go?)")
	}
}

func inRange(k, left, right []byte) bool {
	return bytes.Compare(k, left) >= 0 && (len(right) == 0 || bytes.Compare(k, right) < 0)
}

// controlledRun: a 2-producer run in which producer A creates its transaction, takes a range
// and is held in ChooseKey; `mid` runs (a commit); then producer B creates its transaction,
// takes the other range and finishes; then A continues.  Emits the producer-level labels.
func (h *hist) controlledRun(cfg streamCfg, mid func()) (runResult, []obsItem, error) {
	cfg.NumGo = 2
	streamTxnSeq++
	t := streamTxnSeq
	h.begin(t, false, cfg.ReadTs) // the snapshot "when the run starts"
	scan, err := scanAll(h.txns[t], cfg.Prefix, cfg.Since)
	h.discard(t)
	if err != nil {
		return runResult{}, nil, err
	}
	lefts, rights := h.db.VerifRanges(cfg.Prefix, cfg.NumGo)
	if len(lefts) != 2 {
		return runResult{}, nil, fmt.Errorf("witness: expected 2 key ranges, got %d", len(lefts))
	}
	ctl := h.installProducerControl()
	var calls int32
	var cmu sync.Mutex
	firstKey := make(chan []byte, 1)
	secondKey := make(chan []byte, 8)
	resume := make(chan struct{})
	wrap := func(st *badger.Stream) {
		st.ChooseKey = func(item *badger.Item) bool {
			cmu.Lock()
			calls++
			n := calls
			cmu.Unlock()
			if n == 1 {
				firstKey <- item.KeyCopy(nil)
				<-resume
			} else {
				secondKey <- item.KeyCopy(nil)
			}
			return true
		}
	}
	type rr struct {
		res runResult
		err error
	}
	done := make(chan rr, 1)
	go func() {
		res, err := h.runStream(cfg, wrap)
		done <- rr{res, err}
	}()
	a, err := waitU64(ctl.arrived)
	if err != nil {
		return runResult{}, nil, err
	}
	b, err := waitU64(ctl.arrived)
	if err != nil {
		return runResult{}, nil, err
	}
	close(ctl.gate(a))
	ta := <-ctl.txns
	h.emit(fmt.Sprintf("(ProdBegin %d %d)", ta[0], ta[1]), fmt.Sprintf("producer %d: txn readTs=%d", ta[0], ta[1]))
	ka := <-firstKey
	mid()
	close(ctl.gate(b))
	tb := <-ctl.txns
	h.emit(fmt.Sprintf("(ProdBegin %d %d)", tb[0], tb[1]), fmt.Sprintf("producer %d: txn readTs=%d", tb[0], tb[1]))
	var kb []byte
	select {
	case kb = <-secondKey:
	case <-time.After(30 * time.Second):
		return runResult{}, nil, errors.New("witness: second producer did not take a range")
	}
	close(resume)
	r := <-done
	if r.err != nil {
		return r.res, scan, r.err
	}
	groups, _, _ := groupByStream(r.res.kvs)
	emitRange := func(p uint64, k []byte) {
		for i := range lefts {
			if !inRange(k, lefts[i], rights[i]) {
				continue
			}
			var out []skv
			for _, g := range groups {
				if inRange(g[0].Key, lefts[i], rights[i]) {
					out = g
				}
			}
			h.emit(fmt.Sprintf("(ProdRange %d %s %s %s %s)", p, h.cfgTerm(cfg), B(lefts[i]), B(rights[i]), skvTerms(out)),
				fmt.Sprintf("producer %d iterates [%x,%x) -> %d kvs", p, lefts[i], rights[i], len(out)))
		}
	}
	emitRange(tb[0], kb)
	emitRange(ta[0], ka)
	h.c.Extra["witness_readts"] = []uint64{ta[1], tb[1]}
	return r.res, scan, nil
}

func f7Setup(c *Ctx) (*hist, error) {
	h, err := newHist(c, sysOpts{Detect: true, NKeep: 1, MaxLevels: 4, VThreshold: 32, TableSize: 1 << 20, BaseLevelSize: 8 << 10})
	if err != nil {
		return nil, err
	}
	// two accounts, 10 each, in one table: its first block key is the split point
	h.commit1(0, []byte("a"), []byte("10"), []byte("b"), []byte("10"))
	if err := h.flush(); err != nil {
		h.close()
		return nil, err
	}
	return h, nil
}

// F7 (C25): producer A reads at ts 1, a transfer a -= 5, b += 5 commits at ts 2, producer B
// reads at ts 2: the stream shows a = 10, b = 15.
func scenarioF7Stream(c *Ctx) (*hist, bool, error) {
	h, err := f7Setup(c)
	if err != nil {
		return nil, false, err
	}
	defer h.close()
	cfg := streamCfg{}
	res, scan, err := h.controlledRun(cfg, func() { h.commit1(1, []byte("a"), []byte("5"), []byte("b"), []byte("15")) })
	if err != nil {
		return h, false, err
	}
	now := uint64(time.Now().Unix())
	groups, _, _ := groupByStream(res.kvs)
	got := flatten(groups)
	wantStart := expectedFromScan(scan, cfg, h.o.NKeep, now)
	streamTxnSeq++
	t := streamTxnSeq
	h.begin(t, false, 0)
	scanEnd, _ := scanAll(h.txns[t], nil, 0)
	h.discard(t)
	wantEnd := expectedFromScan(scanEnd, cfg, h.o.NKeep, now)
	ok := equalKVs(got, wantStart)
	c.Extra["witness_F7_stream_also_differs_from_end_snapshot"] = !equalKVs(got, wantEnd)
	var d []string
	for _, x := range got {
		d = append(d, fmt.Sprintf("%s@%d=%s", x.Key, x.Ver, x.Val))
	}
	c.Extra["witness_F7_stream_delivered"] = d
	c.Oracle(ok, "F7-stream-producers-read-different-snapshots",
		"Stream producers created their read transactions around a concurrent commit: the delivered KVs are not one snapshot", J{"history": h.desc, "delivered": d})
	c.Oracle(!keyTwice(got), "c25-key-delivered-twice", "a key's versions were delivered in more than one place of the stream", J{"history": h.desc})
	return h, !ok, nil
}

// F7 (C24): the same schedule inside Backup #1 (returns version 2 although a@2 was not
// dumped), then a quiescent incremental Backup #2 with since = 2, then Load of both.
func scenarioF7Backup(c *Ctx) (*hist, bool, error) {
	h, err := f7Setup(c)
	if err != nil {
		return nil, false, err
	}
	defer h.close()
	cfg := streamCfg{Backup: true}
	res, _, err := h.controlledRun(cfg, func() { h.commit1(1, []byte("a"), []byte("5"), []byte("b"), []byte("15")) })
	if err != nil {
		return h, false, err
	}
	badger.VerifSetController(nil)
	chain := []backupRec{{since: 0, ret: res.ret, data: res.data, kvs: res.kvs}}
	cfg2 := streamCfg{Backup: true, NumGo: 2, Since: res.ret}
	res2, _, err := h.quiescentRun(cfg2)
	if err != nil {
		return h, false, err
	}
	chain = append(chain, backupRec{since: cfg2.Since, ret: res2.ret, data: res2.data, kvs: res2.kvs})
	streamTxnSeq++
	t := streamTxnSeq
	h.begin(t, false, 0)
	full, _ := scanAll(h.txns[t], nil, 0)
	h.discard(t)
	nf := c.nFail
	if err := h.loadAndCompare(chain, full, cfg2, true); err != nil {
		return h, false, err
	}
	c.Extra["witness_F7_backup_returned"] = []uint64{res.ret, res2.ret}
	return h, c.nFail > nf, nil
}

// A deletion whose marker is compacted away between two incremental backups: backup #1 holds
// k = v1, then k is deleted, the tree is compacted to the last level (marker and old version
// dropped), backup #2 (since = ret1) sees nothing for k, the restored chain still shows k.
func scenarioBackupGC(c *Ctx) (*hist, bool, error) {
	h, err := newHist(c, sysOpts{Detect: true, NKeep: 1, MaxLevels: 4, VThreshold: 32, TableSize: 1 << 20, BaseLevelSize: 8 << 10})
	if err != nil {
		return nil, false, err
	}
	defer h.close()
	k := []byte("k")
	h.commit1(0, k, []byte("v1"), []byte("other"), []byte("x"))
	if err := h.flush(); err != nil {
		return h, false, err
	}
	cfg1 := streamCfg{Backup: true, NumGo: 2}
	res1, _, err := h.quiescentRun(cfg1)
	if err != nil {
		return h, false, err
	}
	chain := []backupRec{{since: 0, ret: res1.ret, data: res1.data, kvs: res1.kvs}}
	h.commit1(1, k, nil)
	if err := h.flush(); err != nil {
		return h, false, err
	}
	// let the read watermark pass the deletion
	h.begin(10, false, 0)
	h.discard(10)
	h.begin(11, false, 0)
	h.discard(11)
	if ok, err := h.compact(0, false, nil); err != nil || !ok {
		return h, false, fmt.Errorf("GC scenario: compaction did not run (%v)", err)
	}
	h.dump()
	cfg2 := streamCfg{Backup: true, NumGo: 2, Since: res1.ret}
	res2, _, err := h.quiescentRun(cfg2)
	if err != nil {
		return h, false, err
	}
	chain = append(chain, backupRec{since: cfg2.Since, ret: res2.ret, data: res2.data, kvs: res2.kvs})
	streamTxnSeq++
	t := streamTxnSeq
	h.begin(t, false, 0)
	full, _ := scanAll(h.txns[t], nil, 0)
	h.discard(t)
	nf := c.nFail
	if err := h.loadAndCompare(chain, full, cfg2, false); err != nil {
		return h, false, err
	}
	return h, c.nFail > nf, nil
}

// Informational (C24_since_strict): the SinceTs filter is `version <= since` => skipped, so
// the returned version must be passed as is; passing ret+1 (as the doc comment of DB.Backup
// suggests) loses a commit at version ret+1.
func scenarioSincePlusOne(c *Ctx) (*hist, bool, error) {
	h, err := newHist(c, sysOpts{Detect: true, NKeep: 1, MaxLevels: 4, VThreshold: 32, TableSize: 1 << 20, BaseLevelSize: 8 << 10})
	if err != nil {
		return nil, false, err
	}
	defer h.close()
	h.commit1(0, []byte("k"), []byte("v1"))
	res1, _, err := h.quiescentRun(streamCfg{Backup: true, NumGo: 1})
	if err != nil {
		return h, false, err
	}
	h.commit1(1, []byte("k"), []byte("v2")) // version ret+1
	exact, _, err := h.quiescentRun(streamCfg{Backup: true, NumGo: 1, Since: res1.ret})
	if err != nil {
		return h, false, err
	}
	plus, _, err := h.quiescentRun(streamCfg{Backup: true, NumGo: 1, Since: res1.ret + 1})
	if err != nil {
		return h, false, err
	}
	c.Extra["since_ret_keeps_next_version"] = len(exact.kvs) == 1 && exact.kvs[0].Ver == res1.ret+1
	c.Extra["since_ret_plus_one_loses_next_version"] = len(plus.kvs) == 0
	c.Oracle(len(exact.kvs) == 1 && exact.kvs[0].Ver == res1.ret+1, "c24-since-not-strict", "an incremental backup with since = the returned version did not contain the next commit", J{"history": h.desc})
	return h, false, nil
}

var streamScenarios = map[string][]scenario{
	"C25": {{"F7", scenarioF7Stream}},
	"C24": {{"F7", scenarioF7Backup}, {"F21", scenarioBackupGC}, {"since", scenarioSincePlusOne}},
}

func runStreamScenarios(c *Ctx) error {
	for _, s := range streamScenarios[c.Prop] {
		h, reproduced, err := s.run(c)
		if err != nil {
			return fmt.Errorf("scenario %s: %w", s.id, err)
		}
		c.Case("witness-"+s.id, c.sterm(h.xterm()), histInput(h))
		c.Extra["witness_"+s.id+"_reproduced"] = reproduced
	}
	return nil
}
