package main

// C10 — ground truth for the sync claims of the persistence hook log.
//
// The power-loss images of crash.go are built from the HOOK log: a hook placed after an
// fsync/msync call site is taken as "the sync happened".  A change that drops, skips or reorders
// the real sync and leaves the hook in place produces the same hook log.  This file ties the
// claims to the system calls the child process really made:
//
//   * the workload child runs under `strace -f -y` (file paths for descriptors); the trace is
//     replayed here: a name space of the database directory (openat(O_CREAT) / rename / unlink),
//     file objects that follow renames, mmap regions (mmap / mremap / munmap: msync carries an
//     address, not a path), writes / truncations, fsync / fdatasync / msync(MS_SYNC) per object,
//     writes through O_SYNC / O_DSYNC descriptors (KEYREGISTRY), and fsync of the directory
//     with the name space at that moment;
//   * MARKERS: every line of the child's event log (hook hits, ISSUE / ACK, ...) is written with
//     ONE write(2) to the event-log descriptor, `<seq> <text>\n`; strace records it in sequence
//     with the real system calls.  A hook runs on the goroutine that has just returned from the
//     sync call it follows, and strace resumes a thread only after it has printed the system
//     call's exit: a sync that really precedes a hook is printed before the hook's marker,
//     whatever thread the goroutine runs on.  Stores into mmap'd files (WAL, value log, tables)
//     are not system calls: the hooks persist.wal.put / persist.vlog.written (which follow the
//     stores on the same goroutine) mark the file dirty at their marker;
//   * `clean(seq, name)`: at the marker of event seq the file object bound to `name` has a
//     successful sync whose ENTRY is after the last modification (write exit, truncation,
//     creation, store marker) and whose EXIT is before the marker.
//
// Positions: line i of the strace output is position 2i; the implied sync of a write through an
// O_DSYNC descriptor sits at 2i+1.

import (
	"bufio"
	"fmt"
	"os"
	"os/exec"
	"path/filepath"
	"sort"
	"strconv"
	"strings"
)

const straceTraceSet = "trace=openat,close,mmap,mremap,munmap,msync,fsync,fdatasync,ftruncate,rename,renameat,renameat2,unlink,unlinkat,write,pwrite64"

// is strace usable here? (binary present AND ptrace permitted: a self-test on this binary)
func straceProbe(scratch string) (ok bool, version string) {
	out, err := exec.Command("strace", "-V").Output()
	if err != nil {
		return false, "strace -V: " + err.Error()
	}
	version = strings.SplitN(strings.TrimSpace(string(out)), "\n", 2)[0]
	tf := filepath.Join(scratch, "strace_selftest.txt")
	defer os.Remove(tf)
	cmd := exec.Command("strace", "-f", "-y", "-o", tf, "-e", "trace=openat,close", os.Args[0], "list")
	if err := cmd.Run(); err != nil {
		return false, version + " (self-test failed: " + err.Error() + ")"
	}
	b, _ := os.ReadFile(tf)
	if !strings.Contains(string(b), "openat(") {
		return false, version + " (self-test: no system call recorded)"
	}
	return true, version
}

func straceCommand(outFile string, argv []string) *exec.Cmd {
	a := []string{"-f", "-y", "-s", "160", "-o", outFile, "-e", straceTraceSet}
	return exec.Command("strace", append(a, argv...)...)
}

type stSync struct{ entry, exit int }

type stObj struct {
	id      int
	first   string // the name it was created under
	created int
	dirty   []int // positions of modifications (ascending after finish())
	syncs   []stSync
}

type stBind struct {
	pos int
	obj int // -1: unbound
}

type stDirSync struct {
	entry, exit int
	names       []string // the directory's names at the fsync's entry
	consumed    bool
}

type stRegion struct {
	addr, n uint64
	obj     int
}

type stPending struct {
	text string
	line int
}

type straceTruth struct {
	dir, evlog string
	lines      []string
	objs       []*stObj
	cur        map[string]int      // name -> object now
	hist       map[string][]stBind // name -> bindings over time
	regions    []stRegion
	dsync      map[int]bool // descriptor opened with O_SYNC / O_DSYNC
	dirSyncs   []stDirSync
	marker     map[int]int // event seq -> position of its write's entry
	nCalls     int
	nMsync     int
	nFsync     int
	unmapped   int            // msync on an address no tracked mapping covers
	dirClaim   map[int]int    // seq of a persist.syncdir.done -> index into dirSyncs (-1: none)
	putWal     map[int]string // seq of a persist.wal.put -> the WAL the record went to
	parseNotes []string
}

func (t *straceTruth) note(f string, a ...interface{}) {
	if len(t.parseNotes) < 20 {
		t.parseNotes = append(t.parseNotes, fmt.Sprintf(f, a...))
	}
}

// the name of a path inside the database directory ("" if it is not directly inside)
func (t *straceTruth) nameOf(p string) string {
	p = strings.TrimSuffix(p, " (deleted)")
	if !strings.HasPrefix(p, t.dir+"/") {
		return ""
	}
	n := p[len(t.dir)+1:]
	if strings.Contains(n, "/") {
		return ""
	}
	return n
}

func (t *straceTruth) bind(name string, obj, pos int) {
	if obj < 0 {
		delete(t.cur, name)
	} else {
		t.cur[name] = obj
	}
	t.hist[name] = append(t.hist[name], stBind{pos, obj})
}

func (t *straceTruth) newObj(name string, pos int) int {
	o := &stObj{id: len(t.objs), first: name, created: pos, dirty: []int{pos}}
	t.objs = append(t.objs, o)
	t.bind(name, o.id, pos)
	return o.id
}

// object bound to name right before position pos (-1: none)
func (t *straceTruth) objAt(name string, pos int) int {
	r := -1
	for _, b := range t.hist[name] {
		if b.pos < pos {
			r = b.obj
		} else {
			break
		}
	}
	return r
}

func (t *straceTruth) namesAt(pos int) []string {
	var out []string
	for n := range t.hist {
		if t.objAt(n, pos) >= 0 {
			out = append(out, n)
		}
	}
	sort.Strings(out)
	return out
}

// "12</a/b>" -> 12, "/a/b"
func stFd(s string) (int, string) {
	s = strings.TrimSpace(s)
	i := strings.Index(s, "<")
	if i < 0 || !strings.HasSuffix(s, ">") {
		n, err := strconv.Atoi(s)
		if err != nil {
			return -1, ""
		}
		return n, ""
	}
	n, err := strconv.Atoi(s[:i])
	if err != nil {
		return -1, ""
	}
	return n, s[i+1 : len(s)-1]
}

// the double-quoted strings of an argument list (strace escapes quotes inside them)
func stQuoted(args string) []string {
	var out []string
	for i := 0; i < len(args); i++ {
		if args[i] != '"' {
			continue
		}
		j := i + 1
		for j < len(args) && args[j] != '"' {
			if args[j] == '\\' {
				j++
			}
			j++
		}
		if j >= len(args) {
			break
		}
		out = append(out, args[i+1:j])
		i = j
	}
	return out
}

// first argument up to the first top-level comma
func stFirstArg(args string) (string, string) {
	depth := 0
	for i := 0; i < len(args); i++ {
		switch args[i] {
		case '<':
			depth++
		case '>':
			depth--
		case ',':
			if depth == 0 {
				return args[:i], strings.TrimSpace(args[i+1:])
			}
		}
	}
	return args, ""
}

// the value part of a return text: "14</a/b (deleted)>" or "0x7f..." or "0"
func stRet(ret string) string {
	if i := strings.LastIndex(ret, ">"); i >= 0 && strings.Contains(ret, "<") {
		return ret[:i+1]
	}
	fs := strings.Fields(ret)
	if len(fs) == 0 {
		return ""
	}
	return fs[0]
}

func stHex(s string) (uint64, bool) {
	s = strings.TrimSpace(s)
	if !strings.HasPrefix(s, "0x") {
		return 0, false
	}
	v, err := strconv.ParseUint(s[2:], 16, 64)
	return v, err == nil
}

func straceLoad(path, dbDir, evLog string) (*straceTruth, error) {
	f, err := os.Open(path)
	if err != nil {
		return nil, err
	}
	defer f.Close()
	t := &straceTruth{dir: filepath.Clean(dbDir), evlog: filepath.Clean(evLog), cur: map[string]int{}, hist: map[string][]stBind{},
		dsync: map[int]bool{}, marker: map[int]int{}, dirClaim: map[int]int{}, putWal: map[int]string{}}
	sc := bufio.NewScanner(f)
	sc.Buffer(make([]byte, 1<<20), 1<<24)
	pend := map[string]stPending{}
	for sc.Scan() {
		line := sc.Text()
		idx := len(t.lines)
		t.lines = append(t.lines, line)
		sp := strings.IndexByte(line, ' ')
		if sp <= 0 {
			continue
		}
		pid, rest := line[:sp], strings.TrimLeft(line[sp:], " ")
		if strings.HasPrefix(rest, "---") || strings.HasPrefix(rest, "+++") {
			continue
		}
		entry, exit := idx, idx
		if strings.HasPrefix(rest, "<... ") {
			j := strings.Index(rest, " resumed>")
			p, ok := pend[pid]
			if j < 0 || !ok {
				continue
			}
			delete(pend, pid)
			rest = p.text + rest[j+len(" resumed>"):]
			entry = p.line
		} else if strings.HasSuffix(rest, "<unfinished ...>") {
			pend[pid] = stPending{strings.TrimSuffix(rest, "<unfinished ...>"), idx}
			continue
		}
		t.call(rest, 2*entry, 2*exit)
	}
	return t, sc.Err()
}

func (t *straceTruth) call(text string, entry, exit int) {
	// "name(args) = ret" or, column-aligned, "name(args)      = ret"
	po := strings.IndexByte(text, '(')
	eq := strings.LastIndex(text, " = ")
	if po <= 0 || eq < po {
		return
	}
	pr := eq
	for pr > po && text[pr] == ' ' {
		pr--
	}
	if text[pr] != ')' {
		return
	}
	name, args, ret := text[:po], text[po+1:pr], strings.TrimSpace(text[eq+3:])
	t.nCalls++
	failed := strings.HasPrefix(ret, "-1")
	switch name {
	case "openat":
		if failed {
			return
		}
		fd, p := stFd(stRet(ret))
		if fd < 0 {
			return
		}
		delete(t.dsync, fd)
		if strings.Contains(args, "O_DSYNC") || strings.Contains(args, "O_SYNC") {
			t.dsync[fd] = true
		}
		n := t.nameOf(p)
		if n == "" {
			return
		}
		o, ok := t.cur[n]
		if !ok {
			o = t.newObj(n, exit)
			if !strings.Contains(args, "O_CREAT") {
				t.note("file %s opened without O_CREAT and never seen created", n)
			}
		}
		if strings.Contains(args, "O_TRUNC") {
			t.objs[o].dirty = append(t.objs[o].dirty, exit)
		}
	case "close":
		fd, _ := stFd(args)
		delete(t.dsync, fd)
	case "write", "pwrite64":
		a0, restArgs := stFirstArg(args)
		fd, p := stFd(a0)
		if p == "" {
			return
		}
		if filepath.Clean(p) == t.evlog {
			qs := stQuoted(restArgs)
			if len(qs) == 0 {
				return
			}
			d := 0
			for d < len(qs[0]) && qs[0][d] >= '0' && qs[0][d] <= '9' {
				d++
			}
			if d == 0 || d >= len(qs[0]) || qs[0][d] != ' ' {
				return
			}
			seq, _ := strconv.Atoi(qs[0][:d])
			if _, dup := t.marker[seq]; !dup {
				t.marker[seq] = entry
			}
			return
		}
		n := t.nameOf(p)
		if n == "" || failed {
			return
		}
		o, ok := t.cur[n]
		if !ok {
			o = t.newObj(n, exit)
			t.note("write to %s which was never seen created", n)
		}
		t.objs[o].dirty = append(t.objs[o].dirty, exit)
		if t.dsync[fd] {
			t.objs[o].syncs = append(t.objs[o].syncs, stSync{exit + 1, exit + 1})
		}
	case "ftruncate":
		a0, _ := stFirstArg(args)
		_, p := stFd(a0)
		n := t.nameOf(p)
		if n == "" || failed {
			return
		}
		if o, ok := t.cur[n]; ok {
			t.objs[o].dirty = append(t.objs[o].dirty, exit)
		}
	case "fsync", "fdatasync":
		_, p := stFd(args)
		if failed || p == "" {
			return
		}
		t.nFsync++
		if filepath.Clean(strings.TrimSuffix(p, " (deleted)")) == t.dir {
			t.dirSyncs = append(t.dirSyncs, stDirSync{entry: entry, exit: exit, names: t.namesAt(entry + 1)})
			return
		}
		if n := t.nameOf(p); n != "" {
			// the object the descriptor's path names NOW (strace resolves the path at the call)
			if o := t.objAt(n, entry+1); o >= 0 {
				t.objs[o].syncs = append(t.objs[o].syncs, stSync{entry, exit})
			}
		}
	case "mmap":
		if failed || !strings.Contains(args, "MAP_SHARED") || strings.Contains(args, "MAP_ANONYMOUS") {
			return
		}
		fs := strings.Split(args, ", ")
		if len(fs) < 6 {
			return
		}
		ln, err := strconv.ParseUint(strings.TrimSpace(fs[1]), 10, 64)
		addr, ok := stHex(stRet(ret))
		_, p := stFd(fs[4])
		n := t.nameOf(p)
		if err != nil || !ok || n == "" {
			return
		}
		if o, ok := t.cur[n]; ok {
			t.regions = append(t.regions, stRegion{addr, ln, o})
		}
	case "munmap":
		fs := strings.Split(args, ", ")
		if len(fs) < 2 || failed {
			return
		}
		addr, ok := stHex(fs[0])
		ln, err := strconv.ParseUint(strings.TrimSpace(fs[1]), 10, 64)
		if !ok || err != nil {
			return
		}
		keep := t.regions[:0]
		for _, r := range t.regions {
			if r.addr >= addr && r.addr < addr+ln {
				continue
			}
			keep = append(keep, r)
		}
		t.regions = keep
	case "mremap":
		fs := strings.Split(args, ", ")
		if len(fs) < 3 || failed {
			return
		}
		old, ok := stHex(fs[0])
		nl, err := strconv.ParseUint(strings.TrimSpace(fs[2]), 10, 64)
		na, ok2 := stHex(stRet(ret))
		if !ok || !ok2 || err != nil {
			return
		}
		for i := range t.regions {
			if t.regions[i].addr == old {
				t.regions[i].addr, t.regions[i].n = na, nl
			}
		}
	case "msync":
		fs := strings.Split(args, ", ")
		if len(fs) < 3 || failed || !strings.Contains(fs[2], "MS_SYNC") {
			return
		}
		addr, ok := stHex(fs[0])
		if !ok {
			return
		}
		t.nMsync++
		hit := false
		for _, r := range t.regions {
			if addr >= r.addr && addr < r.addr+r.n {
				t.objs[r.obj].syncs = append(t.objs[r.obj].syncs, stSync{entry, exit})
				hit = true
			}
		}
		if !hit {
			t.unmapped++
		}
	case "rename", "renameat", "renameat2":
		qs := stQuoted(args)
		if failed || len(qs) != 2 {
			return
		}
		a, b := t.nameOf(filepath.Clean(qs[0])), t.nameOf(filepath.Clean(qs[1]))
		if a == "" && b == "" {
			return
		}
		o, ok := t.cur[a]
		if a != "" {
			t.bind(a, -1, exit)
		}
		if b != "" {
			if ok {
				t.bind(b, o, exit)
			} else {
				t.newObj(b, exit)
			}
		}
	case "unlink", "unlinkat":
		qs := stQuoted(args)
		if failed || len(qs) != 1 {
			return
		}
		if n := t.nameOf(filepath.Clean(qs[0])); n != "" {
			t.bind(n, -1, exit)
		}
	}
}

// second pass: stores into mmap'd files are marked by the hooks that follow them; the k-th
// persist.syncdir.done consumes one completed fsync of the directory
func (t *straceTruth) finish(evs []crashEvent) {
	for _, ev := range evs {
		pos, ok := t.marker[ev.Seq]
		if !ok || ev.Kind != "H" {
			continue
		}
		switch ev.Name {
		case "persist.wal.put":
			best := ""
			for _, n := range t.namesAt(pos) {
				if strings.HasSuffix(n, ".mem") && n > best {
					best = n
				}
			}
			if o := t.objAt(best, pos); best != "" && o >= 0 {
				t.objs[o].dirty = append(t.objs[o].dirty, pos)
				t.putWal[ev.Seq] = best
			}
		case "persist.vlog.written":
			if len(ev.Args) == 3 && ev.Args[2] > 0 {
				if o := t.objAt(fmt.Sprintf("%06d.vlog", ev.Args[0]), pos); o >= 0 {
					t.objs[o].dirty = append(t.objs[o].dirty, pos)
				}
			}
		case "persist.syncdir.done":
			t.dirClaim[ev.Seq] = -1
			for i := len(t.dirSyncs) - 1; i >= 0; i-- {
				if t.dirSyncs[i].exit < pos && !t.dirSyncs[i].consumed {
					t.dirSyncs[i].consumed = true
					t.dirClaim[ev.Seq] = i
					break
				}
			}
		}
	}
	for _, o := range t.objs {
		sort.Ints(o.dirty)
		sort.Slice(o.syncs, func(a, b int) bool { return o.syncs[a].entry < o.syncs[b].entry })
	}
}

type stVerdict struct {
	ok        bool
	why       string
	obj       int
	lastDirty int
	syncAt    int
	pos       int
}

// is the file named `name` durable in its current content at the marker of event seq?
func (t *straceTruth) cleanV(seq int, name string) stVerdict {
	pos, ok := t.marker[seq]
	if !ok {
		return stVerdict{why: fmt.Sprintf("no marker for event %d in the system-call trace", seq), obj: -1}
	}
	o := t.objAt(name, pos)
	if o < 0 {
		return stVerdict{why: "no file of that name exists in the system-call trace at this point", obj: -1, pos: pos}
	}
	ob := t.objs[o]
	v := stVerdict{obj: o, pos: pos, lastDirty: ob.created, syncAt: -1}
	for _, d := range ob.dirty {
		if d < pos && d > v.lastDirty {
			v.lastDirty = d
		}
	}
	for _, s := range ob.syncs {
		if s.entry > v.lastDirty && s.exit < pos {
			v.ok, v.syncAt = true, s.entry
			return v
		}
	}
	v.why = fmt.Sprintf("no fsync/fdatasync/msync(MS_SYNC) of %s between its last modification (strace line %d) and the hook's marker (line %d)",
		name, v.lastDirty/2+1, pos/2+1)
	return v
}

func (t *straceTruth) clean(seq int, name string) bool { return t.cleanV(seq, name).ok }

// the last fsync of the directory that completed before the marker of event seq (-1: none)
func (t *straceTruth) lastDirSync(seq int) int {
	pos, ok := t.marker[seq]
	if !ok {
		return -1
	}
	r := -1
	for i, d := range t.dirSyncs {
		if d.exit < pos {
			r = i
		}
	}
	return r
}

// names a power loss at the marker of event seq leaves: those of the last completed directory fsync
func (t *straceTruth) durableNames(seq int) []string {
	i := t.lastDirSync(seq)
	if i < 0 {
		return nil
	}
	return t.dirSyncs[i].names
}

// the directory claim of the persist.syncdir.done hook with this seq: a real fsync of the
// directory completed before its marker that no earlier hook has claimed; ls: the durable names
// at that point in the LS format of the event log
func (t *straceTruth) dirSync(seq int) (ls string, ok bool) {
	i, known := t.dirClaim[seq]
	if !known || i < 0 {
		return "", false
	}
	var parts []string
	for _, n := range t.durableNames(seq) {
		parts = append(parts, n+":1")
	}
	return strings.Join(parts, ","), true
}

// the system calls between two positions, for replay records (snapshot copies left out)
func (t *straceTruth) window(from, to, max int) []string {
	lo, hi := from/2, to/2
	if lo < 0 {
		lo = 0
	}
	if hi >= len(t.lines) {
		hi = len(t.lines) - 1
	}
	var out []string
	for i := lo; i <= hi; i++ {
		l := t.lines[i]
		if strings.Contains(l, "MAP_ANONYMOUS") || strings.Contains(l, "--- SIG") || (strings.Contains(l, "/snap/") && !strings.Contains(l, t.dir+"/")) {
			continue
		}
		if len(l) > 220 {
			l = l[:220] + "…"
		}
		out = append(out, fmt.Sprintf("%d: %s", i+1, l))
	}
	if len(out) > max {
		head := max / 3
		out = append(append(append([]string{}, out[:head]...), fmt.Sprintf("… %d lines …", len(out)-max)), out[len(out)-(max-head):]...)
	}
	return out
}
