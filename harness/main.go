// vharness: runs the implementation (built from /repo's working tree with -tags verif) on
// generated cases, writes the Coq case files for the model, evaluates the property oracles.
//
//	vharness <PROP> -seed S -n N -out DIR [-mode corr|search|replay] [-replay FILE]
//
// Outputs in DIR: cases_NNN.v (shards), impl.jsonl (one line per case: id, kind, input hash,
// input), oracle.jsonl (property-oracle failures with signature + replay data), stats.json.
package main

import (
	"bufio"
	"crypto/sha256"
	"encoding/hex"
	"encoding/json"
	"flag"
	"fmt"
	"math/rand"
	"os"
	"path/filepath"
	"sort"
	"strings"
)

type Ctx struct {
	Prop   string
	Seed   int64
	N      int
	Out    string
	Mode   string
	Replay string
	Rng    *rand.Rand

	imports   string // Coq imports for the case files
	runFn     string // Coq run function name
	shardSize int
	shard     int
	inShard   int
	cw        *bufio.Writer
	cf        *os.File
	impl      *bufio.Writer
	implF     *os.File
	orc       *bufio.Writer
	orcF      *os.File
	nCases    int
	nOracle   int
	nFail     int
	kinds     map[string]int
	hashes    map[string]bool
	Extra     map[string]interface{}
	samples   []interface{}
}

type propFn func(c *Ctx) error

var registry = map[string]propFn{}

func register(name string, f propFn) { registry[name] = f }

// ---- Coq term helpers ----
func B(b []byte) string  { return `(hx "` + hex.EncodeToString(b) + `")` }
func Nn(x uint64) string { return fmt.Sprintf("%d", x) }
func Zz(x int64) string {
	if x < 0 {
		return fmt.Sprintf("(%d)%%Z", x)
	}
	return fmt.Sprintf("%d%%Z", x)
}
func Bool(b bool) string {
	if b {
		return "true"
	}
	return "false"
}
func Some(s string) string { return "(Some " + s + ")" }
func ListOf(items []string) string {
	return "[" + strings.Join(items, "; ") + "]"
}

func (c *Ctx) Setup(imports, runFn string) {
	c.imports = imports
	c.runFn = runFn
}

func (c *Ctx) openShard() {
	name := filepath.Join(c.Out, fmt.Sprintf("cases_%03d.v", c.shard))
	f, err := os.Create(name)
	if err != nil {
		panic(err)
	}
	c.cf = f
	c.cw = bufio.NewWriterSize(f, 1<<20)
	fmt.Fprintf(c.cw, "From Coq Require Import String.\nFrom Verif Require Import Bytes Corr %s.\nOpen Scope N_scope.\nOpen Scope string_scope.\nDefinition cases : list (N * case) := [\n", c.imports)
	c.inShard = 0
}

func (c *Ctx) closeShard() {
	if c.cw == nil {
		return
	}
	fmt.Fprintf(c.cw, "\n].\nDefinition R := Eval vm_compute in (check_all %s cases).\nPrint R.\n", c.runFn)
	c.cw.Flush()
	c.cf.Close()
	c.cw = nil
	c.shard++
}

// Case records one correspondence case: `term` is the Coq constructor application carrying
// the input and the implementation's observed result; `input` is a JSON-able canonical
// description of the input (hashed for distinctness, sampled into evidence).
func (c *Ctx) Case(kind string, term string, input interface{}) int {
	if c.cw == nil {
		c.openShard()
	}
	id := c.nCases
	if c.inShard > 0 {
		c.cw.WriteString(";\n")
	}
	fmt.Fprintf(c.cw, "(%d, %s)", id, term)
	c.inShard++
	c.nCases++
	c.kinds[kind]++
	js, _ := json.Marshal(input)
	h := sha256.Sum256(append([]byte(kind+"|"), js...))
	hs := hex.EncodeToString(h[:8])
	c.hashes[hs] = true
	rec := map[string]interface{}{"id": id, "kind": kind, "hash": hs}
	if len(js) < 4000 {
		rec["input"] = json.RawMessage(js)
	}
	out, _ := json.Marshal(rec)
	c.impl.Write(out)
	c.impl.WriteByte('\n')
	if len(c.samples) < 6 && (id%97 == 0 || len(c.samples) < 2) && len(js) < 2000 {
		c.samples = append(c.samples, map[string]interface{}{"kind": kind, "input": json.RawMessage(js)})
	}
	if c.inShard >= c.shardSize {
		c.closeShard()
	}
	return id
}

// Oracle records one evaluation of the property oracle on the implementation's output.
// ok=false is a property violation by the implementation; sig names the failing class
// (matched against known_findings.jsonl), replay is everything needed to re-run it.
func (c *Ctx) Oracle(ok bool, sig string, what string, replay interface{}) {
	c.nOracle++
	if ok {
		return
	}
	c.nFail++
	rec := map[string]interface{}{"property": c.Prop, "sig": sig, "what": what, "seed": c.Seed, "replay": replay}
	out, _ := json.Marshal(rec)
	c.orc.Write(out)
	c.orc.WriteByte('\n')
	c.orc.Flush() // failures must survive a kill of the harness (watchdog of the driver)
}

func (c *Ctx) Count(key string) { c.kinds[key]++ }

func main() {
	if len(os.Args) < 2 {
		fmt.Fprintln(os.Stderr, "usage: vharness <PROP|consts|list> [flags]")
		os.Exit(2)
	}
	prop := os.Args[1]
	if prop == "list" {
		names := []string{}
		for k := range registry {
			names = append(names, k)
		}
		sort.Strings(names)
		fmt.Println(strings.Join(names, " "))
		return
	}
	fs := flag.NewFlagSet("vharness", flag.ExitOnError)
	seed := fs.Int64("seed", 1, "seed")
	n := fs.Int("n", 300, "number of cases")
	out := fs.String("out", "", "output dir")
	mode := fs.String("mode", "corr", "corr|search|replay")
	replay := fs.String("replay", "", "replay file")
	shard := fs.Int("shard", 500, "cases per Coq file")
	fs.Parse(os.Args[2:])
	f, ok := registry[prop]
	if !ok {
		fmt.Fprintf(os.Stderr, "unknown property %s\n", prop)
		os.Exit(2)
	}
	if *out == "" {
		fmt.Fprintln(os.Stderr, "-out required")
		os.Exit(2)
	}
	os.MkdirAll(*out, 0o755)
	c := &Ctx{Prop: prop, Seed: *seed, N: *n, Out: *out, Mode: *mode, Replay: *replay,
		Rng: rand.New(rand.NewSource(*seed)), shardSize: *shard,
		kinds: map[string]int{}, hashes: map[string]bool{}, Extra: map[string]interface{}{}}
	var err error
	c.implF, err = os.Create(filepath.Join(*out, "impl.jsonl"))
	if err != nil {
		panic(err)
	}
	c.impl = bufio.NewWriterSize(c.implF, 1<<20)
	c.orcF, err = os.Create(filepath.Join(*out, "oracle.jsonl"))
	if err != nil {
		panic(err)
	}
	c.orc = bufio.NewWriter(c.orcF)
	runErr := f(c)
	c.closeShard()
	c.impl.Flush()
	c.implF.Close()
	c.orc.Flush()
	c.orcF.Close()
	stats := map[string]interface{}{
		"property": prop, "seed": *seed, "cases": c.nCases, "shards": c.shard,
		"distinct_inputs": len(c.hashes), "oracle_evaluations": c.nOracle, "oracle_failures": c.nFail,
		"distribution": c.kinds, "samples": c.samples, "extra": c.Extra,
	}
	if runErr != nil {
		stats["error"] = runErr.Error()
	}
	js, _ := json.MarshalIndent(stats, "", " ")
	os.WriteFile(filepath.Join(*out, "stats.json"), js, 0o644)
	if runErr != nil {
		fmt.Fprintf(os.Stderr, "vharness %s: %v\n", prop, runErr)
		os.Exit(3)
	}
}

func digest(lines []string) string {
	h := sha256.New()
	for _, l := range lines {
		h.Write([]byte(l))
		h.Write([]byte{10})
	}
	return hex.EncodeToString(h.Sum(nil)[:12])
}
