package main

// C26, placement layer: StreamWriter under a DYNAMIC value threshold (Options.VLogPercentile > 0)
// and, as a control that makes a failure attributable, under a static one.
//
// A streamed entry is consulted twice: by valueLog.write inside StreamWriter.Write (value-log
// record or not) and later by the sorted writer of its stream (inline value or value pointer).
// Between the two the threshold listener recomputes the threshold from the value sizes
// valueLog.write reported.  A life of a scratch database: optional transactions (dropped by
// Prepare), a Prepare session and sometimes a PrepareIncremental session on top, each with 1-3
// streams and 2-5 Write calls whose value-size distribution moves the percentile up (a few big
// values), down (a flood of small values with values between the old and the new threshold at
// the end of the same batch) and across bucket boundaries (lengths threshold-1, threshold,
// threshold+1); Write calls follow each other with and without waiting for the listener.
// After Flush and after re-open every streamed key/version is read back through Get, a
// prefetching all-versions iterator and a lazy one (value, user meta, expiry, version).
//
// Correspondence (Coq: StreamWriterPlace.place_agrees): per entry the harness observes whether a
// value-log record exists and whether the table stores the value inline, and computes the set
// of thresholds that can have been in force at the FIRST consultation (exactly one when the
// listener was idle and the Write call had one stream; otherwise the percentile of every
// prefix of the size lists sent so far, computed on a copy of the listener's histogram); the
// model recomputes both observations from the threshold cached at the first consultation.
//
// Nothing here asserts a particular threshold at a particular time: the listener is asynchronous.

import (
	"bytes"
	"fmt"
	"math/rand"
	"os"
	"path/filepath"
	"runtime"
	"sort"
	"strings"
	"sync/atomic"
	"time"

	badger "github.com/dgraph-io/badger/v4"
	"github.com/dgraph-io/badger/v4/options"
	"github.com/dgraph-io/badger/v4/pb"
	"github.com/dgraph-io/ristretto/v2/z"
)

const plWatchdog = 150 * time.Second

func plSig(base string, dynamic bool) string {
	if dynamic {
		return base + "-under-dynamic-threshold"
	}
	return base + "-static-threshold"
}

// plVal is the value of (key, version) with length n: a function of its arguments, so a replay
// record needs the length only
func plVal(key []byte, ver uint64, n int) []byte {
	b := make([]byte, 0, n+32)
	b = append(b, fmt.Sprintf("%s@%d#%d#", key, ver, n)...)
	for i := len(b); i < n; i++ {
		b = append(b, byte('a'+(i*7+int(ver))%26))
	}
	return b[:n]
}

type plEnt struct {
	Key   []byte
	Ver   uint64
	UMeta byte
	Exp   uint64
	N     int
	sid   uint32
	w     int // index of the Write call in this life
	cands []int64
	// observations
	vrec, inl bool
}

func (e *plEnt) id() string { return fmt.Sprintf("%s@%d", e.Key, e.Ver) }

// ---- the listener's histogram, shadowed ----

type plDelta struct {
	counts []int64
	n      int64
}

type plShadow struct {
	bounds  []float64
	p       float64
	base    plDelta     // the histogram when the listener was last known idle
	pending [][]plDelta // the size lists of the Write calls since (per call: one per request)
}

func (s *plShadow) delta(sizes []int) plDelta {
	h := z.NewHistogramData(s.bounds)
	for _, n := range sizes {
		h.Update(int64(n))
	}
	return plDelta{counts: h.CountPerBucket, n: h.Count}
}

// percentile of base + adds, through the same HistogramData.Percentile the listener calls
func (s *plShadow) pct(adds []plDelta) int64 {
	sum := append([]int64{}, s.base.counts...)
	n := s.base.n
	for _, d := range adds {
		for i, c := range d.counts {
			sum[i] += c
		}
		n += d.n
	}
	h := &z.HistogramData{Bounds: s.bounds, CountPerBucket: sum, Count: n}
	return int64(h.Percentile(s.p))
}

func (s *plShadow) flat() []plDelta {
	var all []plDelta
	for _, w := range s.pending {
		all = append(all, w...)
	}
	return all
}

// eventual threshold once everything sent so far has been processed
func (s *plShadow) eventual() int64 { return s.pct(s.flat()) }

// every threshold that can be in force while valueLog.write consults request r of the call
// `cur`: the listener has processed a prefix of the lists sent so far; the order of the
// requests inside one call is the iteration order of a map, so inside a call: any subset
func (s *plShadow) candsFor(cur []plDelta, r int) []int64 {
	set := map[int64]bool{}
	var prefix []plDelta
	subsets := func(call []plDelta, skip int) {
		var idx []int
		for i := range call {
			if i != skip {
				idx = append(idx, i)
			}
		}
		for m := 0; m < 1<<uint(len(idx)); m++ {
			adds := append([]plDelta{}, prefix...)
			for b, i := range idx {
				if m&(1<<uint(b)) != 0 {
					adds = append(adds, call[i])
				}
			}
			set[s.pct(adds)] = true
		}
	}
	for _, call := range s.pending {
		subsets(call, -1)
		prefix = append(prefix, call...)
	}
	subsets(cur, r)
	return plSorted(set)
}

func plSorted(set map[int64]bool) []int64 {
	var out []int64
	for t := range set {
		out = append(out, t)
	}
	sort.Slice(out, func(i, j int) bool { return out[i] < out[j] })
	return out
}

// ---- results of one life, handed to the main goroutine (the life runs under a watchdog) ----

type plOracle struct {
	ok        bool
	sig, what string
	replay    J
}

type plOut struct {
	oracles  []plOracle
	counts   []string
	caseTerm string
	caseIn   J
	err      error
}

func (o *plOut) oracle(ok bool, sig, what string, replay J) {
	o.oracles = append(o.oracles, plOracle{ok, sig, what, replay})
}

type plLife struct {
	idx     int
	seed    int64
	rng     *rand.Rand
	dynamic bool
	params  J
	opt     badger.Options
	db      *badger.DB
	sh      *plShadow
	vt      int64
	stage   *atomic.Value
	out     *plOut
	ents    []*plEnt // streamed entries the database must hold
	gone    [][]byte // keys written by transactions before Prepare (must be gone)
	wIdx    int
	wThr    [][]int64 // per Write call: every threshold possibly in force during or right after it
	plan    []string
	nKey    int
	mism    int
	memo    map[int][]int64
	memoN   int
	post    []plOracle
}

func (l *plLife) replay(extra J) J {
	r := J{"life": l.idx, "life_seed": l.seed, "dynamic": l.dynamic, "params": l.params, "plan": l.plan}
	for k, v := range extra {
		r[k] = v
	}
	return r
}

// settle: wait for the listener, take its histogram as the new base.  known: nothing but this
// harness's Write calls has fed the listener since the last settle, so the threshold must be
// the percentile the shadow predicts (a cross-check of the candidate computation, counted in
// the evidence; not a property of the implementation)
func (l *plLife) settle(known bool) bool {
	l.stage.Store("VerifThresholdSettle")
	if !l.db.VerifThresholdSettle(60 * time.Second) {
		return false
	}
	h := l.db.VerifThresholdHistogram()
	want := l.sh.eventual()
	l.sh.base = plDelta{counts: append([]int64{}, h.CountPerBucket...), n: h.Count}
	l.sh.pending = nil
	got := l.db.VerifValueThreshold()
	if got != l.sh.eventual() || (known && got != want) {
		l.mism++
	}
	return true
}

func plOptions(dir string, vt int64, pct float64, mem int64, enc []byte, comp options.CompressionType) badger.Options {
	opt := badger.DefaultOptions(dir).WithLoggingLevel(badger.ERROR).WithNumCompactors(0).
		WithCompactL0OnClose(false).WithMetricsEnabled(false).WithValueThreshold(vt).WithVLogPercentile(pct).
		WithMemTableSize(mem).WithValueLogFileSize(1 << 20).WithCompression(comp).WithNumVersionsToKeep(100).
		WithBlockCacheSize(0).WithIndexCacheSize(0)
	if len(enc) > 0 {
		opt = opt.WithEncryptionKey(enc).WithIndexCacheSize(1 << 20)
	}
	if len(enc) > 0 || comp != options.None {
		opt = opt.WithBlockCacheSize(1 << 20)
	}
	return opt
}

type plReq struct {
	sid   uint32
	ents  []*plEnt
	done  bool
	kind  string
	sizes []int
}

func clampSize(n int64) int {
	if n < 0 {
		return 0
	}
	if n > 70000 {
		return 70000
	}
	return int(n)
}

// genReq: the entries of one stream in one Write call; tNow = the threshold that will be in
// force once the listener has caught up with everything sent so far
func (l *plLife) genReq(sid uint32, kind string, tNow int64, verBase uint64) *plReq {
	rng := l.rng
	rq := &plReq{sid: sid, kind: kind}
	var sizes []int
	multi := false
	switch kind {
	case "push": // a few big values: the percentile goes up
		s := []int64{20000, 30000, 50000}[rng.Intn(3)]
		pal := []int64{s, s + int64(rng.Intn(3000)), s - int64(rng.Intn(3000))}
		for i, n := 0, 6+rng.Intn(9); i < n; i++ {
			sizes = append(sizes, clampSize(pal[rng.Intn(3)]))
		}
	case "flood": // many small values pull the percentile down; then values between the thresholds
		cnt := l.sh.flat()
		var total, c0 int64 = l.sh.base.n, l.sh.base.counts[0]
		for _, d := range cnt {
			total += d.n
			c0 += d.counts[0]
		}
		need := int64(400)
		if l.sh.p < 1 && l.sh.p > 0 {
			need = int64((l.sh.p*float64(total+4)-float64(c0))/(1-l.sh.p))*3/2 + 300
		}
		if need < 400 {
			need = 400
		}
		if need > 4000 {
			need = 4000
		}
		small := int(l.vt)
		if small > 24 {
			small = 24
		}
		pal := []int{rng.Intn(small), rng.Intn(small), rng.Intn(small)}
		for i := int64(0); i < need; i++ {
			sizes = append(sizes, pal[rng.Intn(3)])
		}
		var str []int64
		if tNow > l.vt+1 {
			str = []int64{l.vt, l.vt + 1, tNow - 1, (l.vt + tNow) / 2, l.vt + rng.Int63n(tNow-l.vt), tNow, tNow + 1}
		} else {
			str = []int64{l.vt - 1, l.vt, l.vt + 1, l.vt * 3}
		}
		for i, n := 0, 1+rng.Intn(4); i < n; i++ {
			sizes = append(sizes, clampSize(str[rng.Intn(len(str))]))
		}
		if rng.Intn(3) == 0 { // the straddlers in the middle of the flood instead of its end
			k := len(sizes) / 2
			sizes[k], sizes[len(sizes)-1] = sizes[len(sizes)-1], sizes[k]
		}
	case "boundary": // lengths at the bucket boundaries and at the thresholds
		bs := l.sh.bounds
		hi := 1
		for hi < len(bs)-1 && int64(bs[hi]) <= tNow {
			hi++
		}
		if hi+5 < len(bs) {
			hi += 5
		}
		var pal []int64
		for _, t := range []int64{0, 1, l.vt, tNow, int64(bs[rng.Intn(hi+1)]), int64(bs[rng.Intn(hi+1)])} {
			pal = append(pal, t-1, t, t+1)
		}
		for i, n := 0, 6+rng.Intn(25); i < n; i++ {
			sizes = append(sizes, clampSize(pal[rng.Intn(len(pal))]))
		}
		multi = true
	default: // "ramp": lengths spread over and beyond the current threshold
		top := 3*tNow + 10
		if top > 70000 {
			top = 70000
		}
		for i, n := 0, 10+rng.Intn(30); i < n; i++ {
			sizes = append(sizes, clampSize(rng.Int63n(top)))
		}
		multi = true
	}
	now := uint64(time.Now().Unix())
	for i := 0; i < len(sizes); i++ {
		l.nKey++
		key := []byte(fmt.Sprintf("s%03d/%07d", sid, l.nKey))
		ver := verBase + uint64(3+rng.Intn(20))
		nv := 1
		if multi && rng.Intn(4) == 0 {
			nv = 2 + rng.Intn(2)
		}
		for v := 0; v < nv && i < len(sizes); v++ {
			e := &plEnt{Key: key, Ver: ver - uint64(v), UMeta: byte(rng.Intn(256)), N: sizes[i], sid: sid, w: l.wIdx}
			if rng.Intn(5) == 0 {
				e.Exp = now + 1000000 + uint64(rng.Intn(1000))
			}
			rq.ents = append(rq.ents, e)
			rq.sizes = append(rq.sizes, e.N)
			if v+1 < nv {
				i++
			}
		}
	}
	return rq
}

// one StreamWriter run
func (l *plLife) session(incr bool, sess int) error {
	rng := l.rng
	if !l.settle(false) {
		return fmt.Errorf("threshold listener did not settle before Prepare")
	}
	sw := l.db.NewStreamWriter()
	var err error
	if incr {
		l.stage.Store("StreamWriter.PrepareIncremental")
		err = sw.PrepareIncremental()
	} else {
		l.stage.Store("StreamWriter.Prepare")
		err = sw.Prepare()
		l.ents = nil
	}
	if err != nil {
		sw.Cancel()
		return fmt.Errorf("prepare: %w", err)
	}
	if !l.settle(false) {
		return fmt.Errorf("threshold listener did not settle after Prepare")
	}
	l.plan = append(l.plan, fmt.Sprintf("session %d incremental=%v threshold=%d", sess, incr, l.db.VerifValueThreshold()))
	nStreams := 1 + rng.Intn(3)
	var sids []uint32
	for j := 0; j < nStreams; j++ {
		sids = append(sids, uint32(100*sess+10*j+1+rng.Intn(9)))
	}
	closed := map[uint32]bool{}
	nWrites := 2 + rng.Intn(4)
	directed := rng.Intn(10) < 7
	verBase := uint64(10 + 100*sess)
	for w := 0; w < nWrites; w++ {
		settled := w == 0 || (directed && w == 1) || rng.Intn(4) != 0
		if settled {
			if !l.settle(true) {
				return fmt.Errorf("threshold listener did not settle")
			}
		}
		tNow := l.sh.eventual()
		var open []uint32
		for _, s := range sids {
			if !closed[s] {
				open = append(open, s)
			}
		}
		if len(open) == 0 {
			break
		}
		rng.Shuffle(len(open), func(i, j int) { open[i], open[j] = open[j], open[i] })
		k := 1 + rng.Intn(len(open))
		var reqs []*plReq
		for j := 0; j < k; j++ {
			kind := []string{"push", "push", "flood", "flood", "flood", "boundary", "boundary", "boundary", "ramp", "ramp"}[rng.Intn(10)]
			if directed && w == 0 {
				kind = "push"
			}
			if directed && w == 1 {
				kind = []string{"flood", "boundary"}[map[bool]int{true: 0, false: 1}[j == 0]]
			}
			rq := l.genReq(open[j], kind, tNow, verBase)
			if w == nWrites-1 && rng.Intn(2) == 0 || rng.Intn(8) == 0 {
				rq.done = true
				closed[open[j]] = true
			}
			reqs = append(reqs, rq)
		}
		// candidate thresholds of the first consultation, per request
		deltas := make([]plDelta, len(reqs))
		for j, rq := range reqs {
			deltas[j] = l.sh.delta(rq.sizes)
		}
		thr := map[int64]bool{}
		var ds []string
		for j, rq := range reqs {
			cands := l.sh.candsFor(deltas, j)
			for _, e := range rq.ents {
				e.cands = cands
			}
			for _, t := range cands {
				thr[t] = true
			}
			ds = append(ds, fmt.Sprintf("stream %d %s n=%d done=%v cands=%v", rq.sid, rq.kind, len(rq.ents), rq.done, cands))
		}
		// the buffer: the requests interleaved, per-stream order kept, done markers last
		buf := z.NewBuffer(1<<16, "verif-c26-place")
		pos := make([]int, len(reqs))
		for {
			var cand []int
			for j, rq := range reqs {
				if pos[j] < len(rq.ents) {
					cand = append(cand, j)
				}
			}
			if len(cand) == 0 {
				break
			}
			j := cand[rng.Intn(len(cand))]
			for r, run := 0, 1+rng.Intn(50); r < run && pos[j] < len(reqs[j].ents); r++ {
				e := reqs[j].ents[pos[j]]
				pos[j]++
				badger.KVToBuffer(&pb.KV{StreamId: e.sid, Key: e.Key, Value: plVal(e.Key, e.Ver, e.N), Version: e.Ver,
					ExpiresAt: e.Exp, UserMeta: []byte{e.UMeta}}, buf)
			}
		}
		for _, rq := range reqs {
			if rq.done {
				badger.KVToBuffer(&pb.KV{StreamId: rq.sid, StreamDone: true}, buf)
			}
		}
		live := l.db.VerifValueThreshold()
		l.stage.Store(fmt.Sprintf("StreamWriter.Write #%d", l.wIdx))
		err := sw.Write(buf)
		buf.Release()
		if err != nil {
			sw.Cancel()
			return fmt.Errorf("write: %w", err)
		}
		l.sh.pending = append(l.sh.pending, deltas)
		thr[l.sh.eventual()] = true
		l.wThr = append(l.wThr, plSorted(thr))
		l.plan = append(l.plan, fmt.Sprintf("write %d settled=%v live=%d eventual=%d: %s", l.wIdx, settled, live, l.sh.eventual(), strings.Join(ds, "; ")))
		for _, rq := range reqs {
			l.ents = append(l.ents, rq.ents...)
			l.out.counts = append(l.out.counts, "placement request: "+rq.kind)
		}
		l.wIdx++
	}
	l.stage.Store("StreamWriter.Flush")
	if err := sw.Flush(); err != nil {
		return fmt.Errorf("flush: %w", err)
	}
	if !l.settle(true) {
		return fmt.Errorf("threshold listener did not settle after Flush")
	}
	return nil
}

// later: the thresholds in force from Write call w until Flush (at most 8 of them: the
// extremes and a spread of the others; the model's answer does not depend on them)
func (l *plLife) later(w int) []int64 {
	if l.memoN != len(l.wThr) {
		l.memo, l.memoN = map[int][]int64{}, len(l.wThr)
	}
	if r, ok := l.memo[w]; ok {
		return r
	}
	r := l.laterRaw(w)
	l.memo[w] = r
	return r
}

func (l *plLife) laterRaw(w int) []int64 {
	set := map[int64]bool{}
	for i := w; i < len(l.wThr); i++ {
		for _, t := range l.wThr[i] {
			set[t] = true
		}
	}
	all := plSorted(set)
	if len(all) <= 8 {
		return all
	}
	out := []int64{}
	for i := 0; i < 8; i++ {
		out = append(out, all[i*(len(all)-1)/7])
	}
	return out
}

// observe the placement and check that every pointer names the record of its entry
func (l *plLife) observe(phase string) {
	l.stage.Store("dump " + phase)
	mt, imm, levels := l.db.VerifGcPhys()
	phys := map[string][]badger.VerifPhysEntry{}
	add := func(es []badger.VerifPhysEntry) {
		for _, e := range es {
			id := fmt.Sprintf("%s@%d", e.Key, e.Version)
			phys[id] = append(phys[id], e)
		}
	}
	add(mt)
	for _, m := range imm {
		add(m)
	}
	for _, lv := range levels {
		for _, t := range lv {
			add(t.Entries)
		}
	}
	type rec struct {
		fid, off uint32
		val      []byte
	}
	recs := map[string][]rec{}
	for _, fid := range l.db.VerifGcState().Fids {
		rs, _ := l.db.VerifGcRecords(fid)
		for _, r := range rs {
			id := fmt.Sprintf("%s@%d", r.Key, r.Version)
			recs[id] = append(recs[id], rec{fid, r.Offset, r.Value})
		}
	}
	var dangling, stored []string
	for _, e := range l.ents {
		ps := phys[e.id()]
		if len(ps) != 1 {
			stored = append(stored, fmt.Sprintf("%s len %d: stored %d times", e.id(), e.N, len(ps)))
			continue
		}
		p := ps[0]
		e.inl = !p.InVlog
		e.vrec = len(recs[e.id()]) > 0
		if p.InVlog {
			ok := false
			for _, r := range recs[e.id()] {
				if r.fid == p.Fid && r.off == p.Offset && bytes.Equal(r.val, plVal(e.Key, e.Ver, e.N)) {
					ok = true
				}
			}
			if !ok {
				dangling = append(dangling, fmt.Sprintf("%s len %d (write %d, first-consultation thresholds %v, later %v): pointer (fid %d, offset %d), value-log records of the entry: %d",
					e.id(), e.N, e.w, e.cands, l.later(e.w), p.Fid, p.Offset, len(recs[e.id()])))
			}
		}
	}
	n := len(dangling)
	if len(dangling) > 5 {
		dangling = dangling[:5]
	}
	// reported after the read-back oracles of the same phase (the property's own terms first)
	l.post = append(l.post, plOracle{n == 0, plSig("c26-value-pointer-without-vlog-record", l.dynamic),
		"a streamed entry is stored as a value pointer that does not name a value-log record of this entry (valueLog.write did not write the value, the sorted writer stored a pointer)",
		l.replay(J{"phase": phase, "n": n, "entries": dangling})})
	n = len(stored)
	if len(stored) > 5 {
		stored = stored[:5]
	}
	l.post = append(l.post, plOracle{n == 0, plSig("c26-streamed-entry-not-stored-once", l.dynamic),
		"a streamed key/version is not stored exactly once in the tree after Flush", l.replay(J{"phase": phase, "n": n, "entries": stored})})
}

type plBad struct {
	n  int
	ex []string
}

func (b *plBad) add(s string) {
	b.n++
	if len(b.ex) < 5 {
		b.ex = append(b.ex, s)
	}
}

// readBack: Get of the newest version of every key, a prefetching all-versions iterator, a lazy one
func (l *plLife) readBack(phase string) {
	l.stage.Store("read back " + phase)
	want := map[string]*plEnt{}
	newest := map[string]*plEnt{}
	for _, e := range l.ents {
		want[e.id()] = e
		if o, ok := newest[string(e.Key)]; !ok || o.Ver < e.Ver {
			newest[string(e.Key)] = e
		}
	}
	var val, meta, missing, extra, rerr plBad
	where := func(e *plEnt) string {
		return fmt.Sprintf("%s len %d (write %d, inline=%v, value-log record=%v, first-consultation thresholds %v, later %v)", e.id(), e.N, e.w, e.inl, e.vrec, e.cands, l.later(e.w))
	}
	check := func(via string, e *plEnt, it *badger.Item) {
		v, err := it.ValueCopy(nil)
		if err != nil {
			rerr.add(fmt.Sprintf("%s %s: %v", via, where(e), err))
			return
		}
		if !bytes.Equal(v, plVal(e.Key, e.Ver, e.N)) {
			val.add(fmt.Sprintf("%s %s: read %d bytes %q", via, where(e), len(v), tail(string(v), 16)))
		}
		if it.UserMeta() != e.UMeta || it.ExpiresAt() != e.Exp || it.Version() != e.Ver {
			meta.add(fmt.Sprintf("%s %s: user meta %d expiry %d version %d, streamed %d %d %d", via, where(e), it.UserMeta(), it.ExpiresAt(), it.Version(), e.UMeta, e.Exp, e.Ver))
		}
	}
	err := l.db.View(func(txn *badger.Txn) error {
		keys := make([]string, 0, len(newest))
		for k := range newest {
			keys = append(keys, k)
		}
		sort.Strings(keys)
		for _, k := range keys {
			e := newest[k]
			it, err := txn.Get(e.Key)
			if err == badger.ErrKeyNotFound {
				missing.add("Get " + where(e))
				continue
			}
			if err != nil {
				rerr.add(fmt.Sprintf("Get %s: %v", where(e), err))
				continue
			}
			check("Get", e, it)
		}
		for _, k := range l.gone {
			if _, err := txn.Get(k); err != badger.ErrKeyNotFound {
				extra.add(fmt.Sprintf("Get %s (written before Prepare): %v", k, err))
			}
		}
		for pass := 0; pass < 2; pass++ {
			io := badger.IteratorOptions{PrefetchValues: pass == 0, PrefetchSize: 1 + l.rng.Intn(200), AllVersions: true}
			via := []string{"prefetching iterator", "lazy iterator"}[pass]
			itr := txn.NewIterator(io)
			seen := map[string]bool{}
			for itr.Rewind(); itr.Valid(); itr.Next() {
				it := itr.Item()
				id := fmt.Sprintf("%s@%d", it.Key(), it.Version())
				e, ok := want[id]
				if !ok || seen[id] {
					extra.add(via + " " + id)
					continue
				}
				seen[id] = true
				check(via, e, it)
			}
			itr.Close()
			for _, e := range l.ents {
				if !seen[e.id()] {
					missing.add(via + " " + where(e))
				}
			}
		}
		return nil
	})
	if err != nil {
		rerr.add("View: " + err.Error())
	}
	rep := func(b plBad) J { return l.replay(J{"phase": phase, "n": b.n, "entries": b.ex}) }
	l.out.oracle(val.n == 0, plSig("c26-streamed-value-differs", l.dynamic), "a streamed key/version reads back with another value than the streamed one ("+phase+")", rep(val))
	l.out.oracle(meta.n == 0, plSig("c26-streamed-meta-differs", l.dynamic), "a streamed key/version reads back with another user meta, expiry or version than streamed ("+phase+")", rep(meta))
	l.out.oracle(missing.n == 0, plSig("c26-streamed-entry-missing", l.dynamic), "a streamed key/version is not found ("+phase+")", rep(missing))
	l.out.oracle(extra.n == 0, plSig("c26-unstreamed-entry-present", l.dynamic), "a key/version that was not streamed (or was written before Prepare) is read ("+phase+")", rep(extra))
	l.out.oracle(rerr.n == 0, plSig("c26-streamed-read-error", l.dynamic), "reading a streamed key/version fails ("+phase+")", rep(rerr))
	l.out.oracles = append(l.out.oracles, l.post...)
	l.post = nil
}

func zlist(ts []int64) string {
	s := make([]string, len(ts))
	for i, t := range ts {
		s[i] = Zz(t)
	}
	return ListOf(s)
}

func (l *plLife) emitCase() {
	type cls struct {
		term string
		n    int
	}
	m := map[string]*cls{}
	var order []string
	for _, e := range l.ents {
		t := fmt.Sprintf("%s, %s, %s, %s, %s", Zz(int64(e.N)), zlist(e.cands), zlist(l.later(e.w)), Bool(e.vrec), Bool(e.inl))
		if c, ok := m[t]; ok {
			c.n++
		} else {
			m[t] = &cls{t, 1}
			order = append(order, t)
		}
	}
	terms := make([]string, len(order))
	for i, t := range order {
		terms[i] = fmt.Sprintf("(%d, %s)", m[t].n, t)
	}
	l.out.caseTerm = fmt.Sprintf("(SWPlace %s [\n  %s])", Bool(l.dynamic), strings.Join(terms, ";\n  "))
	l.out.caseIn = J{"life": l.idx, "dynamic": l.dynamic, "params": l.params, "entries": len(l.ents), "classes": len(terms), "digest": digest(order)}
}

func plRunLife(idx int, seed int64, dynamic bool, stage *atomic.Value, out *plOut) error {
	rng := rand.New(rand.NewSource(seed))
	l := &plLife{idx: idx, seed: seed, rng: rng, dynamic: dynamic, stage: stage, out: out}
	dir := filepath.Join(os.Getenv("VERIF_SCRATCH_DIR"), fmt.Sprintf("c26place_%d", idx))
	os.RemoveAll(dir)
	defer os.RemoveAll(dir)
	l.vt = []int64{32, 32, 100, 1024}[rng.Intn(4)]
	pct := 0.0
	if dynamic {
		pct = []float64{0.3, 0.5, 0.5, 0.75, 0.9, 0.9, 0.99, 0.999, 1.0}[rng.Intn(9)]
	}
	mem := []int64{1 << 20, 1 << 20, 4 << 20, 16 << 20}[rng.Intn(4)]
	var enc []byte
	if rng.Intn(5) == 0 {
		enc = bytes.Repeat([]byte{byte(1 + rng.Intn(200))}, 32)
	}
	comp := options.None
	if rng.Intn(3) == 0 {
		comp = options.Snappy
	}
	l.opt = plOptions(dir, l.vt, pct, mem, enc, comp)
	l.params = J{"ValueThreshold": l.vt, "VLogPercentile": pct, "MemTableSize": mem, "encrypted": len(enc) > 0, "compression": int(comp)}
	stage.Store("Open")
	db, err := badger.Open(l.opt)
	if err != nil {
		return fmt.Errorf("open: %w", err)
	}
	l.db = db
	closed := false
	defer func() {
		if !closed {
			l.db.Close()
		}
	}()
	h := db.VerifThresholdHistogram()
	l.sh = &plShadow{bounds: h.Bounds, p: db.VerifThresholdPercentile(), base: plDelta{counts: append([]int64{}, h.CountPerBucket...), n: h.Count}}
	// transactions before Prepare: they move the threshold, Prepare drops them and clears the histogram
	if rng.Intn(2) == 0 {
		stage.Store("transactions before Prepare")
		for i, n := 0, 1+rng.Intn(6); i < n; i++ {
			k := []byte(fmt.Sprintf("pre/%03d", i))
			v := plVal(k, 0, []int{10, 500, 5000, 40000}[rng.Intn(4)])
			if err := db.Update(func(txn *badger.Txn) error { return txn.Set(k, v) }); err != nil {
				return fmt.Errorf("update: %w", err)
			}
			l.gone = append(l.gone, k)
		}
		l.plan = append(l.plan, fmt.Sprintf("%d transactions before Prepare", len(l.gone)))
	}
	sessions := 1
	if rng.Intn(3) == 0 {
		sessions = 2
	}
	for s := 0; s < sessions; s++ {
		if err := l.session(s > 0, s+1); err != nil {
			return err
		}
		l.observe(fmt.Sprintf("after Flush %d", s+1))
		l.readBack(fmt.Sprintf("after Flush %d", s+1))
	}
	l.emitCase()
	if l.mism > 0 {
		out.counts = append(out.counts, "placement: threshold differs from the percentile of the histogram copy")
	}
	if dynamic {
		out.counts = append(out.counts, "placement life: dynamic threshold")
		moved := false
		for _, e := range l.ents {
			if e.inl {
				for _, t := range l.later(e.w) {
					if int64(e.N) >= t {
						moved = true
					}
				}
			}
		}
		if moved {
			out.counts = append(out.counts, "placement life: live threshold dropped to or below an inline value before Flush")
		}
	} else {
		out.counts = append(out.counts, "placement life: static threshold (control)")
	}
	stage.Store("Close")
	closed = true
	if err := l.db.Close(); err != nil {
		return fmt.Errorf("close: %w", err)
	}
	stage.Store("re-Open")
	db, err = badger.Open(l.opt)
	if err != nil {
		out.oracle(false, plSig("c26-reopen-failed", dynamic), "the database built by StreamWriter does not open again: "+err.Error(), l.replay(J{}))
		return nil
	}
	l.db = db
	closed = false
	l.readBack("after re-open")
	stage.Store("Close after re-open")
	closed = true
	if err := l.db.Close(); err != nil {
		return fmt.Errorf("close: %w", err)
	}
	return nil
}

// runC26Placement: the lives, each under a watchdog (a call that does not return is an oracle
// failure with the goroutine dump, not a stuck check)
func runC26Placement(c *Ctx) error {
	lives := 13
	if c.N >= 200 {
		lives = 13 + c.N/12
	}
	if c.Mode == "search" {
		lives = 40
	}
	for i := 0; i < lives; i++ {
		dynamic := i%4 != 3
		seed := c.Seed*1000003 + int64(i)*7919 + 26
		var stage atomic.Value
		stage.Store("start")
		out := &plOut{}
		done := make(chan error, 1)
		go func() { done <- plRunLife(i, seed, dynamic, &stage, out) }()
		select {
		case err := <-done:
			for _, k := range out.counts {
				c.Count(k)
			}
			for _, o := range out.oracles {
				c.Oracle(o.ok, o.sig, o.what, o.replay)
			}
			if err != nil {
				c.Oracle(false, "harness-error:swplace", err.Error(), J{"life": i, "life_seed": seed, "dynamic": dynamic, "stage": stage.Load()})
				return err
			}
			if out.caseTerm != "" {
				c.Case("placement-life", out.caseTerm, out.caseIn)
			}
		case <-time.After(plWatchdog):
			buf := make([]byte, 1<<20)
			g := string(buf[:runtime.Stack(buf, true)])
			if len(g) > 8000 {
				g = g[:8000]
			}
			c.Oracle(false, plSig("c26-call-did-not-return", dynamic),
				fmt.Sprintf("a StreamWriter call, a read or Close did not return within %v (stage: %v)", plWatchdog, stage.Load()),
				J{"life": i, "life_seed": seed, "dynamic": dynamic, "stage": stage.Load(), "goroutines": g})
			return nil // the stuck life is abandoned together with the rest of the phase
		}
	}
	return nil
}
