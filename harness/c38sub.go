package main

// C38 (oracle-only phase, child process): ending a subscription that has a backlog. A slow
// subscriber lets more than a thousand batches queue up in its channel (the publisher goroutine
// then blocks on the full channel while holding the publisher's mutex); the subscription is then
// ended through the callback's error or through the context. Subscribe must return, commits must
// keep completing and Close must return. The child prints one line per step; the parent judges.

import (
	"context"
	"errors"
	"fmt"
	"os"
	"os/exec"
	"path/filepath"
	"runtime"
	"strings"
	"sync/atomic"
	"time"

	badger "github.com/dgraph-io/badger/v4"
	"github.com/dgraph-io/badger/v4/pb"
)

func init() {
	dir := os.Getenv("VERIF_C38SUB_CHILD")
	if dir == "" {
		return
	}
	byErr := os.Getenv("VERIF_C38SUB_MODE") == "error"
	opt := badger.DefaultOptions(dir).WithLoggingLevel(badger.ERROR).WithMemTableSize(4 << 20).WithValueLogFileSize(4 << 20).WithValueThreshold(1 << 10)
	db, err := badger.Open(opt)
	if err != nil {
		fmt.Println("C38SUB open-failed", err)
		os.Exit(3)
	}
	watchdog := func(what string, d time.Duration, f func()) bool {
		done := make(chan struct{})
		go func() { f(); close(done) }()
		select {
		case <-done:
			fmt.Println("C38SUB returned", what)
			return true
		case <-time.After(d):
			buf := make([]byte, 1<<18)
			n := runtime.Stack(buf, true)
			fmt.Println("C38SUB HANG", what)
			fmt.Println(string(buf[:n]))
			os.Exit(5)
			return false
		}
	}
	ctx, cancel := context.WithCancel(context.Background())
	var seen atomic.Int64
	release := make(chan struct{})
	subDone := make(chan error, 1)
	go func() {
		subDone <- db.Subscribe(ctx, func(kvs *badger.KVList) error {
			if seen.Add(1) == 1 {
				<-release // slow subscriber: the first batch takes until the backlog has built up
			}
			if byErr {
				return errors.New("subscriber gives up")
			}
			return nil
		}, []pb.Match{{Prefix: []byte("s/")}})
	}()
	time.Sleep(100 * time.Millisecond) // let the subscription register
	// commits in the background until they stall: the subscriber's channel (1000 batches) is full,
	// the publisher blocks on it holding its mutex, the publisher's own queue fills up and the
	// writer waits behind it (back-pressure); at most 8000 commits
	bg := make(chan struct{})
	var progress atomic.Int64
	go func() {
		for i := 0; i < 8000; i++ {
			k := []byte(fmt.Sprintf("s/%06d", i))
			if err := db.Update(func(tx *badger.Txn) error { return tx.Set(k, []byte("v")) }); err != nil {
				fmt.Println("C38SUB commit-error", err)
				break
			}
			progress.Add(1)
		}
		close(bg)
	}()
	stalled := false
	for t0 := time.Now(); time.Since(t0) < 90*time.Second && !stalled; {
		p0 := progress.Load()
		select {
		case <-bg:
			t0 = t0.Add(-time.Hour)
		case <-time.After(500 * time.Millisecond):
			stalled = progress.Load() == p0 && p0 > 1000
		}
	}
	fmt.Println("C38SUB backlog", "commits", progress.Load(), "stalled", stalled)
	if !byErr {
		cancel()
	}
	close(release)
	watchdog("Subscribe after its subscription ended", 20*time.Second, func() { <-subDone })
	// the committers that were waiting behind the blocked publisher must all complete now
	watchdog("the commits that were waiting behind the publisher", 60*time.Second, func() { <-bg })
	watchdog("commits after the subscription ended", 30*time.Second, func() {
		for i := 0; i < 50; i++ {
			db.Update(func(tx *badger.Txn) error { return tx.Set([]byte(fmt.Sprintf("s/after%03d", i)), []byte("v")) })
		}
	})
	watchdog("Close", 30*time.Second, func() { db.Close() })
	cancel()
	fmt.Println("C38SUB ok")
	os.Exit(0)
}

func runC38SubscribeBacklog(c *Ctx) {
	for _, mode := range []string{"error", "cancel", "cancel"} {
		dir := filepath.Join(os.Getenv("VERIF_SCRATCH_DIR"), "c38sub")
		os.RemoveAll(dir)
		os.MkdirAll(dir, 0o755)
		cmd := exec.Command(os.Args[0], "list")
		cmd.Env = append(os.Environ(), "VERIF_C38SUB_CHILD="+dir, "VERIF_C38SUB_MODE="+mode)
		done := make(chan struct{})
		var out []byte
		var err error
		go func() { out, err = cmd.CombinedOutput(); close(done) }()
		select {
		case <-done:
		case <-time.After(200 * time.Second):
			cmd.Process.Kill()
			<-done
		}
		os.RemoveAll(dir)
		s := string(out)
		hang := ""
		if i := strings.Index(s, "C38SUB HANG "); i >= 0 {
			hang = strings.SplitN(s[i+len("C38SUB HANG "):], "\n", 2)[0]
		}
		ok := err == nil && strings.Contains(s, "C38SUB ok")
		sig := "c38-subscribe-with-backlog-does-not-return"
		what := "ending a subscription whose channel is full (slow subscriber, publisher blocked on it): a call did not return"
		if !ok && hang == "" {
			sig, what = "c38-subscribe-backlog-child-failed", "the subscription-backlog child process failed without reporting a hang"
		}
		c.Oracle(ok, sig, what, J{"mode": mode, "call_that_hangs": hang, "child_output": tail(s, 2500)})
		c.Count("subscribe-backlog-" + mode)
	}
}
