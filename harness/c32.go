package main

// C32 — Subscribers get every matching committed write exactly once, in commit order.
// Correspondence: operation sequences on a real trie.Trie (Add / AddMatch / Get / Delete /
// DeleteMatch with ignore strings, numNodes), parseIgnoreBytes on rendered range lists, and
// DB-level histories (Subscribe in goroutines, commits, cancels) compared per subscriber with
// the publisher model (coq/A/Trie.v, coq/A/Publisher.v).
// Property oracle (independent of the model): per subscriber, the deliveries for matching user
// keys are exactly the matching committed writes, once each, in commit order; nothing is
// delivered for a user key matching none of its patterns.

import (
	"bytes"
	"context"
	"encoding/binary"
	"fmt"
	"math"
	"os"
	"path/filepath"
	"sort"
	"strconv"
	"strings"
	"sync"
	"time"

	badger "github.com/dgraph-io/badger/v4"
	"github.com/dgraph-io/badger/v4/pb"
	"github.com/dgraph-io/badger/v4/trie"
	"github.com/dgraph-io/badger/v4/y"
)

func init() { register("C32", runC32) }

type c32rng struct{ s, e int } // e = -1: single index

func (c *Ctx) c32Ranges(maxPos int) []c32rng {
	n := 0
	switch c.Rng.Intn(4) {
	case 0:
		n = 0
	case 1, 2:
		n = 1
	default:
		n = 2 + c.Rng.Intn(2)
	}
	out := []c32rng{}
	for i := 0; i < n; i++ {
		s := c.Rng.Intn(maxPos + 1)
		if c.Rng.Intn(2) == 0 {
			out = append(out, c32rng{s, -1})
		} else {
			e := s + c.Rng.Intn(3)
			if c.Rng.Intn(8) == 0 {
				e = s - 1 - c.Rng.Intn(2) // reversed range: covers nothing
				if e < 0 {
					e = 0
				}
			}
			out = append(out, c32rng{s, e})
		}
	}
	return out
}

func (c *Ctx) c32Render(rs []c32rng) string {
	sp := func() string { return []string{"", "", " ", "  ", "\t"}[c.Rng.Intn(5)] }
	num := func(x int) string {
		if c.Rng.Intn(12) == 0 {
			return "+" + strconv.Itoa(x)
		}
		if c.Rng.Intn(12) == 0 {
			return "0" + strconv.Itoa(x)
		}
		return strconv.Itoa(x)
	}
	parts := []string{}
	for _, r := range rs {
		if r.e < 0 {
			parts = append(parts, sp()+num(r.s)+sp())
		} else {
			parts = append(parts, sp()+num(r.s)+sp()+"-"+sp()+num(r.e)+sp())
		}
	}
	return strings.Join(parts, ",")
}

func c32RangesTerm(rs []c32rng) string {
	it := []string{}
	for _, r := range rs {
		if r.e < 0 {
			it = append(it, fmt.Sprintf("(%d%%nat, None)", r.s))
		} else {
			it = append(it, fmt.Sprintf("(%d%%nat, Some %d%%nat)", r.s, r.e))
		}
	}
	return ListOf(it)
}

// the harness's own reading of a range list (property side)
func c32Bools(rs []c32rng) []bool {
	out := []bool{}
	for _, r := range rs {
		hi := r.s
		if r.e > hi {
			hi = r.e
		}
		for len(out) <= hi {
			out = append(out, false)
		}
		if r.e < 0 {
			out[r.s] = true
		} else {
			for i := r.s; i <= r.e; i++ {
				out[i] = true
			}
		}
	}
	return out
}

// a pattern matches iff it is no longer than the key and agrees on every non-ignored position
func c32Matches(prefix []byte, ig []bool, key []byte) bool {
	if len(prefix) > len(key) {
		return false
	}
	for i, b := range prefix {
		if i < len(ig) && ig[i] {
			continue
		}
		if key[i] != b {
			return false
		}
	}
	return true
}

// canonical pattern: prefix with ignored positions blanked
func c32Path(prefix []byte, ig []bool) string {
	var sb strings.Builder
	for i, b := range prefix {
		if i < len(ig) && ig[i] {
			sb.WriteString("**")
		} else {
			fmt.Fprintf(&sb, "%02x", b)
		}
	}
	return sb.String()
}

var c32Alpha = []byte{'a', 'b', 0xff}

func (c *Ctx) c32Bytes(minLen, maxLen int) []byte {
	n := minLen + c.Rng.Intn(maxLen-minLen+1)
	b := make([]byte, n)
	for i := range b {
		b[i] = c32Alpha[c.Rng.Intn(len(c32Alpha))]
	}
	return b
}

func boolsTerm(bs []bool) string {
	it := []string{}
	for _, b := range bs {
		it = append(it, Bool(b))
	}
	return ListOf(it)
}

func idsTerm(m map[uint64]struct{}) (string, []uint64) {
	ids := []uint64{}
	for id := range m {
		ids = append(ids, id)
	}
	sort.Slice(ids, func(i, j int) bool { return ids[i] < ids[j] })
	it := []string{}
	for _, id := range ids {
		it = append(it, Nn(id))
	}
	return ListOf(it), ids
}

var c32Malformed = []string{"a", "1-", "-1", "1-2-3", " ", ",", "1,,2", "1 2", "0x1", "1,", "-", "1--2", "1.5", "２", "1-a", "9999999999999999999999"}

// ---- function-level: one trie, a sequence of operations and probes ----
func (c *Ctx) c32TrieSeq() {
	type J = map[string]interface{}
	t := trie.NewTrie()
	type pair struct {
		path string
		pre  []byte
		ig   []bool
		id   uint64
	}
	live := []pair{}
	steps := []string{}
	summary := []string{}
	prefixes := [][]byte{}
	expect := func(key []byte) []uint64 {
		set := map[uint64]bool{}
		for _, p := range live {
			if c32Matches(p.pre, p.ig, key) {
				set[p.id] = true
			}
		}
		out := []uint64{}
		for id := range set {
			out = append(out, id)
		}
		sort.Slice(out, func(i, j int) bool { return out[i] < out[j] })
		return out
	}
	probe := func() []byte {
		if len(prefixes) > 0 && c.Rng.Intn(3) > 0 {
			p := prefixes[c.Rng.Intn(len(prefixes))]
			k := append(append([]byte{}, p...), c.c32Bytes(0, 2)...)
			if len(k) > 0 && c.Rng.Intn(2) == 0 {
				k[c.Rng.Intn(len(k))] = c32Alpha[c.Rng.Intn(len(c32Alpha))]
			}
			if len(k) > 0 && c.Rng.Intn(6) == 0 {
				k = k[:len(k)-1]
			}
			return k
		}
		return c.c32Bytes(0, 5)
	}
	n := 4 + c.Rng.Intn(12)
	for i := 0; i < n; i++ {
		r := c.Rng.Intn(100)
		switch {
		case r < 35: // add
			pre := c.c32Bytes(0, 4)
			if len(prefixes) > 0 && c.Rng.Intn(3) == 0 {
				pre = append([]byte{}, prefixes[c.Rng.Intn(len(prefixes))]...)
				if len(pre) > 0 && c.Rng.Intn(2) == 0 {
					pre[c.Rng.Intn(len(pre))] = c32Alpha[c.Rng.Intn(len(c32Alpha))]
				}
			}
			id := uint64(1 + c.Rng.Intn(4))
			rs := c.c32Ranges(5)
			if c.Rng.Intn(3) == 0 {
				rs = nil
			}
			var err error
			if len(rs) == 0 && c.Rng.Intn(2) == 0 {
				t.Add(pre, id)
			} else {
				err = t.AddMatch(pb.Match{Prefix: pre, IgnoreBytes: c.c32Render(rs)}, id)
			}
			if err != nil {
				c.Oracle(false, "trie-wellformed-ignore-rejected", "AddMatch rejected a well-formed ignore string", J{"ranges": fmt.Sprint(rs), "err": err.Error()})
				continue
			}
			ig := c32Bools(rs)
			live = append(live, pair{c32Path(pre, ig), pre, ig, id})
			prefixes = append(prefixes, pre)
			steps = append(steps, fmt.Sprintf("(SAdd %s %s %d)", B(pre), c32RangesTerm(rs), id))
			summary = append(summary, fmt.Sprintf("add:%x:%v:%d", pre, rs, id))
		case r < 55: // delete
			var pre []byte
			var rs []c32rng
			id := uint64(1 + c.Rng.Intn(4))
			if len(live) > 0 && c.Rng.Intn(4) > 0 {
				p := live[c.Rng.Intn(len(live))]
				pre = append([]byte{}, p.pre...)
				for j, b := range p.ig {
					if b {
						rs = append(rs, c32rng{j, -1})
						if j < len(pre) && c.Rng.Intn(2) == 0 {
							pre[j] = 'z' // a different byte at an ignored position: same pattern
						}
					}
				}
				if c.Rng.Intn(3) > 0 {
					id = p.id
				}
			} else {
				pre = c.c32Bytes(0, 4)
				rs = c.c32Ranges(4)
			}
			var err error
			if len(rs) == 0 && c.Rng.Intn(2) == 0 {
				err = t.Delete(pre, id)
			} else {
				err = t.DeleteMatch(pb.Match{Prefix: pre, IgnoreBytes: c.c32Render(rs)}, id)
			}
			if err != nil {
				c.Oracle(false, "trie-wellformed-ignore-rejected", "DeleteMatch rejected a well-formed ignore string", J{"ranges": fmt.Sprint(rs)})
				continue
			}
			path := c32Path(pre, c32Bools(rs))
			nl := live[:0:0]
			for _, p := range live {
				if !(p.path == path && p.id == id) {
					nl = append(nl, p)
				}
			}
			live = nl
			steps = append(steps, fmt.Sprintf("(SDel %s %s %d)", B(pre), c32RangesTerm(rs), id))
			summary = append(summary, fmt.Sprintf("del:%x:%v:%d", pre, rs, id))
		case r < 62: // malformed ignore string: error, trie unchanged
			key := probe()
			before, _ := idsTerm(t.Get(key))
			nb := trie.VerifNumNodes(t)
			bad := c32Malformed[c.Rng.Intn(len(c32Malformed))]
			var err error
			if c.Rng.Intn(2) == 0 {
				err = t.AddMatch(pb.Match{Prefix: c.c32Bytes(0, 3), IgnoreBytes: bad}, 9)
			} else {
				err = t.DeleteMatch(pb.Match{Prefix: c.c32Bytes(0, 3), IgnoreBytes: bad}, uint64(1+c.Rng.Intn(4)))
			}
			after, _ := idsTerm(t.Get(key))
			c.Oracle(err != nil && before == after && nb == trie.VerifNumNodes(t), "trie-malformed-ignore-accepted",
				"a malformed IgnoreBytes string was accepted or changed the trie", J{"ignore": bad})
			c.Count("trie-malformed-ignore")
		case r < 93: // get
			key := probe()
			term, ids := idsTerm(t.Get(key))
			steps = append(steps, fmt.Sprintf("(SGet %s %s)", B(key), term))
			summary = append(summary, fmt.Sprintf("get:%x", key))
			c.Oracle(fmt.Sprint(ids) == fmt.Sprint(expect(key)), "trie-get-mismatch",
				"Trie.Get differs from {id | a live pattern of id matches the key}", J{"ops": summary, "key": key, "got": ids, "want": expect(key)})
		default:
			steps = append(steps, fmt.Sprintf("(SNum %d)", trie.VerifNumNodes(t)))
			summary = append(summary, "num")
		}
	}
	// final probes
	for j := 0; j < 2; j++ {
		key := probe()
		term, ids := idsTerm(t.Get(key))
		steps = append(steps, fmt.Sprintf("(SGet %s %s)", B(key), term))
		summary = append(summary, fmt.Sprintf("get:%x", key))
		c.Oracle(fmt.Sprint(ids) == fmt.Sprint(expect(key)), "trie-get-mismatch",
			"Trie.Get differs from {id | a live pattern of id matches the key}", J{"ops": summary, "key": key, "got": ids, "want": expect(key)})
	}
	steps = append(steps, fmt.Sprintf("(SNum %d)", trie.VerifNumNodes(t)))
	c.Case("TrieSeq", fmt.Sprintf("(TrieSeq %s)", ListOf(steps)), J{"ops": summary})
}

// ---- DB level ----
type c32kv struct {
	Key, Val []byte
	Umeta    byte
	Expires  uint64
	Version  uint64
}

type c32match struct {
	pre []byte
	rs  []c32rng
	ig  []bool
}

type c32sub struct {
	id        uint64
	ms        []c32match
	cancel    context.CancelFunc
	done      chan struct{}
	mu        sync.Mutex
	got       []c32kv
	sentinels int
	needSent  int
	from, to  int // commit indexes [from, to)
	active    bool
}

var c32Sentinel = []byte{0, 0, 'S'}

type c32db struct {
	db      *badger.DB
	managed bool
	watcher *c32sub
	nextTs  uint64
	sentNo  uint64
}

func (d *c32db) subscribe(ms []c32match) (*c32sub, error) {
	s := &c32sub{ms: ms, done: make(chan struct{}), active: true}
	matches := []pb.Match{{Prefix: c32Sentinel}}
	for _, m := range ms {
		matches = append(matches, pb.Match{Prefix: m.pre, IgnoreBytes: c32RenderPlain(m.rs)})
	}
	s.id = badger.VerifPublisherNextID(d.db)
	before := badger.VerifNumSubscribers(d.db)
	ctx, cancel := context.WithCancel(context.Background())
	s.cancel = cancel
	go func() {
		defer close(s.done)
		_ = d.db.Subscribe(ctx, func(kvs *badger.KVList) error {
			s.mu.Lock()
			defer s.mu.Unlock()
			for _, kv := range kvs.Kv {
				o := c32kv{Key: append([]byte{}, kv.Key...), Val: append([]byte{}, kv.Value...), Expires: kv.ExpiresAt, Version: kv.Version}
				if len(kv.Meta) > 0 {
					o.Umeta = kv.Meta[0]
				}
				s.got = append(s.got, o)
				if bytes.HasPrefix(kv.Key, c32Sentinel) {
					s.sentinels++
				}
			}
			return nil
		}, matches)
	}()
	deadline := time.Now().Add(5 * time.Second)
	for badger.VerifNumSubscribers(d.db) != before+1 {
		if time.Now().After(deadline) {
			return nil, fmt.Errorf("subscriber did not register")
		}
		time.Sleep(200 * time.Microsecond)
	}
	return s, nil
}

func c32RenderPlain(rs []c32rng) string {
	parts := []string{}
	for _, r := range rs {
		if r.e < 0 {
			parts = append(parts, strconv.Itoa(r.s))
		} else {
			parts = append(parts, fmt.Sprintf("%d - %d", r.s, r.e))
		}
	}
	return strings.Join(parts, ", ")
}

type c32entry struct {
	key, val []byte
	umeta    byte
	expires  uint64
	del      bool
}

// commits one transaction; returns the entries of the request (incl. the end marker) in
// ascending user-key order and the commit timestamp
func (d *c32db) commit(es []c32entry) ([]c32kv, uint64, error) {
	var txn *badger.Txn
	var ts uint64
	if d.managed {
		txn = d.db.NewTransactionAt(math.MaxUint64, true)
		ts = d.nextTs
	} else {
		txn = d.db.NewTransaction(true)
	}
	defer txn.Discard()
	for _, e := range es {
		var err error
		if e.del {
			err = txn.Delete(e.key)
		} else {
			ent := badger.NewEntry(e.key, e.val).WithMeta(e.umeta)
			ent.ExpiresAt = e.expires
			err = txn.SetEntry(ent)
		}
		if err != nil {
			return nil, 0, err
		}
	}
	var err error
	if d.managed {
		err = txn.CommitAt(ts, nil)
	} else {
		ts = badger.VerifNextTxnTs(d.db)
		err = txn.Commit()
	}
	if err != nil {
		return nil, 0, err
	}
	out := []c32kv{}
	seen := map[string]int{}
	for _, e := range es { // later writes of the same key replace earlier ones
		o := c32kv{Key: e.key, Val: e.val, Umeta: e.umeta, Expires: e.expires, Version: ts}
		if e.del {
			o.Val, o.Umeta, o.Expires = nil, 0, 0
		}
		if i, ok := seen[string(e.key)]; ok {
			out[i] = o
		} else {
			seen[string(e.key)] = len(out)
			out = append(out, o)
		}
	}
	out = append(out, c32kv{Key: []byte("!badger!txn"), Val: []byte(strconv.FormatUint(ts, 10)), Version: ts})
	sort.Slice(out, func(i, j int) bool { return bytes.Compare(out[i].Key, out[j].Key) < 0 })
	return out, ts, nil
}

func c32KVTerm(k c32kv) string {
	return fmt.Sprintf("(mkKV %s %s %d %d %d)", B(k.Key), B(k.Val), k.Umeta, k.Expires, k.Version)
}

func c32PETerm(k c32kv) string {
	return fmt.Sprintf("(mkPE %s %s %d %d)", B(y.KeyWithTs(k.Key, k.Version)), B(k.Val), k.Umeta, k.Expires)
}

func (c *Ctx) c32Pub(d *c32db, witness bool) error {
	type J = map[string]interface{}
	base := badger.VerifPublisherNextID(d.db)
	evs := []string{}
	summary := []string{}
	subs := []*c32sub{}
	commits := [][]c32kv{}
	usedKeys := [][]byte{}

	sync1 := func() error {
		d.sentNo++
		key := append(append([]byte{}, c32Sentinel...), []byte(strconv.FormatUint(d.sentNo, 10))...)
		if d.managed {
			d.nextTs = c.c32NextTs(d)
		}
		ents, _, err := d.commit([]c32entry{{key: key, val: []byte("s")}})
		if err != nil {
			return err
		}
		commits = append(commits, ents)
		pes := []string{}
		for _, k := range ents {
			pes = append(pes, c32PETerm(k))
		}
		evs = append(evs, fmt.Sprintf("(ECommit %s)", ListOf(pes)))
		summary = append(summary, "sync")
		all := append([]*c32sub{d.watcher}, subs...)
		for _, s := range all {
			if !s.active {
				continue
			}
			s.mu.Lock()
			s.needSent++
			s.mu.Unlock()
		}
		deadline := time.Now().Add(10 * time.Second)
		for _, s := range all {
			if !s.active {
				continue
			}
			for {
				s.mu.Lock()
				ok := s.sentinels >= s.needSent
				s.mu.Unlock()
				if ok {
					break
				}
				if time.Now().After(deadline) {
					return fmt.Errorf("subscriber %d did not receive the sentinel", s.id)
				}
				time.Sleep(200 * time.Microsecond)
			}
		}
		return nil
	}
	addSub := func(ms []c32match) error {
		if err := sync1(); err != nil {
			return err
		}
		s, err := d.subscribe(ms)
		if err != nil {
			return err
		}
		s.from = len(commits)
		subs = append(subs, s)
		it := []string{fmt.Sprintf("(%s, [])", B(c32Sentinel))}
		sm := []string{}
		for _, m := range ms {
			it = append(it, fmt.Sprintf("(%s, %s)", B(m.pre), c32RangesTerm(m.rs)))
			sm = append(sm, fmt.Sprintf("%x/%v", m.pre, m.rs))
		}
		evs = append(evs, fmt.Sprintf("(ESub %s)", ListOf(it)))
		summary = append(summary, "sub:"+strings.Join(sm, ";"))
		return nil
	}
	unsub := func(s *c32sub) error {
		if err := sync1(); err != nil {
			return err
		}
		s.cancel()
		<-s.done
		s.active = false
		s.to = len(commits)
		evs = append(evs, fmt.Sprintf("(EUnsub %d)", s.id))
		summary = append(summary, fmt.Sprintf("unsub:%d", s.id))
		return nil
	}
	genMatches := func() []c32match {
		ms := []c32match{}
		n := 1 + c.Rng.Intn(3)
		for i := 0; i < n; i++ {
			pre := c.c32Bytes(0, 3)
			if len(usedKeys) > 0 && c.Rng.Intn(2) == 0 {
				// a key of this history extended into where the version suffix will be
				pre = append(append([]byte{}, usedKeys[c.Rng.Intn(len(usedKeys))]...), c.c32Bytes(0, 2)...)
			}
			rs := c.c32Ranges(3)
			if c.Rng.Intn(2) == 0 {
				rs = nil
			}
			ms = append(ms, c32match{pre, rs, c32Bools(rs)})
		}
		return ms
	}

	if witness {
		// finding F13: pattern "a\xff" is longer than user key "a" and matches into the version
		// suffix (MaxUint64 - ts, big endian: 0xff.. for small ts)
		if err := addSub([]c32match{{pre: []byte("a\xff")}}); err != nil {
			return err
		}
		if d.managed {
			d.nextTs = 5
		}
		ents, _, err := d.commit([]c32entry{{key: []byte("a"), val: []byte("v")}})
		if err != nil {
			return err
		}
		commits = append(commits, ents)
		pes := []string{}
		for _, k := range ents {
			pes = append(pes, c32PETerm(k))
		}
		evs = append(evs, fmt.Sprintf("(ECommit %s)", ListOf(pes)))
		summary = append(summary, "commit:a")
	} else {
		// a few keys first so that patterns can be derived from them
		for i := 0; i < 3; i++ {
			usedKeys = append(usedKeys, c.c32Bytes(1, 3))
		}
		nsub := 1 + c.Rng.Intn(3)
		for i := 0; i < nsub; i++ {
			if err := addSub(genMatches()); err != nil {
				return err
			}
		}
		nsteps := 3 + c.Rng.Intn(6)
		for i := 0; i < nsteps; i++ {
			r := c.Rng.Intn(100)
			switch {
			case r < 70:
				n := 1 + c.Rng.Intn(3)
				es := []c32entry{}
				sm := []string{}
				for j := 0; j < n; j++ {
					k := usedKeys[c.Rng.Intn(len(usedKeys))]
					if c.Rng.Intn(3) == 0 {
						k = c.c32Bytes(1, 3)
						usedKeys = append(usedKeys, k)
					}
					e := c32entry{key: k, val: c.rawBytes(4)}
					switch c.Rng.Intn(5) {
					case 0:
						e.del = true
					case 1:
						e.umeta = byte(c.Rng.Intn(256))
						e.expires = []uint64{0, 1, uint64(time.Now().Unix()) + 100000, math.MaxUint64}[c.Rng.Intn(4)]
					}
					es = append(es, e)
					sm = append(sm, fmt.Sprintf("%x", k))
				}
				if d.managed {
					d.nextTs = c.c32NextTs(d)
				}
				ents, ts, err := d.commit(es)
				if err != nil {
					return err
				}
				commits = append(commits, ents)
				pes := []string{}
				for _, k := range ents {
					pes = append(pes, c32PETerm(k))
				}
				evs = append(evs, fmt.Sprintf("(ECommit %s)", ListOf(pes)))
				summary = append(summary, fmt.Sprintf("commit@%d:%s", ts, strings.Join(sm, ",")))
			case r < 85:
				if err := addSub(genMatches()); err != nil {
					return err
				}
			default:
				act := []*c32sub{}
				for _, s := range subs {
					if s.active {
						act = append(act, s)
					}
				}
				if len(act) > 0 {
					if err := unsub(act[c.Rng.Intn(len(act))]); err != nil {
						return err
					}
				}
			}
		}
	}
	// final synchronisation, then cancel everybody
	if err := sync1(); err != nil {
		return err
	}
	for _, s := range subs {
		if s.active {
			s.cancel()
			<-s.done
			s.active = false
			s.to = len(commits)
			evs = append(evs, fmt.Sprintf("(EUnsub %d)", s.id))
		}
	}
	obs := []string{}
	for _, s := range subs {
		// canonicalisation: the entries of one request share a version and are applied in Go map
		// order; order each same-version run by user key
		got := append([]c32kv{}, s.got...)
		for i := 0; i < len(got); {
			j := i
			for j < len(got) && got[j].Version == got[i].Version {
				j++
			}
			run := got[i:j]
			sort.SliceStable(run, func(a, b int) bool { return bytes.Compare(run[a].Key, run[b].Key) < 0 })
			i = j
		}
		kt := []string{}
		for _, k := range got {
			kt = append(kt, c32KVTerm(k))
		}
		obs = append(obs, fmt.Sprintf("(%d, %s)", s.id, ListOf(kt)))
		// ---- property oracle ----
		matchAny := func(key []byte) bool {
			if bytes.HasPrefix(key, c32Sentinel) {
				return true
			}
			for _, m := range s.ms {
				if c32Matches(m.pre, m.ig, key) {
					return true
				}
			}
			return false
		}
		want := []c32kv{}
		for ci := s.from; ci < s.to; ci++ {
			for _, k := range commits[ci] {
				if !bytes.HasPrefix(k.Key, []byte("!badger!")) && matchAny(k.Key) {
					want = append(want, k)
				}
			}
		}
		gotMatching := []c32kv{}
		rep := J{"db_managed": d.managed, "history": summary, "subscriber": s.id}
		for _, k := range got {
			if bytes.HasPrefix(k.Key, []byte("!badger!")) {
				continue // the end marker of a commit is an internal key, not a user write
			}
			if matchAny(k.Key) {
				gotMatching = append(gotMatching, k)
				continue
			}
			ik := y.KeyWithTs(k.Key, k.Version)
			viaSuffix := false
			for _, m := range s.ms {
				viaSuffix = viaSuffix || c32Matches(m.pre, m.ig, ik)
			}
			rep2 := J{"db_managed": d.managed, "history": summary, "subscriber": s.id, "key": fmt.Sprintf("%x", k.Key), "version": k.Version}
			if viaSuffix {
				c.Oracle(false, "F13-subscriber-match-into-version-suffix",
					"a subscriber received a write whose user key matches none of its patterns (a pattern longer than the user key matched the version suffix of the internal key)", rep2)
			} else {
				c.Oracle(false, "subscriber-spurious-delivery", "a subscriber received a write whose user key matches none of its patterns", rep2)
			}
		}
		same := len(want) == len(gotMatching)
		for i := 0; same && i < len(want); i++ {
			a, b := want[i], gotMatching[i]
			same = bytes.Equal(a.Key, b.Key) && bytes.Equal(a.Val, b.Val) && a.Umeta == b.Umeta && a.Expires == b.Expires && a.Version == b.Version
		}
		c.Oracle(same, "subscriber-missing-duplicate-or-misordered",
			"the deliveries for matching user keys are not exactly the matching committed writes, once each, in commit order", rep)
	}
	kind := "PubNormal"
	if d.managed {
		kind = "PubManaged"
	}
	if witness {
		kind += "Witness"
	}
	c.Case(kind, fmt.Sprintf("(PubCase %s %d %s %s)", Bool(c32UserKeyLookup()), base, ListOf(evs), ListOf(obs)), J{"managed": d.managed, "history": summary})
	return nil
}

// distinct commit timestamps for the managed DB; some are chosen so that the version suffix
// (MaxUint64 - ts, big endian) starts with bytes of the key alphabet
func (c *Ctx) c32NextTs(d *c32db) uint64 {
	d.sentNo++
	switch c.Rng.Intn(3) {
	case 0:
		var b [8]byte
		for i := range b {
			b[i] = c32Alpha[c.Rng.Intn(len(c32Alpha))]
		}
		// low bytes from a counter keep the timestamps distinct
		binary.BigEndian.PutUint32(b[4:], uint32(d.sentNo))
		return math.MaxUint64 - binary.BigEndian.Uint64(b[:])
	case 1:
		return 1000 + d.sentNo
	default:
		return (uint64(c.Rng.Intn(1<<20)) << 32) | d.sentNo
	}
}

func runC32(c *Ctx) error {
	c.Setup("Keys Trie Publisher CorrC32", "run_case")
	type J = map[string]interface{}
	scratch := os.Getenv("VERIF_SCRATCH_DIR")
	if scratch == "" {
		scratch = os.TempDir()
	}
	dbs := []*c32db{}
	for _, managed := range []bool{false, true} {
		dir := filepath.Join(scratch, fmt.Sprintf("c32_%v", managed))
		os.RemoveAll(dir)
		o := badger.DefaultOptions(dir).WithLoggingLevel(badger.ERROR)
		var db *badger.DB
		var err error
		if managed {
			db, err = badger.OpenManaged(o)
		} else {
			db, err = badger.Open(o)
		}
		if err != nil {
			return err
		}
		defer db.Close()
		d := &c32db{db: db, managed: managed}
		// permanent watcher: keeps the publisher running and lets every history synchronise
		w, err := d.subscribe(nil)
		if err != nil {
			return err
		}
		d.watcher = w
		defer func() { w.cancel(); <-w.done }()
		dbs = append(dbs, d)
	}
	// replayed refutation witness (finding F13) on both DBs
	for _, d := range dbs {
		if err := c.c32Pub(d, true); err != nil {
			return err
		}
	}
	for i := 0; c.nCases < c.N; i++ {
		switch i % 10 {
		case 0, 1, 2, 3, 4:
			c.c32TrieSeq()
		case 5, 6:
			rs := c.c32Ranges(9)
			s := c.c32Render(rs)
			out, err := trie.VerifParseIgnoreBytes(s)
			if err != nil {
				c.Oracle(false, "trie-wellformed-ignore-rejected", "parseIgnoreBytes rejected a well-formed string", J{"s": s})
				continue
			}
			c.Case("ParseIg", fmt.Sprintf("(ParseIg %s %s)", c32RangesTerm(rs), boolsTerm(out)), J{"s": s})
			c.Oracle(fmt.Sprint(out) == fmt.Sprint(c32Bools(rs)) || (len(out) == 0 && len(rs) == 0), "parse-ignore-mismatch",
				"parseIgnoreBytes differs from the documented meaning of the range list", J{"s": s, "got": out})
			if i%20 == 5 {
				bad := c32Malformed[c.Rng.Intn(len(c32Malformed))]
				_, err := trie.VerifParseIgnoreBytes(bad)
				c.Oracle(err != nil, "trie-malformed-ignore-accepted", "parseIgnoreBytes accepted a malformed string", J{"s": bad})
			}
		default:
			if err := c.c32Pub(dbs[c.Rng.Intn(2)], false); err != nil {
				return err
			}
		}
	}
	return nil
}

// c32UserKeyLookup reports what the implementation does NOW about finding F13: it replays the
// witness (subscriber with prefix "a\xff", one write of key "a") on a scratch in-memory DB and
// returns true iff the subscriber receives nothing (the trie is queried with the user key).
var c32FixDetected *bool

func c32UserKeyLookup() bool {
	if c32FixDetected != nil {
		return *c32FixDetected
	}
	res := false
	db, err := badger.Open(badger.DefaultOptions("").WithInMemory(true).WithLoggingLevel(badger.ERROR))
	if err == nil {
		ctx, cancel := context.WithCancel(context.Background())
		got := make(chan int, 16)
		ready := make(chan struct{})
		go func() {
			close(ready)
			_ = db.Subscribe(ctx, func(kvs *badger.KVList) error {
				got <- len(kvs.Kv)
				return nil
			}, []pb.Match{{Prefix: []byte("a\xff")}})
		}()
		<-ready
		// wait until the subscriber is registered
		for i := 0; i < 200 && badger.VerifNumSubscribers(db) == 0; i++ {
			time.Sleep(5 * time.Millisecond)
		}
		_ = db.Update(func(txn *badger.Txn) error { return txn.Set([]byte("a"), []byte("v")) })
		select {
		case <-got:
			res = false
		case <-time.After(300 * time.Millisecond):
			res = true
		}
		cancel()
		db.Close()
	}
	c32FixDetected = &res
	return res
}
