package main

// C11 (oracle-only phase): DB.Load re-initialises the timestamp oracle from the loaded data, like
// a re-open does from the stored data: afterwards every new commit must get a timestamp above
// every loaded version — whatever kind of entry carries the largest version (a delete marker, an
// expired entry, a discard-earlier entry) — and must be visible, now and after a re-open.

import (
	"bytes"
	"fmt"
	"os"
	"path/filepath"

	badger "github.com/dgraph-io/badger/v4"
)

func runC11LoadOracle(c *Ctx) error {
	for r := 0; r < 4; r++ {
		src := filepath.Join(os.Getenv("VERIF_SCRATCH_DIR"), fmt.Sprintf("c11ld_src_%d", r))
		dst := filepath.Join(os.Getenv("VERIF_SCRATCH_DIR"), fmt.Sprintf("c11ld_dst_%d", r))
		os.RemoveAll(src)
		os.RemoveAll(dst)
		o := sysOpts{NKeep: 1, MaxLevels: 4, VThreshold: 32, TableSize: 1 << 20, BaseLevelSize: 8 << 10}
		sdb, err := openSysDB(src, o)
		if err != nil {
			return err
		}
		up := func(f func(tx *badger.Txn) error) error { return sdb.Update(f) }
		if err := up(func(tx *badger.Txn) error { return tx.Set([]byte("a"), []byte("1")) }); err != nil {
			return err
		}
		if err := up(func(tx *badger.Txn) error { return tx.Set([]byte("b"), []byte("2")) }); err != nil {
			return err
		}
		// the entry with the largest version
		top := []string{"delete", "expired", "discard-earlier", "plain"}[r]
		err = up(func(tx *badger.Txn) error {
			switch top {
			case "delete":
				return tx.Delete([]byte("b"))
			case "expired":
				e := badger.NewEntry([]byte("b"), []byte("gone"))
				e.ExpiresAt = 1
				return tx.SetEntry(e)
			case "discard-earlier":
				return tx.SetEntry(badger.NewEntry([]byte("b"), []byte("3")).WithDiscard())
			default:
				return tx.Set([]byte("b"), []byte("3"))
			}
		})
		if err != nil {
			return err
		}
		srcMax := sdb.MaxVersion()
		var buf bytes.Buffer
		if _, err := sdb.Backup(&buf, 0); err != nil {
			return err
		}
		sdb.Close()
		os.RemoveAll(src)
		ddb, err := openSysDB(dst, o)
		if err != nil {
			return err
		}
		if err := ddb.Load(bytes.NewReader(buf.Bytes()), 16); err != nil {
			return fmt.Errorf("c11load: %v", err)
		}
		next := ddb.VerifNextTs()
		c.Oracle(next > srcMax, "c11-next-ts-after-load-not-above-loaded-version",
			"after DB.Load the next commit timestamp is not above the largest loaded version",
			J{"largest_version_carried_by": top, "largest_loaded_version": srcMax, "next_ts": next})
		// a new commit of the same key must win, now and after a re-open
		if err := ddb.Update(func(tx *badger.Txn) error { return tx.Set([]byte("b"), []byte("new")) }); err != nil {
			return err
		}
		read := func(db *badger.DB) (string, uint64) {
			v, ver := "<not found>", uint64(0)
			db.View(func(tx *badger.Txn) error {
				if it, err := tx.Get([]byte("b")); err == nil {
					b, _ := it.ValueCopy(nil)
					v, ver = string(b), it.Version()
				}
				return nil
			})
			return v, ver
		}
		v, ver := read(ddb)
		c.Oracle(v == "new" && ver > srcMax, "c11-commit-after-load-not-visible",
			"a commit made after DB.Load is not the visible version of its key (its timestamp is not above the loaded versions)",
			J{"largest_version_carried_by": top, "largest_loaded_version": srcMax, "read": v, "version": ver})
		if err := ddb.Close(); err != nil {
			return err
		}
		ddb, err = openSysDB(dst, o)
		if err != nil {
			return err
		}
		v, ver = read(ddb)
		c.Oracle(v == "new" && ver > srcMax, "c11-commit-after-load-not-visible-after-reopen",
			"a commit made after DB.Load is not the visible version of its key after a re-open",
			J{"largest_version_carried_by": top, "read": v, "version": ver})
		ddb.Close()
		os.RemoveAll(dst)
		c.Count("load-oracle-reset:" + top)
	}
	return nil
}
