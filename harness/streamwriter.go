package main

// C26: StreamWriter histories (Prepare / PrepareIncremental, Write with arbitrary batching
// and stream interleaving, done markers, Flush) on top of the drop histories (drop.go) and
// the sequential system histories (sys.go).  Labels are StreamWriter.swop terms: "S:" marks
// a stream-writer label, "X:" a Drop.xop label, everything else is a Sys.op label.

import (
	"bytes"
	"fmt"
	"os"
	"sort"
	"strings"
	"sync"
	"time"

	badger "github.com/dgraph-io/badger/v4"
	"github.com/dgraph-io/badger/v4/options"
	"github.com/dgraph-io/badger/v4/pb"
	"github.com/dgraph-io/ristretto/v2/z"
)

const sigF11 = "F11-l0-to-base-skips-nonempty-level"

type swItem struct {
	Sid   uint32
	Done  bool
	Key   []byte
	Ver   uint64
	Meta  byte
	UMeta byte
	Exp   uint64
	Val   []byte
}

func (h *hist) semit(term, desc string) { h.emit("S:"+term, desc) }

func (h *hist) swterm() string {
	ops := make([]string, len(h.ops))
	for i, o := range h.ops {
		switch {
		case strings.HasPrefix(o, "S:"):
			ops[i] = o[2:]
		case strings.HasPrefix(o, "X:"):
			ops[i] = "(SBase " + o[2:] + ")"
		default:
			ops[i] = "(SBase (Base " + o + "))"
		}
	}
	return fmt.Sprintf("(SWHist %s %s %d %d %d [\n  %s])", Bool(h.o.Managed), Bool(h.o.Detect), h.o.NKeep, h.o.MaxLevels, h.next0,
		strings.Join(ops, ";\n  "))
}

// swOpen re-opens the hist's directory with the C26 variations the shared openSysDB lacks
// (compression); everything else as openSysDB
type swVar struct {
	compression options.CompressionType
}

func openSWDB(dir string, o sysOpts, v swVar) (*badger.DB, error) {
	opt := badger.DefaultOptions(dir).WithLoggingLevel(badger.ERROR).WithNumCompactors(0).WithNumLevelZeroTables(1000).
		WithNumLevelZeroTablesStall(2000).WithMemTableSize(memSize(o)).WithValueLogFileSize(1 << 20).
		WithNumVersionsToKeep(o.NKeep).WithDetectConflicts(o.Detect).WithMaxLevels(o.MaxLevels).
		WithBaseTableSize(o.TableSize).WithBaseLevelSize(o.BaseLevelSize).WithLevelSizeMultiplier(2).
		WithNumMemtables(8).WithBlockSize(64).WithMetricsEnabled(false).WithCompactL0OnClose(false).
		WithValueThreshold(o.VThreshold).WithCompression(v.compression)
	if len(o.EncKey) > 0 {
		opt = opt.WithEncryptionKey(o.EncKey).WithIndexCacheSize(1 << 20)
	}
	if len(o.EncKey) > 0 || v.compression != options.None {
		opt = opt.WithBlockCacheSize(1 << 20)
	}
	if o.Managed {
		return badger.OpenManaged(opt)
	}
	return badger.Open(opt)
}

type swHist struct {
	*hist
	v swVar
}

func newSWHist(c *Ctx, o sysOpts, v swVar) (*swHist, error) {
	h, err := newHist(c, o)
	if err != nil {
		return nil, err
	}
	// same directory, same options plus the compression variant
	if err := h.db.Close(); err != nil {
		return nil, err
	}
	db, err := openSWDB(h.dir, o, v)
	if err != nil {
		h.db = nil
		return nil, err
	}
	h.db = db
	h.next0 = db.VerifNextTs()
	return &swHist{hist: h, v: v}, nil
}

func (h *swHist) swReopen() error {
	var ids []int
	for id := range h.txns {
		ids = append(ids, id)
	}
	sort.Ints(ids)
	for _, id := range ids {
		h.discard(id)
	}
	before := tableIDs(h.db.VerifDump())
	if err := h.db.Close(); err != nil {
		return err
	}
	db, err := openSWDB(h.dir, h.o, h.v)
	if err != nil {
		h.db = nil
		return err
	}
	h.db = db
	id := uint64(0)
	for _, t := range h.db.VerifDump()[0] {
		if _, ok := before[t.ID]; !ok {
			id = t.ID
		}
	}
	h.xemit(fmt.Sprintf("(Reopen %d %d)", id, h.db.VerifNextTs()), fmt.Sprintf("reopen (flushed table %d, next ts %d)", id, h.db.VerifNextTs()))
	return nil
}

func itemTerm(it swItem) string {
	if it.Done {
		return fmt.Sprintf("(SDone %d)", it.Sid)
	}
	return fmt.Sprintf("(SKV %d %s)", it.Sid, entTerm(it.Key, it.Ver, it.Meta, it.UMeta, it.Exp, it.Val))
}

type dumpEnt struct {
	Key   string
	Ver   uint64
	Meta  byte
	UMeta byte
	Exp   uint64
	Val   string
}

func dumpSet(d [][]badger.VerifTable) map[dumpEnt]int {
	m := map[dumpEnt]int{}
	for _, lv := range d {
		for _, t := range lv {
			for _, e := range t.Entries {
				m[dumpEnt{string(e.Key), e.Version, e.Meta & mMask, e.UserMeta, e.ExpiresAt, string(e.Value)}]++
			}
		}
	}
	return m
}

func cmpIK(k1 []byte, v1 uint64, k2 []byte, v2 uint64) int {
	if c := bytes.Compare(k1, k2); c != 0 {
		return c
	}
	switch {
	case v1 > v2:
		return -1
	case v1 < v2:
		return 1
	}
	return 0
}

// streamWrite runs one StreamWriter session and emits its label; returns the Flush error
// class (0 ok, 7 refused by PrepareIncremental, 8 validation error)
func (h *swHist) streamWrite(incr bool, writes [][]swItem) (int, error) {
	c := h.c
	var recs []*compRec
	var mu sync.Mutex
	concurrent := false
	badger.VerifSetController(&badger.VerifController{
		CompactDef: func(info *badger.VerifCompactInfo) {
			d := h.db.VerifDump()
			mu.Lock()
			if n := len(recs); n > 0 && recs[n-1].newIDs == nil {
				concurrent = true
			}
			recs = append(recs, &compRec{info: info, now: time.Now().Unix(), pre: d})
			mu.Unlock()
		},
		Point: func(name string, args ...uint64) {
			if name == "subcompact.discardTs" {
				mu.Lock()
				if n := len(recs); n > 0 {
					recs[n-1].disc = args[0]
				}
				mu.Unlock()
			}
		},
		NewTables: func(info *badger.VerifCompactInfo) {
			mu.Lock()
			if n := len(recs); n > 0 {
				recs[n-1].newIDs = append([]uint64{}, info.New...)
				if recs[n-1].newIDs == nil {
					recs[n-1].newIDs = []uint64{}
				}
			}
			mu.Unlock()
		},
	})
	preRef := append([]refWrite{}, h.ref...)
	sw := h.db.NewStreamWriter()
	var perr error
	if incr {
		perr = sw.PrepareIncremental()
	} else {
		perr = sw.Prepare()
	}
	h.installController()
	wterms := make([]string, len(writes))
	for i, w := range writes {
		its := make([]string, len(w))
		for j, it := range w {
			its[j] = itemTerm(it)
		}
		wterms[i] = ListOf(its)
	}
	if perr != nil {
		sw.Cancel()
		if incr && strings.Contains(perr.Error(), "MemTable has data") {
			h.semit(fmt.Sprintf("(StreamWrite %s [] %s [] [] 7 %d)", Bool(incr), ListOf(wterms), h.db.VerifNextTs()),
				fmt.Sprintf("StreamWriter incremental=%v refused: %v", incr, perr))
			return 7, nil
		}
		return 0, fmt.Errorf("prepare: %w", perr)
	}
	if concurrent {
		sw.Cancel()
		return 0, errConcurrentFlatten
	}
	prepared := h.db.VerifDump()
	for i := 0; i+1 < len(recs); i++ {
		recs[i].post = recs[i+1].pre
	}
	if len(recs) > 0 {
		recs[len(recs)-1].post = prepared
	}
	flat := make([]string, len(recs))
	for i, r := range recs {
		flat[i] = h.obsTerm(r)
		c.Count(fmt.Sprintf("flatten compact L%d->L%d", r.info.ThisLevel, r.info.NextLevel))
	}
	// ---- Write calls ----
	streams := map[uint32][]swItem{}
	var sids []uint32
	for _, w := range writes {
		buf := z.NewBuffer(1<<12, "verif-c26")
		for _, it := range w {
			kv := &pb.KV{StreamId: it.Sid}
			if it.Done {
				kv.StreamDone = true
			} else {
				kv.Key, kv.Value, kv.Version, kv.ExpiresAt = it.Key, it.Val, it.Ver, it.Exp
				kv.Meta, kv.UserMeta = []byte{it.Meta}, []byte{it.UMeta}
				if _, ok := streams[it.Sid]; !ok {
					sids = append(sids, it.Sid)
				}
				streams[it.Sid] = append(streams[it.Sid], it)
			}
			badger.KVToBuffer(kv, buf)
		}
		err := sw.Write(buf)
		buf.Release()
		if err != nil {
			sw.Cancel()
			return 0, fmt.Errorf("write: %w", err)
		}
	}
	ferr := sw.Flush()
	r := 0
	if ferr != nil {
		if !strings.Contains(ferr.Error(), "Levels Controller") {
			return 0, fmt.Errorf("flush: %w", ferr)
		}
		r = 8
	}
	post := h.db.VerifDump()
	// attribute the new tables to the streams by their first entry
	old := tableIDs(prepared)
	owner := func(e badger.VerifEntry) (uint32, bool) {
		for _, sid := range sids {
			for _, it := range streams[sid] {
				if bytes.Equal(it.Key, e.Key) && it.Ver == e.Version {
					return sid, true
				}
			}
		}
		return 0, false
	}
	type tl struct {
		id uint64
		n  int
		k  []byte
		v  uint64
	}
	per := map[uint32][]tl{}
	for _, lv := range post {
		for _, t := range lv {
			if _, ok := old[t.ID]; ok || len(t.Entries) == 0 {
				continue
			}
			sid, ok := owner(t.Entries[0])
			if !ok {
				c.Oracle(false, "c26-unknown-table", "a table appeared whose first entry was not streamed", J{"history": h.desc})
				continue
			}
			per[sid] = append(per[sid], tl{t.ID, len(t.Entries), t.Entries[0].Key, t.Entries[0].Version})
		}
	}
	var lys []string
	multi := false
	for _, sid := range sids {
		ts := per[sid]
		sort.Slice(ts, func(i, j int) bool { return cmpIK(ts[i].k, ts[i].v, ts[j].k, ts[j].v) < 0 })
		l := make([]string, len(ts))
		for i, t := range ts {
			l[i] = fmt.Sprintf("(%d, %d)", t.id, t.n)
		}
		if len(ts) > 1 {
			multi = true
		}
		lys = append(lys, fmt.Sprintf("(%d, %s)", sid, ListOf(l)))
	}
	if multi {
		c.Count("stream cut into several tables")
	}
	orders := make([]string, len(post))
	for i, lv := range post {
		orders[i] = idList(dumpIDs(lv))
	}
	next := h.db.VerifNextTs()
	h.semit(fmt.Sprintf("(StreamWrite %s %s %s %s %s %d %d)", Bool(incr), ListOf(flat), ListOf(wterms), ListOf(lys), ListOf(orders), r, next),
		fmt.Sprintf("StreamWriter incremental=%v %d writes %d streams -> %v (next ts %d)", incr, len(writes), len(sids), ferr, next))

	// ---- the property ----
	// (a) contents = prepared tree + streamed entries, exactly
	want := map[dumpEnt]int{}
	if incr {
		want = dumpSet(prepared)
	}
	var maxv uint64
	for _, sid := range sids {
		for _, it := range streams[sid] {
			want[dumpEnt{string(it.Key), it.Ver, it.Meta & mMask, it.UMeta, it.Exp, string(it.Val)}]++
			if it.Ver > maxv {
				maxv = it.Ver
			}
		}
	}
	got := dumpSet(post)
	same := len(got) == len(want)
	for k, n := range want {
		if got[k] != n {
			same = false
		}
	}
	c.Oracle(same, "c26-contents-mismatch", "the tree after Flush does not hold exactly the streamed entries (plus the pre-existing ones in incremental mode)",
		J{"history": h.desc, "want": len(want), "got": len(got)})
	// (b) table boundaries only between different user keys; per-stream order
	okCut := true
	for _, lv := range post {
		for _, t := range lv {
			if _, isOld := old[t.ID]; isOld {
				continue
			}
			for i := 1; i < len(t.Entries); i++ {
				if cmpIK(t.Entries[i-1].Key, t.Entries[i-1].Version, t.Entries[i].Key, t.Entries[i].Version) >= 0 {
					okCut = false
				}
			}
		}
	}
	for _, sid := range sids {
		ts := per[sid]
		for i := 1; i < len(ts); i++ {
			// the last entry of table i-1 and the first of table i belong to different user keys
			var prev badger.VerifTable
			for _, lv := range post {
				for _, t := range lv {
					if t.ID == ts[i-1].id {
						prev = t
					}
				}
			}
			if len(prev.Entries) > 0 && bytes.Equal(prev.Entries[len(prev.Entries)-1].Key, ts[i].k) {
				okCut = false
			}
		}
	}
	c.Oracle(okCut, "c26-table-cut-inside-user-key", "a stream's table boundary separates two versions of one user key, or a table is not sorted", J{"history": h.desc})
	// (c) validation: an accepted Flush leaves every level >= 1 sorted and disjoint; streams that do not
	// overlap (and a target level without other data) are accepted
	validLevels := true
	for l := 1; l < len(post); l++ {
		for i := 1; i < len(post[l]); i++ {
			a, b := post[l][i-1].Entries, post[l][i].Entries
			if len(a) == 0 || len(b) == 0 || cmpIK(a[len(a)-1].Key, a[len(a)-1].Version, b[0].Key, b[0].Version) >= 0 {
				validLevels = false
			}
		}
	}
	c.Oracle(ferr != nil || validLevels, "c26-invalid-level-accepted", "Flush returned nil although a level >= 1 is not sorted and disjoint", J{"history": h.desc})
	c.Oracle(ferr == nil || !validLevels, "c26-valid-levels-rejected", "Flush returned the validation error although every level is sorted and disjoint", J{"history": h.desc, "err": fmt.Sprint(ferr)})
	// (d) the next commit timestamp is above every streamed version (normal mode)
	if !h.o.Managed {
		c.Oracle(next > maxv, "c26-next-ts-not-above-streamed", "nextTxnTs after Flush is not above every streamed version", J{"history": h.desc, "next": next, "max": maxv})
	}
	// the reference for the reads that follow
	if !incr {
		preRef = nil
	}
	for _, sid := range sids {
		for _, it := range streams[sid] {
			preRef = append(preRef, refWrite{Key: it.Key, Ver: it.Ver, Meta: it.Meta & mMask, UMeta: it.UMeta, Exp: it.Exp, Val: it.Val})
		}
	}
	h.ref = preRef
	return r, nil
}

var errConcurrentFlatten = fmt.Errorf("flatten ran compactions concurrently (not observable as a sequence)")

// ---------------------------------------------------------------------------------------
// generator

type genStream struct {
	sid   uint32
	items []swItem
	done  bool
}

// genStreams builds nStreams sorted streams over disjoint (or, when overlap is set,
// interleaved) key ranges; versions of one key descend; no (key, version) of `taken`
func genStreams(c *Ctx, n int, overlap bool, taken map[string]bool, big bool) []genStream {
	var out []genStream
	for s := 0; s < n; s++ {
		g := genStream{sid: uint32(1 + s*3 + c.Rng.Intn(3))}
		nKeys := 1 + c.Rng.Intn(6)
		if big {
			nKeys = 6 + c.Rng.Intn(12)
		}
		var keys [][]byte
		for i := 0; i < nKeys; i++ {
			var k []byte
			if overlap {
				k = []byte(fmt.Sprintf("k%02d", c.Rng.Intn(40)))
			} else {
				k = []byte(fmt.Sprintf("%c%02d", 'a'+s, c.Rng.Intn(60)))
			}
			switch c.Rng.Intn(12) {
			case 0:
				k = append(k, 0)
			case 1:
				k = append(k, 0xff)
			}
			keys = append(keys, k)
		}
		sort.Slice(keys, func(i, j int) bool { return bytes.Compare(keys[i], keys[j]) < 0 })
		var prev []byte
		for _, k := range keys {
			if prev != nil && bytes.Equal(prev, k) {
				continue
			}
			prev = k
			nv := 1
			switch c.Rng.Intn(6) {
			case 0:
				nv = 2 + c.Rng.Intn(4)
			case 1:
				if big {
					nv = 10 + c.Rng.Intn(30) // many versions of one key: must stay in one table
				}
			}
			ver := uint64(1 + c.Rng.Intn(20) + nv*2)
			for v := 0; v < nv && ver > 0; v++ {
				if !taken[fmt.Sprintf("%s@%d", k, ver)] {
					taken[fmt.Sprintf("%s@%d", k, ver)] = true
					it := swItem{Sid: g.sid, Key: k, Ver: ver, UMeta: byte(c.Rng.Intn(3))}
					nval := c.Rng.Intn(8)
					if c.Rng.Intn(3) == 0 {
						nval = 28 + c.Rng.Intn(10) // around the value threshold (32)
					}
					if big && c.Rng.Intn(2) == 0 {
						nval = 40 + c.Rng.Intn(40)
					}
					it.Val = make([]byte, nval)
					for j := range it.Val {
						it.Val[j] = byte('0' + c.Rng.Intn(10))
					}
					switch c.Rng.Intn(10) {
					case 0:
						it.Meta, it.Val = mDelete, nil
					case 1:
						it.Meta = mDiscard
					}
					g.items = append(g.items, it)
				}
				if d := uint64(1 + c.Rng.Intn(2)); ver > d {
					ver -= d
				} else {
					ver = 0
				}
			}
		}
		g.done = c.Rng.Intn(3) == 0
		if len(g.items) > 0 {
			out = append(out, g)
		}
	}
	// stream ids must be distinct
	seen := map[uint32]bool{}
	var res []genStream
	for _, g := range out {
		if !seen[g.sid] {
			seen[g.sid] = true
			res = append(res, g)
		}
	}
	return res
}

// batch interleaves the streams into Write calls (per-stream order kept; a done marker after
// the last item of its stream, possibly in a later Write; sometimes a done marker for a
// stream that never wrote; sometimes an empty Write)
func batchStreams(c *Ctx, gs []genStream) [][]swItem {
	pos := make([]int, len(gs))
	doneSent := make([]bool, len(gs))
	var all []swItem
	for {
		var cand []int
		for i, g := range gs {
			if pos[i] < len(g.items) || (g.done && !doneSent[i]) {
				cand = append(cand, i)
			}
		}
		if len(cand) == 0 {
			break
		}
		i := cand[c.Rng.Intn(len(cand))]
		run := 1 + c.Rng.Intn(6)
		for r := 0; r < run; r++ {
			if pos[i] < len(gs[i].items) {
				all = append(all, gs[i].items[pos[i]])
				pos[i]++
			} else if gs[i].done && !doneSent[i] {
				all = append(all, swItem{Sid: gs[i].sid, Done: true})
				doneSent[i] = true
			}
		}
	}
	if c.Rng.Intn(6) == 0 {
		all = append(all, swItem{Sid: 99, Done: true}) // done marker of a stream without writer
	}
	nw := 1 + c.Rng.Intn(5)
	var writes [][]swItem
	for i := 0; i < nw; i++ {
		lo, hi := len(all)*i/nw, len(all)*(i+1)/nw
		writes = append(writes, all[lo:hi])
	}
	// a stream closed in one Write must not write in a later one (process panic): move the
	// done marker of such a stream to the end of the last Write that holds one of its items
	lastW := map[uint32]int{}
	for wi, w := range writes {
		for _, it := range w {
			if !it.Done {
				lastW[it.Sid] = wi
			}
		}
	}
	for wi := range writes {
		var keep []swItem
		for _, it := range writes[wi] {
			if it.Done {
				if lw, ok := lastW[it.Sid]; ok && lw > wi {
					writes[lw] = append(append([]swItem{}, writes[lw]...), it)
					continue
				}
			}
			keep = append(keep, it)
		}
		writes[wi] = keep
	}
	if c.Rng.Intn(8) == 0 {
		writes = append(writes, nil) // an empty buffer
	}
	return writes
}

func runSWHistory(c *Ctx, i int) (*swHist, error) {
	managed := i%6 == 5
	o := sysOpts{Managed: managed, Detect: c.Rng.Intn(2) == 0, NKeep: []int{1, 2, 100}[c.Rng.Intn(3)], MaxLevels: 4,
		VThreshold: 32, TableSize: int64(256) << uint(c.Rng.Intn(3)), BaseLevelSize: []int64{2 << 10, 8 << 10, 64 << 10}[c.Rng.Intn(3)]}
	v := swVar{compression: options.None}
	if c.Rng.Intn(2) == 0 {
		v.compression = options.Snappy
	}
	if c.Rng.Intn(3) == 0 {
		o.EncKey = bytes.Repeat([]byte{byte(1 + c.Rng.Intn(200))}, 32)
	}
	h, err := newSWHist(c, o, v)
	if err != nil {
		return nil, err
	}
	defer h.close()
	c.Count(fmt.Sprintf("compression=%d enc=%v", v.compression, len(o.EncKey) > 0))
	nextT := 0
	var mts uint64 = 1
	taken := map[string]bool{}
	keys := [][]byte{[]byte("a01"), []byte("a30"), []byte("b10"), []byte("c05"), []byte("k07"), []byte("k20"), []byte("zz")}
	write := func() {
		t := nextT
		nextT++
		h.begin(t, true, mts)
		for j, n := 0, 1+c.Rng.Intn(3); j < n; j++ {
			k := keys[c.Rng.Intn(len(keys))]
			if c.Rng.Intn(6) == 0 {
				h.modify(t, k, nil, mDelete, 0, 0)
			} else {
				h.modify(t, k, []byte(fmt.Sprintf("w%d", c.Rng.Intn(1000))), 0, byte(c.Rng.Intn(3)), 0)
			}
		}
		if managed {
			mts += 1 + uint64(c.Rng.Intn(2))
		}
		h.commit(t, mts)
		for _, w := range h.ref {
			taken[fmt.Sprintf("%s@%d", w.Key, w.Ver)] = true
		}
	}
	readAll := func() {
		t := nextT
		nextT++
		if managed {
			for _, w := range h.ref {
				if w.Ver >= mts {
					mts = w.Ver
				}
			}
		}
		h.begin(t, false, mts+1)
		for _, k := range refKeys(h.ref) {
			h.get(t, k)
		}
		h.iterate(t, itOpts{}, nil)
		if c.Rng.Intn(2) == 0 {
			h.iterate(t, itOpts{All: true}, nil)
		}
		h.discard(t)
	}
	f11seen := false
	compactSome := func() error {
		d := h.db.VerifDump()
		var ne []int
		for l := range d {
			if len(d[l]) > 0 {
				ne = append(ne, l)
			}
		}
		if len(ne) == 0 {
			return nil
		}
		f11, err := h.swCompact(ne[c.Rng.Intn(len(ne))])
		if f11 {
			f11seen = true
		}
		return err
	}
	// after a compaction over the F11 layout a read may legitimately differ from the reference:
	// such failures are attributed to F11, and the history ends
	finishF11 := func() {
		t := nextT
		nextT++
		if managed {
			for _, w := range h.ref {
				if w.Ver >= mts {
					mts = w.Ver
				}
			}
		}
		h.begin(t, false, mts+1)
		now := uint64(time.Now().Unix())
		for _, k := range refKeys(h.ref) {
			got := h.xget(t, k)
			ok := sameObs(got, h.refVisible(t, k, now))
			c.Oracle(ok, sigF11, "after an L0 -> Lbase compaction that skipped a non-empty level a read differs from the newest committed write", J{"history": h.desc, "key": k})
		}
		h.discard(t)
		h.dump()
		c.Count("F11 layout compacted in a random history")
	}
	// pre-existing data at various levels
	for s, n := 0, c.Rng.Intn(8); s < n; s++ {
		switch r := c.Rng.Intn(10); {
		case r < 5:
			write()
		case r < 8:
			if err := h.flush(); err != nil {
				return h, err
			}
		default:
			if err := compactSome(); err != nil {
				return h, err
			}
			if f11seen {
				finishF11()
				return h, nil
			}
		}
	}
	chain := c.Rng.Intn(3) == 0 // incremental runs one after the other: L3, L2, L1, L0, then Flatten
	for round, rounds := 0, 1+c.Rng.Intn(3)+map[bool]int{true: 3, false: 0}[chain]; round < rounds; round++ {
		incr := c.Rng.Intn(3) != 0 || (chain && round > 0)
		if incr && c.Rng.Intn(5) != 0 {
			if err := h.flush(); err != nil { // incremental mode needs empty memtables
				return h, err
			}
		}
		overlap := c.Rng.Intn(8) == 0
		gs := genStreams(c, 1+c.Rng.Intn(4), overlap, taken, c.Rng.Intn(3) == 0)
		if len(gs) == 0 {
			continue
		}
		if !incr {
			taken = map[string]bool{}
			for _, g := range gs {
				for _, it := range g.items {
					taken[fmt.Sprintf("%s@%d", it.Key, it.Ver)] = true
				}
			}
		}
		r, err := h.streamWrite(incr, batchStreams(c, gs))
		if err == errConcurrentFlatten {
			c.Count("abandoned: concurrent flatten")
			return nil, nil
		}
		if err != nil {
			return h, err
		}
		if r == 8 {
			// validation error: the tree is left as it is (invalid); nothing more to check
			c.Count("validation error")
			h.dump()
			return h, nil
		}
		if r == 7 {
			c.Count("incremental refused (memtable)")
			continue
		}
		nf := c.nFail
		readAll()
		if c.nFail > nf {
			h.dump()
			return h, nil
		}
		// first transaction after the stream: its commit timestamp is above every streamed version
		var maxv uint64
		for _, w := range h.ref {
			if w.Ver > maxv {
				maxv = w.Ver
			}
		}
		if managed && mts <= maxv {
			mts = maxv + 1
		}
		if chain && c.Rng.Intn(4) != 0 {
			continue
		}
		write()
		if !managed {
			cts := h.db.VerifNextTs() - 1
			c.Oracle(cts > maxv, "c26-commit-ts-not-above-streamed", "the first commit after Flush got a timestamp at or below a streamed version", J{"history": h.desc, "commit": cts, "max": maxv})
		}
		switch c.Rng.Intn(4) {
		case 0:
			if err := h.swReopen(); err != nil {
				return h, err
			}
			readAll()
		case 1:
			if err := h.flush(); err != nil {
				return h, err
			}
			if err := compactSome(); err != nil {
				return h, err
			}
			if f11seen {
				finishF11()
				return h, nil
			}
		}
	}
	if c.Rng.Intn(2) == 0 {
		if err := h.swReopen(); err != nil {
			return h, err
		}
	}
	readAll()
	h.dump()
	return h, nil
}

// swCompact runs a picker-chosen compaction and emits it with the label that also accepts a
// pick over the F11 layout; reports whether this was such a pick (L0 -> Lbase with a
// non-empty level strictly between)
func (h *swHist) swCompact(level int) (bool, error) {
	pre := h.db.VerifDump()
	n0 := len(h.ops)
	ok, err := h.compact(level, false, nil)
	if err != nil || !ok {
		return false, err
	}
	h.ops[n0] = "S:(SCompactAny" + strings.TrimPrefix(h.ops[n0], "(Compact")
	h.mu.Lock()
	info := h.cinfo
	h.mu.Unlock()
	f11 := false
	if info != nil && info.ThisLevel == 0 {
		for l := 1; l < info.NextLevel; l++ {
			if len(pre[l]) > 0 {
				f11 = true
			}
		}
	}
	return f11, nil
}

// F11 through the public API: Prepare puts z at the last level, PrepareIncremental puts k@5 one
// level above, a tombstone k@6 is flushed to L0; the base level is still the last level, the
// L0 -> Lbase compaction skips the non-empty level in between and drops the tombstone
func scenarioF11(c *Ctx) (*swHist, bool, error) {
	h, err := newSWHist(c, sysOpts{Detect: true, NKeep: 1, MaxLevels: 4, VThreshold: 32, TableSize: 1 << 20, BaseLevelSize: 8 << 10}, swVar{compression: options.None})
	if err != nil {
		return nil, false, err
	}
	defer h.close()
	if _, err := h.streamWrite(false, [][]swItem{{{Sid: 1, Key: []byte("z"), Ver: 1, Val: []byte("vz")}}}); err != nil {
		return h, false, err
	}
	if _, err := h.streamWrite(true, [][]swItem{{{Sid: 1, Key: []byte("k"), Ver: 5, Val: []byte("v5")}}}); err != nil {
		return h, false, err
	}
	nextT := 0
	h.set1(&nextT, []byte("k"), nil)
	if err := h.flush(); err != nil {
		return h, false, err
	}
	for i := 0; i < 2; i++ { // the read watermark passes the tombstone
		h.begin(nextT, false, 0)
		h.discard(nextT)
		nextT++
	}
	n0 := len(h.ops)
	ok, err := h.compact(0, false, nil)
	if err != nil || !ok {
		return h, false, fmt.Errorf("F11 scenario: L0 compaction did not run (%v)", err)
	}
	// the shared Compact label rejects this pick (reason 2011): use the accepting label
	h.ops[n0] = "S:(SCompactAny" + strings.TrimPrefix(h.ops[n0], "(Compact")
	h.dump()
	h.begin(nextT, false, 0)
	got := h.xget(nextT, []byte("k"))
	h.discard(nextT)
	c.Oracle(got == nil, sigF11, "a deleted key is visible again after an L0 -> Lbase compaction that skipped a non-empty level (built by PrepareIncremental) and dropped the tombstone",
		J{"history": h.desc})
	return h, got != nil, nil
}

func init() {
	register("C26", func(c *Ctx) error {
		c.Setup("Keys Spec Lsm Compact Iter Sys Drop StreamWriter CorrC26", "run_case")
		h, rep, err := scenarioF11(c)
		if err != nil {
			return err
		}
		c.Case("witness-F11", h.swterm(), histInput(h.hist))
		c.Extra["witness_F11_reproduced"] = rep
		for i := 0; c.nCases < c.N; i++ {
			h, err := runSWHistory(c, i)
			if err != nil {
				if h != nil {
					c.Oracle(false, "harness-error:streamwriter", err.Error(), J{"history": h.desc})
				}
				return err
			}
			if h == nil {
				continue
			}
			c.Case("stream-history", h.swterm(), histInput(h.hist))
		}
		// where the streamed values are stored, under a dynamic and a static value threshold (swplace.go)
		return runC26Placement(c)
	})
}

var _ = os.Getenv
