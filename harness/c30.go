package main

// C30 — Sequence numbers.  (1) deterministic witnesses of the recorded defect (a failed lease
// update leaves seq.next/seq.leased set), (2) sequential runs of GetSequence / Next / Release /
// re-open / crash-copy over 1-4 objects and 1-2 keys, every result compared with the Coq model
// (coq/B/Sequence.v via corr/CorrC30.v), (3) a concurrent stress (oracle only; calls on one object
// serialised by the harness), (4) c30conc.go: concurrent calls on ONE object — deterministic
// Release/Next interleavings through a commit hook (compared with the model) and a Next/Release stress.
// Property oracle (no model involved): no number is returned twice for a key; the numbers of one
// object are strictly increasing.

import (
	"encoding/binary"
	"errors"
	"fmt"
	"io"
	"os"
	"path/filepath"
	"strings"
	"sync"
	"time"

	badger "github.com/dgraph-io/badger/v4"
	"github.com/dgraph-io/badger/v4/options"
)

func init() { register("C30", runC30) }

const (
	c30SigDefect = "C30-failed-lease-update-leaves-unstored-lease"
	c30SigDup    = "C30-duplicate-number"
	c30SigOrder  = "C30-not-increasing-per-object"
)

func c30OpenDB(dir string) (*badger.DB, error) {
	opt := badger.DefaultOptions(dir).WithLoggingLevel(badger.ERROR).WithLogger(nil).
		WithNumCompactors(0).WithMemTableSize(1 << 20).WithValueLogFileSize(1 << 20).
		WithNumMemtables(2).WithValueThreshold(1024).WithMetricsEnabled(false).WithCompactL0OnClose(false).
		WithBlockCacheSize(0).WithIndexCacheSize(0).WithCompression(options.None)
	return badger.Open(opt)
}

// c30CopyDir takes a crash image of an open DB's directory: the files as a process crash at this
// moment would leave them (WAL and value log are written through shared mappings, so the page
// cache already has every acked write).  The DB's flusher may still be deleting replayed
// memtable files right after Open; wait until the listing is stable around the copy.
func c30CopyDir(src, dst string) error {
	listing := func() (string, int) {
		ents, _ := os.ReadDir(src)
		s, mem := "", 0
		for _, e := range ents {
			if e.IsDir() || e.Name() == "LOCK" {
				continue
			}
			fi, err := e.Info()
			if err != nil {
				return "", -1
			}
			if strings.HasSuffix(e.Name(), ".mem") {
				mem++
				if fi.Size() == 0 {
					return "", -1
				}
			}
			s += fmt.Sprintf("%s:%d;", e.Name(), fi.Size())
		}
		return s, mem
	}
	var lastErr error
	for try := 0; try < 500; try++ {
		before, mem := listing()
		if mem != 1 {
			time.Sleep(2 * time.Millisecond)
			continue
		}
		os.RemoveAll(dst)
		if lastErr = c30CopyOnce(src, dst); lastErr != nil {
			continue
		}
		if after, _ := listing(); after == before {
			return nil
		}
	}
	return fmt.Errorf("C30: no stable crash image of %s (%v)", src, lastErr)
}

func c30CopyOnce(src, dst string) error {
	if err := os.MkdirAll(dst, 0o755); err != nil {
		return err
	}
	ents, err := os.ReadDir(src)
	if err != nil {
		return err
	}
	for _, e := range ents {
		if e.IsDir() || e.Name() == "LOCK" {
			continue
		}
		in, err := os.Open(filepath.Join(src, e.Name()))
		if err != nil {
			return err
		}
		out, err := os.Create(filepath.Join(dst, e.Name()))
		if err != nil {
			in.Close()
			return err
		}
		_, err = io.Copy(out, in)
		in.Close()
		out.Close()
		if err != nil {
			return err
		}
	}
	return nil
}

func c30ErrClass(err error) string {
	switch {
	case err == nil:
		return "ROk"
	case errors.Is(err, badger.ErrConflict):
		return "RErrConflict"
	case errors.Is(err, badger.ErrBlockedWrites):
		return "RErrBlocked"
	case errors.Is(err, badger.ErrZeroBandwidth):
		return "RErrZeroBw"
	case errors.Is(err, badger.ErrEmptyKey):
		return "RErrEmptyKey"
	case errors.Is(err, badger.ErrKeyNotFound):
		return "RErrNotFound"
	}
	return "ROther:" + err.Error()
}

// c30Oracle is the property itself on the implementation's output.
type c30Oracle struct {
	mu      sync.Mutex
	seen    map[string]map[uint64]int // key -> number -> object that returned it
	last    map[int]uint64            // object -> last number
	hasLast map[int]bool
	tainted map[string]bool // key: some object was used again after a failed lease update
}

func newC30Oracle() *c30Oracle {
	return &c30Oracle{seen: map[string]map[uint64]int{}, last: map[int]uint64{}, hasLast: map[int]bool{}, tainted: map[string]bool{}}
}

// number records one returned number and returns the violated class ("" if none)
func (o *c30Oracle) number(key string, obj int, n uint64) (string, string) {
	o.mu.Lock()
	defer o.mu.Unlock()
	if o.seen[key] == nil {
		o.seen[key] = map[uint64]int{}
	}
	sig, what := "", ""
	if prev, dup := o.seen[key][n]; dup {
		sig, what = c30SigDup, fmt.Sprintf("number %d returned twice for key %q (objects %d and %d)", n, key, prev, obj)
	} else if o.hasLast[obj] && n <= o.last[obj] {
		sig, what = c30SigOrder, fmt.Sprintf("object %d returned %d after %d", obj, n, o.last[obj])
	}
	if sig != "" && o.tainted[key] {
		sig = c30SigDefect
	}
	o.seen[key][n] = obj
	o.last[obj], o.hasLast[obj] = n, true
	return sig, what
}

func (o *c30Oracle) taint(key string) {
	o.mu.Lock()
	o.tainted[key] = true
	o.mu.Unlock()
}

type c30Obj struct {
	id     int
	key    string
	kid    int
	seq    *badger.Sequence
	failed bool // its last lease update returned an error
}

var c30Keys = []string{"", "seq/a", "seq/b"}

// ---- (1) deterministic witnesses ----

// A's lease update fails at commit (writes blocked, as during DropAll / DropPrefix); A is used
// again and hands out numbers of a lease that was never stored; B leases the same numbers.
func c30WitnessBlocked(c *Ctx, base string) error {
	dir := filepath.Join(base, "wit1")
	db, err := c30OpenDB(dir)
	if err != nil {
		return err
	}
	defer db.Close()
	orc := newC30Oracle()
	var desc []string
	k := []byte("seq/w")
	a, err := db.GetSequence(k, 5)
	if err != nil {
		return err
	}
	rec := func(obj int, s *badger.Sequence, who string) {
		n, err := s.Next()
		desc = append(desc, fmt.Sprintf("%s.Next -> %d %v", who, n, err))
		if err == nil {
			sig, what := orc.number("seq/w", obj, n)
			c.Oracle(sig == "", sig, what, J{"witness": "blocked", "desc": desc})
		}
	}
	for i := 0; i < 5; i++ {
		rec(0, a, "A")
	}
	badger.VerifBlockWrites(db, true)
	_, err = a.Next()
	badger.VerifBlockWrites(db, false)
	desc = append(desc, fmt.Sprintf("A.Next with writes blocked -> %v", err))
	if err == nil {
		return fmt.Errorf("C30 witness: Next with blocked writes did not fail")
	}
	orc.taint("seq/w")
	rec(0, a, "A")
	b, err := db.GetSequence(k, 5)
	if err != nil {
		return err
	}
	desc = append(desc, "B := GetSequence(k, 5)")
	rec(1, b, "B")
	for i := 0; i < 4; i++ {
		rec(1, b, "B")
	}
	// A releases: the stored lease equals A's never-stored `leased`, so A writes its stale next
	err = a.Release()
	desc = append(desc, fmt.Sprintf("A.Release -> %v", err))
	rec(1, b, "B") // B refreshes from the lowered value: B's own numbers go backwards
	c.Count("witness-blocked")
	return nil
}

// two objects refresh concurrently until one lease update loses with ErrConflict; that object
// is used again (the natural retry).
func c30WitnessConflict(c *Ctx, base string) error {
	dir := filepath.Join(base, "wit2")
	db, err := c30OpenDB(dir)
	if err != nil {
		return err
	}
	defer db.Close()
	orc := newC30Oracle()
	k := []byte("seq/x")
	x, err := db.GetSequence(k, 1)
	if err != nil {
		return err
	}
	y, err := db.GetSequence(k, 1)
	if err != nil {
		return err
	}
	var desc []string
	for round := 0; round < 3000; round++ {
		var wg sync.WaitGroup
		var nx, ny uint64
		var ex, ey error
		wg.Add(2)
		go func() { defer wg.Done(); nx, ex = x.Next() }()
		go func() { defer wg.Done(); ny, ey = y.Next() }()
		wg.Wait()
		for i, r := range []struct {
			n uint64
			e error
		}{{nx, ex}, {ny, ey}} {
			if r.e != nil {
				orc.taint("seq/x")
				desc = append(desc, fmt.Sprintf("round %d: object %d Next -> %v", round, i, r.e))
				continue
			}
			sig, what := orc.number("seq/x", i, r.n)
			if sig != "" {
				desc = append(desc, fmt.Sprintf("round %d: object %d Next -> %d", round, i, r.n))
			}
			c.Oracle(sig == "", sig, what, J{"witness": "conflict", "desc": desc})
			if sig != "" {
				c.Count("witness-conflict-reproduced")
				return nil
			}
		}
	}
	c.Count("witness-conflict-not-reproduced")
	return nil
}

// ---- (2) sequential runs against the model ----
func c30Sequential(c *Ctx, base string, caseNo int) error {
	dir := filepath.Join(base, fmt.Sprintf("s%d", caseNo))
	gen := 0
	defer func() {
		os.RemoveAll(filepath.Join(base, fmt.Sprintf("s%d", caseNo)))
		for g := 1; g <= gen; g++ {
			os.RemoveAll(filepath.Join(base, fmt.Sprintf("s%d_g%d", caseNo, g)))
		}
	}()
	db, err := c30OpenDB(dir)
	if err != nil {
		return err
	}
	defer func() {
		if db != nil {
			db.Close()
		}
	}()
	orc := newC30Oracle()
	var objs []*c30Obj // live objects
	nObj := 0
	var terms, desc []string
	profile := c.Rng.Intn(10)
	discipline := profile < 6 // drop an object after a failed lease update
	wrapCase := profile == 9
	blockedPct := 10
	if profile < 3 {
		blockedPct = 0
	}
	nOps := 15 + c.Rng.Intn(50)
	nKeys := 1 + c.Rng.Intn(2)
	bws := []uint64{1, 1, 2, 3, 5, 8}
	emit := func(term, res, d string) {
		terms = append(terms, fmt.Sprintf("(%s, %s)", term, res))
		desc = append(desc, d+" -> "+res)
	}
	resTerm := func(n uint64, err error) string {
		if err == nil {
			return fmt.Sprintf("(RNum %d)", n)
		}
		return c30ErrClass(err)
	}
	rp := func() J { return J{"case": caseNo, "desc": append([]string{}, desc...)} }
	number := func(o *c30Obj, n uint64) {
		if wrapCase { // leases wrap around 2^64 here: correspondence only
			return
		}
		sig, what := orc.number(o.key, o.id, n)
		c.Oracle(sig == "", sig, what, rp())
	}
	blockedNow := func() bool { return c.Rng.Intn(100) < blockedPct }
	for op := 0; op < nOps; op++ {
		x := c.Rng.Intn(100)
		switch {
		case x < 12 || len(objs) == 0: // GetSequence
			kid := 1 + c.Rng.Intn(nKeys)
			bw := bws[c.Rng.Intn(len(bws))]
			switch c.Rng.Intn(30) {
			case 0:
				kid = 0
			case 1:
				bw = 0
			}
			if wrapCase && c.Rng.Intn(2) == 0 {
				bw = []uint64{1 << 63, 1<<64 - 1, 1<<64 - 2, 1<<63 + 1}[c.Rng.Intn(4)]
			}
			bl := blockedNow()
			if bl {
				badger.VerifBlockWrites(db, true)
			}
			seq, err := db.GetSequence([]byte(c30Keys[kid]), bw)
			if bl {
				badger.VerifBlockWrites(db, false)
			}
			emit(fmt.Sprintf("AGet %d %d %s", kid, bw, Bool(bl)), c30ErrClass(err), fmt.Sprintf("o%d := GetSequence(%q, %d) blocked=%v", nObj, c30Keys[kid], bw, bl))
			if kid != 0 && bw != 0 {
				o := &c30Obj{id: nObj, key: c30Keys[kid], kid: kid, seq: seq, failed: err != nil}
				nObj++
				if !(discipline && err != nil) {
					objs = append(objs, o)
				}
			}
		case x < 70: // Next
			o := objs[c.Rng.Intn(len(objs))]
			bl := blockedNow()
			if o.failed {
				orc.taint(o.key)
			}
			if bl {
				badger.VerifBlockWrites(db, true)
			}
			n, err := o.seq.Next()
			if bl {
				badger.VerifBlockWrites(db, false)
			}
			emit(fmt.Sprintf("ANext %d %s", o.id, Bool(bl)), resTerm(n, err), fmt.Sprintf("o%d.Next blocked=%v", o.id, bl))
			if err == nil {
				number(o, n)
			} else {
				o.failed = true
				if discipline {
					for i, p := range objs {
						if p == o {
							objs = append(objs[:i], objs[i+1:]...)
							break
						}
					}
				}
			}
		case x < 82: // Release
			o := objs[c.Rng.Intn(len(objs))]
			bl := blockedNow()
			if o.failed {
				orc.taint(o.key)
			}
			if bl {
				badger.VerifBlockWrites(db, true)
			}
			err := o.seq.Release()
			if bl {
				badger.VerifBlockWrites(db, false)
			}
			emit(fmt.Sprintf("ARel %d %s", o.id, Bool(bl)), c30ErrClass(err), fmt.Sprintf("o%d.Release blocked=%v", o.id, bl))
		case x < 92: // read the stored lease
			kid := 1 + c.Rng.Intn(nKeys)
			var val []byte
			err := db.View(func(txn *badger.Txn) error {
				it, err := txn.Get([]byte(c30Keys[kid]))
				if err != nil {
					return err
				}
				val, err = it.ValueCopy(nil)
				return err
			})
			res := "RErrNotFound"
			if err == nil && len(val) == 8 {
				res = fmt.Sprintf("(RNum %d)", binary.BigEndian.Uint64(val))
			} else if err != nil && !errors.Is(err, badger.ErrKeyNotFound) {
				return err
			}
			emit(fmt.Sprintf("APeek %d", kid), res, fmt.Sprintf("peek %q", c30Keys[kid]))
		default: // re-open, or crash (continue on a copy of the directory taken while the DB is open)
			crash := c.Rng.Intn(2) == 0
			if !crash && c.Rng.Intn(2) == 0 { // orderly shutdown: release what is live
				for _, o := range objs {
					if o.failed {
						orc.taint(o.key)
					}
					err := o.seq.Release()
					emit(fmt.Sprintf("ARel %d false", o.id), c30ErrClass(err), fmt.Sprintf("o%d.Release", o.id))
				}
			}
			gen++
			if crash {
				ndir := filepath.Join(base, fmt.Sprintf("s%d_g%d", caseNo, gen))
				if err := c30CopyDir(dir, ndir); err != nil {
					return err
				}
				db.Close()
				dir = ndir
			} else {
				if err := db.Close(); err != nil {
					return err
				}
			}
			db, err = c30OpenDB(dir)
			if err != nil {
				ls := ""
				ents, _ := os.ReadDir(dir)
				for _, e := range ents {
					fi, _ := e.Info()
					ls += fmt.Sprintf(" %s:%d", e.Name(), fi.Size())
				}
				return fmt.Errorf("C30 re-open (crash=%v): %v [%s] %v", crash, err, ls, desc)
			}
			objs = nil
			emit("ARestart", "ROk", fmt.Sprintf("restart crash=%v", crash))
		}
	}
	for _, t := range terms {
		if strings.Contains(t, "ROther:") {
			return fmt.Errorf("C30: unclassified error in %s", t)
		}
	}
	c.Case("SeqRun", "(Seq "+ListOf(terms)+")", desc)
	return nil
}

// ---- (3) concurrent stress (oracle only) ----
type c30Shared struct {
	mu   sync.Mutex // serialises calls like seq.lock does, and guards dead
	o    *c30Obj
	dead bool
}

func c30Stress(c *Ctx, base string, round int, safe bool) error {
	dir := filepath.Join(base, fmt.Sprintf("st%d", round))
	defer os.RemoveAll(dir)
	db, err := c30OpenDB(dir)
	if err != nil {
		return err
	}
	defer db.Close()
	orc := newC30Oracle()
	nKeys := 1 + c.Rng.Intn(2)
	nShared := 2 + c.Rng.Intn(3)
	nG := 3 + c.Rng.Intn(4)
	perG := 40 + c.Rng.Intn(60)
	bwOf := func(i int) uint64 { return uint64(1 + (i+round)%3) }
	var idMu sync.Mutex
	nextID := 0
	newObj := func(kid int, bw uint64) (*c30Obj, error) {
		idMu.Lock()
		id := nextID
		nextID++
		idMu.Unlock()
		seq, err := db.GetSequence([]byte(c30Keys[kid]), bw)
		return &c30Obj{id: id, key: c30Keys[kid], kid: kid, seq: seq, failed: err != nil}, err
	}
	shared := make([]*c30Shared, nShared)
	for i := range shared {
		o, err := newObj(1+i%nKeys, bwOf(i))
		if err != nil {
			return err
		}
		shared[i] = &c30Shared{o: o}
	}
	type fail struct{ sig, what string }
	var fmu sync.Mutex
	var fails []fail
	var nNums, nErrs int
	seeds := make([]int64, nG)
	for g := range seeds {
		seeds[g] = c.Rng.Int63()
	}
	var wg sync.WaitGroup
	for g := 0; g < nG; g++ {
		wg.Add(1)
		go func(g int) {
			defer wg.Done()
			x := uint64(seeds[g]) | 1
			rnd := func(n int) int {
				x ^= x << 13
				x ^= x >> 7
				x ^= x << 17
				return int(x % uint64(n))
			}
			for it := 0; it < perG; it++ {
				sh := shared[rnd(len(shared))]
				sh.mu.Lock()
				if sh.dead { // safe discipline: replace an object whose lease update failed
					for try := 0; try < 50; try++ {
						o, err := newObj(sh.o.kid, bwOf(g+it))
						if err == nil {
							sh.o, sh.dead = o, false
							break
						}
					}
					if sh.dead {
						sh.mu.Unlock()
						continue
					}
				}
				o := sh.o
				if o.failed {
					orc.taint(o.key)
				}
				if rnd(12) == 0 {
					o.seq.Release() // an error leaves the object unchanged
				} else {
					n, err := o.seq.Next()
					fmu.Lock()
					if err == nil {
						nNums++
					} else {
						nErrs++
					}
					fmu.Unlock()
					if err == nil {
						if sig, what := orc.number(o.key, o.id, n); sig != "" {
							fmu.Lock()
							fails = append(fails, fail{sig, what})
							fmu.Unlock()
						}
					} else {
						o.failed = true
						if safe {
							sh.dead = true
						}
					}
				}
				sh.mu.Unlock()
			}
		}(g)
	}
	wg.Wait()
	mode := "retry-after-error"
	if safe {
		mode = "drop-after-error"
	}
	c.Count("stress-" + mode)
	c.Extra["stress_numbers"] = nNums + toInt(c.Extra["stress_numbers"])
	c.Extra["stress_lease_errors"] = nErrs + toInt(c.Extra["stress_lease_errors"])
	if len(fails) == 0 {
		c.Oracle(true, "", "", nil)
		return nil
	}
	// report one failure per class
	seen := map[string]bool{}
	for _, f := range fails {
		if seen[f.sig] {
			continue
		}
		seen[f.sig] = true
		c.Oracle(false, f.sig, f.what, J{"stress": mode, "round": round, "goroutines": nG, "objects": nShared, "keys": nKeys, "violations": len(fails)})
	}
	return nil
}

func toInt(v interface{}) int {
	if i, ok := v.(int); ok {
		return i
	}
	return 0
}

func runC30(c *Ctx) error {
	c.Setup("Sequence CorrC30", "run_case")
	base := os.Getenv("VERIF_SCRATCH_DIR")
	if base == "" {
		var err error
		base, err = os.MkdirTemp("", "verif_c30_")
		if err != nil {
			return err
		}
		defer os.RemoveAll(base)
	}
	t0 := time.Now()
	lap := func(phase string) { // wall time per phase, into the evidence
		c.Extra["seconds_"+phase] = float64(int(time.Since(t0).Seconds()*10)) / 10
		t0 = time.Now()
	}
	if err := c30WitnessBlocked(c, base); err != nil {
		return err
	}
	if err := c30WitnessConflict(c, base); err != nil {
		return err
	}
	for i := 0; c.nCases < c.N; i++ {
		if err := c30Sequential(c, base, i); err != nil {
			return err
		}
	}
	lap("witnesses_and_sequential")
	// concurrent histories on one object: Release parked in its commit / running next to Next (c30conc.go)
	hook := &c30Hook{}
	hook.install()
	for i, nDet := 0, 6+c.N/100; i < nDet; i++ {
		if err := c30DetRelease(c, base, i, hook); err != nil {
			badger.VerifSetController(nil)
			return err
		}
	}
	badger.VerifSetController(nil)
	lap("deterministic_release_windows")
	for i, nCR := 0, 6+c.N/50; i < nCR; i++ {
		if err := c30StressRelease(c, base, i); err != nil {
			return err
		}
	}
	lap("stress_next_release")
	nStress := 4 + c.N/25
	for r := 0; r < nStress; r++ {
		if err := c30Stress(c, base, r, r%2 == 0); err != nil {
			return err
		}
	}
	lap("stress_serialised")
	return nil
}
