package main

// C17 (MANIFEST replay reconstructs the table map exactly) and the MANIFEST part of C09
// (torn tail).  Correspondence: the real manifest.go (through /repo/verif_export_manifest.go)
// against coq/A/Manifest.v — protobuf bytes, CRC-32C, file bytes after every kind of step,
// ReplayManifestFile on whole / truncated / zero-filled / corrupted / malformed files.
// Property oracle (independent of the Coq model): an atomic specification of the table map
// kept in Go (`m17Spec`), compared with the live manifest and with replays.

import (
	"bytes"
	"encoding/binary"
	"fmt"
	"hash/crc32"
	"os"
	"path/filepath"
	"runtime"
	"sort"
	"time"

	badger "github.com/dgraph-io/badger/v4"
)

func init() { register("C17", runC17) }

type m17Ch = badger.VerifManifestChange
type m17State = badger.VerifManifestState
type J17 = map[string]interface{}

const (
	sigF5  = "F5-manifest-zero-filled-tail-badchecksum"
	sigF6  = "F6-rejected-changeset-residue"
	sigF16 = "F22-manifest-truncated-tail-len-gt-filesize"
	sigTorn = "c17-append-after-torn-tail-lost-or-unreadable"
)

var m17Castagnoli = crc32.MakeTable(crc32.Castagnoli)

// ---- Coq terms ----
func m17ChTerm(c m17Ch) string {
	return fmt.Sprintf("(mkChange %d %d %d %d %d %d)", c.Id, uint64(int64(c.Op)), c.Level, c.KeyId,
		uint64(int64(c.EncAlgo)), c.Compression)
}
func m17CsTerm(cs []m17Ch) string {
	items := make([]string, len(cs))
	for i, c := range cs {
		items[i] = m17ChTerm(c)
	}
	return ListOf(items)
}
func m17IdsTerm(ids []uint64) string {
	items := make([]string, len(ids))
	for i, x := range ids {
		items[i] = Nn(x)
	}
	return ListOf(items)
}
func m17ObsTerm(s m17State) string {
	ts := make([]string, len(s.Tables))
	for i, t := range s.Tables {
		ts[i] = fmt.Sprintf("(%d, (%d, (%d, %d)))", t.Id, t.Level, t.KeyID, t.Compression)
	}
	ls := make([]string, len(s.Levels))
	for i, l := range s.Levels {
		ls[i] = m17IdsTerm(l)
	}
	return fmt.Sprintf("(mkObs %s %s %s %s)", ListOf(ts), ListOf(ls), Zz(int64(s.Creations)), Zz(int64(s.Deletions)))
}

var m17ErrCodes = map[string]int{"badmagic": 1, "version": 2, "extmagic": 3, "lensize": 4, "badchecksum": 5,
	"unmarshal": 6, "exists": 7, "badop": 8}

func m17ErrCode(err error) int {
	if c, ok := m17ErrCodes[badger.VerifManifestErrClass(err)]; ok {
		return c
	}
	return 99
}

// ---- independent specification of the table map ----
type m17TM struct {
	Level uint8
	KeyID uint64
	Comp  uint32
}
type m17Spec map[uint64]m17TM

func (s m17Spec) clone() m17Spec {
	o := m17Spec{}
	for k, v := range s {
		o[k] = v
	}
	return o
}

// atomic application: the whole set or nothing. Returns (accepted, ids applied before the
// failing change = the potential residue of finding F6).
func (s m17Spec) apply(cs []m17Ch) (bool, []uint64) {
	w := s.clone()
	var touched []uint64
	for _, c := range cs {
		switch c.Op {
		case 0:
			if _, ok := w[c.Id]; ok {
				return false, touched
			}
			w[c.Id] = m17TM{uint8(c.Level), c.KeyId, c.Compression}
		case 1:
			delete(w, c.Id)
		default:
			return false, touched
		}
		touched = append(touched, c.Id)
	}
	for k := range s {
		delete(s, k)
	}
	for k, v := range w {
		s[k] = v
	}
	return true, nil
}

func m17SpecOf(st m17State) m17Spec {
	o := m17Spec{}
	for _, t := range st.Tables {
		o[t.Id] = m17TM{t.Level, t.KeyID, t.Compression}
	}
	return o
}

// ids on which two table maps differ
func m17Diff(a, b m17Spec) []uint64 {
	var d []uint64
	for k, v := range a {
		if w, ok := b[k]; !ok || w != v {
			d = append(d, k)
		}
	}
	for k := range b {
		if _, ok := a[k]; !ok {
			d = append(d, k)
		}
	}
	sort.Slice(d, func(i, j int) bool { return d[i] < d[j] })
	return d
}

// Levels must be the inverse image of Tables (ignoring trailing / other empty levels)
func m17LevelsConsistent(st m17State) bool {
	n := 0
	for l, ids := range st.Levels {
		for _, id := range ids {
			n++
			found := false
			for _, t := range st.Tables {
				if t.Id == id && int(t.Level) == l {
					found = true
				}
			}
			if !found {
				return false
			}
		}
	}
	return n == len(st.Tables)
}

type m17Step struct {
	Tear   bool     `json:"tear,omitempty"` // MANIFEST cut to Cut bytes (Zero: zero-filled to its old size) while closed, then opened
	Cut    int      `json:"cut,omitempty"`
	Zero   bool     `json:"zero,omitempty"`
	Reopen bool     `json:"reopen,omitempty"`
	Cs     []m17Ch  `json:"cs,omitempty"`
	Ord    []uint64 `json:"ord,omitempty"`
	Code   int      `json:"code"`
}

func m17StepsTerm(steps []m17Step) string {
	items := make([]string, len(steps))
	for i, s := range steps {
		if s.Tear {
			items[i] = fmt.Sprintf("(STear %d%%nat %s, %d)", s.Cut, Bool(s.Zero), s.Code)
		} else if s.Reopen {
			items[i] = fmt.Sprintf("(SReopen, %d)", s.Code)
		} else {
			items[i] = fmt.Sprintf("(SAdd %s %s, %d)", m17CsTerm(s.Cs), m17IdsTerm(s.Ord), s.Code)
		}
	}
	return ListOf(items)
}

type m17Bound struct {
	off  int
	snap m17Spec
}

// one running manifest + the oracle's bookkeeping
type m17Seq struct {
	c       *Ctx
	dir     string
	thr     int
	ext     uint16
	mf      *badger.VerifManifestFile
	steps   []m17Step
	spec    m17Spec
	taint   map[uint64]bool // ids a rejected change set touched before failing (F6 residue)
	bounds  []m17Bound      // record boundaries of the current file with the spec at that point
	reopens int
	rejects int
	tears   int  // torn tails recovered by a re-open so far
	addsAfterTear int
	dead    bool // the manifestFile's own MANIFEST no longer replays (F6 consequence): stop the sequence
	maxLvl  uint32
}

var m17DirN int

func (c *Ctx) m17NewDir() string {
	m17DirN++
	d := filepath.Join(os.Getenv("VERIF_SCRATCH_DIR"), fmt.Sprintf("c17_%d", m17DirN))
	if os.Getenv("VERIF_SCRATCH_DIR") == "" {
		d = filepath.Join(os.TempDir(), fmt.Sprintf("verif_c17_%d_%d", os.Getpid(), m17DirN))
	}
	os.RemoveAll(d)
	if err := os.MkdirAll(d, 0o755); err != nil {
		panic(err)
	}
	return d
}

func (s *m17Seq) file() []byte {
	b, err := os.ReadFile(badger.VerifManifestPath(s.dir))
	if err != nil {
		panic(err)
	}
	return b
}

func (s *m17Seq) replayData(extra J17) J17 {
	d := J17{"thr": s.thr, "ext": s.ext, "steps": s.steps}
	for k, v := range extra {
		d[k] = v
	}
	return d
}

// sig for a table-map difference: F6 iff every differing id is residue of a rejected set
func (s *m17Seq) diffSig(diff []uint64, generic string) string {
	if len(diff) == 0 {
		return generic
	}
	for _, id := range diff {
		if !s.taint[id] {
			return generic
		}
	}
	return sigF6
}

func m17Open(c *Ctx, thr int, ext uint16) (*m17Seq, error) {
	s := &m17Seq{c: c, dir: c.m17NewDir(), thr: thr, ext: ext, spec: m17Spec{}, taint: map[uint64]bool{}}
	mf, st, err := badger.VerifManifestOpen(s.dir, ext, thr)
	if err != nil {
		return nil, err
	}
	s.mf = mf
	c.Oracle(len(st.Tables) == 0, "fresh-manifest-not-empty", "fresh MANIFEST returned tables", nil)
	s.bounds = []m17Bound{{8, m17Spec{}}, {len(s.file()), m17Spec{}}}
	return s, nil
}

func (s *m17Seq) close() {
	if s.mf != nil {
		s.mf.Close()
		s.mf = nil
	}
	os.RemoveAll(s.dir)
}

// the MANIFEST's first record's table ids, in file order (resolves asChanges' map order)
func m17FirstRecordIds(file []byte) []uint64 {
	if len(file) < 16 {
		return nil
	}
	l := int(binary.BigEndian.Uint32(file[8:12]))
	if 16+l > len(file) {
		return nil
	}
	cs, err := badger.VerifUnmarshalChangeSet(file[16 : 16+l])
	if err != nil {
		return nil
	}
	ids := make([]uint64, len(cs))
	for i, c := range cs {
		ids[i] = c.Id
	}
	return ids
}

func (s *m17Seq) add(cs []m17Ch) {
	c := s.c
	path := badger.VerifManifestPath(s.dir)
	before, _ := os.Stat(path)
	err := s.mf.AddChanges(cs)
	after, _ := os.Stat(path)
	st := m17Step{Cs: cs}
	for _, ch := range cs {
		if ch.Level > s.maxLvl {
			s.maxLvl = ch.Level
		}
	}
	anyTaint := false
	for _, ch := range cs {
		if s.taint[ch.Id] {
			anyTaint = true
		}
	}
	accepted, touched := s.spec.apply(cs)
	if err == nil {
		s.addsAfterTear++
	}
	if err != nil {
		s.rejects++
		switch badger.VerifManifestErrClass(err) {
		case "exists":
			st.Code = 1
		case "badop":
			st.Code = 2
		default:
			st.Code = 99
		}
		for _, id := range touched {
			s.taint[id] = true
		}
	} else if !os.SameFile(before, after) {
		st.Code = 4
		st.Ord = m17FirstRecordIds(s.file())
		s.bounds = []m17Bound{{8, m17Spec{}}, {int(after.Size()), s.spec.clone()}}
	} else {
		st.Code = 3
		s.bounds = append(s.bounds, m17Bound{int(after.Size()), s.spec.clone()})
	}
	s.steps = append(s.steps, st)
	sig := "addchanges-error-mismatch"
	if anyTaint {
		sig = sigF6
	}
	c.Oracle((err == nil) == accepted, sig, "addChanges accepted/rejected a change set differently from the atomic specification",
		s.replayData(J17{"err": fmt.Sprint(err)}))
	if err != nil && accepted { // keep the oracle's bookkeeping in step with the durable truth
		// the set was not written: roll the specification back is impossible here, so mark every id tainted
		for _, ch := range cs {
			s.taint[ch.Id] = true
		}
	}
}

// after a torn tail was recovered and change sets were appended, every "the MANIFEST this
// manifestFile wrote does not replay to the accepted change sets" failure is this class
func (s *m17Seq) lastStart() int {
	if len(s.bounds) < 2 {
		return 8
	}
	return s.bounds[len(s.bounds)-2].off
}

func (s *m17Seq) gsig(generic string) string {
	if s.tears > 0 && s.addsAfterTear > 0 {
		return sigTorn
	}
	return generic
}

// crash damage while closed: the MANIFEST is cut to `cut` bytes (zero: zero-filled up to its old
// size), then opened read-write again (helpOpenOrCreateManifestFile truncates the torn tail)
func (s *m17Seq) tear(cut int, zero bool) {
	c := s.c
	prevLive := s.mf.State()
	file := s.file()
	if cut > len(file) {
		cut = len(file)
	}
	s.mf.Close()
	data := append([]byte{}, file[:cut]...)
	if zero {
		data = append(data, make([]byte, len(file)-cut)...)
	}
	path := badger.VerifManifestPath(s.dir)
	if err := os.WriteFile(path, data, 0o600); err != nil {
		panic(err)
	}
	want := s.expectAt(cut)
	st := m17Step{Tear: true, Cut: cut, Zero: zero, Code: 5}
	mf, ret, err := badger.VerifManifestOpen(s.dir, s.ext, s.thr)
	if err != nil {
		st.Code = 6
		s.steps = append(s.steps, st)
		rd := s.replayData(J17{"cut": cut, "zero_filled": zero, "filelen": len(file)})
		cls := badger.VerifManifestErrClass(err)
		sig := "open-torn-tail-error:" + cls
		switch {
		case cls == "lensize" && !zero:
			sig = sigF16
		case cls == "badchecksum" && zero:
			sig = sigF5
		case cls == "exists" && len(s.taint) > 0:
			sig = sigF6
		}
		if cut >= 8 {
			c.Oracle(false, sig, "helpOpenOrCreateManifestFile (Open) fails on a MANIFEST with a torn tail: "+err.Error(), rd)
		}
		c.Case("RunTearFailed", fmt.Sprintf("(Run %s %d %s %s %s)", Zz(int64(s.thr)), s.ext, m17StepsTerm(s.steps), B(data), m17ObsTerm(prevLive)),
			J17{"thr": s.thr, "ext": s.ext, "steps": s.steps})
		s.mf = nil
		s.dead = true
		return
	}
	s.mf = mf
	s.reopens++
	s.tears++
	s.addsAfterTear = 0
	s.steps = append(s.steps, st)
	after := s.file()
	rd := s.replayData(J17{"cut": cut, "zero_filled": zero, "filelen": len(file), "after_len": len(after)})
	d := m17Diff(m17SpecOf(ret), want.snap)
	d = append(d, m17Diff(m17SpecOf(s.mf.State()), want.snap)...)
	c.Oracle(len(d) == 0, s.diffSig(d, "open-torn-tail-wrong-map"), "open of a MANIFEST with a torn tail: table map is not that of the whole change sets before the damage", rd)
	okFile := len(after) >= want.off && len(after) <= len(data) && bytes.Equal(after[:want.off], file[:want.off])
	if okFile && !zero {
		okFile = len(after) == want.off
	}
	if okFile && zero { // zero records (empty change sets) may stay
		okFile = (len(after)-want.off)%8 == 0 && len(bytes.Trim(after[want.off:], "\x00")) == 0
	}
	c.Oracle(okFile, "open-torn-tail-not-truncated", "open did not cut the MANIFEST back to the whole records", rd)
	// the change sets after the damage are gone: that is the crash, not a defect
	s.spec = want.snap.clone()
	var nb []m17Bound
	for _, b := range s.bounds {
		if b.off <= want.off {
			nb = append(nb, b)
		}
	}
	for off := want.off + 8; off <= len(after); off += 8 {
		nb = append(nb, m17Bound{off, s.spec.clone()})
	}
	s.bounds = nb
}

func (s *m17Seq) reopen() {
	c := s.c
	prevLive := s.mf.State()
	s.mf.Close()
	mf, ret, err := badger.VerifManifestOpen(s.dir, s.ext, s.thr)
	st := m17Step{Reopen: true, Code: 5}
	if err != nil {
		st.Code = 6
		s.steps = append(s.steps, st)
		sig := s.gsig("reopen-failed")
		if len(s.taint) > 0 && badger.VerifManifestErrClass(err) == "exists" {
			sig = sigF6
		}
		c.Oracle(false, sig, "re-opening the MANIFEST written by this manifestFile failed: "+err.Error(), s.replayData(nil))
		// correspondence: the model's reopen fails as well and leaves the state unchanged
		c.Case("RunReopenFailed", fmt.Sprintf("(Run %s %d %s %s %s)", Zz(int64(s.thr)), s.ext, m17StepsTerm(s.steps), B(s.file()), m17ObsTerm(prevLive)),
			J17{"thr": s.thr, "ext": s.ext, "steps": s.steps})
		s.mf = nil
		s.dead = true
		return
	}
	s.mf = mf
	s.reopens++
	s.steps = append(s.steps, st)
	d := m17Diff(m17SpecOf(ret), s.spec)
	c.Oracle(len(d) == 0, s.diffSig(d, s.gsig("reopen-differs-from-spec")), "helpOpenOrCreateManifestFile returned a table map different from the atomic specification",
		s.replayData(J17{"diff": d}))
	// after re-open the live manifest is what is durable: residue that was never written is gone
	live := m17SpecOf(s.mf.State())
	for id := range s.taint {
		if _, ok := live[id]; !ok {
			if _, ok2 := s.spec[id]; !ok2 {
				delete(s.taint, id)
			}
		}
	}
}

// Run case + oracle "replay(file) = live = specification" at the current point
func (s *m17Seq) checkpoint() {
	c := s.c
	if s.mf == nil {
		return
	}
	file := s.file()
	live := s.mf.State()
	c.Case("Run", fmt.Sprintf("(Run %s %d %s %s %s)", Zz(int64(s.thr)), s.ext, m17StepsTerm(s.steps), B(file), m17ObsTerm(live)),
		J17{"thr": s.thr, "ext": s.ext, "steps": s.steps})
	rp, off, err := badger.VerifReplayManifest(badger.VerifManifestPath(s.dir), s.ext)
	if err != nil {
		sig := s.gsig("replay-of-own-file-failed")
		if len(s.taint) > 0 && badger.VerifManifestErrClass(err) == "exists" {
			sig = sigF6
		}
		c.Oracle(false, sig, "ReplayManifestFile failed on the file the manifestFile wrote: "+err.Error(), s.replayData(nil))
		s.dead = true
		return
	}
	c.Oracle(off == int64(len(file)), s.gsig("replay-offset-not-filesize"), "truncOffset of an intact MANIFEST is not its size", s.replayData(J17{"off": off}))
	d1 := m17Diff(m17SpecOf(rp), s.spec)
	c.Oracle(len(d1) == 0, s.diffSig(d1, s.gsig("replay-differs-from-spec")), "replayed table map differs from the atomic specification of the accepted change sets",
		s.replayData(J17{"diff": d1}))
	d2 := m17Diff(m17SpecOf(live), s.spec)
	c.Oracle(len(d2) == 0, s.diffSig(d2, "live-differs-from-spec"), "live in-memory table map differs from the atomic specification of the accepted change sets",
		s.replayData(J17{"diff": d2}))
	d3 := m17Diff(m17SpecOf(rp), m17SpecOf(live))
	c.Oracle(len(d3) == 0, s.diffSig(d3, s.gsig("replay-differs-from-live")), "replayed table map differs from the live manifest",
		s.replayData(J17{"diff": d3}))
	if s.reopens == 0 && s.rejects == 0 {
		c.Oracle(rp.Creations == live.Creations && rp.Deletions == live.Deletions, "counters-differ",
			"replayed creations/deletions differ from the live counters", s.replayData(J17{"replayed": []int{rp.Creations, rp.Deletions}, "live": []int{live.Creations, live.Deletions}}))
	}
	if s.maxLvl < 256 && s.rejects == 0 {
		c.Oracle(m17LevelsConsistent(rp) && m17LevelsConsistent(live), "levels-inconsistent",
			"Levels is not the inverse image of Tables", s.replayData(nil))
	}
}

// applyManifestChange allocates one map per level up to tc.Level (uint32): a record with a valid
// CRC and a huge Level makes the real replay allocate gigabytes. The harness never feeds such a
// file to the implementation (nor to the model, whose grow_levels is unary).
func m17SafeForReplay(data []byte) bool {
	off := 8
	for off+8 <= len(data) {
		l := int(binary.BigEndian.Uint32(data[off : off+4]))
		if l < 0 || off+8+l > len(data) {
			return true
		}
		payload := data[off+8 : off+8+l]
		if crc32.Checksum(payload, m17Castagnoli) != binary.BigEndian.Uint32(data[off+4:off+8]) {
			return true
		}
		cs, err := badger.VerifUnmarshalChangeSet(payload)
		if err != nil {
			return true
		}
		for _, ch := range cs {
			if ch.Level > 4096 {
				return false
			}
		}
		off += 8 + l
	}
	return true
}

// ReplayManifestFile on arbitrary bytes: correspondence case; returns the result
func (c *Ctx) m17Replay(kind string, ext uint16, data []byte) (m17State, int64, error) {
	if !m17SafeForReplay(data) {
		c.Count("skipped-huge-level")
		return m17State{}, 0, fmt.Errorf("skipped: huge level")
	}
	d := filepath.Join(os.Getenv("VERIF_SCRATCH_DIR"), "c17_replay")
	if os.Getenv("VERIF_SCRATCH_DIR") == "" {
		d = filepath.Join(os.TempDir(), fmt.Sprintf("verif_c17_replay_%d", os.Getpid()))
	}
	os.MkdirAll(d, 0o755)
	p := filepath.Join(d, "MANIFEST")
	if err := os.WriteFile(p, data, 0o600); err != nil {
		panic(err)
	}
	st, off, err := badger.VerifReplayManifest(p, ext)
	var r string
	if err != nil {
		r = fmt.Sprintf("(RoErr %d)", m17ErrCode(err))
	} else {
		r = fmt.Sprintf("(RoOk %s %d)", m17ObsTerm(st), off)
	}
	c.Case(kind, fmt.Sprintf("(Replay %d %s %s)", ext, B(data), r), J17{"ext": ext, "file": fmt.Sprintf("%x", data)})
	return st, off, err
}

// helpOpenOrCreateManifestFile on a directory holding `data` as MANIFEST (the MANIFEST part of Open)
func (c *Ctx) m17OpenOn(ext uint16, data []byte) (ret m17State, live m17State, after []byte, err error) {
	if !m17SafeForReplay(data) {
		return ret, live, nil, fmt.Errorf("skipped: huge level")
	}
	d := c.m17NewDir()
	defer os.RemoveAll(d)
	p := badger.VerifManifestPath(d)
	if err := os.WriteFile(p, data, 0o600); err != nil {
		panic(err)
	}
	mf, ret, err := badger.VerifManifestOpen(d, ext, 10000)
	if err != nil {
		return ret, live, nil, err
	}
	live = mf.State()
	mf.Close()
	after, _ = os.ReadFile(p)
	return ret, live, after, nil
}

// expected result of replaying a file cut at `cut`: the last record boundary <= cut
func (s *m17Seq) expectAt(cut int) m17Bound {
	best := s.bounds[0]
	for _, b := range s.bounds {
		if b.off <= cut {
			best = b
		}
	}
	return best
}

// truncation at `cut` (rest missing)
func (s *m17Seq) truncCase(file []byte, cut int, withOpen bool) {
	c := s.c
	st, off, err := c.m17Replay("ReplayTrunc", s.ext, file[:cut])
	if cut < 8 {
		return // shorter than the magic: not a torn append (the header is written before the rename)
	}
	want := s.expectAt(cut)
	rd := s.replayData(J17{"cut": cut, "filelen": len(file)})
	if err != nil {
		sig := "truncated-tail-error:" + badger.VerifManifestErrClass(err)
		if badger.VerifManifestErrClass(err) == "lensize" {
			sig = sigF16
		}
		c.Oracle(false, sig, "ReplayManifestFile fails on a MANIFEST whose tail is cut: "+err.Error(), rd)
	} else {
		d := m17Diff(m17SpecOf(st), want.snap)
		rd["diff"] = d
		c.Oracle(len(d) == 0, s.diffSig(d, "truncated-tail-not-whole-changeset-prefix"),
			"replay of a truncated MANIFEST is not the table map after a prefix of whole change sets", rd)
		c.Oracle(off == int64(want.off), "truncated-tail-offset", "truncOffset is not the end of the last whole record", rd)
	}
	if withOpen {
		ret, live, after, oerr := c.m17OpenOn(s.ext, file[:cut])
		if oerr != nil {
			sig := "open-truncated-tail-error:" + badger.VerifManifestErrClass(oerr)
			if badger.VerifManifestErrClass(oerr) == "lensize" {
				sig = sigF16
			}
			c.Oracle(false, sig, "helpOpenOrCreateManifestFile fails on a MANIFEST whose tail is cut: "+oerr.Error(), rd)
			c.Oracle(err != nil, "open-vs-replay", "open failed where replay succeeded", rd)
		} else {
			d := m17Diff(m17SpecOf(ret), want.snap)
			d = append(d, m17Diff(m17SpecOf(live), want.snap)...)
			c.Oracle(len(d) == 0, s.diffSig(d, "open-truncated-tail-wrong-map"), "open of a truncated MANIFEST: wrong table map", rd)
			c.Oracle(bytes.Equal(after, file[:want.off]), "open-truncated-tail-not-truncated", "open did not truncate the torn tail", rd)
		}
	}
}

// tail cut at `cut`, rest zero-filled up to the original size
func (s *m17Seq) zeroCase(file []byte, cut int, withOpen bool) {
	c := s.c
	data := append(append([]byte{}, file[:cut]...), make([]byte, len(file)-cut)...)
	st, _, err := c.m17Replay("ReplayZero", s.ext, data)
	if cut < 8 {
		return
	}
	want := s.expectAt(cut)
	rd := s.replayData(J17{"cut": cut, "filelen": len(file), "zero_filled": true})
	if err != nil {
		sig := "zero-filled-tail-error:" + badger.VerifManifestErrClass(err)
		if badger.VerifManifestErrClass(err) == "badchecksum" {
			sig = sigF5
		}
		c.Oracle(false, sig, "ReplayManifestFile fails on a MANIFEST whose tail is cut and zero-filled: "+err.Error(), rd)
	} else {
		d := m17Diff(m17SpecOf(st), want.snap)
		rd["diff"] = d
		c.Oracle(len(d) == 0, s.diffSig(d, "zero-filled-tail-not-whole-changeset-prefix"),
			"replay of a zero-filled MANIFEST tail is not the table map after a prefix of whole change sets", rd)
	}
	if withOpen {
		_, live, _, oerr := c.m17OpenOn(s.ext, data)
		if oerr != nil {
			sig := "open-zero-filled-tail-error:" + badger.VerifManifestErrClass(oerr)
			if badger.VerifManifestErrClass(oerr) == "badchecksum" {
				sig = sigF5
			}
			c.Oracle(false, sig, "helpOpenOrCreateManifestFile (Open) fails on a zero-filled MANIFEST tail: "+oerr.Error(), rd)
		} else {
			d := m17Diff(m17SpecOf(live), want.snap)
			c.Oracle(len(d) == 0, s.diffSig(d, "open-zero-filled-tail-wrong-map"), "open of a zero-filled MANIFEST tail: wrong table map", rd)
		}
	}
}

// one byte changed at position pos
func (s *m17Seq) corruptCase(file []byte, pos int, x byte) {
	c := s.c
	data := append([]byte{}, file...)
	data[pos] ^= x
	st, _, err := c.m17Replay("ReplayCorrupt", s.ext, data)
	rd := s.replayData(J17{"pos": pos, "xor": x})
	if pos < 8 {
		c.Oracle(err != nil, "corrupt-header-accepted", "a MANIFEST with a damaged magic/version header was accepted", rd)
		return
	}
	// which record is hit, and where
	recStart, recIdx := 8, -1
	for i := 1; i < len(s.bounds); i++ {
		if pos < s.bounds[i].off {
			recStart, recIdx = s.bounds[i-1].off, i
			break
		}
	}
	if recIdx < 0 {
		return
	}
	if pos >= recStart+4 { // CRC field or payload: must be reported as a checksum error
		c.Oracle(err != nil && badger.VerifManifestErrClass(err) == "badchecksum", "corrupt-record-not-badchecksum",
			"a record with a changed payload/CRC byte was not reported as errBadChecksum", rd)
		return
	}
	// length field: any error, or a stop at a whole-record boundary — never a partial change set
	if err == nil {
		ok := false
		for _, b := range s.bounds {
			if len(m17Diff(m17SpecOf(st), b.snap)) == 0 {
				ok = true
			}
		}
		c.Oracle(ok, s.diffSig(nil, "corrupt-length-partial-apply"), "a record with a damaged length field led to a table map that is no whole-change-set prefix", rd)
	}
}

// ---- generators ----
func (c *Ctx) m17Level() uint32 {
	switch c.Rng.Intn(20) {
	case 0:
		return 255
	case 1:
		return 256 + uint32(c.Rng.Intn(50))
	case 2:
		return uint32(c.Rng.Intn(40))
	}
	return uint32(c.Rng.Intn(7))
}
func (c *Ctx) m17Enum() int32 {
	switch c.Rng.Intn(12) {
	case 0:
		return int32(c.Rng.Intn(5))
	case 1:
		return -int32(c.Rng.Intn(3)) - 1
	case 2:
		return int32(c.Rng.Uint32())
	}
	return 0
}

type m17Gen struct {
	c      *Ctx
	live   []uint64 // ids the generator believes are present
	next   uint64
	bigIds bool
	pRej   int // per-mille probability of a change that makes the set be rejected
}

func (g *m17Gen) newID() uint64 {
	if g.bigIds && g.c.Rng.Intn(3) == 0 {
		return g.c.u64()
	}
	g.next++
	return g.next
}

func (g *m17Gen) changeSet() []m17Ch {
	c := g.c
	n := []int{0, 1, 1, 1, 2, 2, 3, 4, 6}[c.Rng.Intn(9)]
	var cs []m17Ch
	for i := 0; i < n; i++ {
		r := c.Rng.Intn(1000)
		switch {
		case r < g.pRej/2 && len(g.live) > 0: // CREATE of an existing id
			cs = append(cs, m17Ch{Id: g.live[c.Rng.Intn(len(g.live))], Level: c.m17Level()})
		case r < g.pRej: // invalid op
			cs = append(cs, m17Ch{Id: g.newID(), Op: []int32{2, 3, -1, 1 << 20}[c.Rng.Intn(4)]})
		case r < 450 || len(g.live) == 0: // CREATE
			ch := m17Ch{Id: g.newID(), Level: c.m17Level(), Compression: uint32(c.Rng.Intn(3))}
			if c.Rng.Intn(3) == 0 {
				ch.KeyId = c.u64()
			}
			if c.Rng.Intn(10) == 0 {
				ch.Compression = c.u32()
			}
			if c.Rng.Intn(10) == 0 {
				ch.EncAlgo = c.m17Enum()
			}
			if c.Rng.Intn(40) == 0 {
				ch.Id = 0
			}
			cs = append(cs, ch)
			g.live = append(g.live, ch.Id)
		case r < 900: // DELETE of a (probably) known id
			k := c.Rng.Intn(len(g.live))
			ch := m17Ch{Id: g.live[k], Op: 1}
			if c.Rng.Intn(8) == 0 { // delete changes carrying other fields: ignored by apply, but encoded
				ch.Level = c.m17Level()
				ch.KeyId = uint64(c.Rng.Intn(3))
			}
			g.live = append(g.live[:k], g.live[k+1:]...)
			cs = append(cs, ch)
		default: // DELETE of an unknown id
			cs = append(cs, m17Ch{Id: 1000000 + uint64(c.Rng.Intn(50)), Op: 1})
		}
	}
	return cs
}

// a whole sequence with its sweeps
func (c *Ctx) m17Sequence(idx int) {
	thr := []int{-1, 0, 0, 1, 2, 3, 5, 8, 10000}[c.Rng.Intn(9)]
	ext := []uint16{0, 0, 1, 258, 65535}[c.Rng.Intn(5)]
	s, err := m17Open(c, thr, ext)
	if err != nil {
		panic(err)
	}
	defer s.close()
	g := &m17Gen{c: c, bigIds: c.Rng.Intn(4) == 0}
	if idx%6 == 5 {
		g.pRej = 120
	}
	nSteps := 3 + c.Rng.Intn(22)
	for i := 0; i < nSteps; i++ {
		switch r := c.Rng.Intn(24); {
		case r < 2:
			s.reopen()
		case r < 4 && i > 0: // crash damage in the last records, or exactly at a record boundary
			file := s.file()
			lo := s.lastStart()
			if len(s.bounds) > 2 && c.Rng.Intn(3) == 0 {
				lo = s.bounds[len(s.bounds)-3].off
			}
			cut := lo + c.Rng.Intn(len(file)-lo+1)
			if c.Rng.Intn(4) == 0 {
				cut = s.bounds[len(s.bounds)-1].off
				if c.Rng.Intn(2) == 0 {
					cut = s.lastStart()
				}
			}
			s.tear(cut, c.Rng.Intn(4) == 0 && cut < len(file))
			g.live = g.live[:0]
			for id := range s.spec {
				g.live = append(g.live, id)
			}
			sort.Slice(g.live, func(a, b int) bool { return g.live[a] < g.live[b] })
		default:
			s.add(g.changeSet())
		}
		if c.Rng.Intn(4) == 0 || i == nSteps-1 || s.dead {
			s.checkpoint()
		}
		if s.dead {
			return
		}
	}
	s.sweeps(12, 8, 8, 3)
}

// truncation / zero-fill / corruption sweeps on the current file
func (s *m17Seq) sweeps(nTrunc, nZero, nCorrupt, nOpen int) {
	c := s.c
	file := s.file()
	n := len(file)
	lastStart := s.lastStart()
	pick := func(k int) []int { // boundary-heavy choice of cut points
		set := map[int]bool{}
		cand := []int{lastStart, lastStart + 1, lastStart + 3, lastStart + 4, lastStart + 7, lastStart + 8, lastStart + 9, n - 1}
		for _, b := range s.bounds {
			cand = append(cand, b.off, b.off+8, b.off-1)
		}
		for len(set) < k && len(set) < n {
			var x int
			switch c.Rng.Intn(3) {
			case 0:
				x = cand[c.Rng.Intn(len(cand))]
			case 1:
				x = lastStart + c.Rng.Intn(n-lastStart+1)
			default:
				x = c.Rng.Intn(n + 1)
			}
			if x >= 0 && x < n {
				set[x] = true
			}
		}
		out := []int{}
		for x := range set {
			out = append(out, x)
		}
		sort.Ints(out)
		return out
	}
	for i, cut := range pick(nTrunc) {
		s.truncCase(file, cut, i < nOpen)
	}
	for i, cut := range pick(nZero) {
		s.zeroCase(file, cut, i < nOpen)
	}
	for _, pos := range pick(nCorrupt) {
		s.corruptCase(file, pos, byte(1<<uint(c.Rng.Intn(8))))
	}
}

// rewrite-decision boundaries: deletions == threshold, deletions == ratio*(creations-deletions)
func (c *Ctx) m17Boundary(idx int) {
	_, ratio, _ := badger.VerifManifestConsts()
	k := 1 + idx%2                   // creations - deletions at the boundary
	thr := []int{0, 3, ratio * k, ratio*k - 1, ratio*k + 1, -1}[(idx/2)%6]
	s, err := m17Open(c, thr, uint16(idx%3))
	if err != nil {
		panic(err)
	}
	defer s.close()
	if thr == -1 && idx%4 < 2 { // creations = deletions = 0 > threshold: empty change sets
		s.add(nil)
		s.add(nil)
		s.checkpoint()
		return
	}
	n := ratio*k + k // after ratio*k deletions: deletions == ratio * (creations - deletions)
	var cs []m17Ch
	for i := 1; i <= n; i++ {
		cs = append(cs, m17Ch{Id: uint64(i), Level: uint32(i % 7), Compression: uint32(i % 3)})
	}
	s.add(cs)
	for i := 1; i <= ratio*k+2; i++ {
		if idx%5 == 4 && i%3 == 0 {
			s.add([]m17Ch{{Id: uint64(5000 + i), Op: 1}}) // unknown id: counts as a deletion all the same
		} else {
			s.add([]m17Ch{{Id: uint64(i), Op: 1}})
		}
		if i >= ratio*k-1 || i == thr || i == thr+1 {
			s.checkpoint()
		}
	}
}

// crash mid-append, open again, append, open again: every cut of the last record of a small file
// (and the two record boundaries), rest missing or zero-filled
func (c *Ctx) m17TearAll(variant int) {
	base := [][]m17Ch{
		{{Id: 1, Level: 1, Compression: 1}, {Id: 2, Level: 2, KeyId: 7}},
		{{Id: 3, Level: 0}},
		{{Id: 1, Op: 1}, {Id: 4, Level: 3, KeyId: 300, Compression: 2}},
	}
	if variant == 1 { // a last record longer than everything before it (F22 region)
		var big []m17Ch
		for i := uint64(0); i < 9; i++ {
			big = append(big, m17Ch{Id: 100 + i, Level: 4, KeyId: 1 << 40, Compression: 1})
		}
		base = [][]m17Ch{{{Id: 1}}, big}
	}
	more := [][]m17Ch{{{Id: 50, Level: 5}}, {{Id: 2, Op: 1}, {Id: 51, Level: 6, Compression: 2}}}
	// file layout of the base run
	probe, err := m17Open(c, 10000, 0)
	if err != nil {
		panic(err)
	}
	for _, cs := range base {
		probe.add(cs)
	}
	n := len(probe.file())
	start := probe.bounds[len(probe.bounds)-2].off
	probe.close()
	var cuts []int
	for cut := start; cut <= n; cut++ {
		if variant == 1 && cut > start+12 && cut < n-3 && cut%9 != 0 {
			continue
		}
		cuts = append(cuts, cut)
	}
	for _, cut := range cuts {
		for _, zero := range []bool{false, true} {
			if zero && cut == n {
				continue
			}
			s, err := m17Open(c, 10000, 0)
			if err != nil {
				panic(err)
			}
			for _, cs := range base {
				s.add(cs)
			}
			s.tear(cut, zero)
			if !s.dead {
				s.add(more[0])
				s.checkpoint()
				s.reopen()
			}
			if !s.dead {
				s.checkpoint()
				s.add(more[1])
				s.checkpoint()
			}
			s.close()
		}
	}
}

// every cut of a small file (exhaustive over the file's bytes)
func (c *Ctx) m17AllCuts() {
	s, err := m17Open(c, 10000, 0)
	if err != nil {
		panic(err)
	}
	defer s.close()
	g := &m17Gen{c: c}
	for i := 0; i < 2+c.Rng.Intn(3); i++ {
		s.add(g.changeSet())
	}
	s.checkpoint()
	file := s.file()
	for cut := 0; cut < len(file); cut++ {
		s.truncCase(file, cut, cut%9 == 0)
		if cut >= 8 {
			s.zeroCase(file, cut, cut%9 == 0)
		}
	}
	for pos := 0; pos < len(file); pos++ {
		s.corruptCase(file, pos, byte(1<<uint(c.Rng.Intn(8))))
	}
}

func m17Record(payload []byte) []byte {
	var h [8]byte
	binary.BigEndian.PutUint32(h[0:4], uint32(len(payload)))
	binary.BigEndian.PutUint32(h[4:8], crc32.Checksum(payload, m17Castagnoli))
	return append(h[:], payload...)
}
func m17Header(ext uint16, version uint16) []byte {
	b := []byte{'B', 'd', 'g', 'r', 0, 0, 0, 0}
	binary.BigEndian.PutUint16(b[4:6], ext)
	binary.BigEndian.PutUint16(b[6:8], version)
	return b
}

// protobuf payloads that are valid wire format but not what Marshal emits, and invalid ones
func (c *Ctx) m17WeirdPayload(forReplay bool) []byte {
	var b []byte
	v := func(x uint64) { b = binary.AppendUvarint(b, x) }
	n := 1 + c.Rng.Intn(3)
	for i := 0; i < n; i++ {
		var body []byte
		w := func(x uint64) { body = binary.AppendUvarint(body, x) }
		nf := c.Rng.Intn(6)
		for j := 0; j < nf; j++ {
			switch c.Rng.Intn(14) {
			case 0, 1, 2:
				w(1 << 3)
				w(uint64(c.Rng.Intn(6)))
			case 3:
				w(2 << 3)
				w(uint64(c.Rng.Intn(3)))
			case 4: // enum fields given a varint beyond int32: truncated to the low 32 bits, sign-extended
				w(uint64(2+3*c.Rng.Intn(2)) << 3)
				w(c.u64())
			case 5:
				w(3 << 3)
				if forReplay { // uint32 field given a 64-bit varint: truncated to a small level
					w(uint64(c.Rng.Intn(4))<<32 | uint64(c.Rng.Intn(300)))
				} else {
					w(c.u64())
				}
			case 6:
				w(uint64(1+c.Rng.Intn(6)) << 3)
				w(0) // explicit default
			case 7:
				w(uint64(7+c.Rng.Intn(30))<<3 | 0) // unknown varint field
				w(c.u64())
			case 8:
				w(uint64(1+c.Rng.Intn(9))<<3 | 1) // fixed64 (known numbers: wire-type mismatch)
				body = append(body, c.rawBytes(9)...)
			case 9:
				w(uint64(1+c.Rng.Intn(9))<<3 | 2) // length-delimited
				l := c.Rng.Intn(4)
				w(uint64(l))
				body = append(body, make([]byte, l)...)
			case 10:
				w(uint64(1+c.Rng.Intn(9))<<3 | 5) // fixed32
				body = append(body, c.rawBytes(5)...)
			case 11:
				w(uint64(c.Rng.Intn(9))<<3 | uint64(3+c.Rng.Intn(5))) // groups, reserved types, field 0
			case 12:
				body = append(body, 0x80|byte(c.Rng.Intn(128))) // dangling varint
			case 13:
				w(uint64(4<<3) | 0)
				body = append(body, 0xff, 0xff, 0xff, 0xff, 0xff, 0xff, 0xff, 0xff, 0xff, byte(c.Rng.Intn(4))) // 10-byte varint, overflow when last > 1
			}
		}
		switch c.Rng.Intn(10) {
		case 0:
			v(uint64(2+c.Rng.Intn(5))<<3 | 2) // unknown top-level field
		case 1:
			v(1<<3 | 0) // field 1 with the wrong wire type
			v(uint64(c.Rng.Intn(300)))
			continue
		default:
			v(1<<3 | 2)
		}
		l := len(body)
		if c.Rng.Intn(12) == 0 {
			l += 1 + c.Rng.Intn(3) // length beyond the buffer
		}
		v(uint64(l))
		b = append(b, body...)
	}
	return b
}

func (c *Ctx) m17Functions(i int) {
	switch i % 5 {
	case 0: // Marshal of generated change sets, field values at every varint width
		n := c.Rng.Intn(4)
		cs := make([]m17Ch, n)
		for k := range cs {
			cs[k] = m17Ch{Id: c.u64(), Op: int32(c.Rng.Intn(2)), Level: c.u32(), KeyId: c.u64(), Compression: c.u32()}
			if c.Rng.Intn(3) == 0 {
				cs[k].Op = c.m17Enum()
				cs[k].EncAlgo = c.m17Enum()
			}
			if c.Rng.Intn(3) == 0 {
				cs[k] = m17Ch{Id: uint64(c.Rng.Intn(3)), Level: uint32(c.Rng.Intn(2))}
			}
		}
		enc, err := badger.VerifMarshalChangeSet(cs)
		if err != nil {
			panic(err)
		}
		c.Case("Marshal", fmt.Sprintf("(Marshal %s %s)", m17CsTerm(cs), B(enc)), J17{"cs": cs})
		back, err := badger.VerifUnmarshalChangeSet(enc)
		ok := err == nil && len(back) == len(cs)
		for k := 0; ok && k < len(cs); k++ {
			ok = back[k] == cs[k]
		}
		c.Oracle(ok, "protobuf-roundtrip", "Unmarshal(Marshal(changeset)) != changeset", J17{"cs": cs})
		rt := "None"
		if err == nil {
			rt = Some(m17CsTerm(back))
		}
		c.Case("UnmarshalRT", fmt.Sprintf("(Unmarshal %s %s)", B(enc), rt), J17{"b": fmt.Sprintf("%x", enc)})
	case 1, 2: // Unmarshal of non-canonical / invalid wire data
		b := c.m17WeirdPayload(false)
		back, err := badger.VerifUnmarshalChangeSet(b)
		rt := "None"
		if err == nil {
			rt = Some(m17CsTerm(back))
		}
		c.Case("UnmarshalWeird", fmt.Sprintf("(Unmarshal %s %s)", B(b), rt), J17{"b": fmt.Sprintf("%x", b)})
	case 3: // Unmarshal of a mutated valid encoding
		cs := []m17Ch{{Id: c.u64(), Level: uint32(c.Rng.Intn(7)), KeyId: uint64(c.Rng.Intn(2)), Compression: 1}, {Id: uint64(c.Rng.Intn(300)), Op: 1}}
		b, _ := badger.VerifMarshalChangeSet(cs)
		if len(b) > 0 {
			switch c.Rng.Intn(3) {
			case 0:
				b[c.Rng.Intn(len(b))] ^= byte(1 << uint(c.Rng.Intn(8)))
			case 1:
				b = b[:c.Rng.Intn(len(b))]
			default:
				b = append(b, c.rawBytes(3)...)
			}
		}
		back, err := badger.VerifUnmarshalChangeSet(b)
		rt := "None"
		if err == nil {
			rt = Some(m17CsTerm(back))
		}
		c.Case("UnmarshalMut", fmt.Sprintf("(Unmarshal %s %s)", B(b), rt), J17{"b": fmt.Sprintf("%x", b)})
	case 4:
		b := c.rawBytes(40)
		c.Case("Crc", fmt.Sprintf("(Crc %s %d)", B(b), crc32.Checksum(b, m17Castagnoli)), J17{"b": fmt.Sprintf("%x", b)})
	}
}

// files that no manifestFile wrote: header damage, records with valid CRC and odd payloads
func (c *Ctx) m17Malformed(i int) {
	ext := uint16(c.Rng.Intn(3))
	good, _ := badger.VerifMarshalChangeSet([]m17Ch{{Id: 1, Level: 1}, {Id: 2, Level: 2, KeyId: 9, Compression: 2}})
	switch i % 8 {
	case 0: // short / wrong magic
		h := m17Header(ext, 8)
		switch c.Rng.Intn(3) {
		case 0:
			h = h[:c.Rng.Intn(8)]
		case 1:
			h[c.Rng.Intn(4)] ^= 0x20
		default:
			h = append([]byte("Bdgx"), h[4:]...)
		}
		_, _, err := c.m17Replay("ReplayBadMagic", ext, append(h, m17Record(good)...))
		c.Oracle(err != nil, "bad-magic-accepted", "bad magic accepted", J17{"h": h})
	case 1: // version / external magic mismatch (version is checked first)
		h := m17Header(ext+uint16(c.Rng.Intn(2)), uint16(7+c.Rng.Intn(3)))
		_, _, err := c.m17Replay("ReplayVersion", ext, append(h, m17Record(good)...))
		isGood := bytes.Equal(h, m17Header(ext, 8))
		c.Oracle((err == nil) == isGood, "version-check", "version / external magic check wrong", J17{"h": h})
	case 2: // valid CRC, odd payload
		f := append(m17Header(ext, 8), m17Record(good)...)
		f = append(f, m17Record(c.m17WeirdPayload(true))...)
		f = append(f, m17Record(nil)...)
		c.m17Replay("ReplayWeirdPayload", ext, f)
	case 3: // replayed CREATE of an existing table / invalid op: applyChangeSet error inside replay
		bad, _ := badger.VerifMarshalChangeSet([]m17Ch{{Id: 7}, {Id: uint64(1 + c.Rng.Intn(2)), Op: int32(c.Rng.Intn(2)) * 2}})
		f := append(m17Header(ext, 8), m17Record(good)...)
		f = append(f, m17Record(bad)...)
		_, _, err := c.m17Replay("ReplayApplyError", ext, f)
		c.Oracle(err != nil, "replay-apply-error-swallowed", "replay accepted a change set that applyChangeSet rejects", J17{"f": fmt.Sprintf("%x", f)})
	case 4: // length field larger than the file / just fitting / huge
		f := append(m17Header(ext, 8), m17Record(good)...)
		var h [8]byte
		l := []uint32{uint32(len(f)) + 8, uint32(len(f)) + 9, uint32(len(f)) + 7, 0xffffffff, 1 << 31, uint32(c.Rng.Intn(30))}[c.Rng.Intn(6)]
		binary.BigEndian.PutUint32(h[0:4], l)
		f = append(f, h[:]...)
		f = append(f, c.rawBytes(12)...)
		c.m17Replay("ReplayLen", ext, f)
	case 5: // wrong CRC with intact payload
		f := append(m17Header(ext, 8), m17Record(good)...)
		r := m17Record(good)
		r[4+c.Rng.Intn(4)] ^= byte(1 << uint(c.Rng.Intn(8)))
		f = append(f, r...)
		_, _, err := c.m17Replay("ReplayBadCrc", ext, f)
		c.Oracle(err != nil && badger.VerifManifestErrClass(err) == "badchecksum", "corrupt-record-not-badchecksum", "wrong CRC not reported as errBadChecksum", J17{"f": fmt.Sprintf("%x", f)})
	case 6: // all-zero tail after a good file (zero records are empty change sets)
		f := append(m17Header(ext, 8), m17Record(good)...)
		f = append(f, make([]byte, c.Rng.Intn(30))...)
		st, _, err := c.m17Replay("ReplayZeroTail", ext, f)
		c.Oracle(err == nil && len(st.Tables) == 2, "zero-tail-after-whole-record", "zero bytes after the last whole record change the result", J17{"f": fmt.Sprintf("%x", f)})
	case 7: // empty file body / header only
		f := m17Header(ext, 8)
		st, off, err := c.m17Replay("ReplayHeaderOnly", ext, f)
		c.Oracle(err == nil && len(st.Tables) == 0 && off == 8, "header-only", "header-only MANIFEST not replayed as empty", nil)
	}
}

// ---- fixed witnesses of the findings (replayed on every run) ----
func (c *Ctx) m17Witnesses() {
	// F6 (a),(b) = coq/A/ManifestWitness.v w6a, w6b: [create 1]; [create 2; create 1] rejected, 2 stays
	// in memory; three deletes of unknown ids make the rewrite due, which persists table 2
	{
		s, err := m17Open(c, 2, 0)
		if err != nil {
			panic(err)
		}
		s.add([]m17Ch{{Id: 1}})
		s.add([]m17Ch{{Id: 2}, {Id: 1}})
		s.checkpoint()
		s.add([]m17Ch{{Id: 100, Op: 1}})
		s.add([]m17Ch{{Id: 101, Op: 1}})
		s.add([]m17Ch{{Id: 102, Op: 1}})
		s.checkpoint()
		s.reopen()
		s.checkpoint()
		s.close()
	}
	// F6 (c) = w6c: [delete 1; create 5; create 5] rejected after deleting 1 in memory; [create 1]
	// is then accepted and appended: the MANIFEST creates table 1 twice and no longer replays
	{
		s, err := m17Open(c, 2, 0)
		if err != nil {
			panic(err)
		}
		s.add([]m17Ch{{Id: 1}})
		s.add([]m17Ch{{Id: 1, Op: 1}, {Id: 5}, {Id: 5}})
		s.add([]m17Ch{{Id: 1}})
		s.checkpoint()
		if !s.dead {
			c.Oracle(false, "F6-witness-c-not-reproduced", "witness w6c: the MANIFEST still replays", s.replayData(nil))
		}
		s.reopen()
		s.close()
	}
	// F5 and F16: [create 1..10] appended to a fresh file; cut inside the payload
	{
		s, err := m17Open(c, 10000, 0)
		if err != nil {
			panic(err)
		}
		var cs []m17Ch
		for i := uint64(0); i < 10; i++ {
			cs = append(cs, m17Ch{Id: 1000 + i, Level: 3, KeyId: 77, Compression: 1})
		}
		s.add([]m17Ch{{Id: 1}})
		s.add(cs)
		s.checkpoint()
		file := s.file()
		start := s.bounds[len(s.bounds)-2].off
		s.truncCase(file, start+8+5, true) // F16: payload length > size of the cut file
		s.truncCase(file, len(file)-3, true)
		s.zeroCase(file, start+8+5, true) // F5
		s.zeroCase(file, start+2, true)   // zero-filled inside the length field: zero records
		s.close()
	}
}

// watchdog: the MANIFEST code allocates per level number; never let a harness bug eat the machine
func m17MemoryWatchdog() {
	go func() {
		for {
			time.Sleep(200 * time.Millisecond)
			var ms runtime.MemStats
			runtime.ReadMemStats(&ms)
			if ms.Sys > 6<<30 {
				fmt.Fprintln(os.Stderr, "C17 harness: memory watchdog (> 6 GiB) — aborting")
				os.Exit(4)
			}
		}
	}()
}

// F5 at the level of badger.Open: a real database directory whose MANIFEST tail is cut inside the
// last record; rest missing => Open succeeds; rest zero-filled => Open fails (errBadChecksum).
func (c *Ctx) m17OpenLevel() {
	dir := c.m17NewDir()
	defer os.RemoveAll(dir)
	opt := badger.DefaultOptions(dir).WithLogger(nil).WithNumCompactors(0).
		WithValueLogFileSize(1 << 20).WithValueThreshold(1 << 10)
	db, err := badger.Open(opt)
	if err != nil {
		panic(err)
	}
	err = db.Update(func(txn *badger.Txn) error { return txn.Set([]byte("k"), []byte("v")) })
	if err == nil {
		err = db.Close() // flushes the memtable: one table, one MANIFEST record
	}
	if err != nil {
		panic(err)
	}
	p := badger.VerifManifestPath(dir)
	data, _ := os.ReadFile(p)
	if len(data) <= 16+8+2 {
		c.Count("open-level-skipped")
		return
	}
	cut := len(data) - 2
	rd := J17{"open_level": true, "filelen": len(data), "cut": cut}
	// (1) rest missing
	os.WriteFile(p, data[:cut], 0o600)
	db, err = badger.Open(opt)
	c.Oracle(err == nil, "open-truncated-manifest-failed", "badger.Open fails on a MANIFEST whose last record is cut (rest missing): "+fmt.Sprint(err), rd)
	if err == nil {
		db.Close()
	}
	// (2) rest zero-filled
	os.WriteFile(p, append(append([]byte{}, data[:cut]...), make([]byte, len(data)-cut)...), 0o600)
	db, err = badger.Open(opt)
	sig := "open-zero-filled-manifest-failed"
	if err != nil && badger.VerifManifestErrClass(err) == "badchecksum" {
		sig = sigF5
	}
	c.Oracle(err == nil, sig, "badger.Open fails on a MANIFEST whose last record is cut and zero-filled: "+fmt.Sprint(err), rd)
	if err == nil {
		db.Close()
	}
}

func runC17(c *Ctx) error {
	m17MemoryWatchdog()
	c.Setup("Uvarint Manifest CorrC17", "run_case")
	thrC, ratioC, verC := badger.VerifManifestConsts()
	c.Extra["manifest_consts"] = []int{thrC, ratioC, int(verC)} // the model reads them from gen/Consts.v
	c.m17Witnesses()
	c.m17OpenLevel()
	c.m17TearAll(0)
	c.m17TearAll(1)
	c.m17AllCuts()
	for i := 0; i < 12; i++ {
		c.m17Boundary(i)
	}
	for i := 0; c.nCases < c.N; i++ {
		switch {
		case i%9 == 6:
			c.m17Boundary(12 + i/9)
		case i%3 == 0:
			c.m17Sequence(i / 3)
		case i%3 == 1:
			for k := 0; k < 25 && c.nCases < c.N; k++ {
				c.m17Functions(i*25 + k)
			}
		default:
			for k := 0; k < 8 && c.nCases < c.N; k++ {
				c.m17Malformed(i*8 + k)
			}
		}
	}
	return nil
}
