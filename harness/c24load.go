package main

// C24, loads that span several loader batches: DB.Load / KVLoader runs into targets opened with
// a small MemTableSize (so maxBatchCount / maxBatchSize are small), with streams whose entry
// counts and byte sizes straddle 1x, 2x, kx the batch limits (and sit exactly on them, +-1).
//   direct : a synthetic KV sequence pushed through the public KVLoader API (Set / Finish); the
//            loader's (len(entries), entriesSize, totalSize) is read in front of every send
//   synth  : the same sequences framed as a backup stream and restored with DB.Load
//   chain  : a real source DB, a full backup plus incremental backups (each taken with the
//            version the previous one returned), restored with DB.Load into several targets
// Observed for the model (coq/B/Loader.v through corr/CorrC24.v LoaderRun): the number of
// requests that passed sendToWriteCh and the entry counts of the requests the write path
// processed (existing hook points), the loader states, the error class.
// Property oracle: every (key, version, value, meta, user meta, expiry) of the stream is in the
// target, nothing else is; for chains: every key reads in the target as in the source.

import (
	"bytes"
	"encoding/binary"
	"errors"
	"fmt"
	"math"
	"os"
	"path/filepath"
	"sort"
	"sync"
	"time"

	badger "github.com/dgraph-io/badger/v4"
	"github.com/dgraph-io/badger/v4/pb"
	"google.golang.org/protobuf/proto"
)

// sterm wraps a Stream / Backup / Load case of CorrC25 for C24's own case type.
func (c *Ctx) sterm(t string) string {
	if c.Prop == "C24" {
		return "(SCase " + t + ")"
	}
	return t
}

type ldLimits struct{ MaxC, MaxS, Thr, Flush int64 }

func mn64(a, b int64) int64 {
	if a < b {
		return a
	}
	return b
}

// est: structs.go estimateSizeAndSetThreshold for the fresh Entry KVLoader.Set builds
// (re-stated here for the oracle's classification only; the model has its own in A/Threshold.v)
func (l ldLimits) est(x skv) int64 {
	k, v := int64(len(x.Key)+8), int64(len(x.Val))
	if v < l.Thr {
		return k + v + 2
	}
	return k + 12 + 2
}

// an ErrTxnTooBig from Load is legitimate only when the target cannot hold some entry at all
func (l ldLimits) unstorable(kvs []skv) bool {
	if l.MaxC < 2 && len(kvs) > 0 {
		return true
	}
	for _, x := range kvs {
		if l.est(x) >= l.MaxS {
			return true
		}
	}
	return false
}

// ---- observation of the write path through the existing hook points ----
type ldRecorder struct {
	mu      sync.Mutex
	sends   int
	written []int64
}

func (r *ldRecorder) install() {
	badger.VerifSetController(&badger.VerifController{
		Point: func(name string, args ...uint64) {
			switch name {
			case "sendToWriteCh.beforeSend":
				r.mu.Lock()
				r.sends++
				r.mu.Unlock()
			case "persist.wal.request-done":
				r.mu.Lock()
				r.written = append(r.written, int64(args[0]))
				r.mu.Unlock()
			}
		},
	})
}
func (r *ldRecorder) reset() {
	r.mu.Lock()
	r.sends, r.written = 0, nil
	r.mu.Unlock()
}
func (r *ldRecorder) nSends() int {
	r.mu.Lock()
	defer r.mu.Unlock()
	return r.sends
}
func (r *ldRecorder) snapshot() (int, []int64) {
	r.mu.Lock()
	defer r.mu.Unlock()
	return r.sends, append([]int64{}, r.written...)
}

var ldDrainKey = []byte("\xff\xffc24-drain")

// drain: after a rejected batch Load / Set return without waiting for the batches in flight;
// a write through the same (FIFO, single-consumer) write channel waits for them.  Managed
// targets only.  Returns the observation with the drain write removed.
func (r *ldRecorder) drain(tdb *badger.DB) (int, []int64, error) {
	sends, _ := r.snapshot()
	tx := tdb.NewTransactionAt(1, true)
	if err := tx.Set(ldDrainKey, nil); err != nil {
		return 0, nil, err
	}
	if err := tx.CommitAt(1, nil); err != nil {
		return 0, nil, err
	}
	_, w := r.snapshot()
	if len(w) == 0 {
		return 0, nil, errors.New("drain write not observed")
	}
	return sends, w[:len(w)-1], nil
}

// ---- streams ----
func pbOf(x skv, bare bool) *pb.KV {
	kv := &pb.KV{Key: x.Key, Value: x.Val, Version: x.Ver, ExpiresAt: x.Exp}
	if !(bare && x.Meta == 0) {
		kv.Meta = []byte{x.Meta}
	}
	if !(bare && x.UMeta == 0) {
		kv.UserMeta = []byte{x.UMeta}
	}
	return kv
}

// encodeStream frames the KVs as Stream.Backup's writeTo does: KVLists of `per` KVs
func encodeStream(kvs []skv, per int, bare bool) []byte {
	var buf bytes.Buffer
	put := func(l *pb.KVList) {
		b, err := proto.Marshal(l)
		if err != nil {
			panic(err)
		}
		binary.Write(&buf, binary.LittleEndian, uint64(len(b)))
		buf.Write(b)
	}
	if per <= 0 {
		per = 1
	}
	if len(kvs) == 0 {
		put(&pb.KVList{}) // an empty list is a legal frame
	}
	for i := 0; i < len(kvs); i += per {
		l := &pb.KVList{}
		for j := i; j < i+per && j < len(kvs); j++ {
			l.Kv = append(l.Kv, pbOf(kvs[j], bare))
		}
		put(l)
	}
	return buf.Bytes()
}

// expectedContent: what a target that received the KVs in this order holds (a later write of
// the same key@version replaces the earlier one), in iteration order
func expectedContent(kvs []skv) []skv {
	last := map[string]int{}
	for i, x := range kvs {
		last[string(x.Key)+"\x00"+fmt.Sprint(x.Ver)] = i
	}
	var out []skv
	for i, x := range kvs {
		if last[string(x.Key)+"\x00"+fmt.Sprint(x.Ver)] == i {
			out = append(out, x)
		}
	}
	sort.SliceStable(out, func(i, j int) bool {
		if c := bytes.Compare(out[i].Key, out[j].Key); c != 0 {
			return c < 0
		}
		return out[i].Ver > out[j].Ver
	})
	return out
}

func ldScan(tdb *badger.DB, managed bool) ([]skv, error) {
	var tx *badger.Txn
	if managed {
		tx = tdb.NewTransactionAt(math.MaxUint64, false)
	} else {
		tx = tdb.NewTransaction(false)
	}
	defer tx.Discard()
	scan, err := scanAll(tx, nil, 0)
	if err != nil {
		return nil, err
	}
	var out []skv
	for _, x := range scan {
		if bytes.Equal(x.Key, ldDrainKey) {
			continue
		}
		out = append(out, skv{Key: x.Key, Ver: x.Ver, Meta: x.Meta, UMeta: x.UMeta, Exp: x.Exp, Val: x.Val})
	}
	return out, nil
}

func ldTerm(lim ldLimits, kvs []skv, sends int, written []int64, states [][3]int64, direct bool, rejected bool) string {
	var runs []string
	for i := 0; i < len(kvs); {
		j := i
		for j < len(kvs) && len(kvs[j].Key) == len(kvs[i].Key) && len(kvs[j].Val) == len(kvs[i].Val) {
			j++
		}
		runs = append(runs, fmt.Sprintf("(%d, (%d, %d))", j-i, len(kvs[i].Key)+8, len(kvs[i].Val)))
		i = j
	}
	ws := make([]string, len(written))
	for i, w := range written {
		ws[i] = fmt.Sprint(w)
	}
	st := "None"
	if direct {
		ss := make([]string, len(states))
		for i, s := range states {
			ss[i] = fmt.Sprintf("(%d, (%d, %d))", s[0], s[1], s[2])
		}
		st = "(Some " + ListOf(ss) + "%Z)"
	}
	return fmt.Sprintf("(LoaderRun %d %d %d %d %s%%Z %d %s%%Z %s %s)", lim.MaxC, lim.MaxS, lim.Flush, lim.Thr,
		ListOf(runs), sends, ListOf(ws), st, Bool(rejected))
}

var ldSeq int

func ldDir(tag string) string {
	ldSeq++
	base := os.Getenv("VERIF_SCRATCH_DIR")
	if base == "" {
		base = filepath.Join(os.TempDir(), fmt.Sprintf("verif_c24ld_%d", os.Getpid()))
	}
	dir := filepath.Join(base, fmt.Sprintf("%s%d", tag, ldSeq))
	os.RemoveAll(dir)
	os.MkdirAll(dir, 0o755)
	return dir
}

// Close flushes the memtable into a table file and syncs it: on a busy disk that takes up to a
// second per database, so the scenario databases are closed in the background (at most 8 at a
// time) and joined when the scenarios are done.
var (
	ldClosing  sync.WaitGroup
	ldCloseSem = make(chan struct{}, 8)
)

func ldClose(db *badger.DB, dir string) {
	ldClosing.Add(1)
	ldCloseSem <- struct{}{}
	go func() {
		defer ldClosing.Done()
		db.Close()
		os.RemoveAll(dir)
		<-ldCloseSem
	}()
}

// openLdDB: openSysDB's configuration (no background compactors, small tables) with a 1 MiB block
// cache: the default 256 MiB cache with 64-byte blocks makes every Open allocate and zero
// ~100 MiB of cache counters, which dominates the run time of the small scenario databases.
func openLdDB(dir string, o sysOpts) (*badger.DB, error) {
	opt := badger.DefaultOptions(dir).WithLoggingLevel(badger.ERROR).WithNumCompactors(0).WithNumLevelZeroTables(1000).
		WithNumLevelZeroTablesStall(2000).WithMemTableSize(memSize(o)).WithValueLogFileSize(1 << 20).
		WithNumVersionsToKeep(o.NKeep).WithDetectConflicts(o.Detect).WithMaxLevels(o.MaxLevels).
		WithBaseTableSize(o.TableSize).WithBaseLevelSize(o.BaseLevelSize).WithLevelSizeMultiplier(2).
		WithNumMemtables(8).WithBlockSize(64).WithMetricsEnabled(false).WithCompactL0OnClose(false).
		WithValueThreshold(o.VThreshold).WithBlockCacheSize(1 << 20)
	if o.Managed {
		return badger.OpenManaged(opt)
	}
	return badger.Open(opt)
}

type ldTarget struct {
	Mem, Thr int64 // Thr < 0: the largest threshold Open accepts (= maxBatchSize)
	Managed  bool
	NKeep    int
}

func openLdTarget(t ldTarget) (*badger.DB, string, ldLimits, error) {
	dir := ldDir("tgt")
	o := sysOpts{Managed: t.Managed, NKeep: t.NKeep, MaxLevels: 4, VThreshold: t.Thr, TableSize: 64 << 10, BaseLevelSize: 1 << 20, MemSize: t.Mem}
	if o.NKeep == 0 {
		o.NKeep = 1 << 30
	}
	if t.Thr < 0 {
		_, ms, err := badger.VerifBatchLimits(badger.DefaultOptions(dir).WithMemTableSize(t.Mem).WithValueThreshold(1))
		if err != nil {
			return nil, dir, ldLimits{}, err
		}
		o.VThreshold = mn64(ms, 1<<20)
	}
	db, err := openLdDB(dir, o)
	if err != nil {
		return nil, dir, ldLimits{}, err
	}
	mc, ms, thr := badger.VerifDBLimits(db)
	return db, dir, ldLimits{MaxC: mc, MaxS: ms, Thr: thr, Flush: badger.VerifFlushThreshold()}, nil
}

// the oracle on one finished run: target content against the stream(s); returns the signature
// of the failure ("" = the target holds exactly the stream)
// loads = the KV sequence of every Load / loader run, in order; writtens = the entry counts of
// the batches the write path processed during each of them; accepted = number of KVs of the
// LAST sequence the write path accepted (= its length unless a batch was rejected)
func ldCheckContent(c *Ctx, what string, lim ldLimits, loads [][]skv, writtens [][]int64, accepted int, got []skv, replay J) string {
	id := func(x skv) string { return string(x.Key) + "\x00" + fmt.Sprint(x.Ver) }
	var all []skv
	for li, kvs := range loads {
		if li == len(loads)-1 {
			kvs = kvs[:accepted]
		}
		all = append(all, kvs...)
	}
	want := expectedContent(all)
	if equalKVs(got, want) {
		c.Oracle(true, "c24-load-target-differs-from-stream", "", nil)
		return ""
	}
	have := map[string]bool{}
	for _, x := range got {
		have[id(x)] = true
	}
	// class of a missing KV: it sits in the stream right behind a batch the write path was
	// observed to process (it is the KV whose Set flushed that batch) -- reconstructed from the
	// observed batch sizes, not from the rule the loader is supposed to follow
	lost := map[string]bool{}
	for li, kvs := range loads {
		pos := 0
		for _, w := range writtens[li] {
			pos += int(w)
			if pos < len(kvs) && !have[id(kvs[pos])] {
				lost[id(kvs[pos])] = true
				pos++
			}
		}
	}
	nMissing, nAtFlush := 0, 0
	var first skv
	for _, x := range want {
		if !have[id(x)] {
			if nMissing == 0 {
				first = x
			}
			nMissing++
			if lost[id(x)] {
				nAtFlush++
			}
		}
	}
	sig, msg := "c24-load-target-differs-from-stream", "the target does not hold exactly the KVs of the loaded stream (key, version, value, meta, user meta, expiry)"
	switch {
	case nMissing > 0 && nAtFlush == nMissing:
		sig, msg = "c24-load-lost-entry-at-loader-flush", "KVs of the stream are missing in the target, each of them the KV that made the loader flush its batch (Set sent the pending batch and did not keep the KV)"
	case nMissing > 0:
		sig, msg = "c24-load-lost-entry", "KVs of the stream are missing in the target"
	}
	replay["what"], replay["missing"], replay["missing_at_flush"] = what, nMissing, nAtFlush
	fk := first.Key
	if len(fk) > 40 {
		fk = fk[:40]
	}
	replay["first_missing"] = fmt.Sprintf("%q@%d (key length %d)", fk, first.Ver, len(first.Key))
	replay["got"], replay["want"] = len(got), len(want)
	replay["limits"] = lim
	c.Oracle(false, sig, msg, replay)
	return sig
}

// ---- synthetic sequences ----
type ldGen struct {
	name string
	gen  func(c *Ctx, lim ldLimits) []skv
}

func ldKey(i, klen int) []byte {
	s := fmt.Sprintf("%0*d", klen, i)
	return []byte(s[len(s)-klen:])
}

func ldVal(i int, ver uint64, n int) []byte {
	v := make([]byte, n)
	for j := range v {
		v[j] = byte('a' + (i+j+int(ver))%26)
	}
	return v
}

// tiny: n KVs of 10-byte keys and 0..3-byte values, with user meta / expiry / markers sprinkled
func ldTiny(from, n int) []skv {
	var out []skv
	for i := from; i < from+n; i++ {
		x := skv{Key: ldKey(i, 10), Ver: uint64(1 + i%9), UMeta: byte(i % 4), Val: ldVal(i, 1, i%4)}
		switch i % 23 {
		case 3:
			x.Exp = 1 << 40
		case 7:
			x.Meta, x.Val = mDelete, nil
		case 11:
			x.Meta = mDiscard
		case 13:
			x.Exp = 1
		}
		out = append(out, x)
	}
	return out
}

// sized: one KV whose estimate is exactly e (10-byte key, inline value); needs e-20 < Thr
func ldSized(i int, e int64) skv {
	return skv{Key: ldKey(i, 10), Ver: uint64(1 + i%5), UMeta: 1, Val: ldVal(i, 2, int(e-20))}
}

func ldGens() []ldGen {
	capOf := func(l ldLimits) int { return int(max(l.MaxC-1, 1)) }
	count := func(k, d int) ldGen {
		return ldGen{fmt.Sprintf("count-%dx%+d", k, d), func(c *Ctx, l ldLimits) []skv { return ldTiny(0, max(k*capOf(l)+d, 0)) }}
	}
	// m KVs whose estimates sum to maxBatchSize + d at the m-th: the size arm exactly at / around
	// the limit, three times in a row, then a few tiny KVs
	size := func(m int, d int64) ldGen {
		return ldGen{fmt.Sprintf("size-%d%+d", m, d), func(c *Ctx, l ldLimits) []skv {
			var out []skv
			s := l.MaxS / int64(m)
			for r := 0; r < 3; r++ {
				for j := 0; j < m-1; j++ {
					out = append(out, ldSized(len(out), s))
				}
				out = append(out, ldSized(len(out), l.MaxS-int64(m-1)*s+d))
			}
			return append(out, ldTiny(len(out), 3)...)
		}}
	}
	return []ldGen{
		count(1, -1), count(1, 0), count(1, 1), count(2, -1), count(2, 0), count(2, 1), count(3, 0), count(5, 1),
		size(4, -1), size(4, 0), size(4, 1), size(3, 0), size(5, -1),
		{"empty", func(c *Ctx, l ldLimits) []skv { return nil }},
		{"one", func(c *Ctx, l ldLimits) []skv { return ldTiny(0, 1) }},
		// values at / above the value threshold count as a 12-byte pointer: the count arm with large values
		{"vptr", func(c *Ctx, l ldLimits) []skv {
			var out []skv
			for i := 0; i < 2*capOf(l)+2; i++ {
				out = append(out, skv{Key: ldKey(i, 12), Ver: uint64(1 + i%3), Val: ldVal(i, 3, int(mn64(l.Thr, l.MaxS/4))+i%3-1)})
			}
			return out
		}},
		// a single entry that fills a batch to one below the limit is accepted on its own
		{"single-max", func(c *Ctx, l ldLimits) []skv {
			out := ldTiny(0, 2)
			out = append(out, ldSized(2, l.MaxS-1))
			return append(out, ldTiny(3, 2)...)
		}},
		{"mixed", func(c *Ctx, l ldLimits) []skv {
			var out []skv
			n := 2*capOf(l) + c.Rng.Intn(3*capOf(l)+20)
			n = min(n, 4000)
			for i := 0; i < n; i++ {
				x := skv{Key: ldKey(c.Rng.Intn(n/2+1), 4+c.Rng.Intn(28)), Ver: uint64(1 + c.Rng.Intn(6)), UMeta: byte(c.Rng.Intn(3))}
				switch c.Rng.Intn(8) {
				case 0:
					x.Val = ldVal(i, x.Ver, int(l.Thr)-1+c.Rng.Intn(3))
				case 1:
					x.Val = ldVal(i, x.Ver, c.Rng.Intn(int(mn64(l.MaxS/3, 4000))+1))
				default:
					x.Val = ldVal(i, x.Ver, c.Rng.Intn(12))
				}
				switch c.Rng.Intn(12) {
				case 0:
					x.Meta, x.Val = mDelete, nil
				case 1:
					x.Meta = mDiscard
				case 2:
					x.Exp = 1
				case 3:
					x.Exp = 1 << 40
				}
				if l.est(x) >= l.MaxS && len(x.Val) > 4 {
					x.Val = x.Val[:4]
				}
				out = append(out, x)
			}
			return out
		}},
	}
}

// entries no batch of the target can hold (key longer than maxBatchSize): ErrTxnTooBig
func ldOversizeGens() []ldGen {
	big := func(i int, l ldLimits) skv { return skv{Key: ldKey(i, int(l.MaxS)), Ver: 3, Val: []byte("x")} }
	return []ldGen{
		{"oversize-first", func(c *Ctx, l ldLimits) []skv { return append([]skv{big(0, l)}, ldTiny(1, 4)...) }},
		{"oversize-middle", func(c *Ctx, l ldLimits) []skv {
			out := ldTiny(0, int(l.MaxC)+1)
			out = append(out, big(len(out), l))
			return append(out, ldTiny(len(out), 3)...)
		}},
		{"oversize-last", func(c *Ctx, l ldLimits) []skv { return append(ldTiny(0, 3), big(3, l)) }},
	}
}

// runLdSynthetic: one synthetic sequence, pushed through the KVLoader API (direct) or DB.Load
func runLdSynthetic(c *Ctx, rec *ldRecorder, tg ldTarget, g ldGen, direct bool, idx int) error {
	tdb, dir, lim, err := openLdTarget(tg)
	if err != nil {
		return fmt.Errorf("open target %+v: %w", tg, err)
	}
	defer ldClose(tdb, dir)
	kvs := g.gen(c, lim)
	bare := idx%3 == 1
	rec.reset()
	var states [][3]int64
	var lerr error
	if direct {
		ldr := tdb.NewKVLoader(1 + idx%16)
		for _, x := range kvs {
			n0, es0, ts0 := ldr.VerifLoaderState()
			s0 := rec.nSends()
			lerr = ldr.Set(pbOf(x, bare))
			if lerr != nil || rec.nSends() != s0 {
				states = append(states, [3]int64{int64(n0), es0, ts0}) // a send in front of this KV
			}
			if lerr != nil {
				break
			}
		}
		if lerr == nil {
			if n0, es0, ts0 := ldr.VerifLoaderState(); n0 > 0 {
				states = append(states, [3]int64{int64(n0), es0, ts0})
			}
			lerr = ldr.Finish()
		}
	} else {
		lerr = tdb.Load(bytes.NewReader(encodeStream(kvs, 1+idx%7*37, bare)), 1+idx%16)
	}
	rejected := errors.Is(lerr, badger.ErrTxnTooBig)
	if lerr != nil && !rejected {
		c.Oracle(false, "c24-load-error", "Load / KVLoader failed: "+lerr.Error(), J{"gen": g.name, "target": tg, "limits": lim})
		return nil
	}
	sends, written := rec.snapshot()
	if rejected {
		if !tg.Managed {
			return errors.New("rejecting streams are only run against managed targets")
		}
		if sends, written, err = rec.drain(tdb); err != nil {
			return err
		}
	}
	replay := J{"gen": g.name, "target": tg, "direct": direct, "kvs": len(kvs), "written": written}
	c.Oracle(!rejected || lim.unstorable(kvs), "c24-load-error", "Load / KVLoader returned ErrTxnTooBig although every entry fits a batch of the target on its own", replay)
	accepted := len(kvs)
	if rejected {
		accepted = 0
		for _, w := range written {
			accepted += int(w)
		}
		accepted = min(accepted, len(kvs))
	}
	got, err := ldScan(tdb, tg.Managed)
	if err != nil {
		return err
	}
	ldCheckContent(c, "synthetic "+g.name, lim, [][]skv{kvs}, [][]int64{written}, accepted, got, replay)
	kind := "load-synth"
	if direct {
		kind = "loader-direct"
	}
	term := ldTerm(lim, kvs, sends, written, states, direct, rejected)
	c.Case(kind, term, J{"gen": g.name, "target": tg, "kvs": len(kvs), "digest": digest([]string{term})})
	c.Count("ld-gen=" + g.name)
	c.Count(fmt.Sprintf("ld-target-mem=%d", tg.Mem))
	return nil
}

// the total-size arm: values far above the value threshold (they cost 14 bytes of batch size)
// until the batch's estimated bytes + value bytes reach flushThreshold (100 MiB)
func runLdTotalArm(c *Ctx, rec *ldRecorder) error {
	tg := ldTarget{Mem: 1 << 20, Thr: 32, Managed: true}
	tdb, dir, lim, err := openLdTarget(tg)
	if err != nil {
		return err
	}
	defer ldClose(tdb, dir)
	big := make([]byte, 26<<20)
	for i := range big {
		big[i] = byte(i)
	}
	var kvs []skv
	for i := 0; i < 5; i++ {
		kvs = append(kvs, skv{Key: ldKey(i, 8), Ver: uint64(i + 1), Val: big[:len(big)-i]})
	}
	kvs = append(kvs, ldTiny(5, 2)...)
	rec.reset()
	ldr := tdb.NewKVLoader(2)
	var states [][3]int64
	for _, x := range kvs {
		n0, es0, ts0 := ldr.VerifLoaderState()
		s0 := rec.nSends()
		if err := ldr.Set(pbOf(x, false)); err != nil {
			return err
		}
		if rec.nSends() != s0 {
			states = append(states, [3]int64{int64(n0), es0, ts0})
		}
	}
	n0, es0, ts0 := ldr.VerifLoaderState()
	states = append(states, [3]int64{int64(n0), es0, ts0})
	if err := ldr.Finish(); err != nil {
		return err
	}
	sends, written := rec.snapshot()
	// content: compare lengths and a digest of the big values instead of holding copies
	tx := tdb.NewTransactionAt(math.MaxUint64, false)
	defer tx.Discard()
	ok := true
	for _, x := range kvs {
		it, err := tx.Get(x.Key)
		if err != nil {
			ok = x.Meta == mDelete || x.Exp == 1
			if !ok {
				break
			}
			continue
		}
		if err := it.Value(func(v []byte) error {
			if !bytes.Equal(v, x.Val) || it.Version() != x.Ver {
				ok = false
			}
			return nil
		}); err != nil {
			return err
		}
	}
	c.Oracle(ok, "c24-load-lost-entry", "a KV loaded across a total-size flush is missing or differs in the target", J{"gen": "total-arm", "written": written})
	term := ldTerm(lim, kvs, sends, written, states, true, false)
	c.Case("loader-direct", term, J{"gen": "total-arm", "digest": digest([]string{term})})
	c.Count("ld-gen=total-arm")
	return nil
}

// ---- real chains ----
type ldChain struct {
	name          string
	srcMem        int64
	srcThr        int64
	nkeep         int
	numGo         int
	primary       ldTarget // phase sizes are multiples of this target's batch capacity
	targets       []ldTarget
	p1k, p1d, p2d int // phase 1: p1k*cap+p1d keys; phase 2 touches cap+p2d keys
	valLen        func(i int) int
	flushSrc      bool
}

func ldWrite(src *badger.DB, from, to, gen int, valLen func(int) int) error {
	mc, ms, _ := badger.VerifDBLimits(src)
	maxN, maxB := int(mn64(mc/3, 300)), ms/3
	for i := from; i < to; {
		tx := src.NewTransaction(true)
		var bytesIn int64
		for n := 0; n < maxN && i < to && bytesIn < maxB; n, i = n+1, i+1 {
			k := ldKey(i, 10)
			e := badger.NewEntry(k, ldVal(i, uint64(gen), valLen(i))).WithMeta(byte(i % 5))
			switch {
			case i%7 == 0:
				e.ExpiresAt = 1 << 40
			case i%31 == 5:
				e.ExpiresAt = 1 // already expired
			case gen > 0 && i%13 == 3:
				e = e.WithDiscard()
			}
			var err error
			if gen > 0 && i%11 == 2 {
				err = tx.Delete(k)
			} else {
				err = tx.SetEntry(e)
			}
			if err != nil {
				tx.Discard()
				return err
			}
			bytesIn += int64(len(k) + valLen(i) + 32)
		}
		if err := tx.Commit(); err != nil {
			return err
		}
	}
	return nil
}

func runLdChain(c *Ctx, rec *ldRecorder, sc ldChain) error {
	ptdb, pdir, plim, err := openLdTarget(sc.primary)
	if err != nil {
		return err
	}
	ptdb.Close()
	os.RemoveAll(pdir)
	cp := int(plim.MaxC - 1)
	sdir := ldDir("src")
	src, err := openLdDB(sdir, sysOpts{NKeep: sc.nkeep, MaxLevels: 4, VThreshold: sc.srcThr, TableSize: 64 << 10, BaseLevelSize: 1 << 20, MemSize: sc.srcMem})
	if err != nil {
		return err
	}
	defer ldClose(src, sdir)
	type bk struct {
		since, ret uint64
		data       []byte
		kvs        []skv
	}
	var chain []bk
	backup := func() error {
		var since uint64
		if len(chain) > 0 {
			since = chain[len(chain)-1].ret
		}
		tx := src.NewTransaction(false)
		scan, err := scanAll(tx, nil, since)
		tx.Discard()
		if err != nil {
			return err
		}
		st := src.NewStream()
		st.NumGo, st.SinceTs, st.LogPrefix = sc.numGo, since, "verif"
		var buf bytes.Buffer
		ret, err := st.Backup(&buf, since)
		if err != nil {
			return err
		}
		kvs, err := parseBackup(buf.Bytes())
		if err != nil {
			return err
		}
		now := uint64(time.Now().Unix())
		want := expectedFromScan(scan, streamCfg{Backup: true, Since: since}, sc.nkeep, now)
		got := append([]skv{}, kvs...)
		sort.SliceStable(got, func(i, j int) bool { return bytes.Compare(got[i].Key, got[j].Key) < 0 })
		c.Oracle(equalKVs(got, want), "c24-backup-differs-from-snapshot", "the backup does not hold what one read snapshot taken before it shows (versions in (since, readTs] down to the first delete / expired / discard marker)",
			J{"chain": sc.name, "backup": len(chain), "since": since, "got": len(got), "want": len(want)})
		c.Oracle(ret == maxVer(kvs), "c24-returned-version", "Backup did not return the largest version it wrote", J{"chain": sc.name, "ret": ret, "max": maxVer(kvs)})
		chain = append(chain, bk{since: since, ret: ret, data: buf.Bytes(), kvs: kvs})
		c.Count(fmt.Sprintf("ld-chain-backup-kvs<=%d", 1<<uint(bitsLen(len(kvs)))))
		return nil
	}
	n1 := sc.p1k*cp + sc.p1d
	if err := ldWrite(src, 0, n1, 0, sc.valLen); err != nil {
		return fmt.Errorf("chain %s phase 1: %w", sc.name, err)
	}
	if sc.flushSrc {
		if err := src.VerifFlushMemtable(); err != nil {
			return err
		}
	}
	if err := backup(); err != nil {
		return err
	}
	// phase 2: rewrite / delete the upper part of the key space and add new keys
	n2 := cp + sc.p2d
	if err := ldWrite(src, n1-n2/2, n1-n2/2+n2, 1, sc.valLen); err != nil {
		return fmt.Errorf("chain %s phase 2: %w", sc.name, err)
	}
	if err := backup(); err != nil {
		return err
	}
	// phase 3: a small tail
	if err := ldWrite(src, 0, 7, 2, sc.valLen); err != nil {
		return err
	}
	if err := backup(); err != nil {
		return err
	}
	nKeys := n1 - n2/2 + n2
	for ti, tg := range sc.targets {
		tdb, dir, lim, err := openLdTarget(tg)
		if err != nil {
			return err
		}
		var loads [][]skv
		var writtens [][]int64
		failed := false
		for bi, b := range chain {
			rec.reset()
			if err := tdb.Load(bytes.NewReader(b.data), 4+ti); err != nil {
				c.Oracle(false, "c24-load-error", "DB.Load failed: "+err.Error(), J{"chain": sc.name, "backup": bi, "target": tg, "limits": lim})
				failed = true
				break
			}
			sends, written := rec.snapshot()
			loads = append(loads, b.kvs)
			writtens = append(writtens, written)
			term := ldTerm(lim, b.kvs, sends, written, nil, false, false)
			c.Case("load-chain", term, J{"chain": sc.name, "backup": bi, "target": tg, "kvs": len(b.kvs), "digest": digest([]string{term})})
		}
		if !failed {
			replay := J{"chain": sc.name, "target": tg, "chain_kvs": []int{len(chain[0].kvs), len(chain[1].kvs), len(chain[2].kvs)}}
			got, err := ldScan(tdb, false)
			if err != nil {
				ldClose(tdb, dir)
				return err
			}
			contentSig := ldCheckContent(c, "chain "+sc.name, lim, loads, writtens, len(loads[len(loads)-1]), got, replay)
			// the property text: every key reads in the target as in the source
			stx, ttx := src.NewTransaction(false), tdb.NewTransaction(false)
			bad := 0
			var badKey []byte
			for i := 0; i < nKeys+3; i++ {
				k := ldKey(i, 10)
				var sv, tv *obsItem
				if it, err := stx.Get(k); err == nil {
					oi, _ := readItem(it)
					sv = &oi
				}
				if it, err := ttx.Get(k); err == nil {
					oi, _ := readItem(it)
					tv = &oi
				}
				same := (sv == nil && tv == nil) || (sv != nil && tv != nil && sv.Ver == tv.Ver && bytes.Equal(sv.Val, tv.Val) && sv.UMeta == tv.UMeta && sv.Exp == tv.Exp && sv.Meta == tv.Meta)
				if !same {
					if bad == 0 {
						badKey = k
					}
					bad++
				}
			}
			stx.Discard()
			ttx.Discard()
			sig := "c24-visible-state-differs"
			if contentSig != "" {
				sig = contentSig // the root cause class: what Load did to the stream
			}
			c.Oracle(bad == 0, sig, "after loading the backup chain into an empty DB a key's visible value / version / user meta / expiry differs from the source",
				J{"chain": sc.name, "target": tg, "keys_differing": bad, "first": string(badKey)})
			nxt := tdb.VerifNextTs()
			c.Oracle(nxt > chain[len(chain)-1].ret, "c24-next-ts-not-raised", "after Load nextTxnTs is not above every loaded version", J{"next": nxt})
		}
		ldClose(tdb, dir)
		c.Count(fmt.Sprintf("ld-target-mem=%d", tg.Mem))
	}
	c.Count("ld-chain=" + sc.name)
	return nil
}

func bitsLen(n int) int {
	b := 0
	for n > 0 {
		b++
		n >>= 1
	}
	return b
}

// runLdRandom: one more synthetic run, generator and target drawn from c.Rng (called between
// the random histories, so the thorough tier keeps sampling loader runs)
func runLdRandom(c *Ctx, idx int) error {
	rec := &ldRecorder{}
	rec.install()
	defer badger.VerifSetController(nil)
	defer ldClosing.Wait()
	gens := ldGens()
	g := gens[len(gens)-1] // mixed
	if c.Rng.Intn(3) == 0 {
		g = gens[c.Rng.Intn(len(gens))]
	}
	tg := ldTarget{Mem: []int64{1400, 2048, 3000, 4096, 8192, 16 << 10, 64 << 10, 256 << 10}[c.Rng.Intn(8)], Thr: []int64{-1, 32, 100}[c.Rng.Intn(3)]}
	direct := c.Rng.Intn(2) == 0
	tg.Managed = direct
	return runLdSynthetic(c, rec, tg, g, direct, 1000+idx)
}

// runLoaderScenarios: the deterministic part (every generator against targets of several
// sizes) runs on every check; the mixed generator draws from c.Rng.
func runLoaderScenarios(c *Ctx) error {
	t0 := time.Now()
	lap := func(what string) {
		if os.Getenv("VERIF_C24_TIMING") != "" {
			fmt.Fprintf(os.Stderr, "c24load %-30s %v\n", what, time.Since(t0))
		}
	}
	defer lap("end")
	rec := &ldRecorder{}
	rec.install()
	defer badger.VerifSetController(nil)
	defer ldClosing.Wait()
	targets := []ldTarget{
		{Mem: 1400, Thr: 32}, {Mem: 2048, Thr: -1}, {Mem: 4096, Thr: 32}, {Mem: 4096, Thr: -1},
		{Mem: 16 << 10, Thr: -1}, {Mem: 64 << 10, Thr: 1024}, {Mem: 64 << 10, Thr: -1},
	}
	idx := 0
	for gi, g := range ldGens() {
		// every generator against two or three of the targets, alternating KVLoader API / DB.Load
		for k := 0; k < 3; k++ {
			tg := targets[(gi*3+k*2+c.Rng.Intn(2))%len(targets)]
			if len(g.name) > 4 && g.name[:5] == "size-" && tg.Thr >= 0 {
				tg.Thr = -1 // inline values up to the batch size
			}
			direct := (gi+k)%2 == 0
			tg.Managed = direct
			if err := runLdSynthetic(c, rec, tg, g, direct, idx); err != nil {
				return fmt.Errorf("loader scenario %s: %w", g.name, err)
			}
			idx++
		}
	}
	lap("synthetic")
	for gi, g := range ldOversizeGens() {
		for k := 0; k < 2; k++ {
			tg := targets[2+(gi+k*3)%4]
			tg.Managed = true
			if err := runLdSynthetic(c, rec, tg, g, k == 0, idx); err != nil {
				return fmt.Errorf("loader scenario %s: %w", g.name, err)
			}
			idx++
		}
	}
	lap("oversize")
	// a 1 MiB target: a few thousand tiny entries
	for _, g := range []ldGen{ldGens()[4], ldGens()[5]} {
		if err := runLdSynthetic(c, rec, ldTarget{Mem: 1 << 20, Thr: 32}, g, false, idx); err != nil {
			return err
		}
		idx++
	}
	lap("1MiB")
	if err := runLdTotalArm(c, rec); err != nil {
		return fmt.Errorf("loader scenario total-arm: %w", err)
	}
	lap("total-arm")
	small := func(i int) int { return i % 5 }
	chains := []ldChain{
		{name: "tiny-1MiB", srcMem: 1 << 20, srcThr: 32, nkeep: 1 << 30, numGo: 1, primary: ldTarget{Mem: 1 << 20, Thr: 32},
			targets: []ldTarget{{Mem: 1 << 20, Thr: 32}, {Mem: 64 << 10, Thr: 32}, {Mem: 4096, Thr: 32}}, p1k: 2, p1d: 1, p2d: 0, valLen: small},
		{name: "flushed-64KiB", srcMem: 64 << 10, srcThr: 32, nkeep: 1, numGo: 4, primary: ldTarget{Mem: 64 << 10, Thr: 1024},
			targets: []ldTarget{{Mem: 64 << 10, Thr: 1024}, {Mem: 16 << 10, Thr: -1}, {Mem: 1 << 20, Thr: 1024}}, p1k: 3, p1d: 0, p2d: 1,
			valLen: func(i int) int { return []int{0, 3, 40, 900, 1023, 1024, 1500}[i%7] }, flushSrc: true},
		{name: "values-16KiB", srcMem: 1 << 20, srcThr: 1 << 10, nkeep: 1 << 30, numGo: 2, primary: ldTarget{Mem: 16 << 10, Thr: -1},
			targets: []ldTarget{{Mem: 16 << 10, Thr: -1}, {Mem: 16 << 10, Thr: 32}, {Mem: 2048, Thr: 32}}, p1k: 4, p1d: -1, p2d: -1,
			valLen: func(i int) int { return []int{200, 31, 32, 33, 150, 0}[i%6] }},
	}
	for _, sc := range chains {
		if err := runLdChain(c, rec, sc); err != nil {
			return fmt.Errorf("chain %s: %w", sc.name, err)
		}
		lap("chain " + sc.name)
	}
	return nil
}
