package main

// C34 — the oracle and watermarks never expose unfinished commits or strand readers.
//
// Correspondence: (a) WmSeq: API call sequences on a real y.WaterMark from one goroutine with a
// barrier after every call (quiescent observations: DoneUntil, LastIndex, released waiters),
// arbitrary sequences incl. assertion failures (log.Fatalf) run in a child process;
// (b) OrcSeq (c34_oracle.go): controlled schedules on the real badger oracle.
// Property oracle: on the same sequences (begun-unfinished index never <= / < DoneUntil, waiter
// released iff DoneUntil >= index, DoneUntil monotone), concurrent stress on y.WaterMark used
// like txnMark, and commit-then-read visibility through the public DB API.

import (
	"bufio"
	"context"
	"encoding/json"
	"fmt"
	"math"
	"os"
	"os/exec"
	"sort"
	"strings"
	"sync"
	"sync/atomic"
	"time"

	"github.com/dgraph-io/badger/v4/y"
	"github.com/dgraph-io/ristretto/v2/z"
)

func init() {
	if s := os.Getenv("VERIF_C34_CHILD"); s != "" {
		c34Child(s)
		os.Exit(0)
	}
	register("C34", runC34)
}

type wmOp struct {
	K string   `json:"k"` // B D BM DM S W WS
	I uint64   `json:"i"`
	L []uint64 `json:"l,omitempty"`
	W int      `json:"w"`
}

type wmObs struct {
	DU  uint64 `json:"du"`
	LI  uint64 `json:"li"`
	Ret []int  `json:"ret"`
}

func (o wmOp) coq() string {
	ls := func() string {
		it := make([]string, len(o.L))
		for i, x := range o.L {
			it[i] = Nn(x)
		}
		return ListOf(it)
	}
	switch o.K {
	case "B":
		return fmt.Sprintf("OBegin %d", o.I)
	case "D":
		return fmt.Sprintf("ODone %d", o.I)
	case "BM":
		return "OBeginMany " + ls()
	case "DM":
		return "ODoneMany " + ls()
	case "S":
		return fmt.Sprintf("OSetDU %d", o.I)
	case "W":
		return fmt.Sprintf("OWait %d %d", o.I, o.W)
	case "WS":
		return fmt.Sprintf("OWaitSlow %d %d", o.I, o.W)
	}
	panic("bad op")
}

func (o wmObs) coq() string {
	it := make([]string, len(o.Ret))
	for i, x := range o.Ret {
		it[i] = fmt.Sprint(x)
	}
	return fmt.Sprintf("(%d, %d, %s)", o.DU, o.LI, ListOf(it))
}

// wmReachCtx tells when WaitForMark evaluates ctx.Done(), i.e. after its mark has been sent.
type wmReachCtx struct {
	context.Context
	once    sync.Once
	reached chan struct{}
}

func (r *wmReachCtx) Done() <-chan struct{} {
	r.once.Do(func() { close(r.reached) })
	return r.Context.Done()
}

type wmWaiter struct {
	id       int
	idx      uint64
	slow     chan struct{} // hook-sent waiter channel
	done     chan struct{} // real WaitForMark returned nil
	returned bool
}

// runWmSeq drives one real WaterMark. emit is called with the observation after every call.
// longWait bounds how long a real WaitForMark whose index is <= DoneUntil may take to return.
func runWmSeq(ops []wmOp, longWait time.Duration, emit func(int, wmObs)) (early []int) {
	w := &y.WaterMark{Name: "verif"}
	closer := z.NewCloser(1)
	w.Init(closer)
	ctx, cancel := context.WithCancel(context.Background())
	var ws []*wmWaiter
	for k, o := range ops {
		switch o.K {
		case "B":
			w.Begin(o.I)
		case "D":
			w.Done(o.I)
		case "BM":
			recoverPanic(func() { w.BeginMany(o.L) })
		case "DM":
			w.DoneMany(o.L)
		case "S":
			w.SetDoneUntil(o.I)
		case "WS":
			ws = append(ws, &wmWaiter{id: o.W, idx: o.I, slow: w.VerifSendWaiter(o.I)})
		case "W":
			wt := &wmWaiter{id: o.W, idx: o.I, done: make(chan struct{})}
			rc := &wmReachCtx{Context: ctx, reached: make(chan struct{})}
			go func() {
				if err := w.WaitForMark(rc, wt.idx); err == nil {
					close(wt.done)
				}
			}()
			select {
			case <-rc.reached:
			case <-wt.done:
			}
			ws = append(ws, wt)
		}
		w.VerifBarrier()
		ob := wmObs{DU: w.DoneUntil(), LI: w.LastIndex(), Ret: []int{}}
		for _, wt := range ws {
			if !wt.returned {
				if wt.slow != nil {
					select {
					case <-wt.slow:
						wt.returned = true
					default:
					}
				} else if ob.DU >= wt.idx {
					select {
					case <-wt.done:
						wt.returned = true
					case <-time.After(longWait):
					}
				} else {
					select {
					case <-wt.done:
						wt.returned = true
					default:
					}
				}
			}
			if wt.returned {
				ob.Ret = append(ob.Ret, wt.id)
			}
		}
		sort.Ints(ob.Ret)
		emit(k, ob)
	}
	// a real waiter that comes back although it was never reported released
	du := w.DoneUntil()
	for _, wt := range ws {
		if wt.slow == nil && !wt.returned && du < wt.idx {
			select {
			case <-wt.done:
				early = append(early, wt.id)
			case <-time.After(200 * time.Microsecond):
			}
		}
	}
	cancel()
	closer.SignalAndWait()
	return early
}

func c34Child(s string) {
	var ops []wmOp
	if err := json.Unmarshal([]byte(s), &ops); err != nil {
		fmt.Println("BAD", err)
		os.Exit(4)
	}
	out := bufio.NewWriter(os.Stdout)
	runWmSeq(ops, 2*time.Second, func(k int, ob wmObs) {
		js, _ := json.Marshal(ob)
		out.Write(js)
		out.WriteByte('\n')
		out.Flush()
	})
	out.WriteString("END\n")
	out.Flush()
}

// runWmChild runs ops in a child process; fin: 0 completed, 1 died (log.Fatalf, exit status 1
// with the assertion text on stderr), 2 did not come back within the timeout.
func runWmChild(ops []wmOp) (obs []wmObs, fin int, err error) {
	js, _ := json.Marshal(ops)
	cmd := exec.Command(os.Args[0])
	cmd.Env = append(os.Environ(), "VERIF_C34_CHILD="+string(js))
	var stderr strings.Builder
	cmd.Stderr = &stderr
	pipe, _ := cmd.StdoutPipe()
	if err := cmd.Start(); err != nil {
		return nil, 0, err
	}
	lines := make(chan string, 1024)
	go func() {
		sc := bufio.NewScanner(pipe)
		for sc.Scan() {
			lines <- sc.Text()
		}
		close(lines)
	}()
	timeout := time.After(2500 * time.Millisecond)
	ended := false
loop:
	for {
		select {
		case l, ok := <-lines:
			if !ok {
				break loop
			}
			if l == "END" {
				ended = true
				continue
			}
			var ob wmObs
			if e := json.Unmarshal([]byte(l), &ob); e != nil {
				return nil, 0, fmt.Errorf("child output %q", l)
			}
			obs = append(obs, ob)
		case <-timeout:
			cmd.Process.Kill()
			cmd.Wait()
			return obs, 2, nil
		}
	}
	werr := cmd.Wait()
	if ended && werr == nil {
		return obs, 0, nil
	}
	if ee, ok := werr.(*exec.ExitError); ok && ee.ExitCode() == 1 && strings.Contains(stderr.String(), "doneUntil") {
		return obs, 1, nil
	}
	return obs, 0, fmt.Errorf("child failed: %v: %s", werr, stderr.String())
}

// ---- generators ----

type wmGen struct {
	c       *Ctx
	mirror  *y.WaterMark // live dry run of the non-waiter calls (safe generators only)
	mcloser *z.Closer
	ops     []wmOp
	nextW   int
	counts  map[uint64]int // begun - done, as sent
	maxSeen uint64
}

func (g *wmGen) see(i uint64) {
	if i > g.maxSeen {
		g.maxSeen = i
	}
}
func (g *wmGen) add(o wmOp) {
	switch o.K {
	case "B":
		g.counts[o.I]++
		g.see(o.I)
	case "D":
		g.counts[o.I]--
		g.see(o.I)
	case "BM":
		for _, i := range o.L {
			g.counts[i]++
			g.see(i)
		}
	case "DM":
		for _, i := range o.L {
			g.counts[i]--
			g.see(i)
		}
		if len(o.L) == 0 {
			g.counts[0]--
		}
	case "S":
		g.see(o.I)
	case "W", "WS":
		o.W = g.nextW
		g.nextW++
	}
	g.ops = append(g.ops, o)
	if g.mirror != nil {
		switch o.K {
		case "B":
			g.mirror.Begin(o.I)
		case "D":
			g.mirror.Done(o.I)
		case "BM":
			recoverPanic(func() { g.mirror.BeginMany(o.L) })
		case "DM":
			g.mirror.DoneMany(o.L)
		case "S":
			g.mirror.SetDoneUntil(o.I)
		}
		g.mirror.VerifBarrier()
	}
}
func (g *wmGen) du() uint64 { return g.mirror.DoneUntil() }
func (g *wmGen) outstanding() []uint64 {
	var r []uint64
	for i, c := range g.counts {
		if c > 0 {
			r = append(r, i)
		}
	}
	sort.Slice(r, func(a, b int) bool { return r[a] < r[b] })
	return r
}
func (g *wmGen) waitKind() string {
	if g.c.Rng.Intn(4) == 0 {
		return "W"
	}
	return "WS"
}

// txnMark-like usage: fresh increasing Begins, one Done per index, waits around the frontier
func (g *wmGen) genTxn() {
	r := g.c.Rng
	base := []uint64{0, 0, 1, 7, 1000, 1 << 40, math.MaxUint64 - 200}[r.Intn(7)]
	next := base + 1
	if base > 0 {
		g.add(wmOp{K: "D", I: base}) // Open: txnMark.Done(nextTxnTs)
	}
	n := 5 + r.Intn(35)
	for k := 0; k < n; k++ {
		out := g.outstanding()
		switch x := r.Intn(10); {
		case x < 4:
			g.add(wmOp{K: "B", I: next})
			next++
		case x < 7 && len(out) > 0:
			var i uint64
			if r.Intn(2) == 0 {
				i = out[0]
			} else {
				i = out[r.Intn(len(out))]
			}
			g.add(wmOp{K: "D", I: i})
		case x < 9:
			// readTs = nextTxnTs-1, sometimes further back or ahead
			i := next - 1
			switch r.Intn(5) {
			case 0:
				i = base + uint64(r.Intn(int(next-base)))
			case 1:
				i = next + uint64(r.Intn(2))
			}
			g.add(wmOp{K: g.waitKind(), I: i})
		case x == 9 && r.Intn(2) == 0:
			m := 1 + r.Intn(3)
			l := []uint64{}
			for j := 0; j < m; j++ {
				l = append(l, next)
				next++
			}
			g.add(wmOp{K: "BM", L: l})
		case x == 9 && len(out) > 1:
			m := 1 + r.Intn(len(out))
			perm := r.Perm(len(out))[:m]
			l := []uint64{}
			for _, j := range perm {
				l = append(l, out[j])
			}
			g.add(wmOp{K: "DM", L: l})
		}
	}
}

// readMark-like usage: Begin(i) many times for a slowly growing i, Done(i) per reader
func (g *wmGen) genRead() {
	r := g.c.Rng
	cur := []uint64{0, 0, 3, 1 << 33}[r.Intn(4)]
	if cur > 0 {
		g.add(wmOp{K: "D", I: cur})
	}
	n := 5 + r.Intn(35)
	for k := 0; k < n; k++ {
		out := g.outstanding()
		switch x := r.Intn(10); {
		case x < 4:
			g.add(wmOp{K: "B", I: cur})
		case x < 7 && len(out) > 0:
			g.add(wmOp{K: "D", I: out[r.Intn(len(out))]})
		case x < 8:
			cur += uint64(1 + r.Intn(2))
		case x < 9:
			wi := cur + uint64(r.Intn(3))
			if wi > 0 && r.Intn(2) == 0 {
				wi--
			}
			g.add(wmOp{K: g.waitKind(), I: wi})
		default:
			if len(out) > 0 && r.Intn(2) == 0 {
				g.add(wmOp{K: "DM", L: []uint64{out[0]}})
			} else {
				g.add(wmOp{K: "BM", L: []uint64{cur, cur}})
			}
		}
	}
}

// addCap: a + b without wrapping and without reaching 2^64-1
func addCap(a uint64, b int) uint64 {
	if a >= math.MaxUint64-1-uint64(b) {
		return math.MaxUint64 - 1
	}
	return a + uint64(b)
}

func (g *wmGen) idx() uint64 {
	r := g.c.Rng
	switch r.Intn(12) {
	case 0:
		return math.MaxUint64 - 1 - uint64(r.Intn(3))
	case 1:
		return 1 << 63
	case 2:
		return 50 + uint64(r.Intn(50))
	}
	return uint64(r.Intn(8))
}

// free-form calls. safe => never trips the assertion and never reaches index 2^64-1 (in-process
// run); the bound used is exact for single indices because the WaterMark is quiescent: the
// harness mirrors DoneUntil with `du`, supplied by a dry run of the same prefix.
func (g *wmGen) genFree(withSet bool, safe bool, du func() uint64) {
	r := g.c.Rng
	n := 4 + r.Intn(30)
	if withSet {
		n = 4 + r.Intn(12)
	}
	for k := 0; k < n; k++ {
		x := r.Intn(12)
		switch {
		case x < 3:
			i := g.idx()
			if !safe && r.Intn(6) == 0 {
				i = math.MaxUint64
			}
			if safe && i < du() {
				i = addCap(du(), r.Intn(2))
			}
			g.add(wmOp{K: "B", I: i})
		case x < 6:
			i := g.idx()
			out := g.outstanding()
			if len(out) > 0 && r.Intn(3) > 0 {
				i = out[r.Intn(len(out))]
			}
			if !safe && r.Intn(8) == 0 {
				i = math.MaxUint64
			}
			if safe && i < du() {
				i = du()
			}
			g.add(wmOp{K: "D", I: i})
		case x < 8:
			k := "WS"
			if !withSet {
				k = g.waitKind()
			}
			g.add(wmOp{K: k, I: g.idx()})
		case x == 8:
			// BeginMany: safe form = non-decreasing indices above everything seen so far
			m := r.Intn(4)
			l := []uint64{}
			for j := 0; j < m; j++ {
				if safe {
					v := g.maxSeen
					if j > 0 {
						v = l[j-1]
					}
					if v < du() {
						v = du()
					}
					l = append(l, addCap(v, r.Intn(3)))
				} else {
					l = append(l, g.idx())
				}
			}
			if r.Intn(5) == 0 && len(l) > 0 && (!safe || du() == 0) {
				l[0] = 0
			}
			g.add(wmOp{K: "BM", L: l})
		case x == 9:
			// DoneMany: safe form = distinct outstanding indices (each still pending when its
			// processOne runs), or the empty slice (processOne(0, true)) while doneUntil = 0
			out := g.outstanding()
			l := []uint64{}
			if safe {
				var o2 []uint64
				for _, i := range out {
					if i >= du() {
						o2 = append(o2, i)
					}
				}
				out = o2
				if len(out) > 0 {
					perm := r.Perm(len(out))
					for _, j := range perm[:1+r.Intn(len(out))] {
						l = append(l, out[j])
					}
				} else if du() != 0 {
					continue
				}
			} else {
				for j := r.Intn(4); j > 0; j-- {
					l = append(l, g.idx())
				}
			}
			g.add(wmOp{K: "DM", L: l})
		case x == 10 && withSet:
			v := g.idx()
			if r.Intn(2) == 0 {
				v = addCap(du(), r.Intn(4))
			}
			if safe {
				// keep every index that is still pending at or above the new value: a later
				// Done on it must not trip the assertion
				v = addCap(du(), r.Intn(3))
				if r.Intn(3) == 0 && du() > 0 {
					v = du() - 1
				}
			}
			g.add(wmOp{K: "S", I: v})
		default:
			g.add(wmOp{K: "B", I: addCap(du(), r.Intn(3))})
		}
	}
}

type c34J = map[string]interface{}

// emitWm writes one WmSeq case and evaluates the per-step property oracle.
// usage: "txn" (strict), "read"/"free" (non-strict), "set" (SetDoneUntil present: no oracle)
func emitWm(c *Ctx, kind, usage string, ops []wmOp, obs []wmObs, fin int) {
	ot := make([]string, len(ops))
	for i, o := range ops {
		ot[i] = o.coq()
	}
	bt := make([]string, len(obs))
	for i, o := range obs {
		bt[i] = o.coq()
	}
	c.Case(kind, fmt.Sprintf("(WmSeq %s %s %d)", ListOf(ot), ListOf(bt), fin), c34J{"ops": ops})
	if usage == "set" {
		return
	}
	counts := map[uint64]int{}
	type wt struct {
		id  int
		idx uint64
	}
	var waits []wt
	var prevDU uint64
	for k, ob := range obs {
		o := ops[k]
		switch o.K {
		case "B":
			counts[o.I]++
		case "D":
			counts[o.I]--
		case "BM":
			for _, i := range o.L {
				counts[i]++
			}
		case "DM":
			for _, i := range o.L {
				counts[i]--
			}
			if len(o.L) == 0 {
				counts[0]-- // DoneMany(nil) is processOne(0, true)
			}
		case "W", "WS":
			waits = append(waits, wt{o.W, o.I})
		}
		okP := true
		for i, n := range counts {
			if n > 0 && (ob.DU > i || (usage == "txn" && ob.DU == i)) {
				okP = false
			}
		}
		c.Oracle(okP, "wm-done-until-passes-pending", "DoneUntil reports an index done while a begun index at or below it is pending",
			c34J{"ops": ops[:k+1], "du": ob.DU})
		c.Oracle(ob.DU >= prevDU, "wm-done-until-decreased", "DoneUntil went backwards without SetDoneUntil", c34J{"ops": ops[:k+1]})
		prevDU = ob.DU
		ret := map[int]bool{}
		for _, id := range ob.Ret {
			ret[id] = true
		}
		okW, okE := true, true
		for _, w := range waits {
			if ob.DU >= w.idx && !ret[w.id] {
				okW = false
			}
			if ob.DU < w.idx && ret[w.id] {
				okE = false
			}
		}
		c.Oracle(okW, "wm-waiter-stranded", "a waiter for an index <= DoneUntil has not been released at quiescence", c34J{"ops": ops[:k+1]})
		c.Oracle(okE, "wm-waiter-early", "a waiter was released before DoneUntil reached its index", c34J{"ops": ops[:k+1]})
	}
}

func runC34(c *Ctx) error {
	c.Setup("Watermark CorrC34", "run_case")
	// commit-window schedules right after every (re)initialisation of the oracle's timestamps
	// (Load, re-open, DropAll, StreamWriter): oracle only (harness/window_reset.go)
	if wedged, err := runC34RejectedCommits(c); err != nil || wedged {
		return err
	}
	if err := runWindowAfterReset(c); err != nil {
		return err
	}
	nChild := 0
	maxChild := 12 + c.N/40
	for i := 0; c.nCases < c.N; i++ {
		if i%4 == 3 {
			runOrcSeq(c)
			continue
		}
		g := &wmGen{c: c, counts: map[uint64]int{}}
		kind, usage := "", ""
		child := false
		// dry-run mirror of DoneUntil for the safe generators
		g.mirror = &y.WaterMark{Name: "verif-mirror"}
		g.mcloser = z.NewCloser(1)
		g.mirror.Init(g.mcloser)
		du := g.du
		switch x := i % 10; {
		case x < 3:
			kind, usage = "WmTxn", "txn"
			g.genTxn()
		case x < 5:
			kind, usage = "WmRead", "read"
			g.genRead()
		case x < 8:
			kind, usage = "WmFree", "free"
			g.genFree(false, true, du)
		case x == 8:
			kind, usage = "WmSetDU", "set"
			g.genFree(true, true, du)
		default:
			if nChild < maxChild {
				kind, usage = "WmChild", "set"
				g.mcloser.SignalAndWait()
				g.mirror = nil
				if nChild == 0 {
					// the endless notify loop at index 2^64-1, once per run
					g.add(wmOp{K: "WS", I: 3})
					g.add(wmOp{K: "B", I: math.MaxUint64})
					g.add(wmOp{K: "D", I: math.MaxUint64})
					g.add(wmOp{K: "B", I: math.MaxUint64})
					g.add(wmOp{K: "B", I: 1})
				} else {
					g.genFree(c.Rng.Intn(3) == 0, false, func() uint64 { return uint64(c.Rng.Intn(4)) })
				}
				child = true
				nChild++
			} else {
				kind, usage = "WmTxn", "txn"
				g.genTxn()
			}
		}
		if g.mirror != nil {
			g.mcloser.SignalAndWait()
		}
		if len(g.ops) == 0 {
			continue
		}
		var obs []wmObs
		fin := 0
		if child {
			var err error
			obs, fin, err = runWmChild(g.ops)
			if err != nil {
				return err
			}
			c.Count(fmt.Sprintf("child-fin-%d", fin))
		} else {
			lw := 2 * time.Second
			if usage == "set" {
				lw = 25 * time.Millisecond
			}
			early := runWmSeq(g.ops, lw, func(k int, ob wmObs) { obs = append(obs, ob) })
			c.Oracle(len(early) == 0, "wm-waiter-early", "WaitForMark returned although DoneUntil is below its index", c34J{"ops": g.ops, "waiters": early})
		}
		emitWm(c, kind, usage, g.ops, obs, fin)
	}
	if err := c34Stress(c); err != nil {
		return err
	}
	return c34DBStress(c)
}

// c34Stress: a y.WaterMark used exactly like txnMark by concurrent committers and readers.
// A reader that has passed WaitForMark(readTs) must find every commit <= readTs acked.
func c34Stress(c *Ctx) error {
	rounds := 1 + c.N/500
	for r := 0; r < rounds; r++ {
		w := &y.WaterMark{Name: "verif-stress"}
		closer := z.NewCloser(1)
		w.Init(closer)
		const maxTs = 1 << 16
		var mu sync.Mutex
		next := uint64(1)
		acked := make([]atomic.Bool, maxTs+2)
		var bad atomic.Int64
		var badRts, badTs atomic.Uint64
		var reads atomic.Int64
		var wg sync.WaitGroup
		nW, nR, per := 8, 8, 400
		for g := 0; g < nW; g++ {
			wg.Add(1)
			go func(seed int64) {
				defer wg.Done()
				for k := 0; k < per; k++ {
					mu.Lock()
					ts := next
					next++
					w.Begin(ts)
					mu.Unlock()
					if (int64(k)+seed)%3 == 0 {
						time.Sleep(time.Microsecond)
					}
					acked[ts].Store(true) // the write is applied ...
					w.Done(ts)            // ... then doneCommit
				}
			}(int64(g))
		}
		for g := 0; g < nR; g++ {
			wg.Add(1)
			go func() {
				defer wg.Done()
				for k := 0; k < per; k++ {
					mu.Lock()
					rts := next - 1
					mu.Unlock()
					if err := w.WaitForMark(context.Background(), rts); err != nil {
						bad.Add(1)
						continue
					}
					lo := uint64(1)
					if rts > 64 {
						lo = rts - 64
					}
					for ts := lo; ts <= rts; ts++ {
						if !acked[ts].Load() {
							bad.Add(1)
							badRts.Store(rts)
							badTs.Store(ts)
						}
					}
					reads.Add(1)
				}
			}()
		}
		wg.Wait()
		// every commit is finished: a reader at the last timestamp must be released
		doneCh := make(chan struct{})
		go func() { w.WaitForMark(context.Background(), next-1); close(doneCh) }()
		released := true
		select {
		case <-doneCh:
		case <-time.After(10 * time.Second):
			released = false
		}
		c.Oracle(bad.Load() == 0, "wm-stress-unfinished-visible", "a reader passed WaitForMark(readTs) while a commit <= readTs was not acked",
			c34J{"rts": badRts.Load(), "ts": badTs.Load()})
		c.Oracle(released, "wm-stress-reader-stranded", "all commits finished but WaitForMark(last ts) did not return", c34J{"last": next - 1})
		c.Oracle(w.DoneUntil() == next-1, "wm-stress-final-done-until", "DoneUntil != last commit ts after all commits finished", c34J{"du": w.DoneUntil(), "last": next - 1})
		c.Count("stress-reads")
		closer.SignalAndWait()
	}
	return nil
}
