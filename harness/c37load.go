package main

// C37 (oracle-only phase): a backup taken from an on-disk DB (values in the value log and inline,
// delete markers, user meta, expiry) loaded into an InMemory DB and into an on-disk DB: both
// targets must show exactly the source's content (the InMemory target holds every value inline).

import (
	"bytes"
	"fmt"
	"os"
	"path/filepath"
	"sort"
	"time"

	badger "github.com/dgraph-io/badger/v4"
)

func runC37LoadBackup(c *Ctx) error {
	for r := 0; r < 2; r++ {
		src := filepath.Join(os.Getenv("VERIF_SCRATCH_DIR"), fmt.Sprintf("c37ld_src_%d", r))
		dst := filepath.Join(os.Getenv("VERIF_SCRATCH_DIR"), fmt.Sprintf("c37ld_dst_%d", r))
		os.RemoveAll(src)
		os.RemoveAll(dst)
		o := sysOpts{NKeep: 1, MaxLevels: 4, VThreshold: 32, TableSize: 1 << 20, BaseLevelSize: 8 << 10}
		sdb, err := openSysDB(src, o)
		if err != nil {
			return err
		}
		type want struct {
			val []byte
			um  byte
			exp uint64
		}
		ref := map[string]want{}
		exp := uint64(time.Now().Unix()) + 100000
		for i := 0; i < 60; i++ {
			k := fmt.Sprintf("ld%03d", i)
			n := []int{0, 5, 31, 32, 33, 200, 900}[c.Rng.Intn(7)]
			w := want{val: bytes.Repeat([]byte{byte('a' + i%26)}, n), um: byte(c.Rng.Intn(4))}
			if i%7 == 0 {
				w.exp = exp
			}
			e := badger.NewEntry([]byte(k), w.val).WithMeta(w.um)
			e.ExpiresAt = w.exp
			if err := sdb.Update(func(tx *badger.Txn) error { return tx.SetEntry(e) }); err != nil {
				return err
			}
			ref[k] = w
			if i%9 == 8 {
				if err := sdb.Update(func(tx *badger.Txn) error { return tx.Delete([]byte(k)) }); err != nil {
					return err
				}
				delete(ref, k)
			}
			if i == 30 && r == 1 {
				sdb.VerifFlushMemtable()
			}
		}
		var buf bytes.Buffer
		if _, err := sdb.Backup(&buf, 0); err != nil {
			return err
		}
		sdb.Close()
		os.RemoveAll(src)
		check := func(name string, db *badger.DB) {
			var bad []string
			db.View(func(tx *badger.Txn) error {
				for k, w := range ref {
					it, err := tx.Get([]byte(k))
					if err != nil {
						bad = append(bad, fmt.Sprintf("%s: %v", k, err))
						continue
					}
					v, err := it.ValueCopy(nil)
					if err != nil || !bytes.Equal(v, w.val) || it.UserMeta() != w.um || it.ExpiresAt() != w.exp {
						bad = append(bad, fmt.Sprintf("%s: %d value bytes (want %d), user meta %d (want %d), expiry %d (want %d), err %v", k, len(v), len(w.val), it.UserMeta(), w.um, it.ExpiresAt(), w.exp, err))
					}
				}
				n := 0
				itr := tx.NewIterator(badger.DefaultIteratorOptions)
				for itr.Rewind(); itr.Valid(); itr.Next() {
					n++
				}
				itr.Close()
				if n != len(ref) {
					bad = append(bad, fmt.Sprintf("iterator yields %d keys, want %d", n, len(ref)))
				}
				return nil
			})
			sort.Strings(bad)
			if len(bad) > 6 {
				bad = bad[:6]
			}
			c.Oracle(len(bad) == 0, "c37-loaded-backup-differs-"+name, "a backup of an on-disk DB loaded into the "+name+" target does not show the source's content", J{"round": r, "mismatches": bad})
		}
		ddb, err := openSysDB(dst, o)
		if err != nil {
			return err
		}
		if err := ddb.Load(bytes.NewReader(buf.Bytes()), 16); err != nil {
			return fmt.Errorf("c37load: load into disk target: %v", err)
		}
		check("on-disk", ddb)
		ddb.Close()
		os.RemoveAll(dst)
		mo := o
		mo.InMemory = true
		mdb, err := openSysDB("", mo)
		if err != nil {
			return err
		}
		if err := mdb.Load(bytes.NewReader(buf.Bytes()), 16); err != nil {
			c.Oracle(false, "c37-load-into-inmemory-fails", err.Error(), J{"round": r})
		} else {
			check("in-memory", mdb)
		}
		mdb.Close()
		c.Count("load-backup-into-inmemory-round")
	}
	return nil
}
